#!/usr/bin/env python3
"""Every seeded change must still be detected by the check of its target property (development tool).
usage: verify_seeded.py [-j N]   — env P9PCHECK_BIN overrides the checker binary"""
import os, subprocess, tempfile, shutil, sys, json
from concurrent.futures import ThreadPoolExecutor
BIN = os.environ.get("P9PCHECK_BIN", "/verif/bin/p9pcheck")
jobs = int(sys.argv[sys.argv.index("-j") + 1]) if "-j" in sys.argv else 8
def one(d):
    patch = f"/verif/seeded/{d}/patch.diff"
    if not os.path.exists(patch): return None
    tgt = d.split("-")[0]
    t = tempfile.mkdtemp(prefix="p9pvs-"); ev = tempfile.mkdtemp(prefix="p9pev-")
    try:
        subprocess.check_call(["rsync", "-a", "--exclude", ".git", "/repo/", t + "/"])
        subprocess.check_call(["patch", "-s", "-p1", "-d", t, "-i", patch])
        r = subprocess.run([BIN, "-prop", tgt, "-repo", t, "-evidence", ev], capture_output=True, text=True)
        viol = [l for l in r.stdout.splitlines() if l.startswith("VIOLATION")]
        return d, r.returncode == 1 and bool(viol)
    finally:
        shutil.rmtree(t, ignore_errors=True); shutil.rmtree(ev, ignore_errors=True)
ds = sorted(os.listdir("/verif/seeded"))
missed = []
with ThreadPoolExecutor(jobs) as ex:
    for res in ex.map(one, ds):
        if res and not res[1]: missed.append(res[0])
n = len([d for d in ds if os.path.exists(f"/verif/seeded/{d}/patch.diff")])
print(f"{n - len(missed)}/{n} seeded changes detected by their target check")
for m in missed: print("MISSED", m)
sys.exit(1 if missed else 0)
