#!/bin/sh
# usage: ingest_batch.sh <round-tag> <dir>...   e.g. ingest_batch.sh r5 /tmp/s5-C01-a /tmp/s5-C01-b
tag=$1; shift
for d in "$@"; do
  [ -d "$d" ] || continue
  base=$(basename $d)                       # s5-C01-a
  prop=$(echo $base | cut -d- -f2)
  v=$(echo $base | cut -d- -f3)
  f=$(git -C $d diff --name-only | head -1 | xargs -r basename | sed 's/\.go$//')
  [ -z "$f" ] && { echo "EMPTY $d"; continue; }
  name="$tag$v-$f"
  python3 /verif/tools/ingest_seeded.py $d $prop $name >/tmp/ingest.out 2>&1
  python3 - "$prop" "$name" <<'PY'
import json,sys
prop,name=sys.argv[1],sys.argv[2]
m=json.load(open(f'/verif/seeded/{prop}-{name}/meta.json'))
rep=m.get('checks_on_patched_tree',{}).get(prop,{}).get('reports',[])
print(f"{prop}-{name}: confirmed={m['confirmed']} detected={bool(m['detected_by'])}" + ("" if not rep else "  | "+rep[0][:170]))
PY
done
