#!/usr/bin/env python3
"""Ingest a sub-agent's seeded change from its scratch worktree into /verif/seeded/<id>/.

usage: ingest_seeded.py <worktree> <property> <name> [--props C05,C12]

Steps (all on scratch copies; /repo is never modified):
  1. patch.diff  = `git diff` of tracked files in the worktree; demo = untracked *.go files (+ SEEDED.md)
  2. verify on a fresh rsync copy of /repo: the patch applies, `go build ./...` ok, the existing suite passes,
     the demo FAILS with the patch and PASSES without it
  3. run the property's check (and any extra --props) with -repo on the patched copy; record exit codes
  4. write meta.json
"""
import json, os, shutil, subprocess, sys, tempfile, time

ENV = dict(os.environ, GOFLAGS="-mod=mod", GOPROXY="off", GOSUMDB="off", GOTOOLCHAIN="local", GOWORK="off")

def sh(cmd, cwd=None, timeout=600):
    try:
        p = subprocess.run(cmd, cwd=cwd, env=ENV, capture_output=True, text=True, timeout=timeout, shell=isinstance(cmd, str))
        return p.returncode, p.stdout + p.stderr
    except subprocess.TimeoutExpired as e:
        return 124, "TIMEOUT " + str(e)

def main():
    wt, prop, name = sys.argv[1], sys.argv[2], sys.argv[3]
    extra = []
    if "--props" in sys.argv:
        extra = sys.argv[sys.argv.index("--props") + 1].split(",")
    out = f"/verif/seeded/{prop}-{name}"
    os.makedirs(out, exist_ok=True)
    rc, diff = sh(["git", "diff"], cwd=wt)
    open(f"{out}/patch.diff", "w").write(diff)
    rc, unt = sh(["git", "ls-files", "--others", "--exclude-standard"], cwd=wt)
    demos = [f for f in unt.split() if f.endswith(".go")]
    for f in demos:
        os.makedirs(os.path.dirname(f"{out}/demo/{f}") or f"{out}/demo", exist_ok=True)
        shutil.copy(f"{wt}/{f}", f"{out}/demo/{f}")
    if os.path.exists(f"{wt}/SEEDED.md"):
        shutil.copy(f"{wt}/SEEDED.md", f"{out}/SEEDED.md")
    meta = {"property": prop, "name": name, "files_changed": [], "demo_files": demos, "ran": []}
    rc, names = sh(["git", "diff", "--name-only"], cwd=wt)
    meta["files_changed"] = names.split()

    def scratch(with_patch):
        d = tempfile.mkdtemp(prefix="p9pseed-")
        subprocess.check_call(["rsync", "-a", "--exclude", ".git", "/repo/", d + "/"])
        if with_patch:
            rc, o = sh(["patch", "-s", "-p1", "-i", f"{out}/patch.diff"], cwd=d)
            if rc != 0:
                raise SystemExit("patch does not apply to /repo: " + o)
        for f in demos:
            os.makedirs(os.path.dirname(f"{d}/{f}") or d, exist_ok=True)
            shutil.copy(f"{out}/demo/{f}", f"{d}/{f}")
        return d

    pkgs = sorted({"./" + (os.path.dirname(f) or ".") for f in demos})
    race = "-race" if os.path.exists(f"{wt}/SEEDED.md") and "-race" in open(f"{wt}/SEEDED.md").read() else ""
    demo_cmd = f"go test {race} -vet=off -count=1 -timeout 180s -run 'Seeded|seeded|ZZ|Zz' " + " ".join(pkgs)
    # with patch
    d1 = scratch(True)
    try:
        rc_b, o = sh("go build ./...", cwd=d1)
        meta["ran"].append({"cmd": "go build ./... (patched)", "rc": rc_b})
        for f in demos:
            os.rename(f"{d1}/{f}", f"{d1}/{f}.off")
        rc_t, o = sh("go test -vet=off -count=1 -timeout 180s ./...", cwd=d1)
        meta["ran"].append({"cmd": "existing suite (patched, demo removed)", "rc": rc_t, "tail": o[-300:] if rc_t else ""})
        for f in demos:
            os.rename(f"{d1}/{f}.off", f"{d1}/{f}")
        rc_d1, o1 = sh(demo_cmd, cwd=d1)
        meta["ran"].append({"cmd": demo_cmd + " (patched)", "rc": rc_d1, "tail": o1[-600:]})
        checks = {}
        for pr in [prop] + extra:
            ev = tempfile.mkdtemp(prefix="p9pev-")
            for f in demos:  # checks analyse non-test packages only; remove demo to be safe
                pass
            rc_c, oc = sh(["/verif/bin/p9pcheck", "-prop", pr, "-repo", d1, "-evidence", ev])
            shutil.rmtree(ev, ignore_errors=True)
            lines = [l for l in oc.splitlines() if f"[{pr}/" in l][:4]
            checks[pr] = {"rc": rc_c, "reports": lines}
        meta["checks_on_patched_tree"] = checks
    finally:
        shutil.rmtree(d1, ignore_errors=True)
    d0 = scratch(False)
    try:
        rc_d0, o0 = sh(demo_cmd, cwd=d0)
        meta["ran"].append({"cmd": demo_cmd + " (original)", "rc": rc_d0, "tail": o0[-300:] if rc_d0 else ""})
    finally:
        shutil.rmtree(d0, ignore_errors=True)
    meta["confirmed"] = bool(rc_b == 0 and rc_t == 0 and rc_d1 != 0 and rc_d0 == 0)
    meta["detected_by"] = [k for k, v in meta.get("checks_on_patched_tree", {}).items() if v["rc"] == 1]
    meta["date"] = time.strftime("%Y-%m-%d")
    json.dump(meta, open(f"{out}/meta.json", "w"), indent=1)
    print(json.dumps({k: meta[k] for k in ("property", "name", "confirmed", "detected_by", "files_changed")}, indent=1))
    for k, v in meta.get("checks_on_patched_tree", {}).items():
        print(k, "rc", v["rc"])
        for l in v["reports"]:
            print("   ", l[:220])
    if not meta["confirmed"]:
        for r in meta["ran"]:
            print(r["cmd"], "rc", r["rc"], r.get("tail", "")[-300:])

main()
