#!/usr/bin/env python3
"""Regenerates /verif/MANIFEST.json from the table below (run after adding a check)."""
import json, os
V = "/verif"
props = [json.loads(l) for l in open(f"{V}/properties.jsonl")]

# id -> (technique, what the static rules decide, what they do not decide / trusted base, DESIGN section)
CLAIMS = {
 "C02": ("SSA dominance/ordering + affine normal forms + linear-fact entailment (Fourier-Motzkin) over channel.go",
         "Decides, on every CFG path of WriteFcall/maybeTruncate/sendmsg/msgmsize of the current tree: truncate->marshal->send->flush ordering on nil-error edges only; exact partition of maybeTruncate on msgmsize(fcall) vs msize (nil only if size<=msize or after the exact Twrite truncation; overflow error only if size>msize, reporting size-msize); Twrite truncation amount and guard; Tread clamp target (mod 2^32); header value len(p)+4 before body; caller's buffer never written.",
         "Not decided: partial writes in bufio/conn; Size()==len(Marshal()) as a value statement (its layout half is decided). Trusted: go/ssa, encoding/binary, bufio.",
         "§4 C02, §3 E3/E5"),
 "C03": ("SSA bounds obligations discharged by linear-fact entailment + affine equalities + dominance rules over readmsg/ReadFcall",
         "Decides: every slice bound fed by the wire length is two-sided guarded; body read lands at the buffer start and never reads past the frame; the oversize remainder is discarded (affine count) before success; n = header + read (+ discarded); ReadFcall refuses n>len(rdbuf) with the exact excess before decoding, decodes exactly rdbuf[:n-4] (frame isolation), clears *fcall first, applies the inbound Tread clamp, and returns every error.",
         "Not decided: independence from Read() chunking (delegated to bufio/io.ReadFull, trusted), mid-frame timeouts, 32-bit int. Trusted: io.ReadFull/io.CopyN contracts.",
         "§4 C03, §3 E3/E4/E5"),
 "C10": ("SSA dominance + linear-fact entailment + per-path store analysis over version.go, ServeConn, CSession, SetMSize",
         "Decides: serve()/handler reachable only after successful servernegotiate; servernegotiate succeeds only after ReadFcall ok, checked .(MessageTversion) ok-edge and successful reply write; every SetMSize(x) sits on an edge implying x < ch.MSize() (msize only lowered) with x>=0; Rversion.MSize on each path is the value installed or the unchanged channel msize and every path sets it; Tversion.MSize == ch.MSize(); client.msize read from the channel after negotiation; SetMSize/newChannel keep len(rdbuf)==msize.",
         "Not decided: frame sizes after the handshake as values (enforcement points are C02/C03), version-string policy.",
         "§4 C10"),
 "C08": ("typestate + ownership interpretation of sfilesys.go, who-may-access rule on the fid table, dominance/edge rules, conditional constant propagation over Mode&3",
         "Decides: every fid-table access is of an allowed kind in an allowed helper (locked getter, placeholder constructor, unbind-release helper, Stop, Delete of a fid the function holds); every Fid parameter of every Session method is resolved through them and failure returns an error; NOFID refused before the table is touched; constructor succeeds only on the not-loaded edge, getter only for present non-nil entries; Walk binds only on len(qids)==len(names) with qids/entry from Dirent.Walk on the source entry and the request's names, reserves newfid only when newfid!=fid; unbind precedes anything that can fail; open-once guard; Create leaves File/Mode set; admitted Mode&3 sets for Read/Write equal the 9P sets independent of flag bits.",
         "Not decided: equivalence with the reference fid table over all histories (a wrong value stored under the right discipline is invisible), behaviour of the FileSys.",
         "§4 C08"),
 "C13": ("ESP-style typestate interpretation with an ownership lattice (bound / nil / released) per fid token over every path of sfilesys.go, incl. deferred closures",
         "Decides: no handle is overwritten while live except the parent handle consumed by Dirent.Create on it; after Clunk/Remove (direct or via the inferred release helper) nil or a new handle is stored before the lock is dropped/return; no double release, no use after release; a fid deleted from the table is a placeholder or released; reserved placeholders are bound or removed; entries handed out by Dirent.Create/FileSys.Attach are bound or released on every success path; releases happen under the fid lock; Stop visits every entry and releases it through the unbind-lock-release helper.",
         "Not decided: the dynamic statement over all histories x failing subsets; entries returned for partial walks (never bound); what a FileSys does inside Clunk/Remove.",
         "§4 C13, §3 E9"),
 "C14": ("ESP-style typestate interpretation (lock pairing with captured cells, deferred unlocks/closures, correlated branch predicates), inferred lock summaries, lockset rule for field accesses",
         "Decides: on every path of every function of sfilesys.go no return leaves a fid locked (except the inferred returns-locked helpers, exactly on success), no unlock of a lock not held; no blocking acquisition of a shared fid lock (Lock, getRef, delRef or callers) while a fid lock is held; every SFid.Ent/File/Mode access and every FileSys call on a fid's entry/file is made under that fid's lock or on an unpublished object.",
         "Not decided: linearizability of results, data races outside the SFid discipline, termination of FileSys calls. Trusted: sync.Mutex/sync.Map.",
         "§4 C14, §3 E6/E7a"),
 "C04": ("SSA bounds/assertion obligations over the CHA decode scope discharged by linear-fact entailment (guards, loop invariants, make-length equalities, phi case split), allocation-bound rule, CHA panic reachability, error-propagation rule",
         "Decides: every slice/index/make/unchecked-assertion obligation and encoding/binary Put precondition reachable from Codec.Unmarshal/DecodeDir holds on every path (narrow unsigned arithmetic is not assumed wrap-free); no explicit panic reachable; every wire-sized allocation is 16-bit sized (constant bound) or bounded on every feasible edge by the remaining input length, and every decoder is built over a reader with Len(); unknown type bytes yield an error; every error on the decode path is propagated.",
         "Not decided: re-encode/decode stability as a value statement (layout half decided), allocations inside reflect/bytes. Trusted: encoding/binary.Read, io.ReadFull, reflect.",
         "§4 C04, §3 E4/E4b/E4c"),
 "C11": ("channel-operation enumeration with provenance classification (select wake-up rule), dominance/exit rules, CHA panic reachability, typestate/ownership results for Stop, dataflow rules for cancellation",
         "Decides: every blocking channel op of the server connection involving a data channel is a select with <-conn.closed; conn.closed closed only under sync.Once, never sent on; every exit of the reader/writer loops closes the connection or is the <-closed case; per-request contexts derive from the connection context, cancel funcs are in the tag table before the handler starts, serve defers a cancel-all closure before its loop, table entries deleted only after cancel/on completion; handler.Stop called exactly once, after serve, on every return path, with serve's result; no explicit panic CHA-reachable from the server (size9p panics machine-checked dead); dispatcher bounds; session.Stop releases every fid through the unbind-lock-release helper.",
         "Not decided: bounded time / fault timing, handlers ignoring cancellation. Open known finding: handler goroutines are not joined before Stop and bindings are not refused after it (D12, reproduced).",
         "§4 C11, §3 E8/E13"),
 "C12": ("channel-operation enumeration with provenance classification, exit-discipline (defer) rules, buffered-channel rule, CHA panic reachability, checked-assertion rule, bounds obligations on the inbound path",
         "Decides: wake-up cases of every blocking select of the client transport by role (callers: transport.closed + own ctx; owner loop: shutdown + session ctx; reader: closed); owner closes transport.closed on every exit, reader starts shutdown on every exit, shutdown closed under sync.Once; plain sends only to per-request channels of capacity >= 1, at most one per iteration; replies delivered only on the found edge of the tag lookup; no explicit panic reachable from the client; every type assertion on peer data is comma-ok and its failure edge returns an error; failed request writes free the tag and are reported; inbound bounds obligations (shared with C03/C04).",
         "Not decided: time bounds, partial frames after a write deadline, select fairness.",
         "§4 C12, §3 E8"),
 "C05": ("SSA dataflow/identity rules on transport.go: goroutine confinement of the tag map, edge conditions on allocateTag's returns, dominance (register-before-write), provenance of the reply channel, buffered-channel and select wake-up rules",
         "Decides: the outstanding map never leaves the owner goroutine; allocateTag returns a value only on the not-found edge of a lookup of that same value, every returnable value is 0 or has passed != NOTAG, exhaustion guard precedes the search; outstanding[tag]=req dominates the write, the frame carries that tag and the request's message; a reply is sent on the response channel of the request found under the reply's own tag after deleting that entry; entries are deleted only there or for the unsent request; reply/error channels have capacity 1; send() waits on closed+ctx and turns Rerror into the error; single writer/reader.",
         "Not decided: exactly-once under every reply order, >65535 requests, data races beyond map confinement.",
         "§4 C05, §3 E7b/E8/E11"),
 "C06": ("SSA identity rules on serveconn.go/fcall.go (reply tag/result derive from the request handed to Handle), edge conditions of the duplicate-tag lookup, constructor shape rules, dispatch-table exhaustiveness over ssesssion.go",
         "Decides: both replies built in the handler goroutine carry the Tag of the request whose Message went to the single Handle call, with Handle's own result/error; the goroutine gets the request just received; dispatch and table store only on the not-found edge, duplicate tags answered with Rerror(duplicate tag) carrying the request's tag; newErrorFcall/newFcall shapes; one forward per completion; table confined; one reader/writer goroutine; every T-kind dispatches to exactly one Session method and returns the R-kind with code+1.",
         "Not decided: handler completion orders, replies exceeding msize.",
         "§4 C06, §3 E11/E12"),
 "C07": ("SSA dominance and identity rules on the Tflush clause and the completion branch of conn.serve (ABA rule)",
         "Decides: cancel-then-delete of the entry named by Oldtag dominates construction and the single send of Rflush (flush request's tag); unknown oldtag answered with Rerror(unknown tag); a completion is forwarded only when its tag is in the table AND the entry belongs to the request that produced it (identity bound at goroutine start, not the tag), so a flushed request's late reply can neither be sent nor consume a reused tag's entry.",
         "Not decided: timing statements, handlers ignoring cancellation (their late completion is dropped by the decided identity test).",
         "§4 C07"),
 "C01": ("table check of declarations against a transcribed 9P2000 message table (types/AST), codec-grammar extraction: per-type event sequences of the three sibling type switches (encode/decode/size9p) over SSA compared with the manual's layouts, exhaustiveness over all field types",
         "Decides: type codes = 9P2000 codes, R=T+1; newMessage maps each of the 27 codes to the struct whose Type() returns it; every message struct, Qid, Dir has exactly the manual's fields in order with the manual's widths (names checked, so same-width swaps are seen); fields9p walks fields in ascending order; every field type has a clause in encode/decode/size9p; each clause's I/O sequence equals the manual's layout for that type (little-endian, 2-byte string/list counts, 4-byte data count, qid order, doubled stat size for Rstat/Twstat) and the three functions agree type by type (Size==len(Marshal), decode mirrors encode).",
         "Not decided: value equality after a round trip (nil vs empty, sub-second time, >65535-byte strings are excluded by the property). Trusted: encoding/binary, reflect, the transcribed table.",
         "§4 C01, §3 E1/E1b"),
 "C09": ("SSA dataflow composition (msgflow): client parameter -> T-field route composed with dispatcher T-field -> Session argument route must be the identity, same for results through the R-message; allowed-conversion table; dispatch-table exhaustiveness",
         "Decides for all 11 Session methods: each parameter reaches exactly one T-message field on the client (identity or a documented conversion) and the dispatcher passes that same field as the same-position argument; each result of Session.M reaches one R-message field and the client returns that field at the same position; all T fields are set; the reply is consumed by a checked assertion to the R-type with code T+1; transport errors are returned; dispatch table exhaustive; Tread buffer sized from Count with the msize clamp (bounds).",
         "Not decided: value transport through the codec (C01), clipping values, whole-second timestamps, completion of all concurrent calls (flow-control coupling is a timing property).",
         "§4 C09, §3 E2/E12"),
 "C15": ("interprocedural abstract interpretation of path strings in package ufs (classes: rooted-clean, export-root, host-confined) with computed validator summaries, field invariant on FileRef.Path, who-writes rule on fServer.Base",
         "Decides: every string argument of every call from ufs into os/syscall/io/ioutil (all 10 call sites, 11 path arguments) is filepath.Join(Base, FromSlash(x)) with x rooted-clean, established by a successful fullPath validation, a path.Join/Clean/Dir of a rooted-clean value, or the FileRef.Path invariant; every store to FileRef.Path stores a validated path; Base written only by the constructor; os.Remove only on the edge Path != \"/\"; the session rejects non-normalised walk names and '.'/'..' create names before the FS sees them.",
         "Not decided: symlinks inside the export (excluded), rename of the root itself (OS refuses), Windows separators. Trusted: path/filepath semantics as encoded in the transfer functions.",
         "§4 C15, §3 E10"),
 "C16": ("conditional constant propagation of the helpers' own branch predicates over an alphabet of name classes, edge/dominance rules, linear-fact entailment with inferred inductive loop invariants (bounds)",
         "Decides: ValidPath, NormalizePath and CreateName classify each name class (empty, '.', '..', with '/' or '\\', ordinary incl. dotted names) exactly as specified; '..' is counted by ValidPath only on the edge n == i and the counter is what is returned; WalkName succeeds only on an edge implying 0 <= ValidPath(names) <= depth(dir) with depth = Count(dir[:len-1], '/') and returns path.Join(dir, path.Join(names...)); CreateName returns path.Join(dir, name); slice/index obligations hold (NormalizePath's cursor via an inferred inductive invariant).",
         "Not decided: equality with stepwise resolution / idempotence as functional statements over all strings; class-invariance of the predicates outside the alphabet is argued, not checked. Trusted: path.Join, strings.Count.",
         "§4 C16"),
 "C17": ("SSA dominance/edge rules, affine equalities with load numbering, linear-fact entailment (incl. memory-merge and phi case splits) over readdir.go, openLocked/Create and openDir.Next",
         "Decides: the offset test dominates every effect of Readdir.Read and a mismatch returns (0, error); entries are appended whole, only on an edge implying len+len(entry) <= cap, into p[:0:len(p)]; the entry that does not fit is saved and the iterator is consulted only when nothing is pending (pending entry cleared when consumed); rd.offset advances by exactly n = len(output); io.EOF mapped to nil; 0 <= n <= len(p); mkNext1/NewFixedReaddir index obligations and the empty-batch rule; directories get a Readdir over OpenDir on open and create and are never opened as files; client Next reads at its running offset, advances it by n and decodes exactly buf[:n] until EOF.",
         "Not decided: end-to-end equality of listings across msize values; entries larger than the count (precondition).",
         "§4 C17"),
 "C18": ("SSA bounds obligations over package ramfs discharged by linear-fact entailment with inferred inductive loop invariants; typestate lock pairing and field-granular lockset analysis (written-path refinement) on FileEnt; return-range summaries",
         "Decides: every slice/index/make obligation in ramfs (arbitrary 64-bit offsets incl. negative int64) is entailed by guards/invariants; FileEnt.Read/Write return 0 <= n <= len(p); FileEnt lock pairing on every path; every access to FileEnt.nref/children/Info/Data paths that are written after construction happens under the node lock, except the 11 sites listed as known findings (data races D11, reproduced with -race) and the unsynchronised qid-path counter; no explicit panic.",
         "Not decided: model equivalence (bytes read = bytes written, listings, walk resolution, nref = links); races beyond the lockset discipline.",
         "§4 C18"),
 "C19": ("table extraction from edge conditions (oflags), data-dependence rules (dirFromInfo accessor map), pass-through/argument identity rules, sentinel-guard dominance rules, path class of host paths",
         "Decides: oflags maps mode&3 to O_RDONLY/O_WRONLY/O_RDWR/O_RDONLY and adds O_TRUNC exactly on OTRUNC (os constants of the build configuration); dirFromInfo fills each Dir field from the matching FileInfo accessor and sets DMDIR/QTDIR exactly on the IsDir edge; Read/Write are ReadAt/WriteAt on the entry's own file with the caller's buffer and offset; Open/Create/Remove/WStat act on the entry's own host path with the requested values, WStat only on non-sentinel fields; Create passes perm&0777 and oflags(mode)|O_CREATE, mkdir on DMDIR.",
         "Not decided: resulting host state (OS semantics), chown/user lookup, listing order.",
         "§4 C19, §3 E14"),
 "C20": ("SSA provenance rules on cfilesys.go: own-fid chains without pointer dereference, fresh-fid provenance, allocator who-writes rule, edge conditions of cEnt.Walk's success return",
         "Decides: every Session call of the client layer passes the receiver's own fid/afid or a fid just taken from the allocator; forwarders call the same-named Session method; newFid is the only writer of nextfid besides the constructor and returns the incremented value; cEnt.Walk sends the normalised names to a fresh fid, compares len(qids) with the length of the names actually sent, and returns the new entry only on the edge where they are equal and the call succeeded; Create/Open return files bound to the entry's own fid.",
         "Not decided: server-side count of bound fids over histories; concurrent use of the non-atomic allocator.",
         "§4 C20, §3 E15"),
}


# rules added after the independent seeding rounds (DESIGN.md §9.7); appended to the "decides" text
ADDENDA = {
 "C01": "Also: size9p special-cases exactly the (pointer/value) forms of Rstat/Twstat that encode does; encode returns only its write steps' errors (a refusal only for unrepresentable lengths); Marshal's bytes live in a buffer created by that call; no error on these paths is dropped. A failed encode/decode step never continues to a success return (error-gates-success); the stat-record helpers DecodeDir/EncodeDir size and slice their buffers without wrapping.",
 "C02": "Also: the Tread clamp wrap-aware (every wrap case of the uint32 arithmetic); size9p/encode agreement per type and special case (codec-grammar rules); every exit of WriteFcall after a successful sendmsg has passed Flush; Overflow(err)/overflowErr.Size() expose exactly the recorded excess. The marshalled bytes are not shared between calls (marshal-fresh); overflow errors built by constructor helpers report size - msize.",
 "C03": "Also: len(rdbuf)==msize invariant of newChannel/SetMSize; the Tread clause of maybeTruncate (inbound clamp, wrap-aware); decoded payloads are read into fresh storage (codec-grammar rules); Overflow exposure. channel.conn/brd/bwr are set once, by the constructor; a failed read step never continues to a success return.",
 "C04": "Also: every loop on the decode path is counted or consumes input on every iteration (termination); decode mirrors encode per type (stability, layout half). A failed decode step never continues to a success return: a sentinel error let through by the test is accepted only where it ends a sequence whose partial element is a dropped local.",
 "C05": "Also: each reply frame and each request record (with its two buffered channels) is created for that frame/call; the non-error reply is returned only on the Type != Rerror edge.",
 "C06": "Also: the handler runs under the request's own WithCancel context; each dispatcher clause calls its Session method on every path (no pre-filtering); the data of an Rread is a buffer made for that request; error replies carry err.Error() or the Rerror itself (also through helpers). Replies reach the writer only through the serve loop (channels resolved to their make); every exit of the handler goroutine has offered its completion; the Tflush clause removes the flushed entry (rules shared with C07); an error that is a MessageRerror by value or by pointer is passed through.",
 "C07": "Also: the handler runs under the request's own cancellable context (the one whose cancel func is in the tag table). Replies reach the writer only through the serve loop's table-guarded sends (nothing re-queues a frame).",
 "C08": "Also: a fid's File is recorded only after the producing call is known to have succeeded; no reservation is left in the table and no fid lock is still held when an operation returns. IsDir tests the QTDIR bit; a fid found in the table whose entry was released does not stay in the table.",
 "C09": "Also evaluates the C05 and C06 rule sets, buffered reply channels, the write-failure rules, the ReadFcall rules (a frame of exactly msize is accepted), reply typing in every client method, the codec-grammar rules and the fresh-reply-buffer rule. A client method answers without a round trip only a walk of more than 16 names; every round trip runs under the caller's context; deadlines re-armed before every I/O step.",
 "C10": "Also: the write-side partition and the read-side overflow/frame rules (shared with C02/C03); the server answers its own msize only on an edge implying ch.MSize() <= the client's proposal; the client's SetMSize rules also through extracted helpers. The client ends with min(proposed, answered): every way to a successful negotiation installs the answer or implies ch.MSize() <= answer; the channel's buffered reader/writer are never replaced.",
 "C11": "Also: a failed read/write is retried only for a transient net.Error (path enumeration); the connection deadline is re-armed before every I/O step; close() only on termination channels; no fid lock is still held when a session operation returns (Stop takes every fid's lock).",
 "C12": "Also: a failed request write does not end the owner loop; the reader retries only transient net errors; deadlines re-armed before every I/O step; every client method reports success only on the ok edge of a checked assertion of the reply to its R type; close() only on termination channels. Also evaluates the C05 tag-multiplexing rules (a reply releases exactly its own request); every round trip runs under the caller's own context.",
 "C13": "Also: the reservation helper returns a non-nil *SFid only on the not-loaded edge; an SFid is locked before it is published; every access of the unbind helper to the fid's state is under the fid's lock. The fid table is read only by the getter returning bound fids, written only through LoadOrStore in the placeholder constructor, emptied only by the unbind-release helper; a looked-up fid whose entry was released does not stay in the table.",
 "C14": "Also: an SFid is locked before LoadOrStore publishes it; after a release the entry is cleared (Ent = nil) before the fid lock is dropped on every path. A fid is looked up and unbound in one atomic step (table/access rules shared with C08).",
 "C15": "Also through validating predicate helpers and helper parameters (classes computed from all call sites). The export root is stored cleaned (never empty).",
 "C16": "Also: ToWalk succeeds only on paths implying NormalizePath's count >= 0 (== 0 for absolute paths); NormalizePath pops only an ordinary element (cursor > count of kept leading '..') and returns fresh storage. ToWalk hands NormalizePath the names of the path as given (only '/' trimmed, nothing cleaned beforehand).",
 "C17": "Also: the client marks a listing finished only on EOF, an empty read or an empty batch; each open directory has its own chunk buffer; the Readdir of a created directory is opened on the entry Create returned; the iterator may be a closure or a bound method. The finished flag of mkNext1 is set only on the success edge of a refill that returned no entries; session.Read calls File.Read under the fid's lock (Readdir has no lock of its own); IsDir tests the QTDIR bit.",
 "C18": "Also: data placement in FileEnt.Read/Write (where bytes are taken from / put, as affine slice bounds, overflow-sound for 64-bit offsets); links inserted only when absent and deleted only when present, success reported only after the change; children cleared only after the decref loop; entries of the walk result placed into the new handle's chain come from ans[ndel:]. FileHandle.Remove releases the handle's references on every exit; FileEnt.Data is only ever nil, made, appended to, or a re-slice of itself.",
 "C19": "Also: every FileRef literal takes Info from a successful os.Stat of its own path; each operation changes the host only through the host call of the same meaning (Remove→os.Remove, WStat→Chmod/Chown/rename/os.Truncate, Create→Mkdir/OpenFile, Open→OpenFile, Write→WriteAt). Open opens the entry's own path with exactly oflags(mode) (also through a helper); every entry handed out is the result of newRef or a fresh literal; atime reads the Stat_t access-time field; the rename target is joined to path.Dir of the entry's own path.",
 "C20": "Also: client.Walk's Twalk carries exactly the caller's names; Attach/Auth hand out only entries whose fid was allocated and bound in that call; every return of newFid is the value just stored by the increment; NormalizePath's classes and fresh result.",
}
for _pid in list(CLAIMS):
    t, d, nd, ref = CLAIMS[_pid]
    CLAIMS[_pid] = (t, d + (" " + ADDENDA[_pid] if _pid in ADDENDA else "") + " In the property's anchor files no error of a library function, library interface method or framing I/O call is dropped (reviewed exceptions listed in the checker).", nd, ref)

REASON_PENDING = "static check not built yet in this round (planned per DESIGN.md §4); not claimed until its rules are in place"

checks, na = [], []
for p in props:
    pid = p["id"]
    if pid in CLAIMS:
        tech, dec, notdec, ref = CLAIMS[pid]
        checks.append({
            "property_id": pid,
            "quick_cmd": f"/verif/bin/p9pcheck -prop {pid} -tier quick",
            "thorough_cmd": f"/verif/bin/p9pcheck -prop {pid} -tier thorough",
            "evidence_file": f"/verif/evidence/{pid}.json",
            "replay_cmd_template": "/verif/bin/p9pcheck -replay {path}",
            "engine": "p9pcheck",
            "level_claimed": {"category": "other",
                              "text": "Static analysis (no execution, no solver) decides the named structural clauses — genuine necessary conditions of the property — on every path / call site of the current tree; the behavioural remainder is not decided. " + dec,
                              "design_ref": ref},
            "level_note": notdec,
            "technique": tech,
        })
    else:
        na.append({"property_id": pid, "reason": REASON_PENDING})

m = {
 "version": 1,
 "setup_cmd": "cd /verif/checker && GOFLAGS=-mod=mod GOPROXY=off GOSUMDB=off GOTOOLCHAIN=local GOWORK=off go build -o /verif/bin/p9pcheck .",
 "hooks": {"guard": "verif", "enable": "none: the analyses read source; no hook commits exist in /repo", "baseline_off_cmd": "cd /repo && go test -vet=off -count=1 -timeout 25m ./...", "source_commits": [], "add_only": True},
 "engines": [{"name": "p9pcheck", "path": "/verif/checker", "serves_properties": sorted(CLAIMS), "kind_free_text": "repository-specific static analyser over go/packages + go/types + go/ssa (x/tools v0.29.0): dominance/ordering rules, affine normal forms with load numbering, linear-fact entailment (Fourier-Motzkin), typestate, tables"}],
 "checks": checks,
 "notes": "All checks analyse /repo's current working tree on every run. Genuine defects found were repaired by fix: commits in /repo (see known_findings.json 'fixed'); open known findings print KNOWN-FINDING lines.",
 "not_applicable": na,
}
json.dump(m, open(f"{V}/MANIFEST.json", "w"), indent=1)
print("claimed:", sorted(CLAIMS), "pending:", len(na))
