#!/usr/bin/env python3
"""Run all 20 checks on every seeded patch: which checks alarm (target property and others)."""
import os, subprocess, tempfile, shutil, json
props = ["C%02d" % i for i in range(1, 21)]
for d in sorted(os.listdir("/verif/seeded")):
    patch = f"/verif/seeded/{d}/patch.diff"
    if not os.path.exists(patch): continue
    t = tempfile.mkdtemp(prefix="p9px-")
    subprocess.check_call(["rsync", "-a", "--exclude", ".git", "/repo/", t + "/"])
    subprocess.check_call(["patch", "-s", "-p1", "-d", t, "-i", patch])
    ev = tempfile.mkdtemp(prefix="p9pev-")
    hits = []
    for p in props:
        r = subprocess.run(["/verif/bin/p9pcheck", "-prop", p, "-repo", t, "-evidence", ev], capture_output=True, text=True)
        if r.returncode != 0:
            first = [l for l in r.stdout.splitlines() if f"[{p}/" in l][:1]
            hits.append((p, first[0][:200] if first else ""))
    shutil.rmtree(t); shutil.rmtree(ev)
    tgt = d.split("-")[0]
    print(f"{d}: " + " ".join(p for p, _ in hits))
    for p, l in hits:
        if p != tgt: print("      ", l)
