import os, subprocess, tempfile, shutil, sys, glob
from concurrent.futures import ThreadPoolExecutor
BIN=os.environ.get("P9PCHECK_BIN","/verif/bin/p9pcheck")
ENV=dict(os.environ, GOFLAGS="-mod=mod", GOPROXY="off", GOSUMDB="off", GOTOOLCHAIN="local", GOWORK="off")
pat=sys.argv[1]
def one(f):
    t=tempfile.mkdtemp(prefix="p9pbn-"); ev=tempfile.mkdtemp(prefix="p9pev-")
    try:
        subprocess.check_call(["rsync","-a","--exclude",".git","/repo/",t+"/"])
        pr=subprocess.run(["patch","-s","-p1","-d",t,"-i",f],capture_output=True,text=True)
        if pr.returncode!=0: return f,"PATCHFAIL "+pr.stdout[:200]
        b=subprocess.run(["go","build","./..."],cwd=t,env=ENV,capture_output=True,text=True)
        if b.returncode!=0: return f,"NOBUILD "+b.stderr[:200]
        out=[]
        for i in range(1,21):
            p="C%02d"%i
            r=subprocess.run([BIN,"-prop",p,"-repo",t,"-evidence",ev],capture_output=True,text=True)
            if r.returncode!=0:
                out+= [l[:260] for l in r.stdout.splitlines() if f"[{p}/" in l][:4]
        return f,"\n".join(out)
    finally:
        shutil.rmtree(t,ignore_errors=True); shutil.rmtree(ev,ignore_errors=True)
fs=sorted(glob.glob(pat))
bad=0
with ThreadPoolExecutor(6) as ex:
    for f,o in ex.map(one,fs):
        if o: bad+=1; print("ALARM",os.path.basename(f)); print(o)
print(len(fs)-bad,"of",len(fs),"silent")
