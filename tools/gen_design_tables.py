#!/usr/bin/env python3
"""Regenerate the machine-derived tables of DESIGN.md (between BEGIN/END markers) from evidence/*.json and seeded/*/meta.json.
Run all quick checks first so that the evidence is current."""
import json, glob, os, re, collections
D = '/verif/DESIGN.md'
s = open(D).read()

def replace(tag, body):
    global s
    b, e = f'<!-- BEGIN:{tag} -->', f'<!-- END:{tag} -->'
    assert b in s and e in s, tag
    i, j = s.index(b) + len(b), s.index(e)
    s = s[:i] + '\n' + body.rstrip() + '\n' + s[j:]

# rules table
rows = ['| id | rules (evidence key `obligations_by_rule`, with instance counts) | obligations / distinct non-trivial | known findings |', '|---|---|---|---|']
for f in sorted(glob.glob('/verif/evidence/C*.json')):
    d = json.load(open(f)); c = d['coverage']
    rules = ', '.join(f'{k} {v}' for k, v in sorted(c['obligations_by_rule'].items()))
    rows.append(f"| {d['property_id']} | {rules} | {c['obligations']} / {c['distinct_nontrivial']} | {c['known_findings']} |")
replace('rules-table', '\n'.join(rows))

# seeded rounds
metas = []
for d in sorted(glob.glob('/verif/seeded/*')):
    m = json.load(open(d + '/meta.json')); m['_dir'] = os.path.basename(d); metas.append(m)
per = collections.OrderedDict()
for m in metas:
    r = m.get('round', 1)
    h = m.get('history', '')
    first = 'detected' if h.startswith('detected by the check as built') else ('other reason' if ('accident' in h or 'neighbouring' in h or 'UNDECIDED' in h or 'only because' in h or 'related reason' in h) else 'missed')
    per.setdefault(r, []).append((m['_dir'], first, h, bool(m.get('still_missed'))))
summ = ['| round | changes | detected at first run | detected for another reason | missed at first run | detected now |', '|---|---|---|---|---|---|']
for r, lst in sorted(per.items()):
    n = len(lst)
    summ.append(f"| {r} | {n} | {sum(1 for x in lst if x[1]=='detected')} | {sum(1 for x in lst if x[1]=='other reason')} | {sum(1 for x in lst if x[1]=='missed')} | {n - sum(1 for x in lst if x[3])} |")
tab = ['| round | seeded change (`/verif/seeded/<name>`) | first run | what changed in the checker |', '|---|---|---|---|']
for r, lst in sorted(per.items()):
    if r == 1:
        continue
    for name, first, h, _sm in lst:
        tab.append(f"| {r} | {name} | {'detected' if first=='detected' else '**'+first+'**'} | {'–' if first=='detected' else h} |")
replace('seeded-summary', '\n'.join(summ))
replace('seeded-rounds', '\n'.join(tab))
open(D, 'w').write(s)
print('DESIGN.md tables regenerated:', len(metas), 'seeded changes')
