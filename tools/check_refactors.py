#!/usr/bin/env python3
"""Run every property check against each commit of a scratch refactoring repository (false-alarm test).
usage: check_refactors.py /tmp/rf-name [--save name]   (with --save, silent commits are stored as patches under /verif/selftest/benign/)"""
import os, subprocess, sys, tempfile, shutil, json
repo = sys.argv[1]
save = sys.argv[sys.argv.index("--save") + 1] if "--save" in sys.argv else None
ENV = dict(os.environ, GOFLAGS="-mod=mod", GOPROXY="off", GOSUMDB="off", GOTOOLCHAIN="local", GOWORK="off")
commits = subprocess.check_output(["git", "-C", repo, "log", "--reverse", "--format=%h %s"], text=True).strip().splitlines()
props = ["C%02d" % i for i in range(1, 21)]
base = commits[0].split()[0]
bad = 0
for line in commits[1:]:
    h, msg = line.split(" ", 1)
    d = tempfile.mkdtemp(prefix="p9prf-")
    subprocess.check_call(f"git -C {repo} archive {h} | tar -x -C {d}", shell=True)
    b = subprocess.run(["go", "build", "./..."], cwd=d, env=ENV, capture_output=True, text=True)
    if b.returncode != 0:
        print(f"NOBUILD {h} {msg}: {b.stderr[:200]}"); shutil.rmtree(d); continue
    alarms = []
    ev = tempfile.mkdtemp(prefix="p9pev-")
    for p in props:
        r = subprocess.run(["/verif/bin/p9pcheck", "-prop", p, "-repo", d, "-evidence", ev], capture_output=True, text=True)
        if r.returncode != 0:
            lines = [l for l in r.stdout.splitlines() if f"[{p}/" in l][:3]
            alarms.append((p, lines))
    shutil.rmtree(ev, ignore_errors=True); shutil.rmtree(d, ignore_errors=True)
    if alarms:
        bad += 1
        print(f"ALARM  {h} {msg}")
        for p, lines in alarms:
            for l in lines:
                print("       ", l[:260])
    else:
        print(f"SILENT {h} {msg}")
        if save:
            os.makedirs("/verif/selftest/benign", exist_ok=True)
            prev = subprocess.check_output(["git", "-C", repo, "rev-parse", h + "^"], text=True).strip()
            diff = subprocess.check_output(["git", "-C", repo, "diff", prev, h], text=True)
            open(f"/verif/selftest/benign/{save}-{h}.diff", "w").write(f"# {msg}\n" + diff)
print(f"{bad} commits raised an alarm")
