#!/bin/sh
# usage: try_seeded.sh <seeded-dir-name> [prop ...]   — apply a seeded patch to a scratch copy and run the named checks
d=/verif/seeded/$1; shift
t=$(mktemp -d /tmp/p9ptry-XXXX); ev=$(mktemp -d /tmp/p9pev-XXXX)
rsync -a --exclude .git /repo/ $t/ && patch -s -p1 -d $t -i $d/patch.diff || exit 2
props="$@"; [ -z "$props" ] && props=$(basename $d | cut -c1-3)
for p in $props; do /verif/bin/p9pcheck -prop $p -repo $t -evidence $ev | grep -v "^    fact\|^KNOWN\|^VIOLATION" | cut -c1-${WIDTH:-320} | tail -${TAIL:-5}; done
rm -rf $t $ev
