# (name, property, [(file, old, new), ...]) — every `old` must occur exactly once.
MUTANTS = [
 # ---- C02
 ("c02-no-truncate-call", "C02", [("channel.go", """	if err := ch.maybeTruncate(fcall); err != nil {
		return err
	}

	p, err := ch.codec.Marshal(fcall)""", """	p, err := ch.codec.Marshal(fcall)""")]),
 ("c02-default-ge", "C02", [("channel.go", "		if size > ch.msize {\n			// overflow the msize, including the channel message size fields.\n			return overflowErr{size: size - ch.msize}", "		if size >= ch.msize {\n			// overflow the msize, including the channel message size fields.\n			return overflowErr{size: size - ch.msize}")]),
 ("c02-twrite-lt", "C02", [("channel.go", "		if size <= ch.msize {\n			return nil", "		if size <= ch.msize+1 {\n			return nil")]),
 ("c02-truncate-off-by-one", "C02", [("channel.go", "msg.Data = msg.Data[:len(msg.Data)-overflow]", "msg.Data = msg.Data[:len(msg.Data)-overflow+1]")]),
 ("c02-drop-store", "C02", [("channel.go", "		fcall.Message = msg // since we have a local copy\n", "")]),
 ("c02-tread-off-by-one", "C02", [("channel.go", "		msg.Count -= overflow\n", "		msg.Count -= overflow - 1\n")]),
 ("c02-tread-nonempty-resp", "C02", [("channel.go", "resp := newFcall(fcall.Tag, MessageRread{})", "resp := newFcall(fcall.Tag, MessageRwrite{})")]),
 ("c02-header-no-plus4", "C02", [("channel.go", "size := uint32(len(p) + 4)", "size := uint32(len(p))")]),
 ("c02-zero-tail", "C02", [("channel.go", "		msg.Data = msg.Data[:len(msg.Data)-overflow]\n", "		for i := len(msg.Data) - overflow; i < len(msg.Data); i++ {\n			msg.Data[i] = 0\n		}\n		msg.Data = msg.Data[:len(msg.Data)-overflow]\n")]),
 ("c02-overflow-amount", "C02", [("channel.go", "			return overflowErr{size: size - ch.msize}\n		}\n\n		return nil\n	}\n\n}", "			return overflowErr{size: size - ch.msize + 4}\n		}\n\n		return nil\n	}\n\n}")]),
 ("c02-msgmsize-no-header", "C02", [("channel.go", "return channelMessageHeaderSize + ch.codec.Size(fcall)", "return ch.codec.Size(fcall)")]),
 ("c02-flush-error-dropped", "C02", [("channel.go", "	return ch.bwr.Flush()\n}", "	ch.bwr.Flush()\n	return nil\n}")]),
 # ---- C03
 ("c03-no-discard", "C03", [("channel.go", """		nn, err := io.CopyN(ioutil.Discard, rd, int64(mbody-len(p)))
		n += int(nn)
		if err != nil {
			return n, err
		}
""", """		n += mbody - len(p)
		_ = ioutil.Discard
""")]),
 ("c03-overflow-ge", "C03", [("channel.go", "	if n > len(ch.rdbuf) {", "	if n >= len(ch.rdbuf) {")]),
 ("c03-no-inbound-clamp", "C03", [("channel.go", """	if err := ch.maybeTruncate(fcall); err != nil {
		return err
	}

	return nil
}

// WriteFcall""", """	return nil
}

// WriteFcall""")]),
 ("c03-swallow-unmarshal-error", "C03", [("channel.go", """fcall); err != nil {
		return err
	}

	if err := ch.maybeTruncate(fcall); err != nil {
		return err
	}

	return nil""", """fcall); err != nil {
		log.Printf("p9p: ignoring decode error: %v", err)
	}

	if err := ch.maybeTruncate(fcall); err != nil {
		return err
	}

	return nil""")]),
 ("c03-discard-off-by-4", "C03", [("channel.go", "int64(mbody-len(p)))", "int64(int(msize)-len(p)))")]),
 ("c03-no-clear", "C03", [("channel.go", """	*fcall = Fcall{}
""", "")]),
 ("c03-overflow-amount", "C03", [("channel.go", "return overflowErr{size: n - len(ch.rdbuf)}", "return overflowErr{size: n - ch.msize + 4}")]),
 ("c03-cut-wrong", "C03", [("channel.go", """		p = p[:mbody]
""", """		p = p[:mbody+1]
""")]),
 ("c03-header-guard-weak", "C03", [("channel.go", "	if msize < channelMessageHeaderSize {", "	if msize < 1 {")]),
 ("c03-decode-whole-buffer", "C03", [("channel.go", "ch.codec.Unmarshal(ch.rdbuf[:n-channelMessageHeaderSize], fcall)", "ch.codec.Unmarshal(ch.rdbuf, fcall)")]),

 # ---- C10
 ("c10-unconditional-setmsize", "C10", [("version.go", """	if int(mv.MSize) < ch.MSize() {
		// if the server msize is too large, use the client's suggested msize.
		ch.SetMSize(int(mv.MSize))
		respmsg.MSize = mv.MSize
	} else {
		respmsg.MSize = uint32(ch.MSize())
	}""", """	ch.SetMSize(int(mv.MSize))
	respmsg.MSize = mv.MSize""")]),
 ("c10-echo-client-msize", "C10", [("version.go", """		respmsg.MSize = uint32(ch.MSize())""", """		respmsg.MSize = mv.MSize""")]),
 ("c10-accept-non-version", "C10", [("version.go", """	if !ok {
		return fmt.Errorf("expected version message: %v", mv)
	}""", """	if !ok {
		mv = MessageTversion{MSize: uint32(ch.MSize()), Version: version}
	}""")]),
 ("c10-ignore-negotiation-error", "C10", [("serveconn.go", """		return fmt.Errorf("error negotiating version: %s", err)""", """		log.Printf("error negotiating version: %s", err)""")]),
 ("c10-client-adopts-larger", "C10", [("version.go", """		if int(v.MSize) < ch.MSize() {
			// upgrade msize if server differs.""", """		if int(v.MSize) != ch.MSize() {
			// upgrade msize if server differs.""")]),
 ("c10-reply-error-ignored", "C10", [("version.go", """	if err := ch.WriteFcall(ctx, resp); err != nil {
		return err
	}

	if respmsg.Version""", """	ch.WriteFcall(ctx, resp)

	if respmsg.Version""")]),
 ("c10-setmsize-no-grow", "C10", [("channel.go", """	ch.rdbuf = make([]byte, msize)
}""", """}""")]),
 ("c10-client-msize-default", "C10", [("csession.go", """		msize:     ch.MSize(),""", """		msize:     DefaultMSize,""")]),
 ("c10-setmsize-before-compare", "C10", [("version.go", """		if int(v.MSize) < ch.MSize() {
			// upgrade msize if server differs.
			ch.SetMSize(int(v.MSize))
		}""", """		ch.SetMSize(int(v.MSize))""")]),

 # ---- C14
 ("c14-stat-no-unlock", "C14", [("sfilesys.go", """	defer ref.Unlock()

	return ref.Ent.Stat(ctx)""", """	return ref.Ent.Stat(ctx)""")]),
 ("c14-walk-closure-no-newref-unlock", "C14", [("sfilesys.go", """			sess.refs.Delete(newfid)
			newref.Unlock()""", """			sess.refs.Delete(newfid)""")]),
 ("c14-getref-no-unlock-on-nil-ent", "C14", [("sfilesys.go", """	if ref.Ent == nil {
		ref.Unlock()
		return nil, ErrUnknownfid
	}

	return ref, nil""", """	if ref.Ent == nil {
		return nil, ErrUnknownfid
	}

	return ref, nil""")]),
 ("c14-getref-no-lock", "C14", [("sfilesys.go", """	ref.Lock()
	// Guard against deletion just after our lookup.
	if ref.Ent == nil {
		ref.Unlock()
		return nil, ErrUnknownfid
	}""", """	// Guard against deletion just after our lookup.
	if ref.Ent == nil {
		return nil, ErrUnknownfid
	}
	ref.Lock()""")]),
 ("c14-walk-swap-keeps-old-lock", "C14", [("sfilesys.go", """		ref.Unlock()
		ref = newref
		newref = nil""", """		ref = newref
		newref = nil""")]),
 ("c14-wstat-early-unlock", "C14", [("sfilesys.go", """	defer ref.Unlock()

	return ref.Ent.WStat(ctx, dir)""", """	ent := ref.Ent
	ref.Unlock()

	return ent.WStat(ctx, dir)""")]),
 ("c14-open-double-unlock", "C14", [("sfilesys.go", """	err = openLocked(ctx, ref, mode)
	if err != nil {
		return Qid{}, 0, err
	}""", """	err = openLocked(ctx, ref, mode)
	if err != nil {
		ref.Unlock()
		return Qid{}, 0, err
	}""")]),
 ("c14-read-clunk-inside", "C14", [("sfilesys.go", """	if ref.File == nil {
		return 0, MessageRerror{Ename: "no file open"} //ErrClosed
	}
	if (ref.Mode & OEXEC) == OWRITE {""", """	if ref.File == nil {
		sess.Clunk(ctx, fid)
		return 0, MessageRerror{Ename: "no file open"} //ErrClosed
	}
	if (ref.Mode & OEXEC) == OWRITE {""")]),
 ("c14-delref-no-lock", "C14", [("sfilesys.go", """	ref.Lock()
	defer ref.Unlock()
	if ref.Ent == nil {
		return nil
	}

	return delRefAction(ctx, ref, remove)""", """	if ref.Ent == nil {
		return nil
	}

	return delRefAction(ctx, ref, remove)""")]),
 ("c14-auth-error-path-locked", "C14", [("sfilesys.go", """	aref, err := sess.newRef(afid)
	if err != nil {
		return aq, err
	}
	defer aref.Unlock()

	afile, err := sess.fs.Auth(ctx, uname, aname)
	if err != nil { // need to re-acquire session lock to delete
		sess.refs.Delete(afid)
		return aq, err
	}""", """	aref, err := sess.newRef(afid)
	if err != nil {
		return aq, err
	}

	afile, err := sess.fs.Auth(ctx, uname, aname)
	if err != nil { // need to re-acquire session lock to delete
		sess.refs.Delete(afid)
		return aq, err
	}
	defer aref.Unlock()""")]),
]
