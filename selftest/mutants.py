# (name, property, [(file, old, new), ...]) — every `old` must occur exactly once.
MUTANTS = [
 # ---- C02
 ("c02-no-truncate-call", "C02", [("channel.go", """	if err := ch.maybeTruncate(fcall); err != nil {
		return err
	}

	p, err := ch.codec.Marshal(fcall)""", """	p, err := ch.codec.Marshal(fcall)""")]),
 ("c02-default-ge", "C02", [("channel.go", "		if size > ch.msize {\n			// overflow the msize, including the channel message size fields.\n			return overflowErr{size: size - ch.msize}", "		if size >= ch.msize {\n			// overflow the msize, including the channel message size fields.\n			return overflowErr{size: size - ch.msize}")]),
 ("c02-twrite-lt", "C02", [("channel.go", "		if size <= ch.msize {\n			return nil", "		if size <= ch.msize+1 {\n			return nil")]),
 ("c02-truncate-off-by-one", "C02", [("channel.go", "msg.Data = msg.Data[:len(msg.Data)-overflow]", "msg.Data = msg.Data[:len(msg.Data)-overflow+1]")]),
 ("c02-drop-store", "C02", [("channel.go", "		fcall.Message = msg // since we have a local copy\n", "")]),
 ("c02-tread-off-by-one", "C02", [("channel.go", "		msg.Count -= overflow\n", "		msg.Count -= overflow - 1\n")]),
 ("c02-tread-nonempty-resp", "C02", [("channel.go", "resp := newFcall(fcall.Tag, MessageRread{})", "resp := newFcall(fcall.Tag, MessageRwrite{})")]),
 ("c02-header-no-plus4", "C02", [("channel.go", "size := uint32(len(p) + 4)", "size := uint32(len(p))")]),
 ("c02-zero-tail", "C02", [("channel.go", "		msg.Data = msg.Data[:len(msg.Data)-overflow]\n", "		for i := len(msg.Data) - overflow; i < len(msg.Data); i++ {\n			msg.Data[i] = 0\n		}\n		msg.Data = msg.Data[:len(msg.Data)-overflow]\n")]),
 ("c02-overflow-amount", "C02", [("channel.go", "			return overflowErr{size: size - ch.msize}\n		}\n\n		return nil\n	}\n\n}", "			return overflowErr{size: size - ch.msize + 4}\n		}\n\n		return nil\n	}\n\n}")]),
 ("c02-msgmsize-no-header", "C02", [("channel.go", "return channelMessageHeaderSize + ch.codec.Size(fcall)", "return ch.codec.Size(fcall)")]),
 ("c02-flush-error-dropped", "C02", [("channel.go", "	return ch.bwr.Flush()\n}", "	ch.bwr.Flush()\n	return nil\n}")]),
 # ---- C03
 ("c03-no-discard", "C03", [("channel.go", """		nn, err := io.CopyN(ioutil.Discard, rd, int64(mbody-len(p)))
		n += int(nn)
		if err != nil {
			return n, err
		}
""", """		n += mbody - len(p)
		_ = ioutil.Discard
""")]),
 ("c03-overflow-ge", "C03", [("channel.go", "	if n > len(ch.rdbuf) {", "	if n >= len(ch.rdbuf) {")]),
 ("c03-no-inbound-clamp", "C03", [("channel.go", """	if err := ch.maybeTruncate(fcall); err != nil {
		return err
	}

	return nil
}

// WriteFcall""", """	return nil
}

// WriteFcall""")]),
 ("c03-swallow-unmarshal-error", "C03", [("channel.go", """fcall); err != nil {
		return err
	}

	if err := ch.maybeTruncate(fcall); err != nil {
		return err
	}

	return nil""", """fcall); err != nil {
		log.Printf("p9p: ignoring decode error: %v", err)
	}

	if err := ch.maybeTruncate(fcall); err != nil {
		return err
	}

	return nil""")]),
 ("c03-discard-off-by-4", "C03", [("channel.go", "int64(mbody-len(p)))", "int64(int(msize)-len(p)))")]),
 ("c03-no-clear", "C03", [("channel.go", """	*fcall = Fcall{}
""", "")]),
 ("c03-overflow-amount", "C03", [("channel.go", "return overflowErr{size: n - len(ch.rdbuf)}", "return overflowErr{size: n - ch.msize + 4}")]),
 ("c03-cut-wrong", "C03", [("channel.go", """		p = p[:mbody]
""", """		p = p[:mbody+1]
""")]),
 ("c03-header-guard-weak", "C03", [("channel.go", "	if msize < channelMessageHeaderSize {", "	if msize < 1 {")]),
 ("c03-decode-whole-buffer", "C03", [("channel.go", "ch.codec.Unmarshal(ch.rdbuf[:n-channelMessageHeaderSize], fcall)", "ch.codec.Unmarshal(ch.rdbuf, fcall)")]),

 # ---- C10
 ("c10-unconditional-setmsize", "C10", [("version.go", """	if int(mv.MSize) < ch.MSize() {
		// if the server msize is too large, use the client's suggested msize.
		ch.SetMSize(int(mv.MSize))
		respmsg.MSize = mv.MSize
	} else {
		respmsg.MSize = uint32(ch.MSize())
	}""", """	ch.SetMSize(int(mv.MSize))
	respmsg.MSize = mv.MSize""")]),
 ("c10-echo-client-msize", "C10", [("version.go", """		respmsg.MSize = uint32(ch.MSize())""", """		respmsg.MSize = mv.MSize""")]),
 ("c10-accept-non-version", "C10", [("version.go", """	if !ok {
		return fmt.Errorf("expected version message: %v", mv)
	}""", """	if !ok {
		mv = MessageTversion{MSize: uint32(ch.MSize()), Version: version}
	}""")]),
 ("c10-ignore-negotiation-error", "C10", [("serveconn.go", """		return fmt.Errorf("error negotiating version: %s", err)""", """		log.Printf("error negotiating version: %s", err)""")]),
 ("c10-client-adopts-larger", "C10", [("version.go", """		if int(v.MSize) < ch.MSize() {
			// upgrade msize if server differs.""", """		if int(v.MSize) != ch.MSize() {
			// upgrade msize if server differs.""")]),
 ("c10-reply-error-ignored", "C10", [("version.go", """	if err := ch.WriteFcall(ctx, resp); err != nil {
		return err
	}

	if respmsg.Version""", """	ch.WriteFcall(ctx, resp)

	if respmsg.Version""")]),
 ("c10-setmsize-no-grow", "C10", [("channel.go", """	ch.rdbuf = make([]byte, msize)
}""", """}""")]),
 ("c10-client-msize-default", "C10", [("csession.go", """		msize:     ch.MSize(),""", """		msize:     DefaultMSize,""")]),
 ("c10-setmsize-before-compare", "C10", [("version.go", """		if int(v.MSize) < ch.MSize() {
			// upgrade msize if server differs.
			ch.SetMSize(int(v.MSize))
		}""", """		ch.SetMSize(int(v.MSize))""")]),

 # ---- C14
 ("c14-stat-no-unlock", "C14", [("sfilesys.go", """	defer ref.Unlock()

	return ref.Ent.Stat(ctx)""", """	return ref.Ent.Stat(ctx)""")]),
 ("c14-walk-closure-no-newref-unlock", "C14", [("sfilesys.go", """			sess.refs.Delete(newfid)
			newref.Unlock()""", """			sess.refs.Delete(newfid)""")]),
 ("c14-getref-no-unlock-on-nil-ent", "C14", [("sfilesys.go", """	if ref.Ent == nil {
		ref.Unlock()
		return nil, ErrUnknownfid
	}

	return ref, nil""", """	if ref.Ent == nil {
		return nil, ErrUnknownfid
	}

	return ref, nil""")]),
 ("c14-getref-no-lock", "C14", [("sfilesys.go", """	ref.Lock()
	// Guard against deletion just after our lookup.
	if ref.Ent == nil {
		ref.Unlock()
		return nil, ErrUnknownfid
	}""", """	// Guard against deletion just after our lookup.
	if ref.Ent == nil {
		return nil, ErrUnknownfid
	}
	ref.Lock()""")]),
 ("c14-walk-swap-keeps-old-lock", "C14", [("sfilesys.go", """		ref.Unlock()
		ref = newref
		newref = nil""", """		ref = newref
		newref = nil""")]),
 ("c14-wstat-early-unlock", "C14", [("sfilesys.go", """	defer ref.Unlock()

	return ref.Ent.WStat(ctx, dir)""", """	ent := ref.Ent
	ref.Unlock()

	return ent.WStat(ctx, dir)""")]),
 ("c14-open-double-unlock", "C14", [("sfilesys.go", """	err = openLocked(ctx, ref, mode)
	if err != nil {
		return Qid{}, 0, err
	}""", """	err = openLocked(ctx, ref, mode)
	if err != nil {
		ref.Unlock()
		return Qid{}, 0, err
	}""")]),
 ("c14-read-clunk-inside", "C14", [("sfilesys.go", """	if ref.File == nil {
		return 0, MessageRerror{Ename: "no file open"} //ErrClosed
	}
	if (ref.Mode & OEXEC) == OWRITE {""", """	if ref.File == nil {
		sess.Clunk(ctx, fid)
		return 0, MessageRerror{Ename: "no file open"} //ErrClosed
	}
	if (ref.Mode & OEXEC) == OWRITE {""")]),
 ("c14-delref-no-lock", "C14", [("sfilesys.go", """	ref.Lock()
	defer ref.Unlock()
	if ref.Ent == nil {
		return nil
	}

	return delRefAction(ctx, ref, remove)""", """	if ref.Ent == nil {
		return nil
	}

	return delRefAction(ctx, ref, remove)""")]),
 ("c14-auth-error-path-locked", "C14", [("sfilesys.go", """	aref, err := sess.newRef(afid)
	if err != nil {
		return aq, err
	}
	defer aref.Unlock()

	afile, err := sess.fs.Auth(ctx, uname, aname)
	if err != nil { // need to re-acquire session lock to delete
		sess.refs.Delete(afid)
		return aq, err
	}""", """	aref, err := sess.newRef(afid)
	if err != nil {
		return aq, err
	}

	afile, err := sess.fs.Auth(ctx, uname, aname)
	if err != nil { // need to re-acquire session lock to delete
		sess.refs.Delete(afid)
		return aq, err
	}
	defer aref.Unlock()""")]),

 # ---- C13
 ("c13-inplace-walk-no-clunk", "C13", [("sfilesys.go", """		ref.Ent.Clunk(ctx) // TODO(frobnitzem): note - ignoring error here
""", "")]),
 ("c13-delrefaction-keeps-ent", "C13", [("sfilesys.go", """	ref.Ent = nil
	return combine_errors(err, err2)""", """	return combine_errors(err, err2)""")]),
 ("c13-walk-rollback-no-delete", "C13", [("sfilesys.go", """		if newref != nil {
			sess.refs.Delete(newfid)
			newref.Unlock()""", """		if newref != nil {
			newref.Unlock()""")]),
 ("c13-create-failure-leaks-ent", "C13", [("sfilesys.go", """			sess.refs.Delete(parent)
			ref.link(ent)
			delRefAction(ctx, ref, false)""", """			sess.refs.Delete(parent)""")]),
 ("c13-attach-failure-no-delete", "C13", [("sfilesys.go", """	if err != nil {
		sess.refs.Delete(fid)
		return Qid{}, err
	}
	ref.link(ent)""", """	if err != nil {
		return Qid{}, err
	}
	ref.link(ent)""")]),
 ("c13-stop-stops-early", "C13", [("sfilesys.go", """			sess.delRef(ctx, fid, false)
		}
		return true""", """			sess.delRef(ctx, fid, false)
		}
		return false""")]),
 ("c13-stop-no-release", "C13", [("sfilesys.go", """		if fid, ok := fid1.(Fid); ok { // unbind, lock, close and clunk
			sess.delRef(ctx, fid, false)
		}
		return true""", """		if fid, ok := fid1.(Fid); ok { // unbind, lock, close and clunk
			sess.refs.Delete(fid)
			_ = ctx
		}
		return true""")]),
 ("c13-walk-clone-clunks-source", "C13", [("sfilesys.go", """		ref.Unlock()
		ref = newref
		newref = nil""", """		ref.Ent.Clunk(ctx)
		ref.Unlock()
		ref = newref
		newref = nil""")]),
 ("c13-create-clunks-parent-too", "C13", [("sfilesys.go", """	//ref.Ent.Clunk(ctx)
	ref.File = nil""", """	ref.Ent.Clunk(ctx)
	ref.Ent.Clunk(ctx)
	ref.File = nil""")]),
 ("c13-clunk-unbinds-without-release", "C13", [("sfilesys.go", """	if ref.Ent == nil {
		return nil
	}

	return delRefAction(ctx, ref, remove)""", """	if ref.Ent == nil || remove {
		return nil
	}

	return delRefAction(ctx, ref, remove)""")]),

 # ---- C08
 ("c08-newref-no-nofid", "C08", [("sfilesys.go", """func (sess *session) newRef(fid Fid) (ref *SFid, err error) {
	if fid == NOFID {
		return nil, ErrUnknownfid
	}
""", """func (sess *session) newRef(fid Fid) (ref *SFid, err error) {
""")]),
 ("c08-newref-store", "C08", [("sfilesys.go", """	_, found := sess.refs.LoadOrStore(fid, ref)
	if found {
		//ref.Unlock() not needed
		return nil, ErrDupfid
	}
""", """	sess.refs.Store(fid, ref)
""")]),
 ("c08-newref-ignores-found", "C08", [("sfilesys.go", """	if found {
		//ref.Unlock() not needed
		return nil, ErrDupfid
	}
""", """	_ = found
""")]),
 ("c08-walk-link-before-length-test", "C08", [("sfilesys.go", """	// "Only if it is equal, however, will newfid be affected"
	if len(qids) != len(names) {
		return qids, nil
	}
""", """	// "Only if it is equal, however, will newfid be affected"
	if len(qids) < len(names) && newfid == fid {
		return qids, nil
	}
""")]),
 ("c08-delref-load-only", "C08", [("sfilesys.go", """	ref1, found := sess.refs.LoadAndDelete(fid)""", """	ref1, found := sess.refs.Load(fid)""")]),
 ("c08-no-already-open-test", "C08", [("sfilesys.go", """	if ref.File != nil {
		return MessageRerror{Ename: "already open"}
	}
""", "")]),
 ("c08-read-mode-inverted", "C08", [("sfilesys.go", """	if (ref.Mode & OEXEC) == OWRITE {
		return 0, ErrNoread""", """	if (ref.Mode & OEXEC) != OREAD {
		return 0, ErrNoread""")]),
 ("c08-write-mode-allows-exec", "C08", [("sfilesys.go", """	if (ref.Mode&OEXEC) != OWRITE && (ref.Mode&OEXEC) != ORDWR {""", """	if (ref.Mode&OEXEC) == OREAD {""")]),
 ("c08-write-mode-no-mask", "C08", [("sfilesys.go", """	if (ref.Mode&OEXEC) != OWRITE && (ref.Mode&OEXEC) != ORDWR {""", """	if ref.Mode != OWRITE && ref.Mode != ORDWR {""")]),
 ("c08-create-mode-not-recorded", "C08", [("sfilesys.go", """	ref.File = file
	ref.Mode = mode

	return ref.Ent.Qid(), uint32(file.IOUnit()), nil""", """	ref.File = file

	return ref.Ent.Qid(), uint32(file.IOUnit()), nil""")]),
 ("c08-read-no-file-test", "C08", [("sfilesys.go", """	if ref.File == nil {
		return 0, MessageRerror{Ename: "no file open"} //ErrClosed
	}
	if (ref.Mode & OEXEC) == OWRITE {""", """	if (ref.Mode & OEXEC) == OWRITE {""")]),
 ("c08-delref-work-before-unbind", "C08", [("sfilesys.go", """	ref1, found := sess.refs.LoadAndDelete(fid)
	if !found {
		return ErrUnknownfid
	}""", """	if !sess.fs.RequireAuth(ctx) && remove && fid == 0 {
		return ErrPerm
	}
	ref1, found := sess.refs.LoadAndDelete(fid)
	if !found {
		return ErrUnknownfid
	}""")]),
 ("c08-walk-reserve-inplace", "C08", [("sfilesys.go", """	if newfid != fid {
		newref, err = sess.newRef(newfid)""", """	if newfid != fid || len(names) > 8 {
		newref, err = sess.newRef(newfid)""")]),
 ("c08-getref-missing-ok", "C08", [("sfilesys.go", """	ref1, found := sess.refs.Load(fid)
	if !found {
		return nil, ErrUnknownfid
	}
	ref, _ := ref1.(*SFid)
""", """	ref1, _ := sess.refs.Load(fid)
	ref, ok := ref1.(*SFid)
	if !ok {
		ref = &SFid{}
	}
""")]),

 # ---- C11
 ("c11-no-deferred-cancel", "C11", [("serveconn.go", """	defer func() {
		for _, active := range tags {
			active.cancel()
		}
	}()
""", "")]),
 ("c11-stop-only-on-nil", "C11", [("serveconn.go", """	err := c.serve()
	return handler.Stop(err)""", """	err := c.serve()
	if err == ErrClosed {
		return err
	}
	return handler.Stop(err)""")]),
 ("c11-read-exit-no-close", "C11", [("serveconn.go", """			c.CloseWithError(fmt.Errorf("error reading fcall: %v", err))
			return""", """			log.Printf("error reading fcall: %v", err)
			return""")]),
 ("c11-flush-select-no-closed", "C11", [("serveconn.go", """				case responses <- resp:
					// bypass tag management in completed.
				case <-c.ctx.Done():
					return c.ctx.Err()
				case <-c.closed:
					return c.err
				}""", """				case responses <- resp:
					// bypass tag management in completed.
				case <-c.ctx.Done():
					return c.ctx.Err()
				}""")]),
 ("c11-handler-send-no-closed", "C11", [("serveconn.go", """					case <-ctx.Done():
						return
					case <-c.closed:
						return
					}""", """					case <-ctx.Done():
						return
					}""")]),
 ("c11-ctx-not-derived", "C11", [("serveconn.go", "ctx, cancel := context.WithCancel(c.ctx)", "ctx, cancel := context.WithCancel(context.Background())")]),
 ("c11-go-before-table", "C11", [("serveconn.go", """				tags[req.Tag] = &activeRequest{
					ctx:     ctx,
					request: req,
					cancel:  cancel,
				}
""", """				active := &activeRequest{
					ctx:     ctx,
					request: req,
					cancel:  cancel,
				}
				defer func() { tags[req.Tag] = active }()
""")]),
 ("c11-close-without-once", "C11", [("serveconn.go", """	c.once.Do(func() {
		if err == nil {
			err = ErrClosed
		}

		c.err = err
		close(c.closed)
	})
""", """	if err == nil {
		err = ErrClosed
	}
	if c.err == nil {
		c.err = err
		close(c.closed)
	}
""")]),
 ("c11-write-plain-recv", "C11", [("serveconn.go", """		case <-c.ctx.Done():
			c.CloseWithError(c.ctx.Err())
			return
		case <-c.closed:
			return
		}
	}
}

func (c *conn) Close() error {""", """		case <-c.ctx.Done():
			c.CloseWithError(c.ctx.Err())
			return
		}
	}
}

func (c *conn) Close() error {""")]),
 ("c11-handle-negative-count", "C11", [("ssesssion.go", """			if count < 0 {
				count = 0
			}
""", "")]),
 ("c11-panic-in-dispatch", "C11", [("ssesssion.go", """	default:
		return nil, ErrUnknownMsg""", """	default:
		panic("unknown message")""")]),
 ("c11-remove-deletes-before-cancel", "C11", [("serveconn.go", """		active.cancel() // propagate cancellation to callees
		delete(tags, t)""", """		delete(tags, t)
		_ = active""")]),

 # ---- C04
 ("c04-strings-ll-uint32", "C04", [("encoding.go", """		case *[]string:
			var ll uint16
""", """		case *[]string:
			var ll uint32
""")]),
 ("c04-twstat-elements-2", "C04", [("encoding.go", """				if err := d.decode(elements[0]); err != nil {
					return err
				}
				elements = elements[1:]
				var ll uint16""", """				if err := d.decode(elements[0]); err != nil {
					return err
				}
				elements = elements[3:]
				var ll uint16""")]),
 ("c04-rstat-clause-slices", "C04", [("encoding.go", """				var ll uint16
				if err := d.decode(&ll); err != nil {
					return err
				}
			case MessageTwstat, *MessageTwstat:
				if err := d.decode(elements[0]); err != nil {""", """				var ll uint16
				if err := d.decode(&ll); err != nil {
					return err
				}
				elements = elements[1:]
			case MessageTwstat, *MessageTwstat:
				if err := d.decode(elements[0]); err != nil {""")]),
 ("c04-qids-index-off", "C04", [("encoding.go", """			elements := make([]interface{}, int(ll))
			*v = make([]Qid, int(ll))
			for i := range elements {
				elements[i] = &(*v)[i]
			}""", """			elements := make([]interface{}, int(ll)+1)
			*v = make([]Qid, int(ll))
			for i := range elements {
				elements[i] = &(*v)[i]
			}""")]),
 ("c04-swallow-length-error", "C04", [("encoding.go", """		case *string:
			var ll uint16

			// implement string[s] encoding
			if err := d.decode(&ll); err != nil {
				return err
			}""", """		case *string:
			var ll uint16

			// implement string[s] encoding
			d.decode(&ll)""")]),
 ("c04-unknown-type-default-msg", "C04", [("messages.go", """	return nil, fmt.Errorf("unknown message type")""", """	_ = fmt.Errorf
	return nil, nil""")]),
 ("c04-guard-too-weak", "C04", [("encoding.go", "ok && int64(ll) > int64(lr.Len()) {", "ok && int64(ll) > int64(lr.Len())*1024 {")]),
 ("c04-decodedir-putuint-before-make", "C04", [("encoding.go", """	p := make([]byte, int(ll)+2) // int: ll+2 would wrap in uint16""", """	p := make([]byte, int(ll)+1) // int: ll+2 would wrap in uint16""")]),
 ("c04-decoder-over-bufio", "C04", [("encoding.go", """	dec := &decoder{bytes.NewReader(data)}
	return dec.decode(v)""", """	dec := &decoder{io.LimitReader(bytes.NewReader(data), int64(len(data)))}
	return dec.decode(v)""")]),
 ("c04-panic-on-bad-string", "C04", [("encoding.go", """			if n != int(ll) {
				return fmt.Errorf("unexpected string length")
			}""", """			if n != int(ll) {
				panic("unexpected string length")
			}""")]),
 # ---- C12
 ("c12-send-wait-no-closed", "C12", [("transport.go", """	// wait for the response.
	select {
	case <-t.closed:
		return nil, ErrClosed
	case <-ctx.Done():""", """	// wait for the response.
	select {
	case <-ctx.Done():""")]),
 ("c12-send-dispatch-no-ctx", "C12", [("transport.go", """	select {
	case <-t.closed:
		return nil, ErrClosed
	case <-ctx.Done():
		return nil, ctx.Err()
	case t.requests <- req:
	}""", """	select {
	case <-t.closed:
		return nil, ErrClosed
	case t.requests <- req:
	}""")]),
 ("c12-no-deferred-close", "C12", [("transport.go", """	defer func() {
		close(t.closed)
	}()

	// the following""", """	// the following""")]),
 ("c12-reader-no-deferred-close", "C12", [("transport.go", """		defer func() {
			t.close() // single main loop
		}()
""", "")]),
 ("c12-unbuffered-response", "C12", [("transport.go", "response: make(chan *Fcall, 1),", "response: make(chan *Fcall),")]),
 ("c12-unchecked-assert", "C12", [("csession.go", """	rauth, ok := resp.(MessageRauth)
	if !ok {
		return Qid{}, ErrUnexpectedMsg
	}

	return rauth.Qid, nil""", """	return resp.(MessageRauth).Qid, nil""")]),
 ("c12-assert-failure-is-success", "C12", [("csession.go", """	_, ok := resp.(MessageRremove)
	if !ok {
		return ErrUnexpectedMsg
	}""", """	_, ok := resp.(MessageRremove)
	if !ok {
		return nil
	}""")]),
 ("c12-write-failure-not-reported", "C12", [("transport.go", """				delete(outstanding, fcall.Tag)
				req.err <- err""", """				delete(outstanding, fcall.Tag)
				log.Println("p9p: write failed:", err)""")]),
 ("c12-write-failure-keeps-tag", "C12", [("transport.go", """				delete(outstanding, fcall.Tag)
				req.err <- err""", """				req.err <- err""")]),
 ("c12-owner-no-shutdown-case", "C12", [("transport.go", """		case <-t.shutdown:
			return
		case <-t.ctx.Done():
			return
		}
	}
}""", """		case <-t.ctx.Done():
			return
		}
	}
}""")]),
 ("c12-reader-send-no-closed", "C12", [("transport.go", """			case <-t.ctx.Done():
				return
			case <-t.closed:
				return
			case responses <- fcall:""", """			case <-t.ctx.Done():
				return
			case responses <- fcall:""")]),

 # ---- C05
 ("c04-dirloop-eof-continue", "C04", [("encoding.go", """					if err == io.EOF {
						return nil
					}
					return err
				}
				*v = append(*v, element)""", """					if err != io.EOF {
						return err
					}
					if len(*v) > 0 {
						return nil
					}
					continue
				}
				*v = append(*v, element)""")]),
 ("c18-read-ignores-offset", "C18", [("ramfs/dirent.go", "	copy(p[:m], ref.Data[offset:offset+m])", "	copy(p[:m], ref.Data[:m])")]),
 ("c18-write-appends-whole-p", "C18", [("ramfs/dirent.go", "		ref.Data = append(ref.Data, p[n:]...)", "		ref.Data = append(ref.Data, p...)")]),
 ("c18-write-returns-tail-count", "C18", [("ramfs/dirent.go", """	ref.Info.Length = uint64(len(ref.Data))
	return int(m), nil""", """	ref.Info.Length = uint64(len(ref.Data))
	return int(n), nil""")]),
 ("c02-overflow-size-off", "C02", [("overflow.go", """	return o.size
}""", """	return o.size - 1
}""")]),
 ("c02-overflow-ignores-direct", "C02", [("overflow.go", """	if of, ok := err.(overflow); ok {
		return of.Size()
	}
""", """	if _, ok := err.(overflow); ok {
		return 1
	}
""")]),
 ("c07-handler-under-conn-ctx", "C07", [("serveconn.go", "msg, err := c.handler.Handle(ctx, req.Message)", "msg, err := c.handler.Handle(c.ctx, req.Message)")]),
 ("c11-read-retry-non-net-error", "C11", [("serveconn.go", """			if err, ok := err.(net.Error); ok {
				if err.Timeout() || err.Temporary() {
					// TODO(stevvooe): A full idle timeout on the connection
					// should be enforced here. No logging because it is quite
					// chatty.
					continue
				}
			}
""", """			if err, ok := err.(net.Error); !ok || err.Timeout() || err.Temporary() {
				continue
			}
""")]),
 ("c12-read-deadline-conditional", "C12", [("channel.go", """	if err := ch.conn.SetReadDeadline(deadline); err != nil {
		log.Printf("p9p: transport: error setting read deadline on %v: %v", ch.conn.RemoteAddr(), err)
	}""", """	if ok {
		if err := ch.conn.SetReadDeadline(deadline); err != nil {
			log.Printf("p9p: transport: error setting read deadline on %v: %v", ch.conn.RemoteAddr(), err)
		}
	}""")]),
 ("c08-clunk-error-dropped", "C08", [("sfilesys.go", """func (sess *session) Clunk(ctx context.Context, fid Fid) error {
	return sess.delRef(ctx, fid, false)
}""", """func (sess *session) Clunk(ctx context.Context, fid Fid) error {
	sess.delRef(ctx, fid, false)
	return nil
}""")]),
 ("c13-clunk-error-dropped", "C13", [("sfilesys.go", """func (sess *session) Clunk(ctx context.Context, fid Fid) error {
	return sess.delRef(ctx, fid, false)
}""", """func (sess *session) Clunk(ctx context.Context, fid Fid) error {
	sess.delRef(ctx, fid, false)
	return nil
}""")]),
 ("c20-cent-clunk-error-dropped", "C20", [("cfilesys.go", "	return ent.fs.session.Clunk(ctx, ent.fid)", "	ent.fs.session.Clunk(ctx, ent.fid)\n	return nil")]),
 ("c05-no-notag-skip", "C05", [("transport.go", """		hint++
		if hint == NOTAG {
			hint = 0
		}
""", """		hint++
""")]),
 ("c05-route-by-selected", "C05", [("transport.go", """			req, ok := outstanding[b.Tag]
			if !ok {""", """			req, ok := outstanding[selected]
			if !ok {""")]),
 ("c05-register-after-write", "C05", [("transport.go", """			outstanding[selected] = req
			fcall := newFcall(selected, req.message)
""", """			fcall := newFcall(selected, req.message)
			defer func() { outstanding[selected] = req }()
""")]),
 ("c05-reader-touches-map", "C05", [("transport.go", """				log.Println("p9p: fatal error reading msg:", err)
				return""", """				log.Println("p9p: fatal error reading msg:", err, len(outstanding))
				for k := range outstanding {
					delete(outstanding, k)
				}
				return""")]),
 ("c05-no-delete-on-reply", "C05", [("transport.go", """			delete(outstanding, b.Tag)

			req.response <- b""", """			req.response <- b""")]),
 ("c05-tag-returned-when-exists", "C05", [("transport.go", """		if _, exists := m[hint]; !exists {
			return hint, nil
		}""", """		if _, exists := m[hint+1]; !exists {
			return hint, nil
		}""")]),
 ("c05-rerror-returned-as-message", "C05", [("transport.go", """			return nil, respmesg
		}""", """			return respmesg, nil
		}""")]),
 ("c05-second-writer", "C05", [("transport.go", """func (t *transport) Close() error {
	t.close()
""", """func (t *transport) Close() error {
	t.ch.WriteFcall(t.ctx, newFcall(NOTAG, MessageTflush{}))
	t.close()
""")]),
 ("c05-wrong-message", "C05", [("transport.go", "fcall := newFcall(selected, req.message)", "fcall := newFcall(selected+1, req.message)")]),
 ("c05-rerror-guard-inverted", "C05", [("transport.go", "		if resp.Type == Rerror {", "		if resp.Type == Rversion {")]),
 # ---- C06
 ("c06-reply-tag-zero", "C06", [("serveconn.go", "					resp = newFcall(req.Tag, msg)", "					resp = newFcall(Tag(len(tags)), msg)")]),
 ("c06-no-duptag-branch", "C06", [("serveconn.go", """			if _, ok := tags[req.Tag]; ok {
				select {
				case responses <- newErrorFcall(req.Tag, ErrDuptag):
					// Send to responses, bypass tag management.
				case <-c.ctx.Done():
					return c.ctx.Err()
				case <-c.closed:
					return c.err
				}
				continue
			}
""", "")]),
 ("c06-handle-twice", "C06", [("serveconn.go", """					msg, err := c.handler.Handle(ctx, req.Message)
					if err != nil {""", """					msg, err := c.handler.Handle(ctx, req.Message)
					if err == ErrTimeout {
						msg, err = c.handler.Handle(ctx, req.Message)
					}
					if err != nil {""")]),
 ("c06-remove-calls-clunk", "C06", [("ssesssion.go", "if err := session.Remove(ctx, msg.Fid); err != nil {", "if err := session.Clunk(ctx, msg.Fid); err != nil {")]),
 ("c06-stat-returns-rwstat", "C06", [("ssesssion.go", """		return MessageRstat{
			Stat: dir,
		}, nil""", """		_ = dir
		return MessageRwstat{}, nil""")]),
 ("c06-error-text-lost", "C06", [("fcall.go", "msg = MessageRerror{Ename: v.Error()}", "msg = MessageRerror{Ename: \"error\"}")]),
 ("c06-duptag-wrong-tag", "C06", [("serveconn.go", "case responses <- newErrorFcall(req.Tag, ErrDuptag):", "case responses <- newErrorFcall(NOTAG, ErrDuptag):")]),
 ("c06-error-reply-uses-msg", "C06", [("serveconn.go", "					resp = newErrorFcall(req.Tag, err)", "					resp = newErrorFcall(req.Tag, ErrBotch)")]),
 # ---- C07
 ("c07-rflush-before-remove", "C07", [("serveconn.go", """				var resp *Fcall
				if tags.remove(msg.Oldtag) {
					resp = newFcall(req.Tag, MessageRflush{})
				} else {
					resp = newErrorFcall(req.Tag, ErrUnknownTag)
				}
""", """				resp := newFcall(req.Tag, MessageRflush{})
				defer tags.remove(msg.Oldtag)
""")]),
 ("c07-forward-absent-tags", "C07", [("serveconn.go", """			if !ok || active.request != done.request {
				// The tag is no longer active, or has been reused by a newer
				// request. Likely a flushed message.
				continue
			}
""", """			if !ok {
				active = &activeRequest{ctx: c.ctx, request: done.request}
			}
			if active.request != done.request {
				continue
			}
""")]),
 ("c07-no-reply-unknown-oldtag", "C07", [("serveconn.go", """				} else {
					resp = newErrorFcall(req.Tag, ErrUnknownTag)
				}
""", """				} else {
					continue
				}
""")]),
 ("c07-remove-no-cancel", "C07", [("serveconn.go", """		active.cancel() // propagate cancellation to callees
		delete(tags, t)""", """		_ = active
		delete(tags, t)""")]),
 ("c07-flush-wrong-oldtag", "C07", [("serveconn.go", "if tags.remove(msg.Oldtag) {", "_ = msg\n\t\t\t\tif tags.remove(req.Tag) {")]),
 ("c07-identity-by-tag-only", "C07", [("serveconn.go", "if !ok || active.request != done.request {", "if !ok || active.request.Tag != done.request.Tag {")]),

 # ---- C09
 ("c09-swap-uname-aname", "C09", [("csession.go", """	m := MessageTattach{
		Fid:   fid,
		Afid:  afid,
		Uname: uname,
		Aname: aname,
	}""", """	m := MessageTattach{
		Fid:   fid,
		Afid:  afid,
		Uname: aname,
		Aname: uname,
	}""")]),
 ("c09-offset-through-uint32", "C09", [("csession.go", """	resp, err := c.transport.send(ctx, MessageTread{
		Fid:    fid,
		Offset: uint64(offset),""", """	resp, err := c.transport.send(ctx, MessageTread{
		Fid:    fid,
		Offset: uint64(uint32(offset)),""")]),
 ("c09-server-swaps-fids", "C09", [("ssesssion.go", "session.Walk(ctx, msg.Fid, msg.Newfid, msg.Wnames...)", "session.Walk(ctx, msg.Newfid, msg.Fid, msg.Wnames...)")]),
 ("c09-server-write-offset-int32", "C09", [("ssesssion.go", "n, err := session.Write(ctx, msg.Fid, msg.Data, int64(msg.Offset))", "n, err := session.Write(ctx, msg.Fid, msg.Data, int64(int32(msg.Offset)))")]),
 ("c09-create-perm-mode-confused", "C09", [("ssesssion.go", "session.Create(ctx, msg.Fid, msg.Name, msg.Perm, msg.Mode)", "session.Create(ctx, msg.Fid, msg.Name, uint32(msg.Mode), Flag(msg.Perm))")]),
 ("c09-client-open-iounit-zero", "C09", [("csession.go", "	return ropen.Qid, ropen.IOUnit, nil", "	return ropen.Qid, 0, nil")]),
 ("c09-server-rcreate-iounit-dropped", "C09", [("ssesssion.go", """		return MessageRcreate{
			Qid:    qid,
			IOUnit: iounit,
		}, nil""", """		_ = iounit
		return MessageRcreate{
			Qid: qid,
		}, nil""")]),
 ("c09-client-wstat-wrong-type", "C09", [("csession.go", """	_, ok := resp.(MessageRwstat)
	if !ok {
		return ErrUnexpectedMsg
	}""", """	_, ok := resp.(MessageRclunk)
	if !ok {
		return ErrUnexpectedMsg
	}""")]),
 ("c09-read-count-from-cap", "C09", [("csession.go", "		Count:  uint32(len(p)),", "		Count:  uint32(cap(p)),")]),
 ("c09-server-read-data-whole-buffer", "C09", [("ssesssion.go", """		return MessageRread{
			Data: p[:n],
		}, nil""", """		_ = n
		return MessageRread{
			Data: p,
		}, nil""")]),
 ("c09-write-count-from-len", "C09", [("ssesssion.go", """		return MessageRwrite{
			Count: uint32(n),
		}, nil""", """		_ = n
		return MessageRwrite{
			Count: uint32(len(msg.Data)),
		}, nil""")]),
 ("c09-client-drops-transport-error", "C09", [("csession.go", """	resp, err := c.transport.send(ctx, MessageTstat{Fid: fid})
	if err != nil {
		return Dir{}, err
	}""", """	resp, _ := c.transport.send(ctx, MessageTstat{Fid: fid})""")]),

 # ---- C01
 ("c01-swap-uname-aname-decl", "C01", [("messages.go", """type MessageTauth struct {
	Afid  Fid
	Uname string
	Aname string
}""", """type MessageTauth struct {
	Afid  Fid
	Aname string
	Uname string
}""")]),
 ("c01-dir-uid-gid-swapped", "C01", [("types.go", """	UID    string
	GID    string""", """	GID    string
	UID    string""")]),
 ("c01-tclunk-tremove-consts", "C01", [("fcall.go", """	Tclunk
	Rclunk
	Tremove
	Rremove""", """	Tremove
	Rremove
	Tclunk
	Rclunk""")]),
 ("c01-newmessage-drop-rflush", "C01", [("messages.go", """	case Rflush:
		return MessageRflush{}, nil // No message body for this response.
""", "")]),
 ("c01-newmessage-wrong-struct", "C01", [("messages.go", """	case Tremove:
		return MessageTremove{}, nil""", """	case Tremove:
		return MessageTclunk{}, nil""")]),
 ("c01-string-len-uint32", "C01", [("encoding.go", "if err := binary.Write(e.wr, binary.LittleEndian, uint16(len(v))); err != nil {", "if err := binary.Write(e.wr, binary.LittleEndian, uint32(len(v))); err != nil {")]),
 ("c01-big-endian-read", "C01", [("encoding.go", """		case *uint8, *uint16, *uint32, *uint64, *FcallType, *Tag, *QType, *Fid, *Flag:
			if err := binary.Read(d.rd, binary.LittleEndian, v); err != nil {""", """		case *uint8, *uint16, *uint32, *uint64, *FcallType, *Tag, *QType, *Fid, *Flag:
			if err := binary.Read(d.rd, binary.BigEndian, v); err != nil {""")]),
 ("c01-qid-order", "C01", [("encoding.go", "if err := e.encode(v.Type, v.Version, v.Path); err != nil {", "if err := e.encode(v.Version, v.Type, v.Path); err != nil {")]),
 ("c01-size-twstat-no-extra", "C01", [("encoding.go", """			case *MessageTwstat, MessageTwstat:
				s += size9p(uint16(0)) // for extra size field before dir
""", """			case *MessageTwstat, MessageTwstat:
""")]),
 ("c01-size-qids-count-missing", "C01", [("encoding.go", """		case []Qid:
			s += size9p(uint16(0))
			elements := make([]interface{}, len(v))""", """		case []Qid:
			elements := make([]interface{}, len(v))""")]),
 ("c01-encode-drop-flag-case", "C01", [("encoding.go", """		case uint8, uint16, uint32, uint64, FcallType, Tag, QType, Fid, Flag,
			*uint8, *uint16, *uint32, *uint64, *FcallType, *Tag, *QType, *Fid, *Flag:
			if err := binary.Write(e.wr, binary.LittleEndian, v); err != nil {""", """		case uint8, uint16, uint32, uint64, FcallType, Tag, QType, Fid,
			*uint8, *uint16, *uint32, *uint64, *FcallType, *Tag, *QType, *Fid, *Flag:
			if err := binary.Write(e.wr, binary.LittleEndian, v); err != nil {""")]),
 ("c01-type-method-wrong", "C01", [("messages.go", "func (MessageTwstat) Type() FcallType   { return Twstat }", "func (MessageTwstat) Type() FcallType   { return Tstat }")]),
 ("c01-decode-time-no-utc-ms", "C01", [("encoding.go", "*v = time.Unix(int64(epoch), 0).UTC()", "*v = time.Unix(0, int64(epoch)).UTC()")]),
 ("c01-fields9p-reverse", "C01", [("encoding.go", """	for i := 0; i < rv.NumField(); i++ {
		f := rv.Field(i)

		if !f.CanInterface() {""", """	for i := rv.NumField() - 1; i >= 0; i-- {
		f := rv.Field(i)

		if !f.CanInterface() {""")]),
 ("c01-dir-size-not-doubled-decode", "C01", [("encoding.go", """				var ll uint16
				if err := d.decode(&ll); err != nil {
					return err
				}
			case MessageTwstat, *MessageTwstat:
				if err := d.decode(elements[0]); err != nil {""", """			case MessageTwstat, *MessageTwstat:
				if err := d.decode(elements[0]); err != nil {""")]),

 # ---- C15
 ("c15-wstat-path-from-name", "C15", [("ufs/dirent.go", "		ref.Path = rel\n", "		ref.Path = dir.Name\n")]),
 ("c15-fullpath-no-clean-check", "C15", [("ufs/filesys.go", """	if path.Clean(p) != p { // removes ../ at root.
		return "", p9p.MessageRerror{Ename: "Invalid path"}
	}
""", "")]),
 ("c15-remove-no-root-test", "C15", [("ufs/dirent.go", """	if ref.Path == "/" || ref.Path == "\\\\" {
		return p9p.MessageRerror{Ename: "cannot remove root"}
	}
""", "")]),
 ("c15-create-join-base-directly", "C15", [("ufs/dirent.go", """	newpath, err := ref.fs.fullPath(newrel)
	if err != nil { // should always succeed
		return nil, nil, err
	}
""", """	newpath := ref.fs.Base + "/" + name
""")]),
 ("c15-rename-target-unchecked", "C15", [("ufs/dirent.go", """		newpath, err := ref.fs.fullPath(rel)
		if err != nil {
			return err
		}
		if err = syscall.Rename(ref.fullPath(), newpath); err != nil {""", """		newpath := ref.fs.Base + "/" + dir.Name
		if err = syscall.Rename(ref.fullPath(), newpath); err != nil {""")]),
 ("c15-fullpath-ignores-abs", "C15", [("ufs/filesys.go", """	if !path.IsAbs(p) || strings.Contains(p, "\\\\") {""", """	if strings.Contains(p, "\\\\") {""")]),
 ("c15-session-walk-no-validpath", "C15", [("sfilesys.go", """	bsp := ValidPath(names)
	if bsp < 0 { // check that path is normalized
		return nil, MessageRerror{Ename: "Non-normalized path"}
	}
""", "")]),

 # ---- C16
 ("c16-validpath-no-containsany", "C16", [("path.go", """		} else {
			if strings.ContainsAny(s, "\\\\/") {
				return -1
			}
		}""", """		}""")]),
 ("c16-validpath-only-slash", "C16", [("path.go", """			if strings.ContainsAny(s, "\\\\/") {
				return -1
			}
		}
	}
	return n""", """			if strings.ContainsAny(s, "/") {
				return -1
			}
		}
	}
	return n""")]),
 ("c16-validpath-dotdot-anywhere", "C16", [("path.go", """			if n != i {
				return -1
			}
			n++""", """			if n > i {
				return -1
			}
			n++""")]),
 ("c16-createname-accepts-dotdot", "C16", [("path.go", """len(name) == 0 || name == "." || name == ".." {""", """len(name) == 0 || name == "." {""")]),
 ("c16-walkname-no-depth-bound", "C16", [("path.go", "	if bsp < 0 || bsp > depth {", "	if bsp < 0 || bsp > depth+1000 {")]),
 ("c16-walkname-depth-off", "C16", [("path.go", """depth := strings.Count(dir[:len(dir)-1], "/")""", """depth := strings.Count(dir, "/")""")]),
 ("c16-normalize-keeps-dot", "C16", [("path.go", """		if len(s) == 0 || s == "." { // skip
			continue
		}""", """		if len(s) == 0 { // skip
			continue
		}""")]),
 ("c16-normalize-sep-only-slash", "C16", [("path.go", """		if strings.ContainsAny(s, "\\\\/") {
			return nil, -1
		}""", """		if strings.ContainsAny(s, "/") {
			return nil, -1
		}""")]),
 ("c16-validpath-accepts-empty", "C16", [("path.go", """		if len(s) == 0 || s == "." {
			return -1
		} else if s == ".." {""", """		if s == "." {
			return -1
		} else if s == ".." {""")]),
 ("c16-normalize-cursor-overflow", "C16", [("path.go", """	ans := make([]string, len(args))
""", """	ans := make([]string, len(args)/2+1)
""")]),

 # ---- C17
 ("c17-no-offset-test", "C17", [("readdir.go", """	if rd.offset != offset {
		return 0, ErrBadoffset
	}
""", "")]),
 ("c17-append-on-overflow", "C17", [("readdir.go", """		if len(p)+len(dp) > cap(p) {
			// will over fill buffer. save item and exit.
			rd.buf = &d
			goto done
		}
""", """		if len(p)+len(dp) > cap(p)+len(dp) {
			// will over fill buffer. save item and exit.
			rd.buf = &d
			goto done
		}
""")]),
 ("c17-drop-lookahead", "C17", [("readdir.go", """			rd.buf = &d
			goto done""", """			goto done""")]),
 ("c17-offset-advance-off", "C17", [("readdir.go", "	rd.offset += int64(len(p))\n", "	rd.offset += int64(len(p)) + 1\n")]),
 ("c17-buf-not-cleared", "C17", [("readdir.go", """			d = *rd.buf
			rd.buf = nil""", """			d = *rd.buf""")]),
 ("c17-eof-escapes", "C17", [("readdir.go", """	if err == io.EOF {
		// Don't let io.EOF escape. EOF is indicated by a zero-length result
		// with no error.
		err = nil
	}
""", """	_ = io.EOF
""")]),
 ("c17-next-ignores-pending", "C17", [("readdir.go", """		if rd.buf != nil {
			d = *rd.buf
			rd.buf = nil
		} else {
			d, err = rd.nextfn(ctx)
			if err != nil {
				goto done
			}
		}""", """		if rd.buf != nil {
			rd.buf = nil
		}
		d, err = rd.nextfn(ctx)
		if err != nil {
			goto done
		}""")]),
 ("c17-session-opens-dir-as-file", "C17", [("sfilesys.go", """	if IsDir(ref.Ent) {
		dirs, err := ref.Ent.OpenDir(ctx)""", """	if IsDir(ref.Ent) && mode == OEXEC {
		dirs, err := ref.Ent.OpenDir(ctx)""")]),
 ("c17-client-nread-not-advanced", "C17", [("cfilesys.go", "	dir.nread += int64(n)\n", "")]),
 ("c17-client-decodes-whole-buf", "C17", [("cfilesys.go", "	rd := bytes.NewReader(dir.buf[:n])", "	rd := bytes.NewReader(dir.buf)")]),
 ("c17-mknext-empty-batch-not-done", "C17", [("readdir.go", """			if len(ret) == 0 {
				done = true
				return Dir{}, io.EOF
			}""", """			if len(ret) == 0 {
				return Dir{}, io.EOF
			}""")]),
 ("c17-mknext-no-empty-check", "C17", [("readdir.go", """			if len(ret) == 0 {
				done = true
				return Dir{}, io.EOF
			}
			dirs = make([]Dir, len(ret))""", """			done = len(ret) == 0
			dirs = make([]Dir, len(ret))""")]),
 ("c17-work-slice-full-cap", "C17", [("readdir.go", "	p = p[:0:len(p)]", "	p = p[:0]")]),

 # ---- C18
 ("c18-walk-no-parents-guard", "C18", [("ramfs/dirent.go", """	if ndel > len(h.parents) {
		return nil, noHandle, p9p.MessageRerror{Ename: "invalid path"}
	}
""", "")]),
 ("c18-write-no-lock", "C18", [("ramfs/dirent.go", """func (ref *FileEnt) Write(ctx context.Context, p []byte,
	offset int64) (int, error) {
	ref.Lock()
	defer ref.Unlock()
""", """func (ref *FileEnt) Write(ctx context.Context, p []byte,
	offset int64) (int, error) {
""")]),
 ("c18-read-upper-guard-dropped", "C18", [("ramfs/dirent.go", """	if offset > n {
		return 0, io.EOF
	}
	m := int64(len(p))""", """	_ = io.EOF
	m := int64(len(p))""")]),
 ("c18-wstat-truncate-unguarded", "C18", [("ramfs/dirent.go", """		if m < dir.Length {
			return p9p.MessageRerror{Ename: "Size larger than file"}
		}
""", """		_ = m
""")]),
 ("c18-incref-no-unlock", "C18", [("ramfs/inode.go", """	f.Lock()
	defer f.Unlock()

	f.nref++
	return f.Info.Name""", """	f.Lock()

	f.nref++
	return f.Info.Name""")]),
 ("c18-read-returns-len-p", "C18", [("ramfs/dirent.go", """	copy(p[:m], ref.Data[offset:offset+m])
	return int(m), nil""", """	copy(p[:m], ref.Data[offset:offset+m])
	return len(ref.Data), nil""")]),
 ("c18-clunk-index-off", "C18", [("ramfs/dirent.go", "h.parents[len(h.parents)-i-1].decref()", "h.parents[len(h.parents)-i].decref()")]),
 ("c18-link-child-unlocked", "C18", [("ramfs/inode.go", """func (f *FileEnt) link_child(name string, c *FileEnt) error {
	f.Lock()
	defer f.Unlock()
""", """func (f *FileEnt) link_child(name string, c *FileEnt) error {
""")]),
 ("c18-createimpl-parents-short", "C18", [("ramfs/dirent.go", "	parents := make([]*FileEnt, len(h.parents)+1)", "	parents := make([]*FileEnt, len(h.parents))")]),

 # ---- C19
 ("c19-oflags-swap", "C19", [("ufs/util.go", """	case p9p.ORDWR:
		flags = os.O_RDWR
		break

	case p9p.OWRITE:
		flags = os.O_WRONLY
		break""", """	case p9p.ORDWR:
		flags = os.O_WRONLY
		break

	case p9p.OWRITE:
		flags = os.O_RDWR
		break""")]),
 ("c19-length-from-modtime", "C19", [("ufs/util.go", "	dir.Length = uint64(info.Size())", "	dir.Length = uint64(info.ModTime().Unix())")]),
 ("c19-writeat-zero", "C19", [("ufs/dirent.go", "	return ref.file.WriteAt(p, offset)", "	return ref.file.WriteAt(p, 0)")]),
 ("c19-trunc-always", "C19", [("ufs/util.go", """	if mode&p9p.OTRUNC != 0 {
		flags |= os.O_TRUNC
	}""", """	if mode&p9p.OTRUNC == 0 {
		flags |= os.O_TRUNC
	}""")]),
 ("c19-dmdir-unconditional", "C19", [("ufs/util.go", """	if info.Mode().IsDir() {
		dir.Qid.Type |= p9p.QTDIR
		dir.Mode |= p9p.DMDIR
	}""", """	dir.Mode |= p9p.DMDIR
	if info.Mode().IsDir() {
		dir.Qid.Type |= p9p.QTDIR
	}""")]),
 ("c19-wstat-chmod-ignores-sentinel", "C19", [("ufs/dirent.go", "	if dir.Mode != ^uint32(0) {", "	if dir.Mode != 0 {")]),
 ("c19-create-perm-unmasked", "C19", [("ufs/dirent.go", "os.OpenFile(newpath, oflags(mode)|os.O_CREATE, os.FileMode(perm&0777))", "os.OpenFile(newpath, oflags(mode)|os.O_CREATE, os.FileMode(perm&0700))")]),
 ("c19-open-ignores-mode", "C19", [("ufs/dirent.go", "file, err := os.OpenFile(ref.fullPath(), oflags(mode), 0)", "file, err := os.OpenFile(ref.fullPath(), os.O_RDWR, 0)")]),
 ("c19-truncate-wrong-length", "C19", [("ufs/dirent.go", "os.Truncate(ref.fullPath(), int64(dir.Length))", "os.Truncate(ref.fullPath(), int64(dir.Mode))")]),
 # ---- C20
 ("c20-clunk-other-fid", "C20", [("cfilesys.go", "	return ent.fs.session.Clunk(ctx, ent.fid)", "	return ent.fs.session.Clunk(ctx, ent.fs.root.fid)")]),
 ("c20-partial-walk-returns-next", "C20", [("cfilesys.go", """	if len(qids) != len(steps) { // incomplete = failure to get new ent
		return qids, noEnt, Warning{"Incomplete walk result"}
	}""", """	if len(qids) == 0 && len(steps) > 0 { // incomplete = failure to get new ent
		return qids, noEnt, Warning{"Incomplete walk result"}
	}""")]),
 ("c20-newfid-no-increment", "C20", [("cfilesys.go", """	fs.nextfid++
	return fs.nextfid""", """	return fs.nextfid + 1""")]),
 ("c20-remove-calls-clunk", "C20", [("cfilesys.go", "	return ent.fs.session.Remove(ctx, ent.fid)", "	return ent.fs.session.Clunk(ctx, ent.fid)")]),
 ("c20-walk-reuses-fid", "C20", [("cfilesys.go", "	qids, err := ent.fs.session.Walk(ctx, ent.fid, next.fid, steps...)", "	qids, err := ent.fs.session.Walk(ctx, ent.fid, ent.fid+1, steps...)")]),
 ("c20-walk-sends-raw-names", "C20", [("cfilesys.go", "	qids, err := ent.fs.session.Walk(ctx, ent.fid, next.fid, steps...)", "	qids, err := ent.fs.session.Walk(ctx, ent.fid, next.fid, names...)")]),
 ("c20-stat-on-next-fid", "C20", [("cfilesys.go", "	return ent.fs.session.Stat(ctx, ent.fid)", "	return ent.fs.session.Stat(ctx, ent.fs.nextfid)")]),
 ("c20-nextfid-reset", "C20", [("cfilesys.go", """	rootFid := fs.newFid()
""", """	fs.nextfid = 0
	rootFid := fs.newFid()
""")]),
]

# Behaviour-preserving (for the named property) edits: the check must stay silent.
BENIGN = [
 ("c15-walk-concat", "C15", [("ufs/dirent.go", """	newpath, err := p9p.WalkName(ref.Path, names...)
	if err != nil {
		return nil, nil, err
	}
	next, err := ref.fs.newRef(newpath)""", """	newpath := ref.Path + "/" + names[0]
	next, err := ref.fs.newRef(newpath)""")]),
 ("c15-newref-stat-unvalidated", "C15", [("ufs/filesys.go", """	info, err := os.Stat(fpath)""", """	info, err := os.Stat(filepath.Join(fs.Base, p))
	_ = fpath""")]),

 ("c03-header-readfull-uint32", "C03", [("channel.go", """	var msize uint32

	if err := binary.Read(rd, binary.LittleEndian, &msize); err != nil {
		return 0, err
	}
""", """	var hdr [4]byte
	if _, err := io.ReadFull(rd, hdr[:]); err != nil {
		return 0, err
	}
	msize := binary.LittleEndian.Uint32(hdr[:])
""")]),

 ("c16-depth-trimsuffix", "C16", [("path.go", """depth := strings.Count(dir[:len(dir)-1], "/")""", """depth := strings.Count(strings.TrimSuffix(dir, "/"), "/")""")]),

 ("c18-walk-append-full-slice-expr", "C18", [("ramfs/dirent.go", """		rh.parents = make([]*FileEnt, len(h.parents)-ndel + 1 + len(ans)-ndel)
""", """		keep := len(h.parents) - ndel
		rh.parents = append(append(h.parents[:keep:keep], ref), ans[ndel:]...)
		rh.parents = append([]*FileEnt(nil), rh.parents...)
"""), ("ramfs/dirent.go", """		i0 := len(h.parents)-ndel + 1
		for i := range rh.parents {
			var p *FileEnt
			if i < len(h.parents)-ndel {
				p = h.parents[i]
			} else if i >= i0 {
				p = ans[ndel+i-i0]
			} else {
				p = ref
			}
			p.incref()
			rh.parents[i] = p
		}""", """		for _, p := range rh.parents {
			p.incref()
		}""")]),
]
