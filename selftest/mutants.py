# (name, property, [(file, old, new), ...]) — every `old` must occur exactly once.
MUTANTS = [
 # ---- C02
 ("c02-no-truncate-call", "C02", [("channel.go", """	if err := ch.maybeTruncate(fcall); err != nil {
		return err
	}

	p, err := ch.codec.Marshal(fcall)""", """	p, err := ch.codec.Marshal(fcall)""")]),
 ("c02-default-ge", "C02", [("channel.go", "		if size > ch.msize {\n			// overflow the msize, including the channel message size fields.\n			return overflowErr{size: size - ch.msize}", "		if size >= ch.msize {\n			// overflow the msize, including the channel message size fields.\n			return overflowErr{size: size - ch.msize}")]),
 ("c02-twrite-lt", "C02", [("channel.go", "		if size <= ch.msize {\n			return nil", "		if size <= ch.msize+1 {\n			return nil")]),
 ("c02-truncate-off-by-one", "C02", [("channel.go", "msg.Data = msg.Data[:len(msg.Data)-overflow]", "msg.Data = msg.Data[:len(msg.Data)-overflow+1]")]),
 ("c02-drop-store", "C02", [("channel.go", "		fcall.Message = msg // since we have a local copy\n", "")]),
 ("c02-tread-off-by-one", "C02", [("channel.go", "		msg.Count -= overflow\n", "		msg.Count -= overflow - 1\n")]),
 ("c02-tread-nonempty-resp", "C02", [("channel.go", "resp := newFcall(fcall.Tag, MessageRread{})", "resp := newFcall(fcall.Tag, MessageRwrite{})")]),
 ("c02-header-no-plus4", "C02", [("channel.go", "size := uint32(len(p) + 4)", "size := uint32(len(p))")]),
 ("c02-zero-tail", "C02", [("channel.go", "		msg.Data = msg.Data[:len(msg.Data)-overflow]\n", "		for i := len(msg.Data) - overflow; i < len(msg.Data); i++ {\n			msg.Data[i] = 0\n		}\n		msg.Data = msg.Data[:len(msg.Data)-overflow]\n")]),
 ("c02-overflow-amount", "C02", [("channel.go", "			return overflowErr{size: size - ch.msize}\n		}\n\n		return nil\n	}\n\n}", "			return overflowErr{size: size - ch.msize + 4}\n		}\n\n		return nil\n	}\n\n}")]),
 ("c02-msgmsize-no-header", "C02", [("channel.go", "return channelMessageHeaderSize + ch.codec.Size(fcall)", "return ch.codec.Size(fcall)")]),
 ("c02-flush-error-dropped", "C02", [("channel.go", "	return ch.bwr.Flush()\n}", "	ch.bwr.Flush()\n	return nil\n}")]),
]
