#!/usr/bin/env python3
"""Checker sensitivity self-test (development tool, not a registered check).

Each mutant is (name, property, [(file, old, new), ...]).  For each one a scratch
copy of /repo's working tree is made under $TMPDIR, the edit applied, `go build`
run (a mutant must compile), and the checker run with -repo on the copy; the
named property's check must exit 1.  With --tests the repository's test suite is
also run on the mutant (it should still pass: the mutants are meant to be
invisible to the suite).  Revert patches of the fix commits (selftest/revert) are
run the same way.  Usage: run.py [--tests] [--only substr] [--props C02,C03]
"""
import os, sys, subprocess, shutil, tempfile, json, importlib.util, glob

HERE = os.path.dirname(os.path.abspath(__file__))
REPO = os.environ.get("REPO", "/repo")
BIN = os.environ.get("P9PCHECK_BIN", "/verif/bin/p9pcheck")
ENV = dict(os.environ, GOFLAGS="-mod=mod", GOPROXY="off", GOSUMDB="off", GOTOOLCHAIN="local", GOWORK="off")

def load_mutants():
    spec = importlib.util.spec_from_file_location("mutants", os.path.join(HERE, "mutants.py"))
    m = importlib.util.module_from_spec(spec); spec.loader.exec_module(m)
    return m.MUTANTS, getattr(m, "BENIGN", [])

def scratch():
    d = tempfile.mkdtemp(prefix="p9pmut-")
    subprocess.check_call(["rsync", "-a", "--exclude", ".git", REPO + "/", d + "/"])
    return d

def run_check(prop, repo, evdir):
    p = subprocess.run([BIN, "-prop", prop, "-repo", repo, "-evidence", evdir], env=dict(ENV, VERIF_DIR="/verif"), capture_output=True, text=True)
    return p.returncode, p.stdout + p.stderr

def main():
    args = sys.argv[1:]
    tests = "--tests" in args
    only = args[args.index("--only") + 1] if "--only" in args else None
    props = args[args.index("--props") + 1].split(",") if "--props" in args else None
    verbose = "-v" in args
    results = []
    evdir = tempfile.mkdtemp(prefix="p9pev-")
    items = []
    muts, benign = load_mutants()
    for name, prop, edits in muts:
        items.append((name, prop, edits, None))
    for name, prop, edits in benign:
        items.append(("BENIGN:" + name, prop, edits, None))
    for f in sorted(glob.glob(os.path.join(HERE, "revert", "*.diff"))):
        meta = json.load(open(os.path.join(HERE, "revert", "props.json")))
        d = os.path.basename(f)[:-5]
        for prop in meta.get(d, []):
            items.append(("revert-" + d, prop, None, f))
    bad = 0
    for name, prop, edits, patch in items:
        if only and only not in name: continue
        if props and prop not in props: continue
        d = scratch()
        try:
            if patch:
                pr = subprocess.run(["patch", "-s", "-p1", "-d", d, "-i", patch], capture_output=True, text=True)
                if pr.returncode != 0:
                    print(f"SKIP {name}: patch does not apply to the current tree"); continue
            else:
                for (fn, old, new) in edits:
                    p = os.path.join(d, fn); s = open(p).read()
                    if s.count(old) != 1:
                        print(f"SKIP {name}: pattern occurs {s.count(old)} times in {fn}"); raise StopIteration
                    open(p, "w").write(s.replace(old, new))
            b = subprocess.run(["go", "build", "./..."], cwd=d, env=ENV, capture_output=True, text=True)
            if b.returncode != 0:
                print(f"NOBUILD {name}: {b.stderr.strip()[:300]}"); bad += 1; continue
            tmsg = ""
            if tests:
                t = subprocess.run(["go", "test", "-vet=off", "-count=1", "-timeout", "90s", "./..."], cwd=d, env=ENV, capture_output=True, text=True)
                tmsg = " tests=" + ("pass" if t.returncode == 0 else "FAIL")
            rc, out = run_check(prop, d, evdir)
            first = [l for l in out.splitlines() if "[" + prop + "/" in l][:2]
            if name.startswith("BENIGN:"):
                ok = rc == 0
                if not ok: bad += 1
                print(("SILENT " if ok else "FALSE-ALARM ") + f"{prop} {name}{tmsg}" + ("" if ok else "\n    " + "\n    ".join(first)))
                continue
            ok = rc == 1 and ("VIOLATION property=" + prop) in out
            if not ok: bad += 1
            print(("KILLED " if ok else "MISSED ") + f"{prop} {name}{tmsg}" + ("" if not ok or not verbose else "\n    " + "\n    ".join(first)))
            if not ok and verbose: print(out[-1500:])
        except StopIteration:
            bad += 1
        finally:
            shutil.rmtree(d, ignore_errors=True)
    # behaviour-preserving refactorings (cumulative patches against the base tree): all 20 checks must stay silent
    if "--benign" in args:
        for f in sorted(glob.glob(os.path.join(HERE, "benign", "*.diff"))):
            name = os.path.basename(f)[:-5]
            if only and only not in name: continue
            d = scratch()
            try:
                pr = subprocess.run(["patch", "-s", "-p1", "-d", d, "-i", f], capture_output=True, text=True)
                if pr.returncode != 0:
                    print(f"SKIP refactor {name}: patch does not apply to the current tree"); continue
                b = subprocess.run(["go", "build", "./..."], cwd=d, env=ENV, capture_output=True, text=True)
                if b.returncode != 0:
                    print(f"NOBUILD refactor {name}"); bad += 1; continue
                alarms = []
                for prop in ["C%02d" % i for i in range(1, 21)]:
                    if props and prop not in props: continue
                    rc, out = run_check(prop, d, evdir)
                    if rc != 0:
                        alarms.append(prop + ": " + " | ".join([l for l in out.splitlines() if "[" + prop + "/" in l][:2])[:300])
                if alarms:
                    bad += 1
                    print(f"FALSE-ALARM refactor {name}\n    " + "\n    ".join(alarms))
                else:
                    print(f"SILENT refactor {name} (all checks)")
            finally:
                shutil.rmtree(d, ignore_errors=True)
    shutil.rmtree(evdir, ignore_errors=True)
    print(f"{bad} problems")
    sys.exit(1 if bad else 0)

main()
