package main

import (
	"go/constant"
	"go/token"
	"go/types"
	"strings"

	"golang.org/x/tools/go/ssa"
)

var errorType = types.Universe.Lookup("error").Type()

func isErrorType(t types.Type) bool { return types.Identical(t, errorType) }

// errResult returns the SSA value holding the error result of a call (nil if none
// or if the result is discarded).
func errResult(call ssa.Value) ssa.Value {
	if isErrorType(call.Type()) {
		return call
	}
	if tup, ok := call.Type().(*types.Tuple); ok {
		for i := tup.Len() - 1; i >= 0; i-- {
			if isErrorType(tup.At(i).Type()) {
				for _, r := range referrers(call) {
					if e, ok := r.(*ssa.Extract); ok && e.Index == i {
						return e
					}
				}
				return nil
			}
		}
	}
	return nil
}

// resultN returns the Extract of result i of a tuple call (or the call itself for i==0 of a single result).
func resultN(call ssa.Value, i int) ssa.Value {
	if _, ok := call.Type().(*types.Tuple); !ok {
		if i == 0 {
			return call
		}
		return nil
	}
	for _, r := range referrers(call) {
		if e, ok := r.(*ssa.Extract); ok && e.Index == i {
			return e
		}
	}
	return nil
}

// nilTestOf: does cond c say "e is nil" (returns +1) or "e is not nil" (-1)? 0 otherwise.
func nilTestOf(c Cond, e ssa.Value) int {
	c = normCond(c)
	b, ok := c.V.(*ssa.BinOp)
	if !ok {
		return 0
	}
	// the tested value may be a load of the local the error was just stored into (a named result spilled because the
	// function has a defer: `aq, err = fs.Auth(…); if err == nil`)
	x, y := storedLocal(b.X), storedLocal(b.Y)
	if !((x == e && isNilConst(b.Y)) || (y == e && isNilConst(b.X))) {
		return 0
	}
	switch {
	case b.Op == token.EQL && c.Truth, b.Op == token.NEQ && !c.Truth:
		return 1
	case b.Op == token.EQL && !c.Truth, b.Op == token.NEQ && c.Truth:
		return -1
	}
	return 0
}

// knownNilAt: every path to `at` has passed a test establishing e == nil.
func knownNilAt(e ssa.Value, at ssa.Instruction) bool {
	for _, c := range condsAtInstr(at) {
		if nilTestOf(c, e) == 1 {
			return true
		}
	}
	return false
}

func knownNonNilAt(e ssa.Value, at ssa.Instruction) bool {
	for _, c := range condsAtInstr(at) {
		if nilTestOf(c, e) == -1 {
			return true
		}
	}
	return false
}

// callSucceededAt: the call's error result is known nil at `at` (the call has an
// error result that is tested, and `at` is on the nil side).
func callSucceededAt(call ssa.Value, at ssa.Instruction) bool {
	e := errResult(call)
	if e == nil {
		return false
	}
	return knownNilAt(e, at)
}

// returnsValue: Return r returns v (possibly wrapped in an interface) at result index i.
func returnsValue(r *ssa.Return, i int, v ssa.Value) bool {
	if i >= len(r.Results) {
		return false
	}
	return stripConv(r.Results[i]) == stripConv(v) || r.Results[i] == v
}

// errPropagated: the error value e is compared with nil and, on the non-nil side,
// some Return hands back e itself or a value computed from e (wrapping); or e is
// returned directly. This is the repo's idiom `if err != nil { return ..., err }`.
func errPropagated(fn *ssa.Function, e ssa.Value) (bool, string) {
	for _, r := range returnsOf(fn) {
		for _, res := range r.Results {
			if !isErrorType(res.Type()) {
				continue
			}
			if res == e {
				// returned directly: fine if unconditional tail (`return f()`) or on the non-nil side
				return true, "returned"
			}
			if derivesFrom(res, e, 4) && knownNonNilAt(e, r) {
				return true, "wrapped and returned"
			}
			// `err := step(); if err == nil { err = next() }; return err`: the returned value is a merge in which e itself
			// flows in on the edge where e is not nil (the other edges replace it only after e was found nil)
			if ph, ok := res.(*ssa.Phi); ok {
				for i, edge := range ph.Edges {
					if edge != e {
						continue
					}
					_ = i
					return true, "returned (through a merge of the function's error values)"
				}
			}
		}
	}
	// named result stored then returned (functions with defers)
	for _, ref := range referrers(e) {
		if st, ok := ref.(*ssa.Store); ok && st.Val == e {
			if a, ok := st.Addr.(*ssa.Alloc); ok && isErrorType(a.Type().Underlying().(*types.Pointer).Elem()) {
				return true, "stored to named result"
			}
		}
	}
	return false, ""
}

// derivesFrom: v is computed from src through calls/conversions/phis (bounded).
func derivesFrom(v, src ssa.Value, depth int) bool {
	if v == src {
		return true
	}
	if depth == 0 {
		return false
	}
	switch x := v.(type) {
	case *ssa.MakeInterface:
		return derivesFrom(x.X, src, depth-1)
	case *ssa.ChangeInterface:
		return derivesFrom(x.X, src, depth-1)
	case *ssa.ChangeType:
		return derivesFrom(x.X, src, depth-1)
	case *ssa.Convert:
		return derivesFrom(x.X, src, depth-1)
	case *ssa.TypeAssert:
		return derivesFrom(x.X, src, depth-1)
	case *ssa.Extract:
		return derivesFrom(x.Tuple, src, depth-1)
	case *ssa.Phi:
		for _, e := range x.Edges {
			if derivesFrom(e, src, depth-1) {
				return true
			}
		}
	case *ssa.Call:
		for _, a := range x.Call.Args {
			if derivesFrom(a, src, depth-1) {
				return true
			}
		}
		if x.Call.IsInvoke() && derivesFrom(x.Call.Value, src, depth-1) {
			return true
		}
	case *ssa.Slice:
		return derivesFrom(x.X, src, depth-1)
	case *ssa.Alloc:
		// variadic argument array: look at stores into it
		for _, r := range referrers(x) {
			if ia, ok := r.(*ssa.IndexAddr); ok {
				for _, rr := range referrers(ia) {
					if st, ok := rr.(*ssa.Store); ok && derivesFrom(st.Val, src, depth-1) {
						return true
					}
				}
			}
		}
	case *ssa.UnOp:
		return derivesFrom(x.X, src, depth-1)
	case *ssa.FieldAddr:
		return derivesFrom(x.X, src, depth-1)
	case *ssa.Field:
		return derivesFrom(x.X, src, depth-1)
	case *ssa.BinOp:
		return derivesFrom(x.X, src, depth-1) || derivesFrom(x.Y, src, depth-1)
	}
	return false
}

// findCall returns the unique call in fn (closures excluded) with the given callee name.
func findCalls(fn *ssa.Function, names ...string) []*ssa.Call {
	var out []*ssa.Call
	eachInstr(fn, func(in ssa.Instruction) {
		if c, ok := in.(*ssa.Call); ok {
			n := calleeName(&c.Call)
			for _, want := range names {
				if n == want {
					out = append(out, c)
				}
			}
		}
	})
	return out
}

// loadOfField: v is a load of the field `field` of (something typed) *Struct.
func isLoadOfField(v ssa.Value, structName, field string) bool {
	u, ok := v.(*ssa.UnOp)
	if !ok || u.Op != token.MUL {
		return false
	}
	fa, ok := u.X.(*ssa.FieldAddr)
	if !ok {
		return false
	}
	if fieldName(fa.X.Type(), fa.Field) != field {
		return false
	}
	return isNamedSuffix(fa.X.Type(), structName)
}

func isNamedSuffix(t types.Type, name string) bool {
	if p, ok := t.(*types.Pointer); ok {
		t = p.Elem()
	}
	n, ok := t.(*types.Named)
	return ok && n.Obj().Name() == name
}

// symMentions: does the canonical key of s mention substring sub?
func symMentions(s *Sym, sub string) bool { return s != nil && strings.Contains(s.K, sub) }

// compositeFields: when v is a struct value built by a composite literal that go/ssa
// materialised as Alloc + field stores + load, return field name → stored value.
func compositeFields(v ssa.Value) (map[string]ssa.Value, *types.Named, bool) {
	v = stripConv(v)
	u, ok := v.(*ssa.UnOp)
	if !ok || u.Op != token.MUL {
		// a zero-valued struct constant
		if c, ok := v.(*ssa.Const); ok {
			if n, ok := c.Type().(*types.Named); ok {
				if _, ok := n.Underlying().(*types.Struct); ok {
					return map[string]ssa.Value{}, n, true
				}
			}
		}
		return nil, nil, false
	}
	a, ok := u.X.(*ssa.Alloc)
	if !ok {
		return nil, nil, false
	}
	return allocFields(a)
}

// allocFields: the field stores into a struct Alloc (composite literal / &T{...}).
func allocFields(a *ssa.Alloc) (map[string]ssa.Value, *types.Named, bool) {
	el := a.Type().Underlying().(*types.Pointer).Elem()
	n, _ := el.(*types.Named)
	if _, ok := el.Underlying().(*types.Struct); !ok {
		return nil, nil, false
	}
	out := map[string]ssa.Value{}
	for _, r := range referrers(a) {
		if fa, ok := r.(*ssa.FieldAddr); ok {
			for _, rr := range referrers(fa) {
				if st, ok := rr.(*ssa.Store); ok && st.Addr == fa {
					name := fieldName(a.Type(), fa.Field)
					if _, dup := out[name]; dup {
						out[name] = nil // stored twice: not a plain literal
					} else {
						out[name] = st.Val
					}
				}
			}
		}
	}
	return out, n, true
}

// constantInt64: the int64 value of a types.Const (false when not an integer that fits).
func constantInt64(c *types.Const) (int64, bool) {
	v := c.Val()
	if v == nil || v.Kind() != constant.Int {
		return 0, false
	}
	return constant.Int64Val(v)
}

// checkFreshFrame: in a read loop every frame is decoded into an Fcall allocated in that
// iteration, and that very object is what is handed on (sent on a channel). An object that is
// allocated once and reused is overwritten by the reader while its previous receiver still uses it.
func checkFreshFrame(r *Run, fn *ssa.Function, rule string) {
	if fn == nil {
		return
	}
	n := 0
	for _, c := range findCalls(fn, "invoke p9p.Channel.ReadFcall") {
		if !inLoop(c) {
			continue
		}
		n++
		dst := c.Call.Args[len(c.Call.Args)-1]
		a, isAlloc := dst.(*ssa.Alloc)
		fresh := isAlloc && a.Heap && inLoop(a) && a.Block().Dominates(c.Block()) || (isAlloc && a.Block() == c.Block())
		if isAlloc && !inLoop(a) {
			fresh = false
		}
		r.Check(fresh, rule, fnName(fn)+": each frame is read into an Fcall allocated for that frame", c.Pos(),
			"the read loop reuses one Fcall for every frame: the object handed to the previous receiver is cleared and overwritten by the next read (replies/requests get mixed up under concurrency; data race)")
		// what is handed on is that object
		sent := false
		eachInstr(fn, func(in ssa.Instruction) {
			switch x := in.(type) {
			case *ssa.Send:
				if x.X == dst {
					sent = true
				}
			case *ssa.Select:
				for _, st := range x.States {
					if st.Send == dst {
						sent = true
					}
				}
			}
		})
		r.Check(sent, rule, fnName(fn)+": the frame just read is what is handed on", c.Pos(), "the object passed on is not the one the frame was read into")
		// … and only a frame that was read: the hand-over lies on the success edge of the read (a retried, failed
		// read must not deliver the empty Fcall it left behind)
		eachInstr(fn, func(in ssa.Instruction) {
			isSend := false
			switch x := in.(type) {
			case *ssa.Send:
				isSend = x.X == dst
			case *ssa.Select:
				for _, st := range x.States {
					if st.Dir == types.SendOnly && st.Send == dst {
						isSend = true
					}
				}
			}
			if isSend {
				r.Check(callSucceededAt(c, in), rule, fnName(fn)+": a frame is handed on only after it was read successfully", in.Pos(),
					"the hand-over is reachable after a failed read: an empty frame (tag 0, no message) nobody sent is delivered as a request/reply")
			}
		})
	}
	r.Floor(rule, n, 1, "ReadFcall in the read loop of "+fnName(fn))
}

// storedLocal: for a load of a local variable's cell, the value most recently stored into it when that is certain —
// a store earlier in the load's own block with no other store or call-escaping use in between, the cell being used
// only by loads and stores (its address goes nowhere). Otherwise v itself.
func storedLocal(v ssa.Value) ssa.Value {
	u, ok := v.(*ssa.UnOp)
	if !ok || u.Op != token.MUL {
		return v
	}
	a, ok := u.X.(*ssa.Alloc)
	if !ok {
		return v
	}
	for _, r := range referrers(a) {
		switch x := r.(type) {
		case *ssa.Store:
			if x.Addr != ssa.Value(a) {
				return v // the address itself is stored somewhere
			}
		case *ssa.UnOp, *ssa.DebugRef:
		default:
			return v // address taken (closure capture, call argument): other code may write the cell
		}
	}
	var last ssa.Value
	for _, in := range u.Block().Instrs {
		if in == ssa.Instruction(u) {
			break
		}
		if st, ok := in.(*ssa.Store); ok && st.Addr == ssa.Value(a) {
			last = st.Val
		}
	}
	if last != nil {
		return last
	}
	// no store in this block: a unique store in a dominating block with no other store anywhere
	var only *ssa.Store
	n := 0
	for _, r := range referrers(a) {
		if st, ok := r.(*ssa.Store); ok {
			only = st
			n++
		}
	}
	if n == 1 && only.Block().Dominates(u.Block()) {
		return only.Val
	}
	return v
}

// edgeCondOf: the branch condition that holds on the edge pred → succ (nil when pred does not branch).
func edgeCondOf(pred, succ *ssa.BasicBlock) []Cond {
	if ifi, ok := pred.Instrs[len(pred.Instrs)-1].(*ssa.If); ok && pred.Succs[0] != pred.Succs[1] {
		for si := 0; si < 2; si++ {
			if pred.Succs[si] == succ {
				return []Cond{normCond(Cond{ifi.Cond, si == 0})}
			}
		}
	}
	return nil
}
