package main

import (
	"fmt"
	"go/token"
	"go/types"
	"strings"

	"golang.org/x/tools/go/ssa"
)

func init() { register("C15", checkC15) }

var hostPkgs = map[string]bool{"os": true, "syscall": true, "io/ioutil": true, "os/exec": true, "path/filepath": false}

func checkC15(r *Run) {
	p := r.P
	r.Decides = append(r.Decides,
		"every string argument of every call from package ufs into os / syscall / io/ioutil is host-confined: filepath.Join(fServer.Base, FromSlash(x)) with x rooted-clean (absolute, equal to its own path.Clean, no backslash) — established by the validator fServer.fullPath succeeding on x, by x being a path.Join/Clean/Dir of a rooted-clean value, or by the FileRef.Path field invariant",
		"the FileRef.Path field invariant: every store to FileRef.Path stores a value that a successful fullPath validated (newRef literal, rename in WStat)",
		"fServer.Base is written only by the constructor; os.Remove is reachable only on the edge Path != \"/\" (the export root cannot be removed)",
		"the session rejects non-normalised walk names and '.'/'..' create names before the file system sees them")
	r.NotDecided = append(r.NotDecided, "symbolic links already inside the export (excluded by the property)", "rename of the export root itself (refused only by the OS: EINVAL/EBUSY)", "Windows path semantics")
	r.Trusted = append(r.Trusted, "path.Join/Clean/Dir/IsAbs and filepath.Join/FromSlash semantics as encoded in the transfer functions")
	pt := newPT(p)
	nSinks, nArgs := 0, 0
	for _, fn := range p.FuncsOfPkg("ufs") {
		r.SawFn(fnName(fn))
		eachInstr(fn, func(in ssa.Instruction) {
			c, ok := in.(ssa.CallInstruction)
			if !ok {
				return
			}
			g := staticCallee(c.Common())
			if g == nil || g.Pkg == nil || !hostPkgs[g.Pkg.Pkg.Path()] {
				return
			}
			hasStr := false
			for i, a := range c.Common().Args {
				b, ok := a.Type().Underlying().(*types.Basic)
				if !ok || b.Info()&types.IsString == 0 {
					continue
				}
				// the only string parameters of the os/syscall functions used here are paths; user.Lookup etc. are not in hostPkgs
				hasStr = true
				nArgs++
				cl := pt.classAt(fn, a, in, pt.paramEnv(fn, 0), 0)
				key := fmt.Sprintf("%s: %s arg %d is inside the export root", fnName(fn), fnName(g), i)
				r.Check(cl == pHC, "confinement", key, in.Pos(),
					fmt.Sprintf("the path handed to %s is %s (%s): a hostile name can reach a host object outside the exported directory", fnName(g), cl, valStr(a)))
			}
			if hasStr {
				nSinks++
				r.CallSites++
			}
		})
	}
	r.Floor("confinement", nSinks, 10, "os/syscall calls with path arguments in ufs")
	r.Floor("confinement", nArgs, 11, "path arguments")

	// field invariant
	nStores := 0
	for _, fn := range p.FuncsOfPkg("ufs") {
		eachInstr(fn, func(in ssa.Instruction) {
			st, ok := in.(*ssa.Store)
			if !ok {
				return
			}
			fa, ok := st.Addr.(*ssa.FieldAddr)
			if !ok {
				return
			}
			switch {
			case isUfsType(fa.X.Type(), "FileRef") && fieldName(fa.X.Type(), fa.Field) == "Path":
				nStores++
				// do not use the invariant itself for the stored value: evaluate it at the store
				cl := pt.classAt(fn, st.Val, st, pt.paramEnv(fn, 0), 0)
				r.Check(cl == pRC, "path-invariant", fnName(fn)+": FileRef.Path is assigned a validated internal path", st.Pos(),
					"FileRef.Path is set to a value that is "+cl.String()+" ("+valStr(st.Val)+"): later host paths built from it can leave the export root")
			case isUfsType(fa.X.Type(), "fServer") && fieldName(fa.X.Type(), fa.Field) == "Base":
				r.Check(fn.Name() == "NewServer", "path-invariant", fnName(fn)+": fServer.Base written only by the constructor", st.Pos(), "the export root is reassigned after construction")
				// the root is stored cleaned: filepath.Join(Base, x) is confined to Base only if Base is not empty — Join
				// drops an empty first element, so Join("", "/etc") is "/etc" (the host root) — and Clean never returns ""
				if fn.Name() == "NewServer" {
					okClean := false
					for _, alt := range phiAlternatives(st.Val, 2) {
						c, ok := alt.(*ssa.Call)
						if ok && (calleeName(&c.Call) == "path/filepath.Clean" || (calleeName(&c.Call) == "path/filepath.Abs")) {
							okClean = true
						} else if ex, isEx := alt.(*ssa.Extract); isEx {
							if c2, ok := ex.Tuple.(*ssa.Call); ok && calleeName(&c2.Call) == "path/filepath.Abs" {
								okClean = true
							} else {
								okClean = false
								break
							}
						} else {
							okClean = false
							break
						}
					}
					r.Check(okClean, "path-invariant", "NewServer: the export root is stored cleaned (never empty)", st.Pos(),
						"the export root is stored as given: an empty root makes filepath.Join(Base, x) drop it, so every path resolves against the host's root directory")
				}
			}
		})
	}
	r.Floor("path-invariant", nStores, 2, "stores to FileRef.Path (newRef literal, WStat rename)")
	// FileRef values are only created by the validated constructor (composite literals elsewhere would bypass the invariant)
	for _, fn := range p.FuncsOfPkg("ufs") {
		eachInstr(fn, func(in ssa.Instruction) {
			a, ok := in.(*ssa.Alloc)
			if !ok || !isUfsType(a.Type(), "FileRef") || a.Comment != "complit" {
				return
			}
			flds, _, _ := allocFields(a)
			_, setsPath := flds["Path"]
			r.Check(setsPath || fn.Name() == "newRef", "path-invariant", fnName(fn)+": FileRef literal sets Path (checked store)", a.Pos(), "a FileRef is created without a validated Path")
		})
	}

	// root removal guard
	nRem := 0
	for _, fn := range p.FuncsOfPkg("ufs") {
		for _, c := range findCalls(fn, "os.Remove", "os.RemoveAll") {
			nRem++
			ok := false
			for _, cd := range condsAtInstr(c) {
				if condExcludesRoot(pt, fn, normCond(cd), c, 0) {
					ok = true
				}
			}
			r.Check(ok, "root-guard", fnName(fn)+": removal only when Path != \"/\"", c.Pos(), "the exported root itself can be removed")
		}
	}
	r.Floor("root-guard", nRem, 1, "os.Remove call")

	// the session validates names before the FS sees them
	if w := p.Fn("p9p:(*session).Walk"); w != nil {
		vps := findCalls(w, "p9p.ValidPath")
		for _, c := range findCallsInvoke(w, "Walk", "Dirent") {
			if isNilConst(c.Call.Args[len(c.Call.Args)-1]) {
				continue // clone: no names
			}
			ok := false
			fa := p.FA(w)
			for _, vp := range vps {
				if vp.Call.Args[0] == c.Call.Args[len(c.Call.Args)-1] && instrDominates(vp, c) {
					facts := fa.FactsAt(c)
					if Entails(facts, fa.Lin(vp).Scale(-1)) { // ValidPath(names) >= 0
						ok = true
					}
				}
			}
			r.Check(ok, "session-validates", "session.Walk: names reach the file system only when ValidPath(names) >= 0", c.Pos(), "non-normalised names ('.', '', embedded separators, '..' after a name) are handed to the file system")
		}
	}
	if cr := p.Fn("p9p:(*session).Create"); cr != nil {
		for _, c := range findCallsInvoke(cr, "Create", "Dirent") {
			name := c.Call.Args[1]
			dot, dotdot := false, false
			for _, cd := range condsAtInstr(c) {
				nc := normCond(cd)
				if b, ok := nc.V.(*ssa.BinOp); ok && (b.Op == token.EQL || b.Op == token.NEQ) && (b.X == name || b.Y == name) {
					other := b.Y
					if b.Y == name {
						other = b.X
					}
					if k, ok := other.(*ssa.Const); ok && k.Value != nil && (b.Op == token.NEQ) == nc.Truth {
						switch k.Value.ExactString() {
						case `"."`:
							dot = true
						case `".."`:
							dotdot = true
						}
					}
				}
			}
			r.Check(dot && dotdot, "session-validates", "session.Create: '.' and '..' are refused before the file system is called", c.Pos(), "create of '.' or '..' reaches the file system")
		}
	}
	r.Exhaustive = true
	_ = strings.Contains
}

// findCallsInvoke: interface method calls by method name and interface type name.
func findCallsInvoke(fn *ssa.Function, method, iface string) []*ssa.Call {
	var out []*ssa.Call
	eachInstr(fn, func(in ssa.Instruction) {
		if c, ok := in.(*ssa.Call); ok && c.Call.IsInvoke() && (method == "" || c.Call.Method.Name() == method) && isP9P(c.Call.Value.Type(), iface) {
			out = append(out, c)
		}
	})
	return out
}

// condExcludesRoot: the branch condition implies that a root-relative clean path differs from "/": a direct
// comparison with "/", or a predicate helper of the package (`ref.isRoot()`) known false/true here, each of whose
// returns of that truth value lies on an edge implying the inequality (or returns the comparison itself).
func condExcludesRoot(pt *PT, fn *ssa.Function, nc Cond, at ssa.Instruction, depth int) bool {
	switch v := nc.V.(type) {
	case *ssa.BinOp:
		if v.Op != token.EQL && v.Op != token.NEQ {
			return false
		}
		for _, pair := range [][2]ssa.Value{{v.X, v.Y}, {v.Y, v.X}} {
			if k, isC := pair[1].(*ssa.Const); isC && k.Value != nil && k.Value.ExactString() == `"/"` {
				if pt.classAt(fn, pair[0], at, nil, 0) == pRC && (v.Op == token.NEQ) == nc.Truth {
					return true
				}
			}
		}
	case *ssa.Call:
		g := staticCallee(&v.Call)
		if g == nil || g.Blocks == nil || depth > 1 || !pt.p.InModule(g) || g.Signature.Results().Len() != 1 {
			return false
		}
		n := 0
		for _, rs := range returnSites(g) {
			res := rs.Results[0]
			if k, isC := res.(*ssa.Const); isC && k.Value != nil {
				if (k.Value.ExactString() == "true") != nc.Truth {
					continue // this return gives the other truth value
				}
			}
			n++
			good := false
			// the returned value is itself such a comparison …
			if condExcludesRoot(pt, g, normCond(Cond{res, nc.Truth}), rs.At(), depth+1) {
				good = true
			}
			// … or the return lies on an edge implying it
			for _, cd := range rs.Conds() {
				if condExcludesRoot(pt, g, normCond(cd), rs.At(), depth+1) {
					good = true
				}
			}
			if !good {
				return false
			}
		}
		return n > 0
	}
	return false
}
