package main

import (
	"fmt"
	"go/token"
	"go/types"
	"strings"

	"golang.org/x/tools/go/ssa"
)

func init() { register("C10", checkC10) }

// allPathsThrough: every CFG path from the entry block to dest passes through one of the blocks in via.
func allPathsThrough(fn *ssa.Function, via map[*ssa.BasicBlock]bool, dest *ssa.BasicBlock) bool {
	if len(fn.Blocks) == 0 {
		return false
	}
	seen := map[*ssa.BasicBlock]bool{}
	var walk func(b *ssa.BasicBlock) bool
	walk = func(b *ssa.BasicBlock) bool { // returns true if dest reachable avoiding via
		if via[b] {
			return false
		}
		if b == dest {
			return true
		}
		if seen[b] {
			return false
		}
		seen[b] = true
		for _, s := range b.Succs {
			if walk(s) {
				return true
			}
		}
		return false
	}
	return !walk(fn.Blocks[0])
}

func isMSizeGetter(s *Sym) bool {
	return s != nil && s.Op == "call" && (s.Aux == "invoke p9p.Channel.MSize" || s.Aux == "(*p9p.channel).MSize")
}

func checkC10(r *Run) {
	p := r.P
	r.Decides = append(r.Decides,
		"ServeConn reaches serve()/the handler only on the nil-error edge of servernegotiate",
		"servernegotiate returns nil only after ReadFcall succeeded, the first message asserted to MessageTversion (ok edge), and the reply was written successfully",
		"msize is only ever lowered: every SetMSize(x) in the negotiation code executes on an edge implying x < ch.MSize() for the same x",
		"Rversion.MSize on every path is either the value just given to SetMSize or uint32(ch.MSize()) (so it is min(proposal, own) and equals the channel's msize); Tversion.MSize ≡ uint32(ch.MSize())",
		"client.msize is read from the channel after a successful negotiation",
		"SetMSize/newChannel keep len(rdbuf) == msize on every path; SetMSize's argument is non-negative at every call site")
	r.NotDecided = append(r.NotDecided, "sizes of frames after the handshake as values (the enforcement points — write-side partition on msgmsize vs msize, read-side overflow test against len(rdbuf) — are decided by the rules shared with C02/C03)", "the version-string policy")

	sn := p.Fn("p9p:servernegotiate")
	cn := p.Fn("p9p:clientnegotiate")
	sc := p.Fn("p9p:ServeConn")
	cs := p.Fn("p9p:CSession")
	sm := p.Fn("p9p:(*channel).SetMSize")
	nc := p.Fn("p9p:newChannel")
	for name, f := range map[string]*ssa.Function{"servernegotiate": sn, "clientnegotiate": cn, "ServeConn": sc, "CSession": cs, "(*channel).SetMSize": sm, "newChannel": nc} {
		if f == nil {
			r.Undecided("anchor", "p9p."+name, token.NoPos, "anchor function not found")
			return
		}
		r.SawFn("p9p." + name)
	}

	// (1) negotiate before serve
	negs := findCalls(sc, "p9p.servernegotiate")
	r.Floor("negotiate-first", len(negs), 1, "servernegotiate call in ServeConn")
	nServe := 0
	eachInstr(sc, func(in ssa.Instruction) {
		c, ok := in.(ssa.CallInstruction)
		if !ok {
			return
		}
		n := calleeName(c.Common())
		if n == "(*p9p.conn).serve" || n == "invoke p9p.Handler.Handle" || n == "invoke p9p.Handler.Stop" || n == "(*p9p.conn).read" || n == "(*p9p.conn).write" {
			nServe++
			ok := false
			for _, ng := range negs {
				if instrDominates(ng, in) && callSucceededAt(ng, in) {
					ok = true
				}
			}
			r.Check(ok, "negotiate-first", "ServeConn: "+n+" only after successful servernegotiate", in.Pos(),
				"requests can be dispatched on a connection whose version handshake failed or never happened")
		}
	})
	r.Floor("negotiate-first", nServe, 2, "serve/Stop calls in ServeConn")

	// (2) servernegotiate success conditions
	c10ServerNegotiate(r, sn)
	c10ClientNegotiate(r, cn)

	// (5) client.msize
	cns := findCalls(cs, "p9p.clientnegotiate")
	r.Floor("client-msize", len(cns), 1, "clientnegotiate call in CSession")
	nLit := 0
	eachInstr(cs, func(in ssa.Instruction) {
		a, ok := in.(*ssa.Alloc)
		if !ok || !isP9P(a.Type(), "client") {
			return
		}
		flds, _, _ := allocFields(a)
		v := flds["msize"]
		nLit++
		if v == nil {
			r.Bad("client-msize", "CSession: client.msize set from the negotiated channel", in.Pos(), "client.msize is not set")
			return
		}
		fa := p.FA(cs)
		s := fa.Sym(v)
		okV := isMSizeGetter(s)
		okD := false
		if c, isCall := v.(*ssa.Call); isCall {
			for _, ng := range cns {
				if instrDominates(ng, c) && callSucceededAt(ng, c) {
					okD = true
				}
			}
		}
		r.Check(okV && okD, "client-msize", "CSession: client.msize = ch.MSize() read after successful negotiation", in.Pos(),
			"the session's msize is not the negotiated one: "+s.K)
		// transport is built on the same channel only after negotiation
	})
	r.Floor("client-msize", nLit, 1, "client literal in CSession")
	for _, nt := range findCalls(cs, "p9p.newTransport") {
		ok := false
		for _, ng := range cns {
			if instrDominates(ng, nt) && callSucceededAt(ng, nt) {
				ok = true
			}
		}
		r.Check(ok, "negotiate-first", "CSession: transport started only after successful clientnegotiate", nt.Pos(), "requests can be sent before/without version negotiation")
	}

	// (6) "from then on neither end emits a frame longer than the agreed msize while each still accepts frames of
	// exactly that size": the enforcement points themselves (rules shared with C02 and C03)
	if wf, mt, smsg := p.Fn("p9p:(*channel).WriteFcall"), p.Fn("p9p:(*channel).maybeTruncate"), p.Fn("p9p:sendmsg"); wf != nil && mt != nil && smsg != nil {
		c02WriteOrder(r, wf)
		c02Truncate(r, mt)
	} else {
		r.Undecided("anchor", "WriteFcall/maybeTruncate/sendmsg", token.NoPos, "anchor function not found")
	}
	if rm, rf := p.Fn("p9p:readmsg"), p.Fn("p9p:(*channel).ReadFcall"); rm != nil && rf != nil {
		c03Readmsg(r, rm)
		c03ReadFcall(r, rf, rm)
	} else {
		r.Undecided("anchor", "readmsg/ReadFcall", token.NoPos, "anchor function not found")
	}

	// (7) SetMSize / newChannel keep len(rdbuf) == msize
	c10BufferInvariant(r, sm, nc)
}

func c10ServerNegotiate(r *Run, sn *ssa.Function) {
	fa := r.P.FA(sn)
	reads := findCalls(sn, "invoke p9p.Channel.ReadFcall")
	writes := findCalls(sn, "invoke p9p.Channel.WriteFcall")
	r.Floor("tversion-first", len(reads), 1, "ReadFcall in servernegotiate")
	r.Floor("tversion-first", len(writes), 1, "WriteFcall in servernegotiate")
	// the type assertion to MessageTversion
	var tas []*ssa.TypeAssert
	eachInstr(sn, func(in ssa.Instruction) {
		if ta, ok := in.(*ssa.TypeAssert); ok && isP9P(ta.AssertedType, "MessageTversion") {
			tas = append(tas, ta)
		}
	})
	r.Floor("tversion-first", len(tas), 1, "type assertion to MessageTversion")
	for _, ta := range tas {
		r.Check(ta.CommaOk, "tversion-first", "servernegotiate: assertion to MessageTversion is checked", ta.Pos(), "unchecked assertion: a non-version first message panics the server")
	}
	nNil := 0
	for _, ret := range returnsOf(sn) {
		if len(ret.Results) != 1 || !isNilConst(ret.Results[0]) {
			continue
		}
		nNil++
		okR, okW, okT := false, false, false
		for _, c := range reads {
			if instrDominates(c, ret) && callSucceededAt(c, ret) {
				okR = true
			}
		}
		for _, c := range writes {
			if instrDominates(c, ret) && callSucceededAt(c, ret) {
				okW = true
			}
		}
		for _, cd := range condsAtInstr(ret) {
			if e, ok := normCond(cd).V.(*ssa.Extract); ok && e.Index == 1 && cd.Truth {
				for _, ta := range tas {
					if e.Tuple == ta {
						okT = true
					}
				}
			}
		}
		r.Check(okR, "tversion-first", "servernegotiate: success only after a successful ReadFcall", ret.Pos(), "negotiation can succeed without having read a request")
		r.Check(okT, "tversion-first", "servernegotiate: success only on the ok edge of .(MessageTversion)", ret.Pos(), "a connection whose first message is not Tversion is accepted")
		r.Check(okW, "tversion-first", "servernegotiate: success only after the Rversion was written successfully", ret.Pos(),
			"a proposal too small to carry the version reply (WriteFcall overflow) is accepted")
	}
	r.Floor("tversion-first", nNil, 1, "nil return of servernegotiate")

	c10SetMSizeLowering(r, sn)
	c10SetMSizeOnlyInNegotiation(r)
	c10DispatcherReadFits(r)

	// (4) Rversion.MSize per path
	var resp *ssa.Alloc
	eachInstr(sn, func(in ssa.Instruction) {
		if a, ok := in.(*ssa.Alloc); ok && isP9P(a.Type(), "MessageRversion") && a.Comment != "complit" {
			resp = a
		}
	})
	if resp == nil {
		// the reply built as one literal from temporaries (`newFcall(NOTAG, MessageRversion{MSize: msize, …})`)
		eachInstr(sn, func(in ssa.Instruction) {
			if a, ok := in.(*ssa.Alloc); ok && isP9P(a.Type(), "MessageRversion") {
				resp = a
			}
		})
	}
	if resp == nil {
		r.Undecided("rversion-msize", "servernegotiate: Rversion variable", sn.Pos(), "no MessageRversion variable found")
		return
	}
	sets := findCalls(sn, "invoke p9p.Channel.SetMSize")
	via := map[*ssa.BasicBlock]bool{}
	n := 0
	eachInstr(sn, func(in ssa.Instruction) {
		st, ok := in.(*ssa.Store)
		if !ok {
			return
		}
		f, ok := st.Addr.(*ssa.FieldAddr)
		if !ok || f.X != resp || fieldName(f.X.Type(), f.Field) != "MSize" {
			return
		}
		via[st.Block()] = true
		// the value stored, per way of reaching the store: a temporary assigned on both branches of the comparison
		// and stored once (`MSize: respMSize`) is a phi — each incoming edge is one assignment
		type assign struct {
			val        ssa.Value
			pred, succ *ssa.BasicBlock // nil: the store itself
		}
		var as []assign
		var expand func(v ssa.Value, pred, succ *ssa.BasicBlock, d int)
		expand = func(v ssa.Value, pred, succ *ssa.BasicBlock, d int) {
			if ph, ok := v.(*ssa.Phi); ok && d < 3 {
				for i, e := range ph.Edges {
					expand(e, ph.Block().Preds[i], ph.Block(), d+1)
				}
				return
			}
			as = append(as, assign{v, pred, succ})
		}
		expand(st.Val, nil, nil, 0)
		for _, a := range as {
			n++
			blk := st.Block()
			conds := condsAtInstr(st)
			if a.pred != nil {
				blk = a.pred
				conds = append(append([]Cond{}, condsAt(a.pred)...), edgeCond(a.pred, a.succ)...)
			}
			reaches := func(sc *ssa.Call) bool { return sc.Block() == blk || sc.Block().Dominates(blk) }
			lv := fa.Lin(a.val)
			lm := fa.LinMod(a.val, 32)
			done := false
			// (a) equals the argument of a SetMSize call in the same straight-line region
			for _, sc := range sets {
				if reaches(sc) && sameCondSets(condsAtInstr(sc), conds) && fa.Lin(sc.Call.Args[0]).Equal(lv) {
					r.Ok("rversion-msize", "servernegotiate: Rversion.MSize == value given to SetMSize (lowered branch)", st.Pos(), "MSize = "+lv.String())
					done = true
					break
				}
			}
			// (a'/b') the lowering is done by a helper that reports through its result which way it went
			// (`if !lowerMSize(ch, mv.MSize) { msize = uint32(ch.MSize()) }`)
			for _, cd := range conds {
				nc := normCond(cd)
				hc, isCall := nc.V.(*ssa.Call)
				if !isCall || done {
					continue
				}
				g := staticCallee(&hc.Call)
				if g == nil {
					continue
				}
				vi, okSum := loweringHelper(r.P, g)
				if !okSum || vi >= len(hc.Call.Args) {
					continue
				}
				offered := fa.Lin(hc.Call.Args[vi])
				isProposal := fieldOfTypedValue(fa, hc.Call.Args[vi], "MessageTversion", "MSize", 0)
				if nc.Truth && offered.Equal(lv) {
					r.Ok("rversion-msize", "servernegotiate: Rversion.MSize == value given to SetMSize (lowered branch)", st.Pos(), "MSize = "+lv.String()+" (installed by "+fnName(g)+", which returned true)")
					done = true
				} else if !nc.Truth && isProposal && len(lm.T) == 1 && lm.C == 0 {
					for k, c := range lm.T {
						if c == 1 && isMSizeGetter(lm.Atoms[k]) {
							r.Ok("rversion-msize", "servernegotiate: Rversion.MSize == uint32(ch.MSize()) (unchanged branch)", st.Pos(), "MSize = "+lm.String()+" ("+fnName(g)+" returned false: no SetMSize, ch.MSize() <= proposal)")
							done = true
						}
					}
				}
			}
			if done {
				continue
			}
			// (b) equals ch.MSize() with no SetMSize on this path
			if len(lm.T) == 1 && lm.C == 0 {
				for k, c := range lm.T {
					if c == 1 && isMSizeGetter(lm.Atoms[k]) {
						noSet := true
						for _, sc := range sets {
							if reaches(sc) {
								noSet = false
							}
						}
						if noSet {
							// … and answering with its own msize is only right when that does not exceed the client's
							// proposal: the assignment sits on an edge implying ch.MSize() <= Tversion.MSize
							var facts []Fact
							if a.pred == nil {
								facts = fa.FactsAt(st, lv)
							} else {
								facts = fa.FactsOnEdge(a.pred, a.succ, lv)
							}
							okLe := false
							for _, f := range facts {
								for _, at := range f.L.Atoms {
									if !(strings.Contains(at.K, "MessageTversion") && strings.HasSuffix(at.K, ".MSize")) {
										continue
									}
									for _, f2 := range facts {
										for _, g := range f2.L.Atoms {
											if isMSizeGetter(g) && EntailsLE(facts, linAtom(g), linAtom(at)) {
												okLe = true
											}
										}
									}
								}
							}
							r.Check(okLe, "rversion-msize", "servernegotiate: the server answers its own msize only when the client proposed at least that much", st.Pos(),
								"on some path the reply carries the server's own msize although the client proposed less: the server answers (and keeps using) more than the client proposed", factStrings(facts)...)
							r.Ok("rversion-msize", "servernegotiate: Rversion.MSize == uint32(ch.MSize()) (unchanged branch)", st.Pos(), "MSize = "+lm.String())
							done = true
						}
					}
				}
			}
			if done {
				continue
			}
			r.Bad("rversion-msize", "servernegotiate: Rversion.MSize is the channel's msize on this path", st.Pos(),
				"the msize answered ("+lm.String()+") is neither the value just installed with SetMSize nor the channel's current msize: the two ends would disagree")
		}
	})
	r.Floor("rversion-msize", n, 2, "stores to Rversion.MSize")
	// every path to the reply passes one of those stores
	for _, w := range writes {
		r.Check(allPathsThrough(sn, via, w.Block()), "rversion-msize", "servernegotiate: every path to the reply sets Rversion.MSize", w.Pos(),
			"a path reaches the reply with Rversion.MSize unset (0)")
		// the reply carries that variable
		okMsg := false
		if nf, ok := w.Call.Args[1].(*ssa.Call); ok && calleeName(&nf.Call) == "p9p.newFcall" {
			m := stripConv(nf.Call.Args[1])
			if u, ok := m.(*ssa.UnOp); ok && u.X == resp {
				okMsg = true
			}
			if c, ok := nf.Call.Args[0].(*ssa.Const); ok {
				if v, ok2 := constInt(c); !ok2 || v != 0xFFFF {
					okMsg = false
				}
			}
		}
		r.Check(okMsg, "rversion-msize", "servernegotiate: reply is newFcall(NOTAG, respmsg)", w.Pos(), "the reply written is not the Rversion built above (or not tagged NOTAG)")
		e := errResult(w)
		okp := false
		if e != nil {
			okp, _ = errPropagated(sn, e)
		}
		r.Check(okp, "error-propagation", "servernegotiate: WriteFcall error returned", w.Pos(), "a reply that does not fit is not reported")
	}
}

// sameConds: two instructions execute under the same set of dominating branch conditions.
func sameConds(a, b ssa.Instruction) bool {
	return sameCondSets(condsAtInstr(a), condsAtInstr(b))
}

func sameCondSets(ca, cb []Cond) bool {
	if len(ca) != len(cb) {
		return false
	}
	m := map[string]int{}
	for _, c := range ca {
		m[fmt.Sprintf("%p/%v", c.V, c.Truth)]++
	}
	for _, c := range cb {
		m[fmt.Sprintf("%p/%v", c.V, c.Truth)]--
	}
	for _, v := range m {
		if v != 0 {
			return false
		}
	}
	return true
}

// (3) every SetMSize(x) is on an edge implying x < ch.MSize()
func c10SetMSizeLowering(r *Run, fn *ssa.Function) {
	fa := r.P.FA(fn)
	for _, sc := range findCalls(fn, "invoke p9p.Channel.SetMSize") {
		r.CallSites++
		x := fa.Lin(sc.Call.Args[0])
		facts := fa.FactsAt(sc, x)
		ok := false
		for _, f := range facts {
			for k, a := range f.L.Atoms {
				_ = k
				if isMSizeGetter(a) {
					if Entails(facts, x.Add(linConst(1)).Sub(linAtom(a))) { // x + 1 <= M
						ok = true
					}
				}
			}
		}
		r.Check(ok, "msize-only-lowered", fnName(fn)+": SetMSize(x) only on an edge implying x < ch.MSize()", sc.Pos(),
			"msize can be raised above this end's own limit (or set unconditionally) during negotiation", factStrings(facts)...)
		// x >= 0 (SetMSize slices the read buffer)
		r.Check(Entails(facts, x.Scale(-1)), "setmsize-precondition", fnName(fn)+": SetMSize argument is non-negative", sc.Pos(), "SetMSize may be called with a negative size", "x = "+x.String())
	}
}

// c10SetMSizeOnlyInNegotiation: the msize of a channel changes only while the version is negotiated: every call of
// Channel.SetMSize sits in clientnegotiate, servernegotiate or a helper only they call. A later adjustment (a "floor"
// or a "ceiling" applied by the serve loop) makes this end work with an msize other than the one it answered.
func c10SetMSizeOnlyInNegotiation(r *Run) {
	p := r.P
	allowed := map[*ssa.Function]bool{}
	for _, name := range []string{"p9p:clientnegotiate", "p9p:servernegotiate"} {
		if fn := p.Fn(name); fn != nil {
			for _, f := range p.withHelpers(fn, 2) {
				if f == fn {
					allowed[f] = true
					continue
				}
				// a helper counts only if nothing but the negotiation functions (and their helpers) calls it
				if sites, exact := p.staticCallSites(f); exact && len(sites) > 0 {
					allowed[f] = true
				}
			}
		}
	}
	for changed := true; changed; {
		changed = false
		for f := range allowed {
			if f.Name() == "clientnegotiate" || f.Name() == "servernegotiate" {
				continue
			}
			sites, _ := p.staticCallSites(f)
			for _, c := range sites {
				if !allowed[c.Parent()] {
					delete(allowed, f)
					changed = true
				}
			}
		}
	}
	n := 0
	for _, fn := range p.FuncsOfPkg("p9p") {
		for _, c := range findCalls(fn, "invoke p9p.Channel.SetMSize", "(*p9p.channel).SetMSize") {
			n++
			r.Check(allowed[fn], "msize-only-lowered", fnName(fn)+": SetMSize is called only while the version is negotiated", c.Pos(),
				"the channel's msize is changed outside the version negotiation: this end then works with an msize other than the one it proposed/answered")
		}
	}
	r.Floor("msize-only-lowered", n, 1, "SetMSize call sites")
}

func c10ClientNegotiate(r *Run, cn *ssa.Function) {
	fa := r.P.FA(cn)
	var sets []*ssa.Call
	setFn := map[*ssa.Call]*ssa.Function{}
	for _, f := range r.P.withHelpers(cn, 2) {
		c10SetMSizeLowering(r, f)
		for _, c := range findCalls(f, "invoke p9p.Channel.SetMSize") {
			sets = append(sets, c)
			setFn[c] = f
		}
	}
	r.Floor("msize-only-lowered", len(sets), 1, "SetMSize call in clientnegotiate")
	// Tversion.MSize ≡ uint32(ch.MSize())
	n := 0
	eachInstr(cn, func(in ssa.Instruction) {
		a, ok := in.(*ssa.Alloc)
		if !ok || !isP9P(a.Type(), "MessageTversion") {
			return
		}
		flds, _, _ := allocFields(a)
		v := flds["MSize"]
		if v == nil {
			return
		}
		n++
		lm := fa.LinMod(v, 32)
		ok2 := len(lm.T) == 1 && lm.C == 0
		for k, c := range lm.T {
			if c != 1 || !isMSizeGetter(lm.Atoms[k]) {
				ok2 = false
			}
		}
		r.Check(ok2, "tversion-msize", "clientnegotiate: Tversion.MSize ≡ uint32(ch.MSize())", in.Pos(), "the client proposes "+lm.String()+" instead of its channel's msize")
	})
	r.Floor("tversion-msize", n, 1, "Tversion literal with MSize")
	// the adopted msize is the server's answer: SetMSize argument derives from the Rversion's MSize field
	for _, sc := range sets {
		s := r.P.FA(setFn[sc]).Sym(sc.Call.Args[0])
		okAdopt := fieldOfTypedValue(r.P.FA(setFn[sc]), sc.Call.Args[0], "MessageRversion", "MSize", 0)
		if !okAdopt && setFn[sc] != cn {
			// the lowering lives in a helper (possibly shared with the server side): the value it installs is its
			// parameter, which clientnegotiate binds to the Rversion's MSize at its call(s) of the helper
			g := setFn[sc]
			gfa := r.P.FA(g)
			for i, prm := range g.Params {
				if !gfa.Lin(sc.Call.Args[0]).Equal(gfa.Lin(prm)) {
					continue
				}
				nSites, all := 0, true
				for _, f := range r.P.withHelpers(cn, 1) {
					if f == g {
						continue
					}
					for _, hc := range findCalls(f, fnName(g)) {
						nSites++
						if i >= len(hc.Call.Args) || !fieldOfTypedValue(r.P.FA(f), hc.Call.Args[i], "MessageRversion", "MSize", 0) {
							all = false
						}
					}
				}
				if nSites > 0 && all {
					okAdopt = true
				}
			}
		}
		r.Check(okAdopt, "msize-only-lowered", "clientnegotiate: adopted msize is the Rversion's MSize", sc.Pos(),
			"the client adopts "+s.K+" rather than the server's answer")
	}
	// the client ends up with min(proposed, answered): every way to a success return either installs the answer
	// (SetMSize above) or lies on edges implying that the channel's msize does not exceed the answer
	for _, sc := range sets {
		if setFn[sc] != cn {
			continue
		}
		x := fa.Lin(sc.Call.Args[0])
		var getter *Sym
		facts := fa.FactsAt(sc, x)
		for _, f := range facts {
			for _, a := range f.L.Atoms {
				if isMSizeGetter(a) && Entails(facts, x.Add(linConst(1)).Sub(linAtom(a))) {
					getter = a
				}
			}
		}
		if getter == nil {
			continue // reported by msize-only-lowered
		}
		exempt := map[*ssa.BasicBlock]bool{sc.Block(): true}
		for _, b := range cn.Blocks {
			if sc.Block().Dominates(b) {
				exempt[b] = true
			}
		}
		goal := linAtom(getter).Sub(x)
		for _, ret := range returnsOf(cn) {
			if len(ret.Results) != 2 || !isNilConst(ret.Results[1]) {
				continue
			}
			r.Check(fa.EntailsOnEdgesExcept(ret, goal, 6, exempt), "client-min", "clientnegotiate: success without SetMSize only when the channel's msize does not exceed the answer", ret.Pos(),
				"some way to a successful negotiation neither installs the server's answer nor implies that the client's msize is already at most that answer: the client keeps (and uses) a larger msize than the one agreed")
		}
	}
	// success only after both I/O steps succeeded and on the MessageRversion clause
	writes := findCalls(cn, "invoke p9p.Channel.WriteFcall")
	reads := findCalls(cn, "invoke p9p.Channel.ReadFcall")
	for _, ret := range returnsOf(cn) {
		if len(ret.Results) != 2 || !isNilConst(ret.Results[1]) {
			continue
		}
		okW, okR := false, false
		for _, c := range writes {
			if instrDominates(c, ret) && callSucceededAt(c, ret) {
				okW = true
			}
		}
		for _, c := range reads {
			if instrDominates(c, ret) && callSucceededAt(c, ret) {
				okR = true
			}
		}
		r.Check(okW && okR, "tversion-first", "clientnegotiate: success only after request written and reply read", ret.Pos(), "negotiation can succeed without a completed exchange")
	}
}

func c10BufferInvariant(r *Run, sm, nc *ssa.Function) {
	fa := r.P.FA(sm)
	msz := sm.Params[1]
	lp := fa.Lin(msz)
	via := map[*ssa.BasicBlock]bool{}
	viaM := map[*ssa.BasicBlock]bool{}
	nS := 0
	eachInstr(sm, func(in ssa.Instruction) {
		st, ok := in.(*ssa.Store)
		if !ok {
			return
		}
		f, ok := st.Addr.(*ssa.FieldAddr)
		if !ok || !isP9P(f.X.Type(), "channel") {
			return
		}
		switch fieldName(f.X.Type(), f.Field) {
		case "rdbuf":
			nS++
			l := fa.linSym(lenOf(fa.Sym(st.Val)), 0)
			if r.Check(l.Equal(lp), "buffer-invariant", "SetMSize: len(rdbuf) == msize after the update", st.Pos(), "read buffer gets length "+l.String()+" while msize is "+lp.String()) {
				via[st.Block()] = true
			}
		case "msize":
			l := fa.Lin(st.Val)
			if r.Check(l.Equal(lp), "buffer-invariant", "SetMSize: ch.msize = msize", st.Pos(), "ch.msize is set to "+l.String()) {
				viaM[st.Block()] = true
			}
		}
	})
	r.Floor("buffer-invariant", nS, 2, "stores to ch.rdbuf in SetMSize")
	for _, ret := range returnsOf(sm) {
		r.Check(allPathsThrough(sm, via, ret.Block()) || via[ret.Block()], "buffer-invariant", "SetMSize: every path resizes rdbuf", ret.Pos(), "a path leaves rdbuf at its old length: frames of the new msize are refused or oversize frames accepted")
		r.Check(allPathsThrough(sm, viaM, ret.Block()) || viaM[ret.Block()], "buffer-invariant", "SetMSize: every path sets ch.msize", ret.Pos(), "a path leaves ch.msize unchanged")
	}
	dischargeBoundsWithPre(r, sm, "bounds", []Fact{le(linConst(0), lp, "precondition msize >= 0 (checked at every SetMSize call site)")})

	// newChannel literal
	fb := r.P.FA(nc)
	n := 0
	eachInstr(nc, func(in ssa.Instruction) {
		a, ok := in.(*ssa.Alloc)
		if !ok || !isP9P(a.Type(), "channel") {
			return
		}
		flds, _, _ := allocFields(a)
		if flds["msize"] == nil || flds["rdbuf"] == nil {
			r.Bad("buffer-invariant", "newChannel: msize and rdbuf initialised", in.Pos(), "channel literal lacks msize or rdbuf")
			return
		}
		n++
		lm := fb.Lin(flds["msize"])
		lb := fb.linSym(lenOf(fb.Sym(flds["rdbuf"])), 0)
		r.Check(lm.Equal(lb), "buffer-invariant", "newChannel: len(rdbuf) == msize", in.Pos(), "rdbuf has length "+lb.String()+" but msize is "+lm.String())
	})
	r.Floor("buffer-invariant", n, 1, "channel literal in newChannel")
	_ = types.Typ
	// the buffered reader and writer live as long as the channel: replacing one discards the bytes it holds (frames
	// that arrived in the same read as the version request; a frame not yet flushed)
	nB := 0
	for _, fn := range r.P.FuncsOfPkg("p9p") {
		eachInstr(fn, func(in ssa.Instruction) {
			st, ok := in.(*ssa.Store)
			if !ok {
				return
			}
			f, ok := st.Addr.(*ssa.FieldAddr)
			if !ok || !isP9P(f.X.Type(), "channel") {
				return
			}
			switch name := fieldName(f.X.Type(), f.Field); name {
			case "brd", "bwr", "conn":
				nB++
				_, inLit := f.X.(*ssa.Alloc)
				r.Check(fn == nc && inLit, "buffer-invariant", fnName(fn)+": channel."+name+" is set once, by the constructor", st.Pos(),
					"the channel's "+name+" is replaced after construction: bytes already buffered (frames that arrived together with the version request, an unflushed frame) are lost and the stream loses frame alignment")
			}
		})
	}
	r.Floor("buffer-invariant", nB, 3, "initialisations of channel.conn/brd/bwr in the constructor")
}

// dischargeBoundsWithPre is dischargeBounds with extra precondition facts.
func dischargeBoundsWithPre(r *Run, fn *ssa.Function, rule string, pre []Fact) {
	fa := r.P.FA(fn)
	for _, ob := range fa.boundObligations() {
		if ob.Kind == "typeassert" {
			continue
		}
		var ls []*Lin
		for _, g := range ob.Goals {
			ls = append(ls, g.a, g.b)
		}
		facts := append(fa.FactsAt(ob.In, ls...), pre...)
		bad := ""
		for _, g := range ob.Goals {
			if !EntailsLE(facts, g.a, g.b) {
				bad += g.text + "; "
			}
		}
		if bad == "" {
			r.Ok(rule, ob.Key, ob.In.Pos(), factStrings(facts)...)
		} else {
			r.Bad(rule, ob.Key, ob.In.Pos(), "cannot prove "+bad, factStrings(facts)...)
		}
	}
}

// fieldOfTypedValue: v is (a width conversion of) the field `field` of a value of the p9p type tname.
func fieldOfTypedValue(fa *FA, v ssa.Value, tname, field string, depth int) bool {
	if depth > 6 {
		return false
	}
	switch x := v.(type) {
	case *ssa.Convert:
		return fieldOfTypedValue(fa, x.X, tname, field, depth+1)
	case *ssa.ChangeType:
		return fieldOfTypedValue(fa, x.X, tname, field, depth+1)
	case *ssa.Field:
		return isP9P(x.X.Type(), tname) && fieldName(x.X.Type(), x.Field) == field
	case *ssa.UnOp:
		if x.Op != token.MUL {
			return false
		}
		if f, ok := x.X.(*ssa.FieldAddr); ok {
			return isP9P(f.X.Type(), tname) && fieldName(f.X.Type(), f.Field) == field
		}
		if a, path := rootAlloc(x.X); a != nil && fa.local[a] {
			if st, _, exact := fa.localDef(a, path, x); st != nil && exact {
				return fieldOfTypedValue(fa, st.Val, tname, field, depth+1)
			}
		}
	}
	return false
}

var loweringHelperCache = map[*ssa.Function][2]int{}

// loweringHelper: g(ch Channel, …, offered, …) bool lowers the channel's msize to `offered` when that is smaller and
// reports whether it did: every `true` return follows SetMSize(int(offered)) on ch; every `false` return is reached
// without any SetMSize and on an edge implying ch.MSize() <= offered. Returns the index of `offered`.
func loweringHelper(p *Prog, g *ssa.Function) (int, bool) {
	if v, ok := loweringHelperCache[g]; ok {
		return v[0], v[1] == 1
	}
	loweringHelperCache[g] = [2]int{0, 0}
	if g.Blocks == nil || !p.InModule(g) || g.Signature.Results().Len() != 1 {
		return 0, false
	}
	if b, ok := g.Signature.Results().At(0).Type().Underlying().(*types.Basic); !ok || b.Kind() != types.Bool {
		return 0, false
	}
	sets := findCalls(g, "invoke p9p.Channel.SetMSize")
	if len(sets) == 0 {
		return 0, false
	}
	gfa := p.FA(g)
	for vi, prm := range g.Params {
		if _, _, isInt := intBits(prm.Type()); !isInt {
			continue
		}
		x := gfa.Lin(prm)
		ok := true
		nT, nF := 0, 0
		for _, rs := range returnSites(g) {
			c, isC := rs.Results[0].(*ssa.Const)
			if !isC || c.Value == nil {
				ok = false
				break
			}
			if c.Value.ExactString() == "true" {
				nT++
				good := false
				for _, sc := range sets {
					if rs.DominatedBy(sc) && gfa.Lin(sc.Call.Args[0]).Equal(x) {
						if _, isPrm := sc.Call.Value.(*ssa.Parameter); isPrm {
							good = true
						}
					}
				}
				if !good {
					ok = false
				}
			} else {
				nF++
				for _, sc := range sets {
					if sc.Block() == rs.At().Block() || reachAvoiding(sc.Block(), rs.At().Block(), nil) {
						ok = false
					}
				}
				facts := gfa.FactsAtSite(rs, x)
				le := false
				for _, f := range facts {
					for _, a := range f.L.Atoms {
						if isMSizeGetter(a) && EntailsLE(facts, linAtom(a), x) {
							le = true
						}
					}
				}
				if !le {
					ok = false
				}
			}
		}
		if ok && nT > 0 && nF > 0 {
			loweringHelperCache[g] = [2]int{vi, 1}
			return vi, true
		}
	}
	return 0, false
}

// c10DispatcherReadFits: the dispatcher sizes the buffer of a Tread so that the Rread carrying it fits the session's
// msize: on every path to the allocation, len <= msize - 11 (size[4] type[1] tag[2] count[4]) or len <= 0.
func c10DispatcherReadFits(r *Run) {
	p := r.P
	h := p.Fn("p9p:(sessionHandler).Handle")
	if h == nil {
		r.Undecided("tread-reply-fits", "(sessionHandler).Handle", token.NoPos, "anchor not found")
		return
	}
	n := 0
	for _, f := range p.withHelpers(h, 1) {
		fa := p.FA(f)
		eachInstr(f, func(in ssa.Instruction) {
			ms, ok := in.(*ssa.MakeSlice)
			if !ok {
				return
			}
			if sl, isSl := ms.Type().Underlying().(*types.Slice); !isSl || shortType(sl.Elem()) != "byte" && shortType(sl.Elem()) != "uint8" {
				return
			}
			n++
			l := fa.Lin(ms.Len)
			facts := fa.FactsAt(ms, l)
			ok2 := false
			// the msize this handler serves under: the value of sessionHandler.msize
			var M *Lin
			eachInstr(f, func(in2 ssa.Instruction) {
				var v ssa.Value
				switch x := in2.(type) {
				case *ssa.Field:
					if fieldNameV(x.X.Type(), x.Field) == "msize" && strings.HasSuffix(shortType(x.X.Type()), "sessionHandler") {
						v = x
					}
				case *ssa.UnOp:
					if fad, isF := x.X.(*ssa.FieldAddr); isF && x.Op == token.MUL && fieldName(fad.X.Type(), fad.Field) == "msize" && strings.HasSuffix(strings.TrimPrefix(shortType(fad.X.Type()), "*"), "sessionHandler") {
						v = x
					}
				}
				if v != nil && M == nil {
					M = fa.Lin(v)
				}
			})
			if M != nil {
				bound := M.Sub(linConst(11))
				// every value the length can have, with the facts of the edge it comes in on
				type alt struct {
					v          ssa.Value
					pred, succ *ssa.BasicBlock
				}
				var alts []alt
				var expand func(v ssa.Value, pred, succ *ssa.BasicBlock, d int)
				expand = func(v ssa.Value, pred, succ *ssa.BasicBlock, d int) {
					if ph, isPhi := v.(*ssa.Phi); isPhi && d < 3 && !hasBackEdge(ph.Block()) {
						for i, e := range ph.Edges {
							expand(e, ph.Block().Preds[i], ph.Block(), d+1)
						}
						return
					}
					alts = append(alts, alt{v, pred, succ})
				}
				expand(ms.Len, nil, nil, 0)
				ok2 = len(alts) > 0
				for _, a := range alts {
					al := fa.Lin(a.v)
					var ef []Fact
					if a.pred == nil {
						ef = fa.FactsAt(ms, al, bound)
					} else {
						ef = fa.FactsOnEdge(a.pred, a.succ, al, bound)
					}
					if !(EntailsLE(ef, al, bound) || EntailsLE(ef, al, linConst(0))) {
						ok2 = false
					}
				}
			}
			if !ok2 {
				// the clamp may be made by a helper whose result is bounded by its msize argument minus 11
				if c, isCall := ms.Len.(*ssa.Call); isCall {
					if g := staticCallee(&c.Call); g != nil && g.Blocks != nil && p.InModule(g) {
						gfa := p.FA(g)
						for _, prm := range g.Params {
							if !strings.Contains(strings.ToLower(prm.Name()), "msize") {
								continue
							}
							all, nr := true, 0
							for _, rs := range returnSites(g) {
								nr++
								rl := gfa.Lin(rs.Results[0])
								gf := gfa.FactsAtSite(rs, rl)
								if !(EntailsLE(gf, rl, gfa.Lin(prm).Sub(linConst(11))) || EntailsLE(gf, rl, linConst(0))) {
									all = false
								}
							}
							if all && nr > 0 {
								ok2 = true
							}
						}
					}
				}
			}
			r.Check(ok2, "tread-reply-fits", fnName(f)+": the Tread buffer is at most msize-11 bytes (or empty)", ms.Pos(),
				"the dispatcher can allocate (and the session fill) more than msize-11 bytes for a Tread: the Rread frame then exceeds the session's msize", factStrings(facts)...)
		})
	}
	r.Floor("tread-reply-fits", n, 1, "Tread buffer allocation in the dispatcher")
}
