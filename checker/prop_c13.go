package main

import (
	"fmt"
	"go/token"
	"go/types"
	"sort"
	"strings"

	"golang.org/x/tools/go/ssa"
)

func init() { register("C13", checkC13) }

func checkC13(r *Run) {
	p := r.P
	r.Decides = append(r.Decides,
		"on every path of every function of sfilesys.go: a handle is stored over a live one only after that one was released, or when it is the parent handle consumed by Dirent.Create on it (the one reviewed consumption site)",
		"after Clunk/Remove (directly or through the inferred release helper) nil or a new handle is stored before the fid's lock is dropped or the function returns; no second release and no other use of the released entry on the path",
		"a fid removed from the table is either a placeholder (nil entry) or has been released; a reserved placeholder is bound or removed before return",
		"release calls are made under the fid lock (shared with C14's field-under-lock rule)",
		"an entry handed out by Dirent.Create or FileSys.Attach is bound to a fid or released on every path on which the call succeeded",
		"Stop ranges over the whole table, its callback continues on every path and releases each entry through the unbind-lock-release helper")
	r.NotDecided = append(r.NotDecided, "all histories × all subsets of failing FileSys calls as a dynamic statement", "entries the FileSys returns for a partial walk (never bound; outside the statement)", "what a FileSys implementation does inside Clunk/Remove")

	ts, fns := runSessionTypestate(p, true)
	// the table is read only by the getter that hands out bound, locked fids, written only by the placeholder
	// constructor, and emptied only by the unbind-release helper: every other way in or out loses track of an entry
	c08TableAccess(r, p, ts)
	for _, fn := range fns {
		r.SawFn(fnName(fn))
	}
	keys := []string{}
	for k := range ts.viol {
		keys = append(keys, k)
	}
	sort.Strings(keys)
	nOwn := 0
	for _, k := range keys {
		v := ts.viol[k]
		if strings.HasPrefix(v.rule, "own/") {
			nOwn++
			r.Bad(v.rule, v.key, v.pos, v.reason)
		} else if strings.HasPrefix(v.rule, "typestate/") {
			r.Undecided(v.rule, v.key, v.pos, v.reason)
		}
	}
	// per-function discharge records
	for _, fn := range fns {
		bad := false
		for _, k := range keys {
			if strings.HasPrefix(ts.viol[k].rule, "own/") && strings.HasPrefix(ts.viol[k].key, fnName(fn)+":") {
				bad = true
			}
		}
		if !bad {
			r.Ok("own/paths", fnName(fn)+": ownership rules hold on every explored path", fn.Pos(), fmt.Sprintf("%d return states", len(ts.rets[fn])))
		}
	}
	// release under lock: the field-under-lock obligations for Clunk/Remove
	nRel := 0
	akeys := []string{}
	for k := range ts.acc {
		akeys = append(akeys, k)
	}
	sort.Strings(akeys)
	for _, k := range akeys {
		a := ts.acc[k]
		// release sites, and every access the unbind helper makes to the fid's state: its decision that there is
		// "nothing to release" (Ent == nil) must be taken under the fid's lock, i.e. after an in-flight Attach/Walk
		// that reserved the fid has finished binding its entry — otherwise that entry ends up bound to an
		// unreachable fid and is never released
		if strings.Contains(k, ".Ent.Clunk called") || strings.Contains(k, ".Ent.Remove called") || strings.Contains(k, "delRefAction") || strings.HasPrefix(a.key, "(*p9p.session).delRef:") {
			nRel++
			if a.ok {
				r.Ok("own/release-under-lock", a.key, a.pos)
			} else {
				r.Bad("own/release-under-lock", a.key, a.pos, a.why)
			}
		}
	}
	r.Floor("own/release-under-lock", nRel, 3, "release sites (Clunk/Remove invokes, release helper calls)")
	r.Floor("own/sites", ts.releaseSites, 3, "release events interpreted")
	r.Floor("own/sites", ts.deleteSites, 4, "table deletions interpreted (Auth, Attach, Walk rollback, Create failure)")
	r.Floor("own/sites", ts.consumed, 1, "consumption by Dirent.Create")
	r.Floor("own/sites", ts.createSites, 2, "handles handed out by Dirent.Create / FileSys.Attach")
	// summaries
	nRelHelpers, nSetters := 0, 0
	for _, fn := range fns {
		s := ts.summary(fn)
		if len(s.releases) > 0 {
			nRelHelpers++
		}
		if s.setsEnt[0] >= 0 {
			nSetters++
		}
	}
	r.Floor("own/summaries", nRelHelpers, 1, "release helper (delRefAction)")
	r.Floor("own/summaries", nSetters, 1, "entry setter (link)")

	c13Stop(r, ts)
	placeholderHandout(r, fns, "own/placeholder")
	publishLocked(r, fns, "own/publish-locked")
	r.Exhaustive = true
}

// placeholderHandout: a function that reserves a fid with refs.LoadOrStore(fid, new) hands its new *SFid out (any
// non-nil *SFid result, whatever the error result says) only on the not-loaded edge. A caller that receives the
// object for a fid it does not own "rolls back" by deleting the fid — i.e. unbinds somebody else's live entry
// without releasing it.
func placeholderHandout(r *Run, fns []*ssa.Function, rule string) {
	n := 0
	for _, fn := range fns {
		los := findCalls(fn, "(*sync.Map).LoadOrStore")
		if len(los) == 0 {
			continue
		}
		ri := -1
		res := fn.Signature.Results()
		for i := 0; i < res.Len(); i++ {
			if pt, ok := res.At(i).Type().(*types.Pointer); ok && isP9P(pt.Elem(), "SFid") {
				ri = i
			}
		}
		if ri < 0 {
			continue
		}
		for _, ret := range returnsOf(fn) {
			if len(ret.Results) <= ri {
				continue
			}
			n++
			for _, alt := range phiAlternatives(ret.Results[ri], 3) {
				if isNilConst(alt) {
					continue
				}
				notLoaded := false
				for _, lo := range los {
					loaded := resultN(lo, 1)
					for _, cd := range condsAtInstr(ret) {
						nc := normCond(cd)
						if nc.V == loaded && !nc.Truth {
							notLoaded = true
						}
					}
				}
				r.Check(notLoaded, rule, fnName(fn)+": a non-nil *SFid is returned only on the not-loaded edge of LoadOrStore", ret.Pos(),
					"the reservation helper hands out its object although the fid may already be bound: the caller's rollback (refs.Delete) then unbinds the existing fid without releasing its entry")
				break
			}
		}
	}
	r.Floor(rule, n, 2, "returns of the reservation helper")
}

// O4: Stop visits every table entry and releases it.
func c13Stop(r *Run, ts *TS) {
	p := r.P
	stop := p.Fn("p9p:(*session).Stop")
	if stop == nil {
		r.Undecided("own/stop", "(*session).Stop", token.NoPos, "anchor not found")
		return
	}
	ranges := findCalls(stop, "(*sync.Map).Range")
	r.Floor("own/stop", len(ranges), 1, "Range over the fid table in Stop")
	for _, rc := range ranges {
		// over sess.refs
		okTable := false
		if fa, ok := rc.Call.Args[0].(*ssa.FieldAddr); ok && fieldName(fa.X.Type(), fa.Field) == "refs" {
			okTable = true
		}
		r.Check(okTable, "own/stop", "Stop: ranges over the session's fid table", rc.Pos(), "Stop does not range over sess.refs")
		mc, ok := rc.Call.Args[1].(*ssa.MakeClosure)
		if !ok {
			r.Undecided("own/stop", "Stop: Range callback", rc.Pos(), "callback is not a closure literal")
			continue
		}
		cb := mc.Fn.(*ssa.Function)
		// continues on every path
		cont := true
		for _, ret := range returnsOf(cb) {
			c, isC := ret.Results[0].(*ssa.Const)
			if !isC || c.Value == nil || c.Value.String() != "true" {
				cont = false
			}
		}
		r.Check(cont, "own/stop", "Stop: callback returns true on every path (visits every entry)", cb.Pos(), "the iteration can stop early: remaining fids are never released")
		// releases: calls a function that unbinds+releases by fid (delRef-like: LoadAndDelete + release helper under lock)
		// or performs LoadAndDelete/Delete and a release helper itself.
		released := false
		eachInstr(cb, func(in ssa.Instruction) {
			c, ok := in.(*ssa.Call)
			if !ok {
				return
			}
			f := staticCallee(&c.Call)
			if f == nil || !p.InModule(f) {
				return
			}
			if unbindsAndReleases(ts, f, 0) {
				// the key handed over must be the callback's key parameter
				for _, a := range c.Call.Args {
					if isP9P(a.Type(), "Fid") && derivesFrom(a, cb.Params[0], 4) {
						released = true
					}
				}
			}
		})
		r.Check(released, "own/stop", "Stop: callback unbinds and releases the visited fid (under its lock)", cb.Pos(),
			"Stop does not release every remaining entry through the unbind-lock-release path: entries stay bound or are released without the lock")
		// the callback must not be conditional on anything but the key's type
	}
}

// unbindsAndReleases: f removes a fid from the table (LoadAndDelete/Delete) and calls a release helper
// (or Clunk/Remove) on the removed object.
func unbindsAndReleases(ts *TS, f *ssa.Function, depth int) bool {
	if depth > 2 || f.Blocks == nil {
		return false
	}
	del, rel := false, false
	eachInstr(f, func(in ssa.Instruction) {
		c, ok := in.(*ssa.Call)
		if !ok {
			return
		}
		n := calleeName(&c.Call)
		if n == "(*sync.Map).LoadAndDelete" || n == "(*sync.Map).Delete" {
			del = true
		}
		if g := staticCallee(&c.Call); g != nil && ts.p.InModule(g) {
			if len(ts.summary(g).releases) > 0 {
				rel = true
			}
		}
		if c.Call.IsInvoke() && releaseMethods[c.Call.Method.Name()] && ts.entOwner(c.Call.Value) != nil {
			rel = true
		}
	})
	return del && rel
}
