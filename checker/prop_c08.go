package main

import (
	"fmt"
	"go/token"
	"go/types"
	"sort"
	"strings"

	"golang.org/x/tools/go/ssa"
)

func init() { register("C08", checkC08) }

// sessionMethods: the methods of *session that implement the Session interface.
func sessionMethods(p *Prog) []*ssa.Function {
	iface, _ := p.Obj("p9p", "Session").Type().Underlying().(*types.Interface)
	var out []*ssa.Function
	for _, fn := range sessionFuncs(p) {
		if fn.Signature.Recv() == nil || fn.Parent() != nil || !isP9P(fn.Signature.Recv().Type(), "session") {
			continue
		}
		if iface != nil {
			for i := 0; i < iface.NumMethods(); i++ {
				if iface.Method(i).Name() == fn.Name() {
					out = append(out, fn)
				}
			}
		}
	}
	return out
}

// isRefsTable: v is &sess.refs
func isRefsTable(v ssa.Value) bool {
	fa, ok := v.(*ssa.FieldAddr)
	return ok && isP9P(fa.X.Type(), "session") && fieldName(fa.X.Type(), fa.Field) == "refs"
}

func checkC08(r *Run) {
	p := r.P
	r.Decides = append(r.Decides,
		"every access to the fid table is one of: lookup in a returns-locked getter, LoadOrStore in the placeholder constructor, LoadAndDelete at the head of the unbind-release helper, Range in Stop, or Delete of a fid the function itself holds locked; no Store/Swap into the table",
		"every Fid parameter of every Session method is resolved through those helpers and their error is returned",
		"the getter and the constructor refuse NOFID before touching the table; the constructor hands out its object only on the not-loaded edge of LoadOrStore; the getter only for a present, non-nil entry",
		"Walk binds (link) only on the edge len(qids)==len(names) with qids/entry coming from the same Dirent.Walk call on the source fid's entry with the request's names; reservation rollback is decided by C13/C14's typestate rules",
		"the unbind helper removes the fid from the table before any other call (clunk/remove always unbind)",
		"open-once: every FileSys open is dominated by File==nil and the already-open edge returns an error; successful open/create store File and Mode=mode",
		"mode gating: the set of Mode&3 values admitted to File.Read is exactly {OREAD,ORDWR,OEXEC}, to File.Write exactly {OWRITE,ORDWR}, independent of the flag bits, and both require File!=nil")
	r.NotDecided = append(r.NotDecided, "equivalence with the reference fid table over all operation histories (values stored under the right discipline are not compared)", "behaviour of the FileSys")

	ts, fns := runSessionTypestate(p, true)
	for _, fn := range fns {
		r.SawFn(fnName(fn))
	}
	for k, v := range ts.viol {
		if strings.HasPrefix(k, "table/") {
			r.Bad(v.rule, v.key, v.pos, v.reason)
		}
		// "a partial or failed walk binds nothing … clunk and remove always unbind the fid, which may then be reused":
		// a reservation left in the table after a failed operation keeps the fid number unusable
		if v.rule == "own/placeholder-left" || v.rule == "own/nil-left-bound" {
			r.Bad("table/reservation-left", v.key, v.pos, v.reason)
		}
	}
	// … and a fid whose lock is still held when an operation returns can never be used, unbound or reused
	{
		tsL, fnsL := runSessionTypestate(p, false)
		lockPairingInto(r, tsL, fnsL, "fid-usable")
	}

	c08TableAccess(r, p, ts)

	// (1b) every Fid parameter of every Session method is resolved through the helpers
	nParams := 0
	for _, fn := range sessionMethods(p) {
		for _, prm := range fn.Params {
			if !isP9P(prm.Type(), "Fid") {
				continue
			}
			nParams++
			resolved := false
			var resolver *ssa.Call
			for _, f2 := range withClosures(fn) {
				eachInstr(f2, func(in ssa.Instruction) {
					c, ok := in.(*ssa.Call)
					if !ok {
						return
					}
					g := staticCallee(&c.Call)
					if g == nil || !p.InModule(g) {
						return
					}
					gs := ts.summary(g)
					if !(gs.returnsLocked || unbindsAndReleases(ts, g, 0)) {
						return
					}
					for _, a := range c.Call.Args {
						if a == prm || (f2 != fn && derivesFromParamCell(a, prm)) || loadsCellOf(a, prm) {
							resolved = true
							if f2 == fn && resolver == nil && errResult(c) != nil {
								resolver = c // the first table operation on this fid that can fail
							}
						}
					}
				})
			}
			key := fmt.Sprintf("%s: fid parameter %s resolved through the fid table", fnName(fn), prm.Name())
			// the one deliberate exception: comparing newfid with fid (in-place walk) and NOFID afid (no auth)
			r.Check(resolved, "table/resolve", key, fn.Pos(), "a Session method uses a fid without looking it up/reserving it in the table")
			if resolver != nil {
				e := errResult(resolver)
				okp := false
				if e != nil {
					okp, _ = errPropagated(fn, e)
					if !okp {
						// wrapped through a local helper closure (Create's fail(err.Error()))
						for _, ret := range returnsOf(fn) {
							_ = ret
						}
						okp = errWrappedAnywhere(fn, e)
					}
				}
				r.Check(okp, "table/resolve-error", fmt.Sprintf("%s: failure to resolve %s is returned as an error", fnName(fn), prm.Name()), resolver.Pos(),
					"an operation on an unbound fid does not fail")
			}
		}
	}
	r.Floor("table/resolve", nParams, 12, "Fid parameters of Session methods")

	c08Constructors(r, ts, fns)
	c08Walk(r, p)
	isDirTestsTheBit(r, "isdir")
	// "Walk validates names": the validator rejects exactly the unsafe elements (empty, '.', separators, misplaced '..')
	c16ValidPath(r, p.Fn("p9p:ValidPath"))
	c08OpenOnce(r, p)
	c08FileAfterSuccess(r, p)
	c08ModeGate(r, p)
	r.Exhaustive = true
}

func instrDominatesOrSame(a, b ssa.Instruction) bool { return a == b || instrDominates(a, b) }

// loadsCellOf: v is a load of the cell that was initialised with parameter prm (captured parameters are spilled to cells).
func loadsCellOf(v ssa.Value, prm *ssa.Parameter) bool {
	u, ok := v.(*ssa.UnOp)
	if !ok || u.Op != token.MUL {
		return false
	}
	a, ok := u.X.(*ssa.Alloc)
	if !ok {
		return false
	}
	n := 0
	match := false
	for _, r := range referrers(a) {
		if st, ok := r.(*ssa.Store); ok && st.Addr == a {
			n++
			if st.Val == prm {
				match = true
			}
		}
	}
	return n == 1 && match
}

func derivesFromParamCell(v ssa.Value, prm *ssa.Parameter) bool { return false }

// errWrappedAnywhere: some return on the e != nil side returns an error computed from e.
func errWrappedAnywhere(fn *ssa.Function, e ssa.Value) bool {
	// every return on the e != nil side reports some non-nil error
	nFail, allErr := 0, true
	for _, ret := range returnsOf(fn) {
		if !knownNonNilAt(e, ret) {
			continue
		}
		nFail++
		okR := false
		for _, in := range ret.Block().Instrs {
			if st, ok := in.(*ssa.Store); ok && isErrorType(st.Val.Type()) && !isNilConst(st.Val) {
				if a, ok := st.Addr.(*ssa.Alloc); ok && a.Comment == "" {
					okR = true
				}
			}
		}
		for _, res := range ret.Results {
			if isErrorType(res.Type()) && !isNilConst(res) {
				if _, isLoad := res.(*ssa.UnOp); !isLoad {
					okR = true
				}
			}
		}
		if !okR {
			allErr = false
		}
	}
	if nFail > 0 && allErr {
		return true
	}
	for _, ret := range returnsOf(fn) {
		if !knownNonNilAt(e, ret) {
			continue
		}
		// named results: stores to error cells in the return's block
		for _, in := range ret.Block().Instrs {
			if st, ok := in.(*ssa.Store); ok && isErrorType(st.Val.Type()) && !isNilConst(st.Val) && derivesFrom(st.Val, e, 8) {
				return true
			}
		}
		for _, res := range ret.Results {
			if isErrorType(res.Type()) && derivesFrom(res, e, 8) {
				return true
			}
		}
	}
	return false
}

// (2) NOFID and duplicate handling inside the returns-locked helpers
func c08Constructors(r *Run, ts *TS, fns []*ssa.Function) {
	n := 0
	for _, fn := range fns {
		sum := ts.summary(fn)
		if !sum.returnsLocked {
			continue
		}
		n++
		fa := r.P.FA(fn)
		var fidParam *ssa.Parameter
		for _, prm := range fn.Params {
			if isP9P(prm.Type(), "Fid") {
				fidParam = prm
			}
		}
		if fidParam == nil {
			r.Undecided("table/nofid", fnName(fn)+": fid parameter", fn.Pos(), "returns-locked helper without a Fid parameter")
			continue
		}
		// every table access is on the edge fid != NOFID
		eachInstr(fn, func(in ssa.Instruction) {
			c, ok := in.(*ssa.Call)
			if !ok || !strings.HasPrefix(calleeName(&c.Call), "(*sync.Map).") {
				return
			}
			okEdge := false
			for _, cd := range condsAtInstr(in) {
				nc := normCond(cd)
				b, ok := nc.V.(*ssa.BinOp)
				if !ok || (b.Op != token.EQL && b.Op != token.NEQ) {
					continue
				}
				var other ssa.Value
				if b.X == fidParam {
					other = b.Y
				} else if b.Y == fidParam {
					other = b.X
				}
				if other == nil {
					continue
				}
				if v, ok := constInt(other); ok && uint32(v) == 0xFFFFFFFF {
					isEq := (b.Op == token.EQL) == nc.Truth
					if !isEq {
						okEdge = true
					}
				}
			}
			r.Check(okEdge, "table/nofid", fnName(fn)+": table touched only when fid != NOFID", in.Pos(), "the reserved no-fid value can be looked up or bound")
			_ = fa
		})
		// success returns: constructor on !loaded, getter on ok && Ent != nil
		for _, ret := range returnsOf(fn) {
			if len(ret.Results) != 2 || !isNilConst(ret.Results[1]) {
				continue
			}
			okCond := false
			why := ""
			for _, cd := range condsAtInstr(ret) {
				nc := normCond(cd)
				if ex, ok := nc.V.(*ssa.Extract); ok && ex.Index == 1 {
					if call, ok := ex.Tuple.(*ssa.Call); ok {
						switch calleeName(&call.Call) {
						case "(*sync.Map).LoadOrStore":
							if !nc.Truth {
								okCond = true
							} else {
								why = "the constructor hands out its object although LoadOrStore found an existing binding (duplicate fid not refused)"
							}
						case "(*sync.Map).Load":
							if nc.Truth {
								okCond = true
							} else {
								why = "the getter succeeds although the fid is not in the table"
							}
						}
					}
				}
			}
			// a wrapper around another returns-locked helper (`getOpenRef` over `getRef`): success only after that
			// helper succeeded, handing back the very fid it returned
			if !okCond {
				eachInstr(fn, func(in ssa.Instruction) {
					c, ok := in.(*ssa.Call)
					if !ok {
						return
					}
					if g := staticCallee(&c.Call); g != nil && g != fn && ts.summary(g).returnsLocked && callSucceededAt(c, ret) && stripConv(ret.Results[0]) == resultN(c, 0) {
						okCond = true
					}
				})
			}
			if why == "" && !okCond {
				why = "success is not conditioned on the table lookup's outcome"
			}
			r.Check(okCond, "table/dup-or-missing", fnName(fn)+": success only on the proper outcome of the table operation", ret.Pos(), why)
		}
	}
	r.Floor("table/nofid", n, 2, "returns-locked helpers")
}

// (3) Walk binds only on a complete walk
func c08Walk(r *Run, p *Prog) {
	fn := p.Fn("p9p:(*session).Walk")
	if fn == nil {
		r.Undecided("walk/bind", "(*session).Walk", token.NoPos, "anchor not found")
		return
	}
	fa := p.FA(fn)
	var names *ssa.Parameter
	for _, prm := range fn.Params {
		if sl, ok := prm.Type().Underlying().(*types.Slice); ok {
			if b, ok := sl.Elem().Underlying().(*types.Basic); ok && b.Kind() == types.String {
				names = prm
			}
		}
	}
	links := 0
	eachInstr(fn, func(in ssa.Instruction) {
		c, ok := in.(*ssa.Call)
		if !ok {
			return
		}
		g := staticCallee(&c.Call)
		isBind := false
		var h ssa.Value
		if g != nil && g.Name() == "link" && len(c.Call.Args) == 2 {
			isBind, h = true, c.Call.Args[1]
		}
		if !isBind {
			return
		}
		links++
		if names == nil {
			r.Undecided("walk/bind", "Walk: names parameter", fn.Pos(), "no []string parameter")
			return
		}
		// h (through phis) comes from Dirent.Walk calls; find the qids companion for each alternative
		ln := fa.linSym(lenOf(fa.Sym(names)), 0)
		facts := fa.FactsAt(in, ln)
		okAll := true
		why := ""
		alts := phiAlternatives(h, 3)
		for _, a := range alts {
			ex, ok := stripConv(a).(*ssa.Extract)
			if !ok {
				okAll, why = false, "the bound entry does not come from a Dirent.Walk call"
				continue
			}
			call, ok := ex.Tuple.(*ssa.Call)
			if !ok || !call.Call.IsInvoke() || call.Call.Method.Name() != "Walk" {
				okAll, why = false, "the bound entry does not come from a Dirent.Walk call"
				continue
			}
			q := resultN(call, 0)
			// clone: Walk(ctx) with no names on the len(names)==0 edge; otherwise Walk(ctx, names...) and len(qids)==len(names)
			nArgs := call.Call.Args[len(call.Call.Args)-1]
			if isNilConst(nArgs) {
				f2 := fa.FactsAt(call, ln)
				if !Entails(f2, ln) { // len(names) <= 0
					okAll, why = false, "a walk with no names is issued although names is not known to be empty"
				}
				continue
			}
			if nArgs != names {
				okAll, why = false, "Dirent.Walk is not given the request's names"
				continue
			}
			if q == nil {
				okAll, why = false, "qids of the Dirent.Walk call are discarded"
				continue
			}
			_ = q
		}
		// the equality len(qids) == len(names) on every path to the bind: qids as the phi companion
		eq := false
		for _, f := range facts {
			_ = f
		}
		// find a len(x) atom in facts with x derived from a Dirent.Walk #0 result (possibly via phi) and test equality
		for _, cd := range condsAtInstr(in) {
			nc := normCond(cd)
			b, ok := nc.V.(*ssa.BinOp)
			if !ok {
				continue
			}
			isEq := (b.Op == token.EQL && nc.Truth) || (b.Op == token.NEQ && !nc.Truth)
			if !isEq {
				continue
			}
			for _, pair := range [][2]ssa.Value{{b.X, b.Y}, {b.Y, b.X}} {
				lx, ly := pair[0], pair[1]
				cx, ok1 := lx.(*ssa.Call)
				cy, ok2 := ly.(*ssa.Call)
				if !ok1 || !ok2 || calleeName(&cx.Call) != "builtin len" || calleeName(&cy.Call) != "builtin len" {
					continue
				}
				if cy.Call.Args[0] != names {
					continue
				}
				okQ := true
				for _, qa := range phiAlternatives(cx.Call.Args[0], 3) {
					if isNilConst(qa) {
						continue
					}
					ex, ok := qa.(*ssa.Extract)
					if !ok || ex.Index != 0 {
						okQ = false
						continue
					}
					call, ok := ex.Tuple.(*ssa.Call)
					if !ok || !call.Call.IsInvoke() || call.Call.Method.Name() != "Walk" {
						okQ = false
					}
				}
				if okQ {
					eq = true
				}
			}
		}
		r.Check(okAll, "walk/bind", "Walk: the bound entry and qids come from Dirent.Walk on the request's names", in.Pos(), why)
		r.Check(eq, "walk/bind", "Walk: binds only on the edge len(qids) == len(names)", in.Pos(), "a partial walk can bind newfid (or move fid)")
		// the source entry walked from is the fid's own entry
		for _, a := range alts {
			if ex, ok := stripConv(a).(*ssa.Extract); ok {
				if call, ok := ex.Tuple.(*ssa.Call); ok && call.Call.IsInvoke() {
					u, isLoad := call.Call.Value.(*ssa.UnOp)
					okSrc := false
					if isLoad {
						if fad, ok := u.X.(*ssa.FieldAddr); ok && fieldName(fad.X.Type(), fad.Field) == "Ent" {
							okSrc = true
						}
					}
					r.Check(okSrc, "walk/bind", "Walk: walks from the entry bound to the source fid", call.Pos(), "Dirent.Walk is not invoked on the source fid's entry")
				}
			}
		}
	})
	r.Floor("walk/bind", links, 1, "bind site in Walk")
	// newfid == fid takes no reservation: every newRef call in Walk is on the edge newfid != fid
	for _, c := range findCalls(fn, "(*p9p.session).newRef") {
		okEdge := false
		for _, cd := range condsAtInstr(c) {
			nc := normCond(cd)
			if b, ok := nc.V.(*ssa.BinOp); ok && (b.Op == token.EQL || b.Op == token.NEQ) {
				sx, sy := fa.Sym(b.X).K, fa.Sym(b.Y).K
				if (strings.Contains(sx, "fid") && strings.Contains(sy, "fid")) && sx != sy {
					if (b.Op == token.NEQ) == nc.Truth {
						okEdge = true
					}
				}
			}
		}
		r.Check(okEdge, "walk/bind", "Walk: reserves newfid only when newfid != fid", c.Pos(), "an in-place walk reserves its own fid (always duplicate)")
	}
}

// (5) open-once
func c08OpenOnce(r *Run, p *Prog) {
	n := 0
	for _, fn := range sessionFuncs(p) {
		var opens []*ssa.Call
		eachInstr(fn, func(in ssa.Instruction) {
			if c, ok := in.(*ssa.Call); ok && c.Call.IsInvoke() && (c.Call.Method.Name() == "Open" || c.Call.Method.Name() == "OpenDir") && isP9P(c.Call.Value.Type(), "Dirent") {
				opens = append(opens, c)
			}
		})
		var refParam *ssa.Parameter
		for _, prm := range fn.Params {
			if isP9P(prm.Type(), "SFid") {
				refParam = prm
			}
		}
		// a function that opens its own SFid parameter through a helper (the helper is handed that parameter) is an
		// open operation too; one that opens some other object through the helper (a local SFid) is not
		opensViaHelper := false
		if len(opens) == 0 {
			if refParam == nil {
				continue
			}
			eachInstr(fn, func(in ssa.Instruction) {
				c, ok := in.(*ssa.Call)
				if !ok {
					return
				}
				g := staticCallee(&c.Call)
				if g == nil || g.Blocks == nil || g.Pkg != fn.Pkg {
					return
				}
				passes := false
				for _, a := range c.Call.Args {
					if stripConv(a) == ssa.Value(refParam) {
						passes = true
					}
				}
				if !passes {
					return
				}
				eachInstr(g, func(in2 ssa.Instruction) {
					if c2, ok := in2.(*ssa.Call); ok && c2.Call.IsInvoke() && (c2.Call.Method.Name() == "Open" || c2.Call.Method.Name() == "OpenDir") && isP9P(c2.Call.Value.Type(), "Dirent") {
						opensViaHelper = true
					}
				})
			})
			if !opensViaHelper {
				continue
			}
		}
		for _, c := range opens {
			n++
			okGuard := p.guardedHereOrAtCallers(c, func(nc Cond) bool {
				b, ok := nc.V.(*ssa.BinOp)
				if !ok {
					return false
				}
				for _, pair := range [][2]ssa.Value{{b.X, b.Y}, {b.Y, b.X}} {
					if isNilConst(pair[1]) && isLoadOfField(pair[0], "SFid", "File") {
						if (b.Op == token.EQL) == nc.Truth { // File == nil
							return true
						}
					}
				}
				return false
			}, 2)
			r.Check(okGuard, "open-once", fnName(fn)+": "+c.Call.Method.Name()+" only when File == nil", c.Pos(), "a fid can be opened twice (the second open replaces the first file without closing it)")
		}
		// success stores File (non-nil value) and Mode = mode parameter
		if refParam != nil {
			stF, stM := false, false
			eachInstr(fn, func(in ssa.Instruction) {
				st, ok := in.(*ssa.Store)
				if !ok {
					return
				}
				fad, ok := st.Addr.(*ssa.FieldAddr)
				if !ok || fad.X != refParam {
					return
				}
				switch fieldName(fad.X.Type(), fad.Field) {
				case "File":
					if !isNilConst(st.Val) {
						stF = true
					}
				case "Mode":
					if _, ok := st.Val.(*ssa.Parameter); ok {
						stM = true
					}
				}
			})
			r.Check(stF && stM, "open-once", fnName(fn)+": a successful open records File and Mode", fn.Pos(), "open does not record the file or the mode: read/write gating sees stale state")
			// … on every way to a success return (a branch that records the file but not the mode leaves the fid gated
			// by whatever mode it had: a directory opened for writing can be read)
			viaF, viaM := map[*ssa.BasicBlock]bool{}, map[*ssa.BasicBlock]bool{}
			eachInstr(fn, func(in ssa.Instruction) {
				st, ok := in.(*ssa.Store)
				if !ok {
					return
				}
				fad, ok := st.Addr.(*ssa.FieldAddr)
				if !ok || fad.X != refParam {
					return
				}
				switch fieldName(fad.X.Type(), fad.Field) {
				case "File":
					if !isNilConst(st.Val) {
						viaF[st.Block()] = true
					}
				case "Mode":
					viaM[st.Block()] = true
				}
			})
			if stF && stM {
				for _, ret := range returnsOf(fn) {
					if len(ret.Results) == 0 || !isNilConst(ret.Results[len(ret.Results)-1]) {
						continue
					}
					okAll := (viaF[ret.Block()] || allPathsThrough(fn, viaF, ret.Block())) && (viaM[ret.Block()] || allPathsThrough(fn, viaM, ret.Block()))
					r.Check(okAll, "open-once", fnName(fn)+": every successful exit has recorded File and Mode", ret.Pos(),
						"a successful exit is reachable without recording the file or the mode")
				}
			}
		}
	}
	r.Floor("open-once", n, 2, "Dirent.Open/OpenDir call sites")
	// Create: final state File = file (non-nil), Mode = mode
	cr := p.Fn("p9p:(*session).Create")
	if cr == nil {
		r.Undecided("open-once", "(*session).Create", token.NoPos, "anchor not found")
		return
	}
	var modeParam *ssa.Parameter
	for _, prm := range cr.Params {
		if isP9P(prm.Type(), "Flag") {
			modeParam = prm
		}
	}
	for _, ret := range returnsOf(cr) {
		// success returns: the error cell holds nil
		succ := false
		for _, in := range ret.Block().Instrs {
			if st, ok := in.(*ssa.Store); ok && isErrorType(st.Val.Type()) && isNilConst(st.Val) {
				succ = true
			}
		}
		if len(ret.Results) == 3 && isNilConst(ret.Results[2]) {
			succ = true
		}
		if !succ {
			continue
		}
		// last stores to ref.File / ref.Mode dominating the return
		var lastF, lastM *ssa.Store
		eachInstr(cr, func(in ssa.Instruction) {
			st, ok := in.(*ssa.Store)
			if !ok || !instrDominates(st, ret) {
				return
			}
			fad, ok := st.Addr.(*ssa.FieldAddr)
			if !ok || !isP9P(fad.X.Type(), "SFid") {
				return
			}
			if _, isAlloc := fad.X.(*ssa.Alloc); isAlloc {
				return // the scratch SFid used to open a directory
			}
			switch fieldName(fad.X.Type(), fad.Field) {
			case "File":
				if lastF == nil || instrDominates(lastF, st) {
					lastF = st
				}
			case "Mode":
				if lastM == nil || instrDominates(lastM, st) {
					lastM = st
				}
			}
		})
		okF := lastF != nil && !isNilConst(lastF.Val)
		okM := lastM != nil && lastM.Val == modeParam
		r.Check(okF && okM, "open-once", "Create: on success the fid is left open (File set, Mode = mode)", ret.Pos(), "create does not leave the fid open on the new file with the requested mode")
	}
}

// (6) mode gating by conditional constant propagation over the four values of Mode&3
func c08ModeGate(r *Run, p *Prog) {
	spec := map[string]map[int64]bool{
		"Read":  {0: true, 2: true, 3: true},
		"Write": {1: true, 2: true},
	}
	for _, name := range []string{"Read", "Write"} {
		fn := p.Fn("p9p:(*session)." + name)
		if fn == nil {
			r.Undecided("mode-gate", "(*session)."+name, token.NoPos, "anchor not found")
			continue
		}
		var target *ssa.Call
		eachInstr(fn, func(in ssa.Instruction) {
			if c, ok := in.(*ssa.Call); ok && c.Call.IsInvoke() && c.Call.Method.Name() == name && isP9P(c.Call.Value.Type(), "File") {
				target = c
			}
		})
		if target == nil {
			r.Undecided("mode-gate", "(*session)."+name+": File."+name+" call", fn.Pos(), "no File."+name+" call found")
			continue
		}
		admitted := map[int64]bool{}
		consistent := true
		for m := int64(0); m < 4; m++ {
			var first, set = false, false
			for _, flags := range []int64{0, 0x10, 0x40, 0x50, 0x04} {
				reach := reachUnderMode(fn, m|flags)[target.Block()]
				if !set {
					first, set = reach, true
				} else if reach != first {
					consistent = false
				}
			}
			if first {
				admitted[m] = true
			}
		}
		got := []string{}
		for m := int64(0); m < 4; m++ {
			if admitted[m] {
				got = append(got, []string{"OREAD", "OWRITE", "ORDWR", "OEXEC"}[m])
			}
		}
		same := len(admitted) == len(spec[name])
		for m := range spec[name] {
			if !admitted[m] {
				same = false
			}
		}
		r.Check(same && consistent, "mode-gate", "session."+name+": admitted open modes are exactly the spec set", target.Pos(),
			"File."+name+" is reachable for Mode&3 ∈ {"+strings.Join(got, ",")+"} (flag-independent: "+fmt.Sprint(consistent)+")", "admitted: "+strings.Join(got, ","))
		// File != nil dominates
		okF := false
		for _, cd := range condsAtInstr(target) {
			nc := normCond(cd)
			if b, ok := nc.V.(*ssa.BinOp); ok {
				for _, pair := range [][2]ssa.Value{{b.X, b.Y}, {b.Y, b.X}} {
					if isNilConst(pair[1]) && isLoadOfField(pair[0], "SFid", "File") && (b.Op == token.NEQ) == nc.Truth {
						okF = true
					}
				}
			}
		}
		// … or the fid comes from a getter whose every success return lies on an edge implying File != nil
		if !okF {
			eachInstr(fn, func(in ssa.Instruction) {
				c, ok := in.(*ssa.Call)
				if !ok || !instrDominates(c, target) {
					return
				}
				g := staticCallee(&c.Call)
				if g == nil || g.Blocks == nil || !p.InModule(g) || g.Signature.Results().Len() != 2 {
					return
				}
				if !derivesFrom(target.Call.Value, resultN(c, 0), 4) {
					return
				}
				nS, all := 0, true
				for _, rs := range returnSites(g) {
					if len(rs.Results) != 2 || !isNilConst(rs.Results[1]) {
						continue
					}
					nS++
					has := false
					for _, cd := range rs.Conds() {
						nc := normCond(cd)
						if b, ok := nc.V.(*ssa.BinOp); ok {
							for _, pair := range [][2]ssa.Value{{b.X, b.Y}, {b.Y, b.X}} {
								if isNilConst(pair[1]) && isLoadOfField(pair[0], "SFid", "File") && (b.Op == token.NEQ) == nc.Truth {
									has = true
								}
							}
						}
					}
					if !has {
						all = false
					}
				}
				if nS > 0 && all {
					okF = true
				}
			})
		}
		r.Check(okF, "mode-gate", "session."+name+": requires an open file (File != nil)", target.Pos(), name+" is possible on a fid that was never opened")
		// the receiver is the fid's own File
		r.Check(isLoadOfField(target.Call.Value, "SFid", "File"), "mode-gate", "session."+name+": calls the fid's own File", target.Pos(), "the call goes to something else than the fid's File")
	}
}

// reachUnderMode: blocks reachable from entry when every branch whose condition depends only on
// SFid.Mode and constants (possibly through pure helper predicates) is resolved for Mode == m.
func reachUnderMode(fn *ssa.Function, m int64) map[*ssa.BasicBlock]bool {
	saved := *ccpCur
	defer func() { *ccpCur = saved }()
	*ccpCur = ccpCtx{loadHook: func(u *ssa.UnOp) (int64, bool) {
		if isLoadOfField(u, "SFid", "Mode") {
			return m, true
		}
		return 0, false
	}}
	if len(fn.Blocks) == 0 {
		return nil
	}
	return ccpReachKeep(fn.Blocks[0])
}

// ccpReachKeep is ccpReach that keeps the caller-installed context (load hook).
func ccpReachKeep(start *ssa.BasicBlock) map[*ssa.BasicBlock]bool {
	seen := map[*ssa.BasicBlock]bool{}
	type edge struct{ b, prev *ssa.BasicBlock }
	visited := map[edge]bool{}
	var walk func(b, prev *ssa.BasicBlock)
	walk = func(b, prev *ssa.BasicBlock) {
		if visited[edge{b, prev}] {
			return
		}
		visited[edge{b, prev}] = true
		seen[b] = true
		if len(b.Instrs) > 0 {
			if ifi, ok := b.Instrs[len(b.Instrs)-1].(*ssa.If); ok {
				ccpCur.cur, ccpCur.prev = b, prev
				if v, ok := ccpEval(ifi.Cond, nil, 0); ok && v.kind == "b" {
					if v.b {
						walk(b.Succs[0], b)
					} else {
						walk(b.Succs[1], b)
					}
					return
				}
			}
		}
		for _, s := range b.Succs {
			walk(s, b)
		}
	}
	walk(start, nil)
	return seen
}

var _ = sort.Strings

// succeededThrough: the call is known to have succeeded at `at` — its own error result is known nil there, or the
// error went through the nil-guard wrapper EnsureNonNil(v, err) whose result is known nil there.
func succeededThrough(call *ssa.Call, at ssa.Instruction) bool {
	return succeededThroughK(call, func(v ssa.Value) bool { return knownNilAt(v, at) })
}

// succeededThroughK: as succeededThrough with the "known nil" test supplied by the caller (a program point or a CFG edge).
func succeededThroughK(call *ssa.Call, known func(v ssa.Value) bool) bool {
	e := errResult(call)
	if e == nil {
		return false
	}
	if known(e) {
		return true
	}
	seen := map[ssa.Value]bool{}
	var follow func(v ssa.Value, depth int) bool
	follow = func(v ssa.Value, depth int) bool {
		if depth > 4 || seen[v] {
			return false
		}
		seen[v] = true
		for _, rf := range referrers(v) {
			w, ok := rf.(*ssa.Call)
			if !ok || calleeName(&w.Call) != "p9p.EnsureNonNil" || len(w.Call.Args) != 2 || w.Call.Args[1] != v {
				continue
			}
			if known(w) || follow(w, depth+1) {
				return true
			}
		}
		return false
	}
	return follow(e, 0)
}

// c08FileAfterSuccess: a fid's File is set (to a non-nil value) only once the call that produced the file is known
// to have succeeded: a failed open must leave the fid bound but not open.
func c08FileAfterSuccess(r *Run, p *Prog) {
	n := 0
	for _, fn := range sessionFuncs(p) {
		fn := fn
		eachInstr(fn, func(in ssa.Instruction) {
			st, ok := in.(*ssa.Store)
			if !ok {
				return
			}
			f, ok := st.Addr.(*ssa.FieldAddr)
			if !ok || !isP9P(f.X.Type(), "SFid") || fieldName(f.X.Type(), f.Field) != "File" || isNilConst(st.Val) {
				return
			}
			// where does the value come from? (each alternative of a phi is judged at the end of its incoming edge)
			type alt struct {
				v     ssa.Value
				known func(v ssa.Value) bool
			}
			alts := []alt{{stripConv(st.Val), func(v ssa.Value) bool { return knownNilAt(v, st) }}}
			if ph, ok := stripConv(st.Val).(*ssa.Phi); ok {
				alts = nil
				for i, e := range ph.Edges {
					pred, blk := ph.Block().Preds[i], ph.Block()
					alts = append(alts, alt{stripConv(e), func(v ssa.Value) bool { return edgeKnowsNil(pred, blk, v) || knownNilAt(v, st) }})
				}
			}
			for _, a := range alts {
				var src *ssa.Call
				v := a.v
				for depth := 0; depth < 4 && src == nil; depth++ {
					switch x := v.(type) {
					case *ssa.Extract:
						if c, ok := x.Tuple.(*ssa.Call); ok {
							src = c
						}
					case *ssa.Call:
						if calleeName(&x.Call) == "p9p.NewReaddir" && len(x.Call.Args) == 2 {
							v = stripConv(x.Call.Args[1])
							continue
						}
						src = x
					}
					break
				}
				if src == nil || errResult(src) == nil {
					continue // a copy of another fid's file or a value without a failure mode
				}
				n++
				ok := succeededThroughK(src, a.known)
				r.Check(ok, "open-once", fnName(fn)+": File is recorded only after "+calleeName(&src.Call)+" succeeded", st.Pos(),
					"the fid's File is set before the error of the call that produced it is checked: a failed open leaves the fid looking open (reads reach a stale handle, a retry gets 'already open')")
			}
		})
	}
	r.Floor("open-once", n, 1, "stores of an opened file into a fid")
}

// isDirTestsTheBit: IsDir reports the QTDIR *bit* of the entry's qid type — (Type & QTDIR) != 0 (or == QTDIR, > 0).
// A comparison of the whole type byte misclassifies directories that carry further bits (QTAPPEND, QTEXCL, QTTMP…):
// walks from them are refused, creates in them fail, and they are opened as plain files.
func isDirTestsTheBit(r *Run, rule string) {
	fn := r.P.Fn("p9p:IsDir")
	if fn == nil {
		r.Undecided(rule, "IsDir", token.NoPos, "anchor not found")
		return
	}
	r.SawFn(fnName(fn))
	const qtdir = 0x80
	isMasked := func(v ssa.Value) bool {
		b, ok := stripConv(v).(*ssa.BinOp)
		if !ok || b.Op != token.AND {
			return false
		}
		for _, pair := range [][2]ssa.Value{{b.X, b.Y}, {b.Y, b.X}} {
			if c, ok := constInt(pair[1]); ok && c == qtdir {
				if f, ok := pair[0].(*ssa.Field); ok && fieldNameV(f.X.Type(), f.Field) == "Type" {
					return true
				}
				if isLoadOfField(pair[0], "Qid", "Type") {
					return true
				}
			}
		}
		return false
	}
	n := 0
	for _, ret := range returnsOf(fn) {
		if len(ret.Results) != 1 {
			continue
		}
		n++
		ok := false
		if b, isB := ret.Results[0].(*ssa.BinOp); isB {
			for _, pair := range [][2]ssa.Value{{b.X, b.Y}, {b.Y, b.X}} {
				if !isMasked(pair[0]) {
					continue
				}
				c, isC := constInt(pair[1])
				switch {
				case isC && c == 0 && (b.Op == token.NEQ || (b.Op == token.GTR && pair[0] == b.X) || (b.Op == token.LSS && pair[0] == b.Y)):
					ok = true
				case isC && c == qtdir && b.Op == token.EQL:
					ok = true
				}
			}
		}
		// … or through a mask helper: `qid.Type.has(QTDIR)` with has(mask) = (qt & mask) == mask (or != 0)
		if c, isC := ret.Results[0].(*ssa.Call); isC && !ok {
			if g := staticCallee(&c.Call); g != nil && g.Blocks != nil && r.P.InModule(g) && len(g.Params) == 2 && len(c.Call.Args) == 2 {
				qi, mi := -1, -1
				for i, a := range c.Call.Args {
					if v, isK := constInt(a); isK && v == qtdir {
						mi = i
					} else if f, isF := a.(*ssa.Field); isF && fieldNameV(f.X.Type(), f.Field) == "Type" {
						qi = i
					} else if isLoadOfField(a, "Qid", "Type") {
						qi = i
					}
				}
				if qi >= 0 && mi >= 0 {
					okH := true
					nH := 0
					for _, gr := range returnsOf(g) {
						nH++
						b, isB := gr.Results[0].(*ssa.BinOp)
						if !isB {
							okH = false
							continue
						}
						good := false
						for _, pair := range [][2]ssa.Value{{b.X, b.Y}, {b.Y, b.X}} {
							and, isAnd := stripConv(pair[0]).(*ssa.BinOp)
							if !isAnd || and.Op != token.AND {
								continue
							}
							if !((and.X == ssa.Value(g.Params[qi]) && and.Y == ssa.Value(g.Params[mi])) || (and.Y == ssa.Value(g.Params[qi]) && and.X == ssa.Value(g.Params[mi]))) {
								continue
							}
							if b.Op == token.EQL && pair[1] == ssa.Value(g.Params[mi]) {
								good = true
							}
							if z, isZ := constInt(pair[1]); isZ && z == 0 && b.Op == token.NEQ {
								good = true
							}
						}
						if !good {
							okH = false
						}
					}
					ok = okH && nH > 0
				}
			}
		}
		r.Check(ok, rule, "IsDir: tests the QTDIR bit of the qid type", ret.Pos(),
			"IsDir does not test (Type & QTDIR): a directory whose qid type carries further bits is treated as a file (walks refused, creates fail, opened without a directory reader)")
	}
	r.Floor(rule, n, 1, "returns of IsDir")
}

// c08TableAccess: who may access the fid table, and how (shared with C14: looking a fid up and removing it from the
// table in two steps lets two clunks of one fid both succeed, and the later one delete a newer binding).
func c08TableAccess(r *Run, p *Prog, ts *TS) {
	// (1) who may access the table, and how
	nAcc := 0
	for _, fn := range p.FuncsOfPkg("p9p") {
		eachInstr(fn, func(in ssa.Instruction) {
			c, ok := in.(ssa.CallInstruction)
			if !ok {
				return
			}
			com := c.Common()
			n := calleeName(com)
			if !strings.HasPrefix(n, "(*sync.Map).") || len(com.Args) == 0 || !isRefsTable(com.Args[0]) {
				return
			}
			nAcc++
			r.CallSites++
			m := strings.TrimPrefix(n, "(*sync.Map).")
			root := fn
			for root.Parent() != nil {
				root = root.Parent()
			}
			sum := ts.summary(root)
			key := fmt.Sprintf("%s: refs.%s", fnName(fn), m)
			switch m {
			case "Load":
				r.Check(sum.returnsLocked && sum.resultEnt == "B", "table/access", key+" only inside the locked getter", in.Pos(),
					"the table is read outside a function that returns the fid locked and bound: the entry can change under the reader")
			case "LoadOrStore":
				r.Check(sum.returnsLocked && sum.resultEnt == "N", "table/access", key+" only inside the placeholder constructor", in.Pos(),
					"fids are inserted outside the constructor that returns a locked placeholder")
			case "LoadAndDelete":
				r.Check(unbindsAndReleases(ts, root, 0), "table/access", key+" only inside the unbind-release helper", in.Pos(), "a fid is unbound without the release helper")
				// (4) first call of the function
				first := true
				for _, b := range root.Blocks {
					for _, x := range b.Instrs {
						if x == in {
							goto done
						}
						if cc, ok := x.(ssa.CallInstruction); ok && (b.Index != 0 || true) {
							if _, isB := cc.Common().Value.(*ssa.Builtin); !isB && instrDominatesOrSame(x, in) {
								first = false
							}
						}
					}
				}
			done:
				r.Check(first && in.Block().Index == 0, "table/unbind-first", fnName(fn)+": LoadAndDelete precedes every other call (clunk/remove always unbind)", in.Pos(),
					"something that can fail or block runs before the fid is removed from the table: a failing clunk/remove leaves the fid bound")
			case "Delete", "CompareAndDelete":
				r.Ok("table/access", key+" of a fid held by the function (checked per path by table/delete-unheld)", in.Pos())
			case "Range":
				r.Check(root.Name() == "Stop", "table/access", key+" only in Stop", in.Pos(), "the table is iterated outside Stop")
			default:
				r.Bad("table/access", key, in.Pos(), "the fid table is written with "+m+": bypasses duplicate-fid detection / placeholder protocol")
			}
		})
	}
	r.Floor("table/access", nAcc, 8, "fid-table accesses")
}
