package main

import (
	"fmt"
	"go/token"
	"go/types"
	"strings"

	"golang.org/x/tools/go/ssa"
)

func init() { register("C05", checkC05) }

// selRecvValue: the value received by case i of a select (nil for send cases or unused values).
func selRecvValue(sel *ssa.Select, i int) ssa.Value {
	if i >= len(sel.States) || sel.States[i].Dir != types.RecvOnly {
		return nil
	}
	idx := 2
	for j := 0; j < i; j++ {
		if sel.States[j].Dir == types.RecvOnly {
			idx++
		}
	}
	for _, r := range referrers(sel) {
		if e, ok := r.(*ssa.Extract); ok && e.Index == idx {
			return e
		}
	}
	return nil
}

// valueThroughLocal: v is a load of a field of a local struct variable that was stored whole from src → returns true.
func fieldOfLocalCopy(v ssa.Value, field string) (ssa.Value, bool) {
	u, ok := v.(*ssa.UnOp)
	if !ok || u.Op != token.MUL {
		return nil, false
	}
	fa, ok := u.X.(*ssa.FieldAddr)
	if !ok || fieldName(fa.X.Type(), fa.Field) != field {
		return nil, false
	}
	a, ok := fa.X.(*ssa.Alloc)
	if !ok {
		return fa.X, true
	}
	var whole ssa.Value
	n := 0
	for _, r := range referrers(a) {
		if st, ok := r.(*ssa.Store); ok && st.Addr == a {
			whole = st.Val
			n++
		}
	}
	if n == 1 {
		return whole, true
	}
	return a, true
}

// mapLeaks: how the map value m escapes the goroutine-confined discipline in fn: captured by a closure that is started with go,
// passed to a go call, stored to the heap, or sent on a channel. Returns a description or "".
func mapLeak(m ssa.Value, depth int) string {
	if depth > 3 {
		return ""
	}
	for _, r := range referrers(m) {
		switch x := r.(type) {
		case *ssa.MapUpdate, *ssa.Lookup, *ssa.Range, *ssa.DebugRef, *ssa.Next:
		case *ssa.Go:
			return "passed to a go statement"
		case *ssa.Send:
			return "sent on a channel"
		case *ssa.Store:
			if x.Val == m {
				if _, isAlloc := x.Addr.(*ssa.Alloc); !isAlloc {
					return "stored to the heap"
				}
				// a cell: who captures it?
				for _, r2 := range referrers(x.Addr) {
					if mc, ok := r2.(*ssa.MakeClosure); ok {
						for _, r3 := range referrers(mc) {
							if _, isGo := r3.(*ssa.Go); isGo {
								return "captured by a closure started with go"
							}
						}
					}
				}
			}
		case *ssa.MakeClosure:
			for _, r3 := range referrers(x) {
				if _, isGo := r3.(*ssa.Go); isGo {
					return "captured by a closure started with go"
				}
			}
		case *ssa.Call:
			if _, isB := x.Call.Value.(*ssa.Builtin); isB {
				continue
			}
			f := staticCallee(&x.Call)
			if f == nil {
				return "passed to a dynamic call"
			}
			for i, a := range x.Call.Args {
				if a == m && i < len(f.Params) {
					if l := mapLeak(f.Params[i], depth+1); l != "" {
						return "passed to " + fnName(f) + " where it is " + l
					}
				}
			}
		case *ssa.Defer:
		case *ssa.MakeInterface, *ssa.ChangeType:
			if l := mapLeak(x.(ssa.Value), depth+1); l != "" {
				return l
			}
		case *ssa.UnOp, *ssa.Phi:
		default:
			return fmt.Sprintf("used by %T", r)
		}
	}
	return ""
}

func checkC05(r *Run) {
	p := r.P
	r.Decides = append(r.Decides,
		"the outstanding-request map is confined to the owner goroutine (never captured by a go closure, passed to go, stored or sent)",
		"allocateTag returns a tag only on the not-found edge of a lookup of that same value, every value it can return is the constant 0 or has passed the != NOTAG test, and the pool-exhaustion guard precedes the search",
		"the tag is registered with its request before the request is written, the frame carries that tag and the request's own message",
		"a reply is handed to the response channel of the request found under the reply's own tag, after that entry was deleted; entries are deleted only there and on a failed write of the same request",
		"reply/error channels are created with capacity 1; send() waits on them together with transport.closed and the caller's context; an Rerror reply becomes the call's error",
		"one writer (owner loop) and one reader (reader goroutine) per channel after negotiation")
	r.NotDecided = append(r.NotDecided, "exactly-once delivery under every reply order as a dynamic statement", "behaviour over more than 65535 requests", "data-race freedom beyond the confinement of the map")

	owner, reader := transportRoles(p)
	send := p.Fn("p9p:(*transport).send")
	at := p.Fn("p9p:allocateTag")
	if owner == nil || reader == nil || send == nil || at == nil {
		r.Undecided("anchor", "transport roles / allocateTag", token.NoPos, "anchors not resolved")
		return
	}
	for _, f := range []*ssa.Function{owner, reader, send, at} {
		r.SawFn(fnName(f))
	}
	// (1) the map
	var outstanding *ssa.MakeMap
	eachInstr(owner, func(in ssa.Instruction) {
		if m, ok := in.(*ssa.MakeMap); ok {
			if mt, ok := m.Type().Underlying().(*types.Map); ok && isP9P(mt.Key(), "Tag") {
				outstanding = m
			}
		}
	})
	if outstanding == nil {
		r.Undecided("confinement", "handle: outstanding map", owner.Pos(), "no map[Tag]... made in the owner loop")
		return
	}
	leak := mapLeak(outstanding, 0)
	r.Check(leak == "", "confinement", "handle: outstanding map is confined to the owner goroutine", outstanding.Pos(), "the tag table is "+leak+": concurrent map access (fatal error) and lost replies")
	// helpers of the owner loop that receive the table as an argument (the request branch extracted into a method):
	// inside them the corresponding parameter is the table
	outParams := map[ssa.Value]bool{}
	scope := []*ssa.Function{owner}
	var isOut func(v ssa.Value) bool
	defer func() { _ = scope }()
	isOut = func(v ssa.Value) bool {
		if v == ssa.Value(outstanding) || outParams[v] {
			return true
		}
		if u, ok := v.(*ssa.UnOp); ok && u.Op == token.MUL {
			if a, ok := u.X.(*ssa.Alloc); ok {
				for _, rr := range referrers(a) {
					if st, ok := rr.(*ssa.Store); ok && st.Val == ssa.Value(outstanding) {
						return true
					}
				}
			}
		}
		return false
	}

	for _, g := range p.withHelpers(owner, 1)[1:] {
		if g == at {
			continue
		}
		takes := false
		for _, c := range findCalls(owner, fnName(g)) {
			for i, a := range c.Call.Args {
				if isOut(a) && i < len(g.Params) {
					outParams[g.Params[i]] = true
					takes = true
				}
			}
		}
		if takes {
			scope = append(scope, g)
			r.SawFn(fnName(g))
		}
	}
	eachScope := func(f func(fn *ssa.Function, in ssa.Instruction)) {
		for _, fn := range scope {
			eachInstr(fn, func(in ssa.Instruction) { f(fn, in) })
		}
	}

	c05AllocateTag(r, at)

	// (3) register before write
	var ats, writes []*ssa.Call
	for _, fn := range scope {
		ats = append(ats, findCalls(fn, "p9p.allocateTag")...)
		writes = append(writes, findCalls(fn, "invoke p9p.Channel.WriteFcall")...)
	}
	r.Floor("register-before-write", len(ats), 1, "allocateTag call in the owner loop")
	r.Floor("register-before-write", len(writes), 1, "WriteFcall in the owner loop")
	var mainSel *ssa.Select
	for _, op := range chanOps(owner) {
		if s, ok := op.In.(*ssa.Select); ok && op.Blocking {
			mainSel = s
		}
	}
	if mainSel == nil {
		r.Undecided("register-before-write", "handle: main select", owner.Pos(), "no blocking select in the owner loop")
		return
	}
	for _, w := range writes {
		r.CallSites++
		fc, ok := w.Call.Args[1].(*ssa.Call)
		if !ok || calleeName(&fc.Call) != "p9p.newFcall" {
			r.Bad("register-before-write", "handle: request frame built by newFcall(tag, req.message)", w.Pos(), "the frame written is not built from the allocated tag and the request's message")
			continue
		}
		tag := fc.Call.Args[0]
		fromAlloc := false
		var atc *ssa.Call
		for _, a := range ats {
			if resultN(a, 0) == tag && callSucceededAt(a, w) {
				fromAlloc, atc = true, a
			}
		}
		r.Check(fromAlloc, "register-before-write", "handle: the frame's tag is the freshly allocated one (allocation succeeded)", w.Pos(), "the request is written with a tag that is not the one just allocated")
		// message is the request's own
		reqv, okm := fieldOfLocalCopy(stripConv(fc.Call.Args[1]), "message")
		var req ssa.Value
		if atc != nil {
			req = atc.Call.Args[0]
		}
		r.Check(okm && req != nil && reqv == req, "register-before-write", "handle: the frame carries the request's own message", w.Pos(), "the message written is not that of the request registered under the tag")
		// registration dominates the write: outstanding[tag] = req
		reg := false
		eachInstr(w.Parent(), func(in ssa.Instruction) {
			if mu, ok := in.(*ssa.MapUpdate); ok && isOut(mu.Map) && mu.Key == tag && mu.Value == req && instrDominates(mu, w) {
				reg = true
			}
		})
		r.Check(reg, "register-before-write", "handle: outstanding[tag] = req before the request is written", w.Pos(),
			"the request can be answered before it is registered: the reply is dropped as unknown tag and the call hangs")
		// allocation is given the live table and the previous tag
		if atc != nil {
			r.Check(isOut(atc.Call.Args[1]), "register-before-write", "handle: allocateTag consults the outstanding table", atc.Pos(), "tags are allocated against a different table: tags in use can be handed out again")
		}
	}
	// allocation failure is reported on the buffered error channel and nothing is written
	for _, a := range ats {
		e := errResult(a)
		okRep := false
		if e != nil {
			eachInstr(a.Parent(), func(in ssa.Instruction) {
				if sd, ok := in.(*ssa.Send); ok && sd.X == e && knownNonNilAt(e, sd) && chanProv(sd.Chan, 0) == "field:fcallRequest.err" {
					okRep = true
				}
			})
		}
		r.Check(okRep, "register-before-write", "handle: tag exhaustion is reported to the caller", a.Pos(), "when no tag is free the caller is never told")
	}

	// (4) routing
	// "the frame received from the reader": the value received on the local reply channel in the owner's select,
	// and — when the reply branch is extracted — the helper parameter bound to it at every call site
	replyVals := map[ssa.Value]bool{}
	for i := range mainSel.States {
		if v := selRecvValue(mainSel, i); v != nil && strings.HasPrefix(chanProv(mainSel.States[i].Chan, 0), "local:") {
			replyVals[v] = true
		}
	}
	for _, g := range scope[1:] {
		for i, prm := range g.Params {
			all, n := true, 0
			for _, c := range findCalls(owner, fnName(g)) {
				n++
				if i >= len(c.Call.Args) || !replyVals[c.Call.Args[i]] {
					all = false
				}
			}
			if all && n > 0 {
				replyVals[prm] = true
			}
		}
	}
	nRoute := 0
	eachScope(func(_ *ssa.Function, in ssa.Instruction) {
		sd, ok := in.(*ssa.Send)
		if !ok || chanProv(sd.Chan, 0) != "field:fcallRequest.response" {
			return
		}
		nRoute++
		// the channel belongs to the request found under the reply's tag
		reqv, _ := fieldOfLocalCopy(sd.Chan, "response")
		ex, okx := reqv.(*ssa.Extract)
		var lk *ssa.Lookup
		if okx && ex.Index == 0 {
			lk, _ = ex.Tuple.(*ssa.Lookup)
		}
		okLookup := lk != nil && isOut(lk.X)
		okKey := false
		if okLookup {
			if owner2, ok := fieldOfLocalCopy(lk.Index, "Tag"); ok && owner2 == sd.X {
				okKey = true
			}
		}
		r.Check(okLookup && okKey, "routing", "handle: reply goes to the request registered under the reply's own tag", sd.Pos(),
			"the reply is delivered to a request that was not looked up with the reply's tag (e.g. the most recently sent one): calls receive each other's replies")
		// the reply value is the one received from the reader
		fromReader := replyVals[sd.X]
		r.Check(fromReader, "routing", "handle: the value delivered is the frame received from the reader", sd.Pos(), "something other than the received reply is delivered")
		// deleted before delivery
		del := false
		eachInstr(sd.Parent(), func(in2 ssa.Instruction) {
			if c, ok := in2.(*ssa.Call); ok {
				if b, ok := c.Call.Value.(*ssa.Builtin); ok && b.Name() == "delete" && isOut(c.Call.Args[0]) && instrDominates(c, sd) {
					if o, ok := fieldOfLocalCopy(c.Call.Args[1], "Tag"); ok && o == sd.X {
						del = true
					}
				}
			}
		})
		r.Check(del, "routing", "handle: the tag is released before the reply is delivered", sd.Pos(), "a repeated reply with the same tag is delivered twice / the tag is never freed")
	})
	r.Floor("routing", nRoute, 1, "reply delivery site")
	// deletes happen only for the reply's tag or the failed request's own tag
	nDel := 0
	eachScope(func(_ *ssa.Function, in ssa.Instruction) {
		c, ok := in.(*ssa.Call)
		if !ok {
			return
		}
		b, ok := c.Call.Value.(*ssa.Builtin)
		if !ok || b.Name() != "delete" || !isOut(c.Call.Args[0]) {
			return
		}
		nDel++
		o, okf := fieldOfLocalCopy(c.Call.Args[1], "Tag")
		okKind := false
		if okf {
			if replyVals[o] {
				okKind = true // the received reply
			}
			for i := range mainSel.States {
				if selRecvValue(mainSel, i) == o {
					okKind = true
				}
			}
			if fc, ok := o.(*ssa.Call); ok && calleeName(&fc.Call) == "p9p.newFcall" {
				// the frame we failed to write: on the error edge of its WriteFcall
				for _, w := range writes {
					if w.Call.Args[1] == o {
						if e := errResult(w); e != nil && knownNonNilAt(e, c) {
							okKind = true
						}
					}
				}
			}
		}
		r.Check(okKind, "routing", "handle: table entries are deleted only for the answered tag or the unsent request", c.Pos(), "an unrelated outstanding request is forgotten: its reply will be dropped and the call hangs")
	})
	r.Floor("routing", nDel, 2, "deletions from the outstanding table")

	// (5) buffered channels
	for _, f := range []string{"field:fcallRequest.response", "field:fcallRequest.err"} {
		ok, why := chanFieldAlwaysBuffered(p, f)
		r.Check(ok, "buffered-reply", f+" always created with capacity >= 1", send.Pos(), why)
	}
	// send(): both selects have closed + ctx; Rerror conversion
	nSel := 0
	for _, op := range chanOps(send) {
		if op.Kind == "select" && op.Blocking {
			nSel++
			r.Check(op.hasRecv("field:transport.closed") && op.hasRecv("done:param:ctx"), "send-wakeup", "send: "+op.String(), op.In.Pos(), "a caller can block for ever")
		}
	}
	r.Floor("send-wakeup", nSel, 2, "selects in send")
	c05Rerror(r, send)
	c05PayloadOwned(r)
	freshRequestRecord(r, send, "fresh-request")

	// each reply frame is a fresh object handed to exactly one caller
	checkFreshFrame(r, reader, "fresh-frame")

	// (8) single writer / reader
	for _, fn := range p.FuncsOfPkg("p9p") {
		root := fn
		for root.Parent() != nil {
			root = root.Parent()
		}
		eachInstr(fn, func(in ssa.Instruction) {
			c, ok := in.(ssa.CallInstruction)
			if !ok {
				return
			}
			n := calleeName(c.Common())
			if n != "invoke p9p.Channel.WriteFcall" && n != "invoke p9p.Channel.ReadFcall" {
				return
			}
			if root.Signature.Recv() == nil || !isP9P(root.Signature.Recv().Type(), "transport") {
				return
			}
			r.CallSites++
			if n == "invoke p9p.Channel.WriteFcall" {
				r.Check(fn == owner || runsOnlyOn(p, fn, owner, 0), "single-writer", fnName(fn)+": transport writes frames only from the owner loop", in.Pos(), "a second goroutine writes to the channel: frames interleave on the wire")
			} else {
				r.Check(fn == reader || runsOnlyOn(p, fn, reader, 0), "single-writer", fnName(fn)+": transport reads frames only from the reader goroutine", in.Pos(), "a second goroutine reads from the channel: frames are torn")
			}
		})
	}
}

func c05AllocateTag(r *Run, at *ssa.Function) {
	var mParam *ssa.Parameter
	for _, prm := range at.Params {
		if _, ok := prm.Type().Underlying().(*types.Map); ok {
			mParam = prm
		}
	}
	if mParam == nil {
		r.Undecided("tag-free", "allocateTag: table parameter", at.Pos(), "no map parameter")
		return
	}
	nSucc := 0
	for _, ret := range returnsOf(at) {
		if len(ret.Results) != 2 {
			continue
		}
		if !isNilConst(ret.Results[1]) {
			continue
		}
		nSucc++
		v := ret.Results[0]
		// not-found edge of m[v]
		okFree := false
		for _, cd := range condsAtInstr(ret) {
			nc := normCond(cd)
			if ex, ok := nc.V.(*ssa.Extract); ok && ex.Index == 1 && !nc.Truth {
				if lk, ok := ex.Tuple.(*ssa.Lookup); ok && lk.X == mParam && lk.Index == v && lk.CommaOk {
					okFree = true
				}
			}
		}
		r.Check(okFree, "tag-free", "allocateTag: returns a tag only on the not-found edge of m[that tag]", ret.Pos(), "a tag that is still outstanding can be returned: two calls share a tag and one receives the other's reply")
		// never NOTAG
		okNotag := true
		why := ""
		var chk func(val ssa.Value, pred, blk *ssa.BasicBlock, depth int)
		chk = func(val ssa.Value, pred, blk *ssa.BasicBlock, depth int) {
			if depth > 3 {
				okNotag, why = false, "value too deeply nested"
				return
			}
			if c, ok := constInt(val); ok {
				if uint16(c) == 0xFFFF {
					okNotag, why = false, "the constant NOTAG can be returned"
				}
				return
			}
			if phi, ok := val.(*ssa.Phi); ok {
				for i, e := range phi.Edges {
					chk(e, phi.Block().Preds[i], phi.Block(), depth+1)
				}
				return
			}
			// a computed value: the edge it arrives on must say val != NOTAG
			okEdge := false
			var conds []Cond
			if pred != nil {
				conds = append(conds, condsAt(pred)...)
				if ifi, ok := pred.Instrs[len(pred.Instrs)-1].(*ssa.If); ok && pred.Succs[0] != pred.Succs[1] {
					for si := 0; si < 2; si++ {
						if pred.Succs[si] == blk {
							conds = append(conds, normCond(Cond{ifi.Cond, si == 0}))
						}
					}
				}
			} else {
				conds = condsAtInstr(ret)
			}
			for _, cd := range conds {
				nc := normCond(cd)
				if b, ok := nc.V.(*ssa.BinOp); ok && (b.Op == token.EQL || b.Op == token.NEQ) {
					for _, pair := range [][2]ssa.Value{{b.X, b.Y}, {b.Y, b.X}} {
						if pair[0] == val {
							if c, ok := constInt(pair[1]); ok && uint16(c) == 0xFFFF {
								if (b.Op == token.NEQ) == nc.Truth {
									okEdge = true
								}
							}
						}
					}
				}
			}
			if !okEdge {
				okNotag, why = false, "a computed tag value reaches the return without passing the != NOTAG test"
			}
		}
		chk(v, nil, nil, 0)
		r.Check(okNotag, "tag-free", "allocateTag: never returns NOTAG", ret.Pos(), why)
	}
	r.Floor("tag-free", nSucc, 1, "success return of allocateTag")
	// exhaustion guard before the search loop
	okGuard := false
	for _, ret := range returnsOf(at) {
		if len(ret.Results) == 2 && !isNilConst(ret.Results[1]) && !inLoop(ret) {
			fa := r.P.FA(at)
			facts := fa.FactsAt(ret)
			lm := fa.linSym(lenOf(fa.Sym(mParam)), 0)
			if Entails(facts, linConst(0xFFFF).Sub(lm)) { // 65535 <= len(m)
				okGuard = true
			}
		}
	}
	r.Check(okGuard, "tag-free", "allocateTag: pool-exhaustion guard (len(m) >= 65535 → error) precedes the search", at.Pos(), "with all tags in use the search cannot succeed and no error is returned early")
}

// (7) Rerror → error
func c05Rerror(r *Run, send *ssa.Function) {
	// the function that unpacks the reply: send itself, or a helper whose results send returns unchanged
	unpack := send
	var ta *ssa.TypeAssert
	for _, f := range r.P.withHelpers(send, 2) {
		eachInstr(f, func(in ssa.Instruction) {
			if x, ok := in.(*ssa.TypeAssert); ok && isP9P(x.AssertedType, "MessageRerror") && ta == nil {
				ta = x
				unpack = f
			}
		})
	}
	if ta == nil {
		r.Bad("rerror", "send: an Rerror reply becomes the call's error", send.Pos(), "no conversion of Rerror replies into errors: error replies are returned as successful messages")
		return
	}
	fromSelect := func(v ssa.Value) bool {
		if ex, ok := v.(*ssa.Extract); ok {
			_, isSel := ex.Tuple.(*ssa.Select)
			return isSel
		}
		return false
	}
	isReply := fromSelect
	if unpack != send {
		// send must hand the received frame to the helper and return the helper's results as they are
		var replyParam ssa.Value
		okFwd := false
		for _, c := range findCalls(send, calleeNameOfFn(unpack)) {
			for i, a := range c.Call.Args {
				if fromSelect(a) && i < len(unpack.Params) {
					replyParam = unpack.Params[i]
				}
			}
			for _, ret := range returnsOf(send) {
				if len(ret.Results) == 2 && resultN(c, 0) != nil && ret.Results[0] == resultN(c, 0) && ret.Results[1] == resultN(c, 1) {
					okFwd = true
				}
			}
		}
		r.Check(replyParam != nil && okFwd, "rerror", "send: the received frame is unpacked by "+fnName(unpack)+" and its results are returned unchanged", send.Pos(),
			"the unpacking helper is not applied to the reply received on the request's channel, or its results are not what send returns")
		isReply = func(v ssa.Value) bool { return v == replyParam }
	}
	r.Check(ta.CommaOk, "rerror", "send: assertion to MessageRerror is checked", ta.Pos(), "unchecked assertion on peer data")
	okRet := false
	for _, ret := range returnsOf(unpack) {
		if len(ret.Results) == 2 && derivesFrom(ret.Results[1], ta, 3) && isNilConst(ret.Results[0]) {
			okRet = true
		}
	}
	r.Check(okRet, "rerror", "send: the Rerror message is returned as the error (with a nil message)", ta.Pos(), "the error reply is not turned into the call's error")
	// the asserted message is the reply's own
	if o, ok := fieldOfLocalCopy(ta.X, "Message"); ok {
		r.Check(isReply(o), "rerror", "send: the Rerror examined is the received reply's message", ta.Pos(), "the assertion inspects a message other than the reply's")
	}
	// the other path returns the message of the same reply with nil error
	okOther := false
	for _, ret := range returnsOf(unpack) {
		if len(ret.Results) == 2 && isNilConst(ret.Results[1]) {
			if o, ok := fieldOfLocalCopy(stripConv(ret.Results[0]), "Message"); ok && isReply(o) {
				// ... and only on the edge where the reply's type is not Rerror
				for _, cd := range condsAtInstr(ret) {
					nc := normCond(cd)
					b, ok := nc.V.(*ssa.BinOp)
					if !ok || (b.Op != token.EQL && b.Op != token.NEQ) {
						continue
					}
					for _, pair := range [][2]ssa.Value{{b.X, b.Y}, {b.Y, b.X}} {
						if c, ok := constInt(pair[1]); ok && c == 107 {
							if to, ok := fieldOfLocalCopy(stripConv(pair[0]), "Type"); ok && isReply(to) && (b.Op == token.NEQ) == nc.Truth {
								okOther = true
							}
						}
					}
				}
			}
		}
	}
	r.Check(okOther, "rerror", "send: a non-error reply (Type != Rerror) returns the received frame's message", send.Pos(), "the message returned is not that of the reply received on the request's channel, or error replies are returned as successful messages")
}

// calleeNameOfFn: the name calleeName() reports for static calls of fn.
func calleeNameOfFn(fn *ssa.Function) string { return fnName(fn) }

// runsOnlyOn: fn executes only as part of the goroutine whose body is `root`: every reference to fn in the module
// is a plain static call (not go/defer, not a function value) from root or from a function that itself runs only on root.
func runsOnlyOn(p *Prog, fn, root *ssa.Function, depth int) bool {
	if fn == root {
		return true
	}
	if depth > 2 || fn.Parent() != nil {
		return false
	}
	nRef := 0
	ok := true
	for _, f := range p.FuncsOfPkg("p9p") {
		eachInstr(f, func(in ssa.Instruction) {
			refs := false
			for _, op := range in.Operands(nil) {
				if op != nil && *op == ssa.Value(fn) {
					refs = true
				}
			}
			if !refs {
				return
			}
			nRef++
			c, isCall := in.(*ssa.Call)
			if !isCall || c.Call.Value != ssa.Value(fn) {
				ok = false
				return
			}
			if !runsOnlyOn(p, f, root, depth+1) {
				ok = false
			}
		})
	}
	return ok && nRef > 0
}

// freshRequestRecord: the record a call hands to the owner loop — and with it the two channels the call waits on — is
// made for that call alone. A recycled record is still referenced by the owner's table when its previous call was
// abandoned (context ended): the late reply for the abandoned call is then delivered to whichever later call got
// the same record.
func freshRequestRecord(r *Run, send *ssa.Function, rule string) {
	p := r.P
	var isFresh func(v ssa.Value, depth int) (bool, string)
	isFresh = func(v ssa.Value, depth int) (bool, string) {
		switch x := v.(type) {
		case *ssa.Alloc:
			flds, _, ok := allocFields(x)
			if !ok {
				return false, "not a composite literal"
			}
			for _, f := range []string{"response", "err"} {
				if _, isMk := flds[f].(*ssa.MakeChan); !isMk {
					return false, "the " + f + " channel is not created together with the record"
				}
			}
			return true, ""
		case *ssa.Call:
			g := staticCallee(&x.Call)
			if g == nil || g.Blocks == nil || !p.InModule(g) || depth > 2 {
				return false, "obtained from " + calleeName(&x.Call)
			}
			for _, ret := range returnsOf(g) {
				if len(ret.Results) != 1 {
					return false, "constructor with several results"
				}
				if ok, why := isFresh(ret.Results[0], depth+1); !ok {
					return false, fnName(g) + ": " + why
				}
			}
			return true, ""
		case *ssa.TypeAssert:
			return false, "obtained from a dynamically typed source (pool/cache): " + valStr(x.X)
		}
		return false, "not constructed here"
	}
	n := 0
	for _, ss := range p.sendSites(send) {
		if chanProv(ss.Chan, 0) != "field:transport.requests" {
			continue
		}
		n++
		ok, why := isFresh(ss.Val, 0)
		r.Check(ok, rule, "send: the request record and its reply channels are created for this call", ss.In.Pos(),
			"the record handed to the owner loop is not fresh ("+why+"): a late reply or write error for an abandoned call reaches a later call")
	}
	r.Floor(rule, n, 1, "hand-over of the request record to the owner loop")
}

// c05PayloadOwned: a request may still be queued or on its way after the call that issued it has returned (the
// caller abandoned it), and calls run concurrently: a request whose payload lives in storage of the session value
// is shared between calls — a data race, and one call's bytes under another call's tag. Every reference-typed field
// of a message a client method sends is therefore the caller's own (a parameter) or made by this call — never
// something read out of the receiver.
func c05PayloadOwned(r *Run) {
	p := r.P
	n := 0
	for _, fn := range p.FuncsOfPkg("p9p") {
		if fn.Parent() != nil || fn.Signature.Recv() == nil || !isP9P(fn.Signature.Recv().Type(), "client") || len(fn.Params) == 0 {
			continue
		}
		if len(findCalls(fn, "invoke p9p.roundTripper.send")) == 0 {
			continue
		}
		recv := ssa.Value(fn.Params[0])
		eachInstr(fn, func(in ssa.Instruction) {
			a, ok := in.(*ssa.Alloc)
			if !ok {
				return
			}
			flds, named, ok := allocFields(a)
			if !ok || named == nil || !strings.HasPrefix(named.Obj().Name(), "MessageT") {
				return
			}
			for f, v := range flds {
				switch v.Type().Underlying().(type) {
				case *types.Slice, *types.Pointer, *types.Map:
				default:
					continue
				}
				n++
				r.Check(!derivesFrom(v, recv, 6), "payload-owned", fmt.Sprintf("%s: %s.%s is not storage of the session value", fnName(fn), named.Obj().Name(), f), in.Pos(),
					"the request's payload lives in the session value, which concurrent (and abandoned, still queued) calls share: a data race, and one call's bytes can leave under another call's tag")
			}
		})
	}
	r.Floor("payload-owned", n, 2, "reference-typed request fields in client methods (Twrite.Data, Twalk.Wnames)")
}
