package main

import (
	"golang.org/x/tools/go/ssa"

	"crypto/sha1"
	"encoding/json"
	"fmt"
	"go/token"
	"os"
	"path/filepath"
	"sort"
	"strings"
	"time"
)

type Status string

const (
	Discharged Status = "discharged"
	Violated   Status = "violated"
	Undecided  Status = "undecided"
	Known      Status = "known-finding"
)

// Oblig is one rule instance. Key identifies the construct (package, function,
// operand description) and never contains a line number, so known findings and
// replays survive unrelated edits.
type Oblig struct {
	Prop       string   `json:"property"`
	Rule       string   `json:"rule"`
	Key        string   `json:"construct"`
	Pos        string   `json:"pos"`
	Status     Status   `json:"status"`
	Reason     string   `json:"reason,omitempty"`
	Facts      []string `json:"facts,omitempty"`
	Nontrivial bool     `json:"nontrivial"`
	Config     string   `json:"config,omitempty"`
}

// Run collects the obligations of one property check.
type Run struct {
	Prop       string
	Tier       string
	P          *Prog
	Obligs     []*Oblig
	Notes      []string
	Decides    []string // what the rules decide (evidence explanation)
	NotDecided []string
	Assume     []string
	Trusted    []string
	FnsSeen    map[string]bool
	CallSites  int
	Exhaustive bool
	Configs    []string
	start      time.Time
	// bounds engine bookkeeping for the thorough-tier compiler cross-check
	BoundsFns map[*ssa.Function]bool
	BoundsPos map[string]bool // "file.go:line" of every enumerated obligation
}

func NewRun(prop, tier string) *Run {
	return &Run{Prop: prop, Tier: tier, FnsSeen: map[string]bool{}, start: time.Now(), BoundsFns: map[*ssa.Function]bool{}, BoundsPos: map[string]bool{}}
}

func (r *Run) pos(pos token.Pos) string {
	if r.P == nil {
		return "-"
	}
	return r.P.Pos(pos)
}

func (r *Run) add(rule, key string, pos token.Pos, st Status, reason string, nontrivial bool, facts []string) *Oblig {
	o := &Oblig{Prop: r.Prop, Rule: rule, Key: key, Pos: r.pos(pos), Status: st, Reason: reason, Nontrivial: nontrivial, Facts: facts}
	if r.P != nil {
		o.Config = r.P.Config
	}
	r.Obligs = append(r.Obligs, o)
	return o
}

// Ok records a discharged obligation whose proof needed facts beyond types.
func (r *Run) Ok(rule, key string, pos token.Pos, facts ...string) {
	r.add(rule, key, pos, Discharged, "", true, facts)
}

// OkTrivial records an obligation discharged by types/constants alone.
func (r *Run) OkTrivial(rule, key string, pos token.Pos, facts ...string) {
	r.add(rule, key, pos, Discharged, "", false, facts)
}

func (r *Run) Bad(rule, key string, pos token.Pos, reason string, facts ...string) {
	r.add(rule, key, pos, Violated, reason, true, facts)
}

func (r *Run) Undecided(rule, key string, pos token.Pos, reason string, facts ...string) {
	r.add(rule, key, pos, Undecided, reason, true, facts)
}

// Check is shorthand: discharged when ok, violated with reason otherwise.
func (r *Run) Check(ok bool, rule, key string, pos token.Pos, reason string, facts ...string) bool {
	if ok {
		r.Ok(rule, key, pos, facts...)
	} else {
		r.Bad(rule, key, pos, reason, facts...)
	}
	return ok
}

// Floor is the vacuity guard: a rule that matched fewer instances than were
// confirmed by reading the tree cannot pass.
func (r *Run) Floor(rule string, got, want int, what string) {
	if got < want {
		r.Undecided(rule+"/floor", fmt.Sprintf("%s: %s", rule, what), token.NoPos,
			fmt.Sprintf("vacuity guard: matched %d %s, expected at least %d (anchor lost or construct rewritten into an unrecognised form)", got, what, want))
	}
}

func (r *Run) SawFn(name string) { r.FnsSeen[name] = true }

// ---- known findings -------------------------------------------------------

type KnownFinding struct {
	Property  string `json:"property"`
	Rule      string `json:"rule"`
	Construct string `json:"construct"`
	What      string `json:"what"`
	Witness   string `json:"witness,omitempty"`
}

type FixedFinding struct {
	Property string `json:"property"`
	Commit   string `json:"commit"`
	What     string `json:"what"`
	Line     string `json:"line,omitempty"`
}

type KnownFile struct {
	Open  []KnownFinding `json:"open"`
	Fixed []FixedFinding `json:"fixed"`
}

func loadKnown(path string) (*KnownFile, error) {
	b, err := os.ReadFile(path)
	if err != nil {
		if os.IsNotExist(err) {
			return &KnownFile{}, nil
		}
		return nil, err
	}
	var k KnownFile
	if err := json.Unmarshal(b, &k); err != nil {
		return nil, err
	}
	return &k, nil
}

// ---- finishing: printing, replay files, evidence, exit status --------------

type replayFile struct {
	Oblig   *Oblig `json:"obligation"`
	Repo    string `json:"repo"`
	Tier    string `json:"tier"`
	Command string `json:"command"`
}

func verifDir() string {
	if d := os.Getenv("VERIF_DIR"); d != "" {
		return d
	}
	return "/verif"
}

// Finish prints the verdict lines, writes replay files and the evidence file
// and returns the process exit status.
func (r *Run) Finish(evidencePath string, seed int) int {
	known, kerr := loadKnown(filepath.Join(verifDir(), "known_findings.json"))
	if kerr != nil {
		fmt.Printf("UNDECIDED known_findings.json unreadable: %v\n", kerr)
		known = &KnownFile{}
		r.add("plumbing", "known_findings.json", token.NoPos, Undecided, kerr.Error(), true, nil)
	}
	// de-duplicate obligations that several configurations produced identically
	sort.SliceStable(r.Obligs, func(i, j int) bool {
		a, b := r.Obligs[i], r.Obligs[j]
		if a.Rule != b.Rule {
			return a.Rule < b.Rule
		}
		return a.Key < b.Key
	})
	violations := 0
	discharged := 0
	distinct := map[string]bool{}
	usedKnown := map[int]bool{}
	replayDir := filepath.Join(verifDir(), "evidence", "replay")
	for _, o := range r.Obligs {
		switch o.Status {
		case Discharged:
			discharged++
			if o.Nontrivial {
				distinct[o.Rule+"|"+o.Key] = true
			}
			continue
		}
		matched := false
		if o.Status == Violated {
			for i, k := range known.Open {
				if k.Property == o.Prop && k.Rule == o.Rule && k.Construct == o.Key {
					matched = true
					if !usedKnown[i] {
						fmt.Printf("KNOWN-FINDING: property=%s %s [%s %s] %s\n", o.Prop, k.What, o.Rule, o.Key, o.Pos)
						usedKnown[i] = true
					}
					o.Status = Known
					break
				}
			}
		}
		if matched {
			continue
		}
		violations++
		h := sha1.Sum([]byte(o.Prop + "|" + o.Rule + "|" + o.Key + "|" + o.Config))
		path := filepath.Join(replayDir, fmt.Sprintf("%s-%x.json", o.Prop, h[:6]))
		os.MkdirAll(replayDir, 0755)
		rf := replayFile{Oblig: o, Tier: r.Tier, Command: fmt.Sprintf("/verif/bin/p9pcheck -replay %s", path)}
		if r.P != nil {
			rf.Repo = r.P.Repo
		}
		b, _ := json.MarshalIndent(rf, "", " ")
		os.WriteFile(path, b, 0644)
		fmt.Printf("%s: [%s/%s] %s: %s (%s)\n", o.Pos, o.Prop, o.Rule, o.Key, o.Reason, o.Status)
		for _, f := range o.Facts {
			fmt.Printf("    fact: %s\n", f)
		}
		fmt.Printf("VIOLATION property=%s replay=%s\n", r.Prop, path)
	}
	for _, n := range r.Notes {
		fmt.Printf("note: %s\n", n)
	}

	// evidence
	samples := []interface{}{}
	perRule := map[string]int{}
	for _, o := range r.Obligs {
		if o.Status != Discharged || perRule[o.Rule] < 3 {
			samples = append(samples, o)
			perRule[o.Rule]++
		}
	}
	if len(samples) > 400 {
		samples = samples[:400]
	}
	ruleCounts := map[string]int{}
	for _, o := range r.Obligs {
		ruleCounts[o.Rule]++
	}
	fns := []string{}
	for f := range r.FnsSeen {
		fns = append(fns, f)
	}
	sort.Strings(fns)
	expl := "Static analysis of the current working tree (go/packages + go/types + go/ssa; no code of the repository is executed, no solver). " +
		"DECIDES: " + strings.Join(r.Decides, "; ") + ". DOES NOT DECIDE: " + strings.Join(r.NotDecided, "; ") + "."
	cov := map[string]interface{}{
		"explanation":         expl,
		"obligations":         len(r.Obligs),
		"discharged":          discharged,
		"evaluations":         len(r.Obligs),
		"distinct_nontrivial": len(distinct),
		"rule":                "one obligation per rule instance (rule + construct key, enumerated from the resolved program); non-trivial = discharge needed at least one dataflow/dominance/affine/table fact beyond the Go types; distinct = distinct (rule, construct) pairs",
		"samples":             samples,
		"checker_cmd":         fmt.Sprintf("/verif/bin/p9pcheck -prop %s -tier %s", r.Prop, r.Tier),
		"trusted_base":        append([]string{"go/types, go/ssa (golang.org/x/tools v0.29.0)", "the Go compiler and standard library semantics as summarised in the checker's tables"}, r.Trusted...),
		"functions_analysed":  fns,
		"call_sites":          r.CallSites,
		"configs":             r.Configs,
		"exhaustive":          r.Exhaustive,
		"obligations_by_rule": ruleCounts,
		"known_findings":      len(usedKnown),
		"notes":               r.Notes,
	}
	ev := map[string]interface{}{
		"property_id": r.Prop,
		"tier":        r.Tier,
		"seed":        seed,
		"level":       "other",
		"coverage":    cov,
		"assumptions": append([]string{"64-bit int", "standard library behaves as documented"}, r.Assume...),
		"wall_s":      time.Since(r.start).Seconds(),
		"violations":  violations,
	}
	b, _ := json.MarshalIndent(ev, "", " ")
	os.MkdirAll(filepath.Dir(evidencePath), 0755)
	if err := os.WriteFile(evidencePath, b, 0644); err != nil {
		fmt.Printf("cannot write evidence: %v\n", err)
		return 2
	}
	fmt.Printf("%s %s: %d obligations, %d discharged, %d known findings, %d violations (%.1fs)\n",
		r.Prop, r.Tier, len(r.Obligs), discharged, len(usedKnown), violations, time.Since(r.start).Seconds())
	if violations > 0 {
		return 1
	}
	return 0
}
