package main

// Engine E4c: no explicit panic is reachable (CHA over module functions) from the
// entry points of a property.

import (
	"fmt"
	"go/token"
	"go/types"
	"reflect"
	"strings"

	"golang.org/x/tools/go/ssa"
)

type panicSite struct {
	Fn   *ssa.Function
	In   *ssa.Panic
	Path []string // entry → … → Fn
}

// reachableModuleFns: module functions reachable from roots through the CHA call graph
// (closures created by a reachable function count as reachable: they may be called or started).
func reachableModuleFns(p *Prog, roots []*ssa.Function) (map[*ssa.Function]*ssa.Function, []*ssa.Function) {
	ms := p.ModSets()
	parent := map[*ssa.Function]*ssa.Function{}
	var order []*ssa.Function
	var work []*ssa.Function
	for _, r := range roots {
		if r != nil {
			if _, ok := parent[r]; !ok {
				parent[r] = nil
				work = append(work, r)
			}
		}
	}
	for len(work) > 0 {
		fn := work[0]
		work = work[1:]
		order = append(order, fn)
		add := func(g *ssa.Function) {
			if g == nil || !p.InModule(g) {
				return
			}
			if _, ok := parent[g]; ok {
				return
			}
			parent[g] = fn
			work = append(work, g)
		}
		if node := ms.cg.Nodes[fn]; node != nil {
			for _, e := range node.Out {
				add(e.Callee.Func)
			}
		}
		for _, a := range fn.AnonFuncs {
			add(a)
		}
	}
	return parent, order
}

// explicitPanics lists the source-level panic statements in the reachable set.
func explicitPanics(p *Prog, roots []*ssa.Function) ([]panicSite, int) {
	parent, order := reachableModuleFns(p, roots)
	var out []panicSite
	for _, fn := range order {
		eachInstr(fn, func(in ssa.Instruction) {
			pn, ok := in.(*ssa.Panic)
			if !ok || !pn.Pos().IsValid() {
				return // compiler-synthesised (e.g. "blocking select matched no case")
			}
			var path []string
			for f := fn; f != nil; f = parent[f] {
				path = append([]string{fnName(f)}, path...)
			}
			out = append(out, panicSite{fn, pn, path})
		})
	}
	return out, len(order)
}

func pathString(path []string) string { return strings.Join(path, " → ") }

// messageImplementersAreStructs (E1-e): every named type of the module that implements p9p.Message
// (value or pointer receiver) has a struct underlying type. Returns the offending type names.
func messageImplementersAreStructs(p *Prog) (bad []string, n int) {
	msgObj := p.Obj("p9p", "Message")
	if msgObj == nil {
		return []string{"<Message not found>"}, 0
	}
	iface, ok := msgObj.Type().Underlying().(*types.Interface)
	if !ok {
		return []string{"<Message is not an interface>"}, 0
	}
	for _, pk := range p.Pkgs {
		sc := pk.Types.Scope()
		for _, name := range sc.Names() {
			tn, ok := sc.Lookup(name).(*types.TypeName)
			if !ok || tn.IsAlias() {
				continue
			}
			t := tn.Type()
			if _, isIface := t.Underlying().(*types.Interface); isIface {
				continue
			}
			if types.Implements(t, iface) || types.Implements(types.NewPointer(t), iface) {
				n++
				if _, ok := t.Underlying().(*types.Struct); !ok {
					bad = append(bad, shortType(t))
				}
			}
		}
	}
	return bad, n
}

// reviewedDeadPanic decides the one reviewed class of explicit panics: `panic(err)` on the
// err != nil edge of fields9p(v), where fields9p fails only for non-struct values and v is a
// Dir or a Message (all implementers are structs). Every side condition is machine-checked.
func reviewedDeadPanic(p *Prog, site panicSite) (bool, string) {
	// the panic's operand is the error of a fields9p call, and the panic is on its non-nil edge
	var call *ssa.Call
	if ex, ok := stripConv(site.In.X).(*ssa.Extract); ok {
		call, _ = ex.Tuple.(*ssa.Call)
	}
	if call == nil || calleeName(&call.Call) != "p9p.fields9p" {
		return false, ""
	}
	e := errResult(call)
	if e == nil || !knownNonNilAt(e, site.In) {
		return false, "panic is not confined to the failure edge of fields9p"
	}
	// fields9p returns an error only on the Kind() != Struct edge
	f9 := p.Fn("p9p:fields9p")
	if f9 == nil {
		return false, "fields9p not found"
	}
	for _, ret := range returnsOf(f9) {
		if len(ret.Results) != 2 || isNilConst(ret.Results[1]) {
			continue
		}
		okEdge := false
		for _, cd := range condsAtInstr(ret) {
			nc := normCond(cd)
			if b, ok := nc.V.(*ssa.BinOp); ok && (b.Op == token.NEQ || b.Op == token.EQL) {
				for _, pair := range [][2]ssa.Value{{b.X, b.Y}, {b.Y, b.X}} {
					if c, ok := pair[0].(*ssa.Call); ok && calleeName(&c.Call) == "(reflect.Value).Kind" {
						if k, ok := constInt(pair[1]); ok && k == int64(reflect.Struct) {
							if (b.Op == token.NEQ) == nc.Truth {
								okEdge = true
							}
						}
					}
				}
			}
		}
		if !okEdge {
			return false, "fields9p can fail for reasons other than a non-struct argument"
		}
	}
	// the argument is a Dir / Message
	arg := stripConv(call.Call.Args[0])
	// … or the parameter of a helper (`sizefields9p(v interface{})`) every call of which hands over a Dir / Message
	if prm, isPrm := arg.(*ssa.Parameter); isPrm && !isP9P(prm.Type(), "Dir") && !isP9P(prm.Type(), "Message") {
		g := prm.Parent()
		idx := -1
		for i, q := range g.Params {
			if q == prm {
				idx = i
			}
		}
		sites, exact := p.staticCallSites(g)
		if idx < 0 || !exact || len(sites) == 0 {
			return false, "fields9p argument is a helper parameter whose callers are not all known"
		}
		needMsg := false
		for _, c := range sites {
			a := stripConv(c.Call.Args[idx])
			if mi, ok := a.(*ssa.MakeInterface); ok {
				a = mi.X
			}
			at := a.Type()
			switch {
			case isP9P(at, "Dir"):
				if _, ok := at.Underlying().(*types.Struct); !ok {
					return false, "a caller of " + fnName(g) + " hands over a Dir that is not a struct"
				}
			case isP9P(at, "Message"):
				needMsg = true
			default:
				return false, "a caller of " + fnName(g) + " hands over a " + shortType(at) + ": fields9p can fail"
			}
		}
		if needMsg {
			bad, n := messageImplementersAreStructs(p)
			if len(bad) != 0 || n == 0 {
				return false, "a Message implementer is not a struct: " + strings.Join(bad, ",")
			}
		}
		return true, "fields9p(helper parameter): every caller of " + fnName(g) + " hands over a Dir or a Message (all structs), fields9p fails only for non-structs"
	}
	t := arg.Type()
	if isP9P(t, "Dir") {
		if _, ok := t.Underlying().(*types.Struct); ok {
			return true, "fields9p(Dir): Dir is a struct, fields9p fails only for non-structs"
		}
	}
	if isP9P(t, "Message") || isP9P(t, "Dir") {
		bad, n := messageImplementersAreStructs(p)
		if len(bad) == 0 && n > 0 {
			return true, fmt.Sprintf("fields9p(Message): all %d implementers of Message are structs, fields9p fails only for non-structs", n)
		}
		return false, "a Message implementer is not a struct: " + strings.Join(bad, ",")
	}
	return false, "fields9p argument of unexpected type " + shortType(t)
}
