package main

// Wrap-aware linear reasoning for narrow unsigned arithmetic.
//
// A uintN addition/subtraction r = a ± b is modelled exactly as
//     r = a ± b ∓ k·2^N   with k ∈ {0,1}   and   0 <= r <= 2^N-1.
// For a small set of wrapping operations every assignment of the k's is
// enumerated (a finite case split, like the phi split of bounds.go); inside one
// case all values are plain affine forms and entailment is decided by
// Fourier–Motzkin. A goal holds iff, in every case whose constraints are
// satisfiable, the facts entail it.

import (
	"fmt"
	"go/token"

	"golang.org/x/tools/go/ssa"
)

type wrapCase struct {
	k    map[*ssa.BinOp]int64
	cons []Fact
}

// wrapOps collects the narrow unsigned +/- operations that v depends on (through conversions and other such ops).
func (fa *FA) wrapOps(v ssa.Value, seen map[ssa.Value]bool, out *[]*ssa.BinOp) {
	if v == nil || seen[v] {
		return
	}
	seen[v] = true
	switch x := v.(type) {
	case *ssa.BinOp:
		bits, signed, ok := intBits(x.Type())
		if ok && !signed && bits < 64 && (x.Op == token.ADD || x.Op == token.SUB) {
			*out = append(*out, x)
		}
		fa.wrapOps(x.X, seen, out)
		fa.wrapOps(x.Y, seen, out)
	case *ssa.Convert:
		fa.wrapOps(x.X, seen, out)
	case *ssa.ChangeType:
		fa.wrapOps(x.X, seen, out)
	case *ssa.UnOp:
		// loads of private locals: follow the stored value
		if x.Op == token.MUL {
			if a, path := rootAlloc(x.X); a != nil && fa.local[a] {
				if st, _, exact := fa.localDef(a, path, x); st != nil && exact {
					fa.wrapOps(st.Val, seen, out)
				}
			}
		}
	}
}

// linW: the affine form of v in the case `c` (k chosen for every wrapping op); range constraints of the
// wrapping results are appended to c.cons.
func (fa *FA) linW(v ssa.Value, c *wrapCase, depth int) *Lin {
	if depth > 12 {
		return fa.Lin(v)
	}
	switch x := v.(type) {
	case *ssa.BinOp:
		bits, signed, ok := intBits(x.Type())
		if ok && !signed && bits < 64 && (x.Op == token.ADD || x.Op == token.SUB) {
			a, b := fa.linW(x.X, c, depth+1), fa.linW(x.Y, c, depth+1)
			mod := linConst(int64(1) << uint(bits))
			var l *Lin
			if x.Op == token.ADD {
				l = a.Add(b).Sub(mod.Scale(c.k[x]))
			} else {
				l = a.Sub(b).Add(mod.Scale(c.k[x]))
			}
			c.cons = append(c.cons, le(linConst(0), l, fmt.Sprintf("uint%d result of %s is >= 0 (wrap case k=%d)", bits, valStr(x), c.k[x])))
			c.cons = append(c.cons, le(l, linConst(int64(1)<<uint(bits)-1), fmt.Sprintf("uint%d result of %s is <= max (wrap case k=%d)", bits, valStr(x), c.k[x])))
			return l
		}
	case *ssa.Convert:
		fb, _, ok1 := intBits(x.X.Type())
		tb, ts, ok2 := intBits(x.Type())
		if ok1 && ok2 && !ts && tb < fb {
			// narrowing to uintN of a wider value: exact when the operand is in [0, 2^N) — asserted as a side constraint
			// (documented assumption: sizes and msize are far below 2^31)
			l := fa.linW(x.X, c, depth+1)
			c.cons = append(c.cons, le(linConst(0), l, "narrowing conversion operand assumed in range"), le(l, linConst(int64(1)<<uint(tb)-1), "narrowing conversion operand assumed in range"))
			return l
		}
		if ok1 && ok2 {
			return fa.linW(x.X, c, depth+1)
		}
	case *ssa.ChangeType:
		return fa.linW(x.X, c, depth+1)
	case *ssa.UnOp:
		if x.Op == token.MUL {
			if a, path := rootAlloc(x.X); a != nil && fa.local[a] {
				if st, _, exact := fa.localDef(a, path, x); st != nil && exact {
					return fa.linW(st.Val, c, depth+1)
				}
			}
		}
	}
	return fa.Lin(v)
}

// condFactsW: like condFacts, with both sides evaluated wrap-aware in case c.
func (fa *FA) condFactsW(cd Cond, c *wrapCase) []Fact {
	cd = normCond(cd)
	b, ok := cd.V.(*ssa.BinOp)
	if !ok {
		return nil
	}
	if _, _, isInt := intBits(b.X.Type()); !isInt {
		return nil
	}
	op := b.Op
	if !cd.Truth {
		op = negateOp(op)
	}
	x, y := fa.linW(b.X, c, 0), fa.linW(b.Y, c, 0)
	why := cd.String()
	switch op {
	case token.LSS:
		return []Fact{lt(x, y, why)}
	case token.LEQ:
		return []Fact{le(x, y, why)}
	case token.GTR:
		return []Fact{lt(y, x, why)}
	case token.GEQ:
		return []Fact{le(y, x, why)}
	case token.EQL:
		return []Fact{le(x, y, why), le(y, x, why)}
	}
	return nil
}

// enumerate all k assignments for ops
func wrapCases(ops []*ssa.BinOp) []*wrapCase {
	cases := []*wrapCase{{k: map[*ssa.BinOp]int64{}}}
	for _, op := range ops {
		var next []*wrapCase
		for _, c := range cases {
			for _, k := range []int64{0, 1} {
				n := &wrapCase{k: map[*ssa.BinOp]int64{}}
				for o, v := range c.k {
					n.k[o] = v
				}
				n.k[op] = k
				next = append(next, n)
			}
		}
		cases = next
	}
	return cases
}

// EntailsWrapAware: at instruction `at`, under the extra assumptions, every goal(case) <= 0 holds in every
// feasible wrap case. goalFn builds the goals from the case-specific evaluator. Returns (ok, description of a failing case).
func (fa *FA) EntailsWrapAware(conds []Cond, values []ssa.Value, assume func(ev func(ssa.Value) *Lin) []Fact, goals func(ev func(ssa.Value) *Lin) []*Lin) (bool, string, int) {
	var ops []*ssa.BinOp
	seen := map[ssa.Value]bool{}
	for _, cd := range conds {
		if b, ok := normCond(cd).V.(*ssa.BinOp); ok {
			fa.wrapOps(b.X, seen, &ops)
			fa.wrapOps(b.Y, seen, &ops)
		}
	}
	for _, v := range values {
		fa.wrapOps(v, seen, &ops)
	}
	if len(ops) > 6 {
		return false, fmt.Sprintf("%d wrapping operations: too many cases", len(ops)), 0
	}
	nFeasible := 0
	for _, c := range wrapCases(ops) {
		ev := func(v ssa.Value) *Lin { return fa.linW(v, c, 0) }
		var facts []Fact
		for _, cd := range conds {
			facts = append(facts, fa.condFactsW(cd, c)...)
		}
		gs := goals(ev)
		facts = append(facts, assume(ev)...)
		facts = append(facts, c.cons...)
		var ls []*Lin
		for _, g := range gs {
			ls = append(ls, g)
		}
		facts = fa.closeFacts(facts, ls...)
		// infeasible case: nothing to show
		if Entails(facts, linConst(1)) {
			continue
		}
		nFeasible++
		for _, g := range gs {
			if !Entails(facts, g) {
				ks := ""
				for _, op := range ops {
					ks += fmt.Sprintf(" [%s wraps:%v]", valStr(op), c.k[op] == 1)
				}
				return false, "in the case" + ks + " the facts do not entail " + g.String() + " <= 0", nFeasible
			}
		}
	}
	return true, "", nFeasible
}
