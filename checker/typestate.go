package main

// Engine E6/E7a: ESP-style typestate interpretation of lock pairing and the
// field-under-lock discipline. States are kept disjunctively per CFG edge (no
// joins), with captured cells, deferred calls/closures and a small set of
// remembered branch predicates so that correlated tests (err != nil;
// newfid != fid … newfid == fid) select consistent branches.
//
// This is property simulation over the CFG (a finite abstract state space per
// function), not symbolic execution: no path condition is solved, values are
// never computed; only lock tokens, cell contents and remembered boolean
// branch outcomes are tracked.

import (
	"fmt"
	"go/token"
	"go/types"
	"sort"
	"strings"

	"golang.org/x/tools/go/ssa"
)

const tsNIL = "NIL"

// LockSpec parameterises the engine for one guarded type.
type LockSpec struct {
	PkgPath string          // package path of the guarded type
	Type    string          // e.g. "SFid"
	Guarded map[string]bool // fields that must be accessed under the lock
	Iface   map[string]bool // interface types whose methods are "file-system calls" when invoked on values loaded from guarded fields
	// Written: leaf paths (e.g. "Info.Qid.Version") stored to after construction. When non-nil, an unlocked READ is
	// reported only if its path overlaps a written path (distinct words that are never written cannot race).
	Written map[string]bool
}

func pathsOverlap(a, b string) bool {
	return a == b || strings.HasPrefix(a, b+".") || strings.HasPrefix(b, a+".")
}

// writtenPaths scans fns for stores into guarded fields of non-fresh objects.
func writtenPaths(spec LockSpec, fns []*ssa.Function) map[string]bool {
	out := map[string]bool{}
	for _, fn := range fns {
		eachInstr(fn, func(in ssa.Instruction) {
			st, ok := in.(*ssa.Store)
			if !ok {
				return
			}
			var names []string
			addr := st.Addr
			for {
				fa, ok := addr.(*ssa.FieldAddr)
				if !ok {
					return
				}
				names = append([]string{fieldName(fa.X.Type(), fa.Field)}, names...)
				if p, ok := fa.X.Type().Underlying().(*types.Pointer); ok && isNamed(p.Elem(), spec.PkgPath, spec.Type) {
					if a, isAlloc := fa.X.(*ssa.Alloc); isAlloc && a.Parent() == fn {
						return // construction of a fresh object
					}
					if spec.Guarded[names[0]] {
						out[strings.Join(names, ".")] = true
					}
					return
				}
				addr = fa.X
			}
		})
	}
	return out
}

type tsDefer struct {
	kind    string // "unlock" | "closure" | "helper"
	tok     string
	closure *ssa.MakeClosure
	helper  *ssa.Function // "helper": a deferred static call of a helper interpreted inline, with its arguments
	args    []ssa.Value
	pos     token.Pos
}

type tsState struct {
	held   map[string]bool
	cells  map[ssa.Value]string // cell alloc → token or NIL
	preds  map[string]bool
	defers []tsDefer
	pub    map[string]bool    // tokens (local allocs) that have been published to a shared table
	ent    map[string]string  // ownership (E9): token → "B" bound handle, "N" nil, "R" released but still stored
	unb    map[string]bool    // token's table entry has been deleted on this path
	file   map[string]bool    // token's File has been set on this path
	pend   map[ssa.Value]bool // handles obtained from Dirent.Create / FileSys.Attach not yet bound or released
	notes  []string
}

func newTsState() *tsState {
	return &tsState{held: map[string]bool{}, cells: map[ssa.Value]string{}, preds: map[string]bool{}, pub: map[string]bool{},
		ent: map[string]string{}, unb: map[string]bool{}, file: map[string]bool{}, pend: map[ssa.Value]bool{}}
}

func (s *tsState) clone() *tsState {
	n := &tsState{held: map[string]bool{}, cells: map[ssa.Value]string{}, preds: map[string]bool{}, pub: map[string]bool{},
		ent: map[string]string{}, unb: map[string]bool{}, file: map[string]bool{}, pend: map[ssa.Value]bool{}}
	for k, v := range s.pend {
		n.pend[k] = v
	}
	for k, v := range s.ent {
		n.ent[k] = v
	}
	for k, v := range s.unb {
		n.unb[k] = v
	}
	for k, v := range s.file {
		n.file[k] = v
	}
	for k, v := range s.held {
		n.held[k] = v
	}
	for k, v := range s.cells {
		n.cells[k] = v
	}
	for k, v := range s.preds {
		n.preds[k] = v
	}
	for k, v := range s.pub {
		n.pub[k] = v
	}
	n.defers = append([]tsDefer{}, s.defers...)
	return n
}

func (s *tsState) key() string {
	var parts []string
	hk := []string{}
	for k := range s.held {
		hk = append(hk, k)
	}
	sort.Strings(hk)
	parts = append(parts, "H:"+strings.Join(hk, ","))
	ck := []string{}
	for k, v := range s.cells {
		ck = append(ck, k.Name()+"="+v)
	}
	sort.Strings(ck)
	parts = append(parts, "C:"+strings.Join(ck, ","))
	pk := []string{}
	for k, v := range s.preds {
		pk = append(pk, fmt.Sprintf("%s=%v", k, v))
	}
	sort.Strings(pk)
	parts = append(parts, "P:"+strings.Join(pk, ","))
	ek := []string{}
	for k, v := range s.ent {
		ek = append(ek, k+"="+v)
	}
	for k := range s.unb {
		ek = append(ek, k+"=unb")
	}
	for k := range s.file {
		ek = append(ek, k+"=file")
	}
	for k := range s.pend {
		ek = append(ek, "pend:"+k.Name())
	}
	sort.Strings(ek)
	parts = append(parts, "E:"+strings.Join(ek, ","))
	dk := []string{}
	for _, d := range s.defers {
		dk = append(dk, d.kind+":"+d.tok+fmt.Sprint(d.pos))
	}
	parts = append(parts, "D:"+strings.Join(dk, ","))
	return strings.Join(parts, "|")
}

func (s *tsState) heldList() string {
	hk := []string{}
	for k := range s.held {
		hk = append(hk, k)
	}
	sort.Strings(hk)
	return "{" + strings.Join(hk, ", ") + "}"
}

// fnSummary describes the lock effect of a module function as seen by callers.
type fnSummary struct {
	returnsLocked bool         // (tok, nil) returned with tok's lock held; failure returns hold nothing
	requiresHeld  map[int]bool // parameter indices whose token must be held by the caller
	acquiresTable bool         // may block on the lock of an object taken from the shared table
	touchesLocks  bool
	resultEnt     string       // returns-locked: ownership state of the result on success ("B" bound, "N" placeholder)
	setsEnt       [2]int       // setter helper: param indices (object, value); {-1,-1} if not a setter
	releases      map[int]bool // helper releases the handle of this parameter and stores nil (B → N)
	inline        bool         // acts on its caller's lock/table state (unlocks a parameter it did not lock, deletes table entries): interpreted inline at each call site
}

type tsViolation struct {
	rule, key, reason string
	pos               token.Pos
}

type tsAccess struct {
	key string
	pos token.Pos
	ok  bool
	why string
}

// TS is one run of the engine over a set of functions.
type TS struct {
	p     *Prog
	spec  LockSpec
	sums  map[*ssa.Function]*fnSummary
	viol  map[string]tsViolation
	acc   map[string]*tsAccess // E7a obligations by key
	rets  map[*ssa.Function][]tsRet
	trace bool
	// ownership (E9)
	entryBound   map[*ssa.Function]bool
	own          bool
	fidOf        map[string]string // token → canonical key of the fid it was reserved/looked up under
	reserved     map[string]bool   // tokens created as placeholders by a returns-locked constructor
	lookedUp     map[string]bool   // tokens handed out bound by the locked getter (a fid found in the table)
	consumed     int
	releaseSites int
	deleteSites  int
	createSites  int
}

type tsRet struct {
	held    map[string]bool
	res0    string
	errNil  int // 1 nil const, -1 non-nil, 0 unknown
	pos     token.Pos
	private map[string]bool
	ent     map[string]string
	unb     map[string]bool
	file    map[string]bool
}

func newTS(p *Prog, spec LockSpec) *TS {
	return &TS{p: p, spec: spec, sums: map[*ssa.Function]*fnSummary{}, viol: map[string]tsViolation{}, acc: map[string]*tsAccess{}, rets: map[*ssa.Function][]tsRet{},
		fidOf: map[string]string{}, reserved: map[string]bool{}, lookedUp: map[string]bool{}, entryBound: map[*ssa.Function]bool{}}
}

func (ts *TS) isTokPtr(t types.Type) bool {
	p, ok := t.Underlying().(*types.Pointer)
	if !ok {
		return false
	}
	return isNamed(p.Elem(), ts.spec.PkgPath, ts.spec.Type)
}

func (ts *TS) violate(rule, key string, pos token.Pos, reason string) {
	k := rule + "|" + key
	if _, ok := ts.viol[k]; !ok {
		ts.viol[k] = tsViolation{rule, key, reason, pos}
	}
}

type tsCtx struct {
	fn     *ssa.Function
	fa     *FA
	env    map[*ssa.FreeVar]ssa.Value   // closure free variable → binding in the parent
	penv   map[*ssa.Parameter]ssa.Value // inlined helper: parameter → argument in the parent
	parent *tsCtx
	entry  map[string]bool // tokens assumed held at entry (requires-held summaries)
	rootFn *ssa.Function
	prefix string
}

// tokOf resolves a pointer-typed SSA value to a token name in the current state.
func (ts *TS) tokOf(c *tsCtx, s *tsState, v ssa.Value) string {
	v = stripConv(v)
	if isNilConst(v) {
		return tsNIL
	}
	if t, ok := s.cells[v]; ok {
		if _, isAlloc := v.(*ssa.Alloc); !isAlloc {
			return t // a value known to be nil on this path (failed returns-locked call)
		}
	}
	switch x := v.(type) {
	case *ssa.UnOp:
		if x.Op == token.MUL {
			cell := ts.cellOf(c, x.X)
			if cell != nil {
				if t, ok := s.cells[cell]; ok {
					return t
				}
				return "?cell:" + cell.Name()
			}
		}
	case *ssa.Phi:
		first := ""
		for _, e := range x.Edges {
			t := ts.tokOf(c, s, e)
			if first == "" {
				first = t
			} else if first != t {
				return c.prefix + "sym:" + c.fa.Sym(v).K
			}
		}
		return first
	case *ssa.FreeVar:
		if c.env != nil {
			if b, ok := c.env[x]; ok && c.parent != nil {
				return ts.tokOf(c.parent, s, b)
			}
		}
	case *ssa.Parameter:
		if c.penv != nil {
			if b, ok := c.penv[x]; ok && c.parent != nil {
				return ts.tokOf(c.parent, s, b)
			}
		}
	}
	return c.prefix + "sym:" + c.fa.Sym(v).K
}

// resolve follows inlined-helper parameter bindings to the value (and context) the caller sees.
func (c *tsCtx) resolve(v ssa.Value) (ssa.Value, *tsCtx) {
	for depth := 0; depth < 6; depth++ {
		v = stripConv(v)
		prm, ok := v.(*ssa.Parameter)
		if !ok || c.penv == nil || c.parent == nil {
			return v, c
		}
		b, ok := c.penv[prm]
		if !ok {
			return v, c
		}
		v, c = b, c.parent
	}
	return v, c
}

// cellOf: addr denotes a tracked cell (an Alloc holding a token pointer, possibly reached through a closure free variable).
func (ts *TS) cellOf(c *tsCtx, addr ssa.Value) ssa.Value {
	switch a := addr.(type) {
	case *ssa.Alloc:
		if p, ok := a.Type().Underlying().(*types.Pointer); ok && ts.isTokPtr(p.Elem()) {
			return a
		}
	case *ssa.FreeVar:
		if c.env != nil && c.parent != nil {
			if b, ok := c.env[a]; ok {
				return ts.cellOf(c.parent, b)
			}
		}
	case *ssa.Parameter:
		// an inlined helper handed the address of its caller's cell (`walkCleanup(&ref, &newref, …)`)
		if c.penv != nil && c.parent != nil {
			if b, ok := c.penv[a]; ok {
				return ts.cellOf(c.parent, b)
			}
		}
	}
	return nil
}

// mutexOwner: addr is &x.Mutex for a token pointer x → x.
func (ts *TS) mutexOwner(addr ssa.Value) ssa.Value {
	fa, ok := addr.(*ssa.FieldAddr)
	if !ok || !ts.isTokPtr(fa.X.Type()) {
		return nil
	}
	fv := fieldVar(fa.X.Type(), fa.Field)
	if fv == nil || !fv.Embedded() || fv.Name() != "Mutex" {
		if fv == nil || fv.Name() != "Mutex" {
			return nil
		}
	}
	return fa.X
}

func (ts *TS) isPrivate(c *tsCtx, s *tsState, tok string, v ssa.Value) bool {
	if s.pub[tok] {
		return false
	}
	v = stripConv(v)
	if a, ok := v.(*ssa.Alloc); ok && a.Parent() == c.fn {
		return true
	}
	return strings.HasPrefix(strings.TrimPrefix(tok, c.prefix), "sym:alloc:")
}

// Analyze interprets fn from its entry. entryHeld lists parameter indices whose tokens are held on entry.
func (ts *TS) Analyze(fn *ssa.Function, entryHeld map[int]bool) {
	c := &tsCtx{fn: fn, fa: ts.p.FA(fn), rootFn: fn}
	s := newTsState()
	c.entry = map[string]bool{}
	for i := range entryHeld {
		if i < len(fn.Params) {
			t := ts.tokOf(c, s, fn.Params[i])
			s.held[t] = true
			c.entry[t] = true
			if ts.own && ts.entryBound[fn] {
				s.ent[t] = "B"
			}
		}
	}
	finals := ts.runBody(c, s, 0)
	for _, f := range finals {
		_ = f
	}
}

type tsFinal struct {
	s   *tsState
	ret *ssa.Return
}

// runBody explores all (block,state) pairs of c.fn starting at the entry block and returns the states at Return instructions.
func (ts *TS) runBody(c *tsCtx, s0 *tsState, depth int) []tsFinal {
	if len(c.fn.Blocks) == 0 || depth > 4 {
		return nil
	}
	type item struct {
		b *ssa.BasicBlock
		s *tsState
	}
	var finals []tsFinal
	seen := map[string]bool{}
	work := []item{{c.fn.Blocks[0], s0}}
	steps := 0
	for len(work) > 0 {
		it := work[len(work)-1]
		work = work[:len(work)-1]
		k := fmt.Sprintf("%d|%s", it.b.Index, it.s.key())
		if seen[k] {
			continue
		}
		seen[k] = true
		steps++
		if steps > 4000 {
			ts.violate("typestate/explosion", fnName(c.fn), c.fn.Pos(), "state space exceeds the cap: undecided")
			return finals
		}
		states := []*tsState{it.s}
		var term ssa.Instruction
		for _, in := range it.b.Instrs {
			var next []*tsState
			for _, s := range states {
				next = append(next, ts.step(c, s, in, depth)...)
			}
			states = next
			term = in
			if len(states) == 0 {
				break
			}
		}
		for _, s := range states {
			switch t := term.(type) {
			case *ssa.Return:
				finals = append(finals, tsFinal{s, t})
			case *ssa.If:
				tb, fb := ts.branch(c, s, t)
				if tb != nil {
					work = append(work, item{it.b.Succs[0], tb})
				}
				if fb != nil {
					work = append(work, item{it.b.Succs[1], fb})
				}
			case *ssa.Jump:
				work = append(work, item{it.b.Succs[0], s})
			case *ssa.Panic:
			default:
				for _, sc := range it.b.Succs {
					work = append(work, item{sc, s.clone()})
				}
			}
		}
	}
	return finals
}

// predKey gives a canonical key for a branch condition and whether the key is negated.
func (ts *TS) predKey(c *tsCtx, cond ssa.Value) (string, bool) {
	neg := false
	for {
		if u, ok := cond.(*ssa.UnOp); ok && u.Op == token.NOT {
			cond = u.X
			neg = !neg
			continue
		}
		break
	}
	if b, ok := cond.(*ssa.BinOp); ok && (b.Op == token.EQL || b.Op == token.NEQ) {
		x, y := c.fa.Sym(b.X).K, c.fa.Sym(b.Y).K
		if y < x {
			x, y = y, x
		}
		if b.Op == token.NEQ {
			neg = !neg
		}
		return c.prefix + "eq(" + x + "," + y + ")", neg
	}
	return c.prefix + "c:" + c.fa.Sym(cond).K, neg
}

// branch returns the states for the true and false successors (nil when infeasible).
func (ts *TS) branch(c *tsCtx, s *tsState, ifi *ssa.If) (*tsState, *tsState) {
	// nil tests on token values are decided by the tracked cell contents
	cond := ifi.Cond
	neg := false
	for {
		if u, ok := cond.(*ssa.UnOp); ok && u.Op == token.NOT {
			cond, neg = u.X, !neg
			continue
		}
		break
	}
	if b, ok := cond.(*ssa.BinOp); ok && (b.Op == token.EQL || b.Op == token.NEQ) {
		var other ssa.Value
		if isNilConst(b.Y) {
			other = b.X
		} else if isNilConst(b.X) {
			other = b.Y
		}
		if other != nil {
			if t, known, isNil := ts.ownRefineNil(c, s, other); t != "" {
				evalTo := func(isNil bool) bool {
					v := isNil == (b.Op == token.EQL)
					if neg {
						v = !v
					}
					return v
				}
				if known {
					if evalTo(isNil) {
						return s, nil
					}
					return nil, s
				}
				sn, sb := s.clone(), s.clone()
				sn.ent[t], sb.ent[t] = "N", "B"
				if evalTo(true) {
					return sn, sb
				}
				return sb, sn
			}
		}
		if other != nil && ts.isTokPtr(other.Type()) {
			t := ts.tokOf(c, s, other)
			if !strings.HasPrefix(t, "?") {
				isNil := t == tsNIL
				// tokens of unknown nil-ness (plain symbols not produced by a tracked call) fork
				if isNil || s.held[t] || strings.Contains(t, "call:") || strings.Contains(t, "alloc:") {
					val := isNil == (b.Op == token.EQL)
					if neg {
						val = !val
					}
					if val {
						return s, nil
					}
					return nil, s
				}
			}
		}
	}
	k, kneg := ts.predKey(c, ifi.Cond)
	if v, ok := s.preds[k]; ok {
		val := v != kneg
		if val {
			return s, nil
		}
		return nil, s
	}
	t, f := s.clone(), s.clone()
	if ts.retestable(c, k) {
		t.preds[k] = !kneg
		f.preds[k] = kneg
	}
	return t, f
}

// retestable: the predicate is tested by at least two branches of the function (or
// is a LoadOrStore outcome needed by the L4 exemption); all others need not be remembered.
func (ts *TS) retestable(c *tsCtx, k string) bool {
	if strings.Contains(k, "LoadOrStore") {
		return true
	}
	n := 0
	for _, b := range c.fn.Blocks {
		if len(b.Instrs) == 0 {
			continue
		}
		if ifi, ok := b.Instrs[len(b.Instrs)-1].(*ssa.If); ok {
			if kk, _ := ts.predKey(c, ifi.Cond); kk == k {
				n++
			}
		}
	}
	return n >= 2
}

// errPredKey: the predicate key used for `e != nil` tests of an error value e.
func (ts *TS) errEqNilKey(c *tsCtx, e ssa.Value) string {
	x, y := c.fa.Sym(e).K, "nil"
	if y < x {
		x, y = y, x
	}
	return c.prefix + "eq(" + x + "," + y + ")"
}

func (ts *TS) step(c *tsCtx, s *tsState, in ssa.Instruction, depth int) []*tsState {
	switch x := in.(type) {
	case *ssa.Alloc:
		if cell := ts.cellOf(c, x); cell != nil {
			s = s.clone()
			s.cells[cell] = tsNIL
			return []*tsState{s}
		}
		return []*tsState{ts.ownAlloc(c, s, x)}
	case *ssa.Store:
		if cell := ts.cellOf(c, x.Addr); cell != nil {
			s = s.clone()
			s.cells[cell] = ts.tokOf(c, s, x.Val)
			return []*tsState{s}
		}
		ts.fieldAccess(c, s, x.Addr, in, "write")
		if fa, ok := x.Addr.(*ssa.FieldAddr); ok && ts.isTokPtr(fa.X.Type()) {
			switch fieldName(fa.X.Type(), fa.Field) {
			case entField:
				return []*tsState{ts.ownSetEnt(c, s, fa.X, x.Val, x.Pos())}
			case "File":
				if ts.own && !isNilConst(x.Val) {
					s = s.clone()
					s.file[ts.tokOf(c, s, fa.X)] = true
					return []*tsState{s}
				}
			}
		}
	case *ssa.UnOp:
		if x.Op == token.MUL {
			ts.fieldAccess(c, s, x.X, in, "read")
		}
	case *ssa.Defer:
		s = s.clone()
		if calleeName(&x.Call) == "(*sync.Mutex).Unlock" {
			if owner := ts.mutexOwner(x.Call.Args[0]); owner != nil {
				s.defers = append(s.defers, tsDefer{kind: "unlock", tok: ts.tokOf(c, s, owner), pos: x.Pos()})
				return []*tsState{s}
			}
		}
		if mc, ok := x.Call.Value.(*ssa.MakeClosure); ok {
			s.defers = append(s.defers, tsDefer{kind: "closure", closure: mc, pos: x.Pos()})
			return []*tsState{s}
		}
		// other deferred calls: treated as calls at rundefers time with no lock effect unless summarised
		if f := staticCallee(&x.Call); f != nil && ts.p.InModule(f) {
			if sum := ts.summary(f); sum != nil && sum.inline {
				s.defers = append(s.defers, tsDefer{kind: "helper", helper: f, args: x.Call.Args, pos: x.Pos()})
				return []*tsState{s}
			}
			if sum := ts.summary(f); sum != nil && sum.touchesLocks && (sum.returnsLocked || len(sum.requiresHeld) > 0 || sum.acquiresTable) {
				ts.violate("typestate/unsupported", fnName(c.fn)+": deferred call of lock-affecting function "+fnName(f), x.Pos(), "deferred call with lock effects is not modelled: undecided")
			}
		}
		return []*tsState{s}
	case *ssa.RunDefers:
		return ts.runDefers(c, s, depth)
	case *ssa.Go:
		// a goroutine started while holding a lock does not inherit it; nothing to track
	case *ssa.Call:
		return ts.call(c, s, x, depth)
	case *ssa.Return:
		ts.atReturn(c, s, x)
	}
	return []*tsState{s}
}

func (ts *TS) runDefers(c *tsCtx, s *tsState, depth int) []*tsState {
	states := []*tsState{s.clone()}
	ds := s.defers
	for i := len(ds) - 1; i >= 0; i-- {
		d := ds[i]
		var next []*tsState
		for _, st := range states {
			st.defers = st.defers[:i]
			switch d.kind {
			case "unlock":
				if !st.held[d.tok] {
					ts.violate("lock-pairing/unlock-not-held", fmt.Sprintf("%s: deferred Unlock of %s", fnName(c.rootFn), shortTok(d.tok)), d.pos,
						"deferred Unlock runs on a path where the lock is not held (held: "+st.heldList()+"): runtime fatal error 'unlock of unlocked mutex'")
				}
				ts.ownUnlock(c, st, d.tok, d.pos)
				delete(st.held, d.tok)
				next = append(next, st)
			case "closure":
				fn := d.closure.Fn.(*ssa.Function)
				cc := &tsCtx{fn: fn, fa: ts.p.FA(fn), env: map[*ssa.FreeVar]ssa.Value{}, parent: c, rootFn: c.rootFn, prefix: c.prefix + fn.Name() + "/"}
				for j, fv := range fn.FreeVars {
					if j < len(d.closure.Bindings) {
						cc.env[fv] = d.closure.Bindings[j]
					}
				}
				saved := st.defers
				st.defers = nil
				for _, f := range ts.runBody(cc, st, depth+1) {
					f.s.defers = saved
					next = append(next, f.s)
				}
			case "helper":
				fn := d.helper
				cc := &tsCtx{fn: fn, fa: ts.p.FA(fn), penv: map[*ssa.Parameter]ssa.Value{}, parent: c, entry: c.entry, rootFn: c.rootFn, prefix: c.prefix + fn.Name() + "/"}
				for j, prm := range fn.Params {
					if j < len(d.args) {
						cc.penv[prm] = d.args[j]
					}
				}
				saved := st.defers
				st.defers = nil
				for _, f := range ts.runBody(cc, st, depth+1) {
					f.s.defers = saved
					next = append(next, f.s)
				}
			}
		}
		states = next
	}
	return states
}

func shortTok(t string) string {
	if i := strings.Index(t, "sym:"); i >= 0 {
		t = t[i+4:]
	}
	if len(t) > 80 {
		t = t[:80] + "…"
	}
	return t
}

func (ts *TS) call(c *tsCtx, s *tsState, call *ssa.Call, depth int) []*tsState {
	name := calleeName(&call.Call)
	switch name {
	case "(*sync.Mutex).Lock":
		owner := ts.mutexOwner(call.Call.Args[0])
		if owner == nil {
			return []*tsState{s}
		}
		t := ts.tokOf(c, s, owner)
		s = s.clone()
		if s.held[t] {
			ts.violate("deadlock/self-lock", fmt.Sprintf("%s: Lock of %s while already held", fnName(c.rootFn), shortTok(t)), call.Pos(), "locks a mutex this path already holds: self-deadlock")
		}
		if len(s.held) > 0 && !ts.isPrivate(c, s, t, owner) {
			ts.violate("deadlock/nested-acquire", fmt.Sprintf("%s: Lock of %s while holding another fid lock", fnName(c.rootFn), shortTok(t)), call.Pos(),
				"blocks on a shared fid lock while holding "+s.heldList()+": two operations taking the locks in opposite order deadlock")
		}
		s.held[t] = true
		return []*tsState{s}
	case "(*sync.Mutex).Unlock":
		owner := ts.mutexOwner(call.Call.Args[0])
		if owner == nil {
			return []*tsState{s}
		}
		t := ts.tokOf(c, s, owner)
		s = s.clone()
		if !s.held[t] {
			ts.violate("lock-pairing/unlock-not-held", fmt.Sprintf("%s: Unlock of %s", fnName(c.rootFn), shortTok(t)), call.Pos(),
				"Unlock on a path where the lock is not held (held: "+s.heldList()+")")
		}
		ts.ownUnlock(c, s, t, call.Pos())
		if c.entry[t] {
			ts.violate("lock-pairing/callee-unlocks", fmt.Sprintf("%s: Unlock of caller-held %s", fnName(c.rootFn), shortTok(t)), call.Pos(), "a helper documented to run under the caller's lock releases it")
		}
		delete(s.held, t)
		return []*tsState{s}
	case "(*sync.Map).Delete", "(*sync.Map).CompareAndDelete":
		return []*tsState{ts.ownDelete(c, s, call.Call.Args[1])}
	case "(*sync.Map).LoadOrStore", "(*sync.Map).Store", "(*sync.Map).Swap":
		// publication of a local object
		for _, a := range call.Call.Args[1:] {
			a = stripConv(a)
			if ts.isTokPtr(a.Type()) {
				s = s.clone()
				s.pub[ts.tokOf(c, s, a)] = true
			}
		}
		return []*tsState{s}
	}
	f := staticCallee(&call.Call)
	if f == nil || !ts.p.InModule(f) {
		ts.fsCall(c, s, call)
		return []*tsState{ts.ownInvoke(c, s, call)}
	}
	sum := ts.summary(f)
	if sum == nil {
		return []*tsState{s}
	}
	if sum.inline && depth < 4 {
		onStack := false
		for pc := c; pc != nil; pc = pc.parent {
			if pc.fn == f {
				onStack = true
			}
		}
		if !onStack {
			cc := &tsCtx{fn: f, fa: ts.p.FA(f), penv: map[*ssa.Parameter]ssa.Value{}, parent: c, entry: c.entry, rootFn: c.rootFn, prefix: c.prefix + f.Name() + "/"}
			for i, prm := range f.Params {
				if i < len(call.Call.Args) {
					cc.penv[prm] = call.Call.Args[i]
				}
			}
			st := s.clone()
			saved := st.defers
			st.defers = nil
			var out []*tsState
			e := errResult(call)
			for _, fin := range ts.runBody(cc, st, depth+1) {
				fin.s.defers = saved
				// what this exit of the helper says about the error the caller goes on to test
				if e != nil && fin.ret != nil && len(fin.ret.Results) > 0 {
					rv := fin.ret.Results[len(fin.ret.Results)-1]
					k := ts.errEqNilKey(c, e)
					if isNilConst(rv) {
						fin.s.preds[k] = true
					} else if _, fresh := rv.(*ssa.MakeInterface); fresh || knownNonNilAt(rv, fin.ret) {
						fin.s.preds[k] = false
					}
				}
				out = append(out, fin.s)
			}
			if len(out) > 0 {
				return out
			}
		}
	}
	for i := range sum.requiresHeld {
		if i < len(call.Call.Args) {
			arg := call.Call.Args[i]
			t := ts.tokOf(c, s, arg)
			ok := s.held[t] || ts.isPrivate(c, s, t, arg)
			key := fmt.Sprintf("%s: call %s with %s's lock held", fnName(c.rootFn), fnName(f), shortTok(t))
			ts.recordAccess(key, call.Pos(), ok, "helper that accesses the fid's state is called without the fid's lock (held: "+s.heldList()+")")
		}
	}
	if ts.own {
		if sum.setsEnt[0] >= 0 && sum.setsEnt[1] < len(call.Call.Args) {
			s = ts.ownSetEnt(c, s, call.Call.Args[sum.setsEnt[0]], call.Call.Args[sum.setsEnt[1]], call.Pos())
		}
		for i := range sum.releases {
			if i < len(call.Call.Args) {
				t := ts.tokOf(c, s, call.Call.Args[i])
				s = s.clone()
				switch s.ent[t] {
				case "R":
					ts.violate("own/double-release", fmt.Sprintf("%s: %s on an already released entry", fnName(c.rootFn), fnName(f)), call.Pos(), "the entry bound to the fid is released twice on this path")
				case "N":
					ts.violate("own/release-of-nil", fmt.Sprintf("%s: %s on a nil entry", fnName(c.rootFn), fnName(f)), call.Pos(), "release helper is called for a fid whose entry is nil on this path (nil dereference)")
				}
				s.ent[t] = "N"
				ts.releaseSites++
			}
		}
		// use of a released entry as an argument
		for _, a := range call.Call.Args {
			if owner := ts.entOwner(a); owner != nil && s.ent[ts.tokOf(c, s, owner)] == "R" {
				ts.violate("own/use-after-release", fmt.Sprintf("%s: released entry passed to %s", fnName(c.rootFn), fnName(f)), call.Pos(), "the entry is used after Clunk/Remove on this path")
			}
		}
	}
	if sum.acquiresTable && len(s.held) > 0 {
		ts.violate("deadlock/nested-acquire", fmt.Sprintf("%s: call %s while holding a fid lock", fnName(c.rootFn), fnName(f)), call.Pos(),
			fnName(f)+" blocks on the lock of a fid taken from the shared table while this path holds "+s.heldList()+": self-deadlock when it is the same fid, lock-order deadlock otherwise")
	}
	if sum.returnsLocked {
		if len(s.held) > 0 && fnAcquiresShared(ts, f) {
			ts.violate("deadlock/nested-acquire", fmt.Sprintf("%s: call %s while holding a fid lock", fnName(c.rootFn), fnName(f)), call.Pos(),
				fnName(f)+" blocks on a shared fid lock while this path holds "+s.heldList())
		}
		res := resultN(call, 0)
		e := errResult(call)
		okS, failS := s.clone(), s.clone()
		if res != nil {
			t := ts.tokOf(c, okS, res)
			okS.held[t] = true
			if ts.own {
				if sum.resultEnt != "" {
					okS.ent[t] = sum.resultEnt
				}
				if sum.resultEnt == "N" {
					ts.reserved[t] = true
				}
				if sum.resultEnt == "B" {
					ts.lookedUp[t] = true
				}
				for _, a := range call.Call.Args {
					if isP9P(a.Type(), "Fid") {
						ts.fidOf[t] = c.prefixlessSym(a)
					}
				}
			}
		} else {
			ts.violate("lock-pairing/leak", fmt.Sprintf("%s: result of %s discarded", fnName(c.rootFn), fnName(f)), call.Pos(), "the locked fid returned by "+fnName(f)+" is discarded: it can never be unlocked")
		}
		if res != nil {
			failS.cells[res] = tsNIL
		}
		if e != nil {
			k := ts.errEqNilKey(c, e)
			okS.preds[k] = true
			failS.preds[k] = false
		}
		return []*tsState{okS, failS}
	}
	return []*tsState{s}
}

// fnAcquiresShared: a returns-locked function that locks an object taken from the shared table (getRef), as opposed to a fresh one (newRef).
func fnAcquiresShared(ts *TS, f *ssa.Function) bool {
	shared := false
	eachInstr(f, func(in ssa.Instruction) {
		if c, ok := in.(*ssa.Call); ok && calleeName(&c.Call) == "(*sync.Mutex).Lock" {
			if owner := ts.mutexOwner(c.Call.Args[0]); owner != nil {
				if _, isAlloc := stripConv(owner).(*ssa.Alloc); !isAlloc {
					shared = true
				}
			}
		}
	})
	return shared
}

// fieldAccess checks E7a for loads/stores through &x.<guarded field>.
func (ts *TS) fieldAccess(c *tsCtx, s *tsState, addr ssa.Value, in ssa.Instruction, kind string) {
	fa, ok := addr.(*ssa.FieldAddr)
	// nested fields (x.Info.Qid.Version): walk up to the guarded field of the token
	var pathNames []string
	for ok && !ts.isTokPtr(fa.X.Type()) {
		pathNames = append([]string{fieldName(fa.X.Type(), fa.Field)}, pathNames...)
		switch up := fa.X.(type) {
		case *ssa.FieldAddr:
			fa = up
		default:
			ok = false
		}
	}
	if ok && ts.spec.Written != nil && kind == "read" {
		full := strings.Join(append([]string{fieldName(fa.X.Type(), fa.Field)}, pathNames...), ".")
		overl := false
		for w := range ts.spec.Written {
			if pathsOverlap(full, w) {
				overl = true
			}
		}
		if !overl {
			return // never written after construction: an unlocked read cannot race
		}
	}
	if !ok || !ts.isTokPtr(fa.X.Type()) {
		return
	}
	fname := fieldName(fa.X.Type(), fa.Field)
	if !ts.spec.Guarded[fname] {
		return
	}
	t := ts.tokOf(c, s, fa.X)
	ok2 := s.held[t] || ts.isPrivate(c, s, t, fa.X)
	key := fmt.Sprintf("%s: %s of %s.%s under the lock", fnName(c.rootFn)+closureSuffix(c), kind, ts.spec.Type, fname)
	ts.recordAccess(key, in.Pos(), ok2, fmt.Sprintf("%s of %s.%s without holding that %s's lock (held: %s)", kind, ts.spec.Type, fname, ts.spec.Type, s.heldList()))
}

func closureSuffix(c *tsCtx) string {
	if c.fn != c.rootFn {
		return "$" + strings.TrimPrefix(c.fn.Name(), c.rootFn.Name()+"$")
	}
	return ""
}

// fsCall checks that interface calls on values loaded from guarded fields happen under the lock.
func (ts *TS) fsCall(c *tsCtx, s *tsState, call *ssa.Call) {
	if !call.Call.IsInvoke() {
		return
	}
	recv := call.Call.Value
	u, ok := recv.(*ssa.UnOp)
	if !ok || u.Op != token.MUL {
		return
	}
	fa, ok := u.X.(*ssa.FieldAddr)
	if !ok || !ts.isTokPtr(fa.X.Type()) {
		return
	}
	fname := fieldName(fa.X.Type(), fa.Field)
	if !ts.spec.Guarded[fname] {
		return
	}
	t := ts.tokOf(c, s, fa.X)
	ok2 := s.held[t] || ts.isPrivate(c, s, t, fa.X)
	key := fmt.Sprintf("%s: %s.%s.%s called under the lock", fnName(c.rootFn)+closureSuffix(c), ts.spec.Type, fname, call.Call.Method.Name())
	ts.recordAccess(key, call.Pos(), ok2, "file-system call on the entry/file bound to a fid without holding the fid's lock (held: "+s.heldList()+"): overlapping calls on one entry are possible")
}

func (ts *TS) recordAccess(key string, pos token.Pos, ok bool, why string) {
	a := ts.acc[key]
	if a == nil {
		a = &tsAccess{key: key, pos: pos, ok: true}
		ts.acc[key] = a
	}
	if !ok && a.ok {
		a.ok = false
		a.why = why
		a.pos = pos
	}
}

func (ts *TS) atReturn(c *tsCtx, s *tsState, ret *ssa.Return) {
	if c.fn != c.rootFn {
		return // closure bodies: checked by the enclosing function's return
	}
	ts.ownAtReturn(c, s, ret.Pos())
	r := tsRet{held: map[string]bool{}, pos: ret.Pos(), private: map[string]bool{}, ent: map[string]string{}, unb: map[string]bool{}, file: map[string]bool{}}
	for k, v := range s.ent {
		r.ent[k] = v
	}
	for k := range s.unb {
		r.unb[k] = true
	}
	for k := range s.file {
		r.file[k] = true
	}
	for k := range s.held {
		r.held[k] = true
		if strings.Contains(k, "sym:alloc:") && !s.pub[k] {
			r.private[k] = true
		}
	}
	sig := c.fn.Signature.Results()
	if sig.Len() > 0 && len(ret.Results) == sig.Len() {
		if ts.isTokPtr(sig.At(0).Type()) {
			r.res0 = ts.tokOf(c, s, ret.Results[0])
		}
		last := ret.Results[sig.Len()-1]
		if isErrorType(sig.At(sig.Len() - 1).Type()) {
			if isNilConst(last) {
				r.errNil = 1
			} else if k := ts.errEqNilKey(c, last); s.preds[k] {
				r.errNil = 1
			} else {
				r.errNil = -1
				if _, isLoad := last.(*ssa.UnOp); isLoad {
					r.errNil = 0
				}
			}
		}
	}
	// remember LoadOrStore "loaded" facts for the L4 exemption
	for k, v := range s.preds {
		if strings.Contains(k, "LoadOrStore") && v {
			r.private["loaded"] = true
		}
	}
	ts.rets[c.fn] = append(ts.rets[c.fn], r)
}

// summary computes (and caches) the caller-visible lock effect of f.
func (ts *TS) summary(f *ssa.Function) *fnSummary {
	if s, ok := ts.sums[f]; ok {
		return s
	}
	sum := &fnSummary{requiresHeld: map[int]bool{}, releases: map[int]bool{}, setsEnt: [2]int{-1, -1}}
	ts.sums[f] = sum // break recursion
	if f.Blocks == nil {
		return sum
	}
	locks, unlocks := 0, 0
	lockedParam := map[int]bool{}
	unlockedParam := map[int]bool{}
	deletesTable := false
	sharedLock := false
	touchesParam := map[int]bool{}
	callsLockedGetter := false // obtains a locked fid from a returns-locked helper (a wrapper such as getOpenRef)
	eachInstr(f, func(in ssa.Instruction) {
		switch x := in.(type) {
		case ssa.CallInstruction:
			n := calleeName(x.Common())
			if n == "(*sync.Mutex).Lock" || n == "(*sync.Mutex).Unlock" {
				owner := ts.mutexOwner(x.Common().Args[0])
				if owner == nil {
					return
				}
				if n == "(*sync.Mutex).Lock" {
					locks++
					o := stripConv(owner)
					if _, isAlloc := o.(*ssa.Alloc); !isAlloc {
						isParam := false
						for i, p := range f.Params {
							if p == o {
								lockedParam[i] = true
								isParam = true
							}
						}
						if !isParam {
							sharedLock = true
						}
					}
				} else {
					unlocks++
					o := stripConv(owner)
					if u, ok := o.(*ssa.UnOp); ok && u.Op == token.MUL {
						o = stripConv(u.X) // (*p).Unlock(): the parameter is the address of its caller's variable
					}
					for i, p := range f.Params {
						if p == o {
							unlockedParam[i] = true
						}
					}
				}
			}
			if n == "(*sync.Map).Delete" || n == "(*sync.Map).CompareAndDelete" {
				deletesTable = true
			}
			if g := staticCallee(x.Common()); g != nil && ts.p.InModule(g) && g != f {
				gs := ts.summary(g)
				if gs.touchesLocks {
					sum.touchesLocks = true
				}
				if gs.returnsLocked {
					callsLockedGetter = true
				}
				if gs.acquiresTable || (gs.returnsLocked && fnAcquiresShared(ts, g)) {
					// transitively blocking on a shared lock; whether it returns locked is decided below
					sharedLock = true
				}
				for i := range gs.requiresHeld {
					if i < len(x.Common().Args) {
						for j, p := range f.Params {
							if stripConv(x.Common().Args[i]) == p {
								touchesParam[j] = true
							}
						}
					}
				}
			}
		case *ssa.FieldAddr:
			if ts.isTokPtr(x.X.Type()) && ts.spec.Guarded[fieldName(x.X.Type(), x.Field)] {
				for j, p := range f.Params {
					if stripConv(x.X) == p {
						touchesParam[j] = true
					}
				}
			}
		}
	})
	if locks+unlocks > 0 {
		sum.touchesLocks = true
	}
	// requires-held: touches a token parameter's guarded state and never locks it itself
	for j := range touchesParam {
		if !lockedParam[j] {
			sum.requiresHeld[j] = true
		}
	}
	// returns-locked: signature (*Tok, error) and every success return holds exactly the result's lock
	res := f.Signature.Results()
	if res.Len() == 2 && ts.isTokPtr(res.At(0).Type()) && isErrorType(res.At(1).Type()) && (locks > 0 || callsLockedGetter) {
		sub := newTS(ts.p, ts.spec)
		sub.sums = ts.sums
		sub.own = ts.own
		sub.Analyze(f, nil)
		okAll, nSucc := true, 0
		for _, r := range sub.rets[f] {
			switch r.errNil {
			case 1:
				nSucc++
				if !(len(r.held) == 1 && r.held[r.res0]) {
					okAll = false
				}
			default:
				for k := range r.held {
					if !(r.private[k] || r.private["loaded"]) {
						okAll = false
					}
				}
			}
		}
		if okAll && nSucc > 0 {
			sum.returnsLocked = true
		} else {
			for _, r := range sub.rets[f] {
				bad := false
				if r.errNil == 1 {
					bad = !(len(r.held) == 1 && r.held[r.res0])
				} else {
					for k := range r.held {
						if !(r.private[k] || r.private["loaded"]) {
							bad = true
						}
					}
				}
				if bad {
					ts.violate("lock-pairing/returns-locked", fnName(f)+": returns its result locked exactly on success", r.pos,
						"a function handing out *"+ts.spec.Type+" returns with lock state "+fmt.Sprint(len(r.held))+" held on a path where the contract is 'held iff success': callers cannot pair the unlock")
				}
			}
		}
		for k, v := range sub.viol {
			ts.viol[k] = v
		}
		for k, v := range sub.acc {
			if old, ok := ts.acc[k]; !ok || (old.ok && !v.ok) {
				ts.acc[k] = v
			}
		}
		ts.rets[f] = sub.rets[f]
	}
	if sharedLock && !sum.returnsLocked {
		sum.acquiresTable = true
	}
	// helpers that act on their caller's lock/table state are interpreted inline where they are called
	actsOnCaller := deletesTable
	for i := range unlockedParam {
		if !lockedParam[i] {
			actsOnCaller = true
		}
	}
	if actsOnCaller && !sum.returnsLocked && f.Parent() == nil && f.Object() != nil && !f.Object().Exported() {
		if n, exact := ts.p.callOrDeferSites(f); exact && n > 0 {
			sum.inline = true
		}
	}
	if ts.own {
		ts.ownSummary(f, sum)
	}
	return sum
}

// ownSummary infers the ownership effects of helpers: a pure setter of <obj>.Ent,
// and release helpers (B → N on a parameter).
func (ts *TS) ownSummary(f *ssa.Function, sum *fnSummary) {
	// setter: the only effect is `param_i.Ent = param_j`
	nStores, nCalls := 0, 0
	si, sj := -1, -1
	releasesParam := map[int]bool{}
	eachInstr(f, func(in ssa.Instruction) {
		switch x := in.(type) {
		case *ssa.Store:
			nStores++
			if fa, ok := x.Addr.(*ssa.FieldAddr); ok && ts.isTokPtr(fa.X.Type()) && fieldName(fa.X.Type(), fa.Field) == entField {
				for i, p := range f.Params {
					if fa.X == p {
						si = i
					}
					if stripConv(x.Val) == p {
						sj = i
					}
				}
			}
		case *ssa.Call:
			nCalls++
			if x.Call.IsInvoke() && releaseMethods[x.Call.Method.Name()] {
				if owner := ts.entOwner(x.Call.Value); owner != nil {
					for i, p := range f.Params {
						if stripConv(owner) == p {
							releasesParam[i] = true
						}
					}
				}
			}
		}
	})
	if nStores == 1 && nCalls == 0 && si >= 0 && sj >= 0 {
		sum.setsEnt = [2]int{si, sj}
	}
	for i := range releasesParam {
		sub := newTS(ts.p, ts.spec)
		sub.own = true
		sub.sums = ts.sums
		sub.entryBound[f] = true
		sub.Analyze(f, map[int]bool{i: true})
		ok := len(sub.rets[f]) > 0
		for _, r := range sub.rets[f] {
			for t, st := range r.ent {
				if strings.HasSuffix(t, "sym:p:"+f.Params[i].Name()) && st != "N" {
					ok = false
					ts.violate("own/released-stays-bound", fnName(f)+": release helper stores nil after releasing", r.pos,
						"the helper releases the entry of its fid but leaves it stored (state "+st+") on some path: the entry is released again later or used after release")
				}
			}
		}
		for k, v := range sub.viol {
			if !strings.HasPrefix(k, "own/released-stays-bound|"+fnName(f)+": lock") {
				ts.viol[k] = v
			}
		}
		if ok {
			sum.releases[i] = true
		}
	}
	// returns-locked constructors: state of the result on success
	if sum.returnsLocked {
		st := ""
		for _, r := range ts.rets[f] {
			if r.errNil == 1 {
				e := r.ent[r.res0]
				if st == "" {
					st = e
				} else if st != e {
					st = "?"
				}
			}
		}
		if st == "B" || st == "N" {
			sum.resultEnt = st
		}
	}
}
