package main

// Linear facts and entailment (engine E4-T3 of DESIGN.md): a flow-sensitive,
// path-insensitive domain of linear inequalities over the canonical atoms of
// sym.go, decided by Fourier–Motzkin elimination. No external solver.

import (
	"fmt"
	"go/token"
	"go/types"
	"os"
	"sort"
	"strings"

	"golang.org/x/tools/go/ssa"
)

// A Fact is the inequality L ≤ 0 with a human-readable origin.
type Fact struct {
	L   *Lin
	Why string
}

func (f Fact) String() string { return f.L.String() + " <= 0   [" + f.Why + "]" }

func le(a, b *Lin, why string) Fact { return Fact{a.Sub(b), why} }                  // a ≤ b
func lt(a, b *Lin, why string) Fact { return Fact{a.Sub(b).Add(linConst(1)), why} } // a < b  (integers)

// condFacts translates a branch condition into linear facts (nil when it has no linear content).
func (fa *FA) condFacts(c Cond) []Fact {
	c = normCond(c)
	b, ok := c.V.(*ssa.BinOp)
	if !ok {
		return nil
	}
	if _, _, isInt := intBits(b.X.Type()); !isInt {
		return nil
	}
	op := b.Op
	if !c.Truth {
		op = negateOp(op)
	}
	x, y := fa.Lin(b.X), fa.Lin(b.Y)
	why := c.String()
	switch op {
	case token.LSS:
		return []Fact{lt(x, y, why)}
	case token.LEQ:
		return []Fact{le(x, y, why)}
	case token.GTR:
		return []Fact{lt(y, x, why)}
	case token.GEQ:
		return []Fact{le(y, x, why)}
	case token.EQL:
		return []Fact{le(x, y, why), le(y, x, why)}
	case token.NEQ:
		// x != c with x known >= c (e.g. len(s) != 0) gives x >= c+1
		if c, ok := y.IsConst(); ok && c == 0 && fa.nonNegLin(x) {
			return []Fact{le(linConst(1), x, why+" (non-negative)")}
		}
		if c, ok := x.IsConst(); ok && c == 0 && fa.nonNegLin(y) {
			return []Fact{le(linConst(1), y, why+" (non-negative)")}
		}
	}
	return nil
}

// atomFacts: range facts that hold for an atom by its type or by the contract
// of the (standard library) operation that produced it.
func (fa *FA) atomFacts(s *Sym, depth int) []Fact {
	var out []Fact
	if s == nil {
		return nil
	}
	a := linAtom(s)
	if bits, signed, ok := intBits(s.T); ok && !signed {
		out = append(out, le(linConst(0), a, "unsigned "+s.K))
		if bits < 64 {
			out = append(out, le(a, linConst(int64(1)<<uint(bits)-1), fmt.Sprintf("uint%d range of %s", bits, s.K)))
		}
	}
	switch s.Op {
	case "len":
		out = append(out, le(linConst(0), a, "len >= 0"))
		// len(x) ≤ cap(x)
		if _, isSlice := s.Args[0].T.Underlying().(*types.Slice); isSlice && depth < 2 {
			out = append(out, le(a, fa.linSym(capOf(s.Args[0]), 0), "len <= cap"))
		}
	case "cap":
		out = append(out, le(linConst(0), a, "cap >= 0"))
		// cap(append(s, t...)) >= len(s)+len(t); cap(x) >= len(x) in general
		if x := s.Args[0]; depth < 2 {
			if _, isSlice := x.T.Underlying().(*types.Slice); isSlice {
				out = append(out, le(fa.linSym(lenOf(x), 0), a, "len <= cap"))
			}
		}
	case "ext":
		// results of standard library calls
		call := s.Args[0]
		if call.Op == "call" && s.Int == 0 {
			switch call.Aux {
			case "io.ReadFull", "io.ReadAtLeast":
				if len(call.Args) >= 2 {
					out = append(out, le(linConst(0), a, "io.ReadFull: n >= 0"))
					out = append(out, le(a, fa.linSym(lenOf(call.Args[1]), 0), "io.ReadFull: n <= len(buf)"))
				}
			case "io.CopyN":
				if len(call.Args) >= 3 {
					out = append(out, le(linConst(0), a, "io.CopyN: written >= 0"))
					out = append(out, le(a, fa.linSym(call.Args[2], 0), "io.CopyN: written <= n"))
				}
			case "invoke io.Reader.Read", "invoke io.Writer.Write", "(*os.File).ReadAt", "(*os.File).WriteAt", "(*os.File).Read", "(*os.File).Write":
				if len(call.Args) >= 1 {
					out = append(out, le(linConst(0), a, "io contract: n >= 0"))
					out = append(out, le(a, fa.linSym(lenOf(call.Args[len(call.Args)-1-btoi(strings.HasSuffix(call.Aux, "At"))]), 0), "io contract: n <= len(p)"))
				}
			}
			// assume–guarantee for the module's Read/Write interfaces (checked at every implementation)
			if strings.HasPrefix(call.Aux, "invoke p9p.Session.Read") || strings.HasPrefix(call.Aux, "invoke p9p.Session.Write") {
				if len(call.Args) >= 3 {
					out = append(out, le(linConst(0), a, "Session.Read/Write contract: n >= 0"))
					out = append(out, le(a, fa.linSym(lenOf(call.Args[2]), 0), "Session.Read/Write contract: n <= len(p)"))
				}
			}
			if strings.HasPrefix(call.Aux, "invoke p9p.File.Read") || strings.HasPrefix(call.Aux, "invoke p9p.File.Write") {
				if len(call.Args) >= 2 {
					out = append(out, le(linConst(0), a, "File.Read/Write contract: n >= 0"))
					out = append(out, le(a, fa.linSym(lenOf(call.Args[1]), 0), "File.Read/Write contract: n <= len(p)"))
				}
			}
		}
	case "call":
		// results of module helpers without an error result: the guarantees of all their returns
		if c, ok := s.V.(*ssa.Call); ok && depth < 2 {
			if g := staticCallee(&c.Call); g != nil && fa.P.InModule(g) && g.Blocks != nil {
				res := g.Signature.Results()
				if res.Len() == 1 {
					for _, sf := range fa.P.retSummary(g) {
						if sf.result != 0 {
							continue
						}
						switch sf.kind {
						case "ge-const":
							out = append(out, le(linConst(sf.c), a, fmt.Sprintf("%s guarantees result >= %d", fnName(g), sf.c)))
						case "le-len-param":
							if sf.param < len(c.Call.Args) {
								out = append(out, le(a, fa.linSym(lenOf(fa.Sym(c.Call.Args[sf.param])), 0).Add(linConst(sf.c)), fmt.Sprintf("%s guarantees result <= len(arg%d)", fnName(g), sf.param)))
							}
						case "le-param":
							if sf.param < len(c.Call.Args) {
								out = append(out, le(a, fa.Lin(c.Call.Args[sf.param]), fmt.Sprintf("%s guarantees result <= arg%d", fnName(g), sf.param)))
							}
						case "le-param-diff":
							if sf.param < len(c.Call.Args) && sf.param2 < len(c.Call.Args) {
								out = append(out, le(a, fa.Lin(c.Call.Args[sf.param]).Sub(fa.Lin(c.Call.Args[sf.param2])), fmt.Sprintf("%s guarantees result <= arg%d - arg%d", fnName(g), sf.param, sf.param2)))
							}
						}
					}
				}
			}
		}
		switch s.Aux {
		case "builtin copy":
			out = append(out, le(linConst(0), a, "copy >= 0"))
			if len(s.Args) == 2 {
				out = append(out, le(a, fa.linSym(lenOf(s.Args[0]), 0), "copy <= len(dst)"))
				out = append(out, le(a, fa.linSym(lenOf(s.Args[1]), 0), "copy <= len(src)"))
			}
		case "strings.Count", "encoding/binary.Size":
			if s.Aux == "strings.Count" {
				out = append(out, le(linConst(0), a, "strings.Count >= 0"))
			}
		}
	}
	return out
}

func btoi(b bool) int {
	if b {
		return 1
	}
	return 0
}

// FactsAt collects the facts that hold whenever instruction `in` executes:
// dominating branch conditions plus range facts of every atom mentioned by
// the facts or by the extra forms.
// FactsAtSite: the facts holding on one exit of the function (see retSite).
func (fa *FA) FactsAtSite(s retSite, extra ...*Lin) []Fact {
	if s.Pred == nil {
		return fa.FactsAt(s.Ret, extra...)
	}
	var facts []Fact
	conds := s.Conds()
	for _, c := range conds {
		facts = append(facts, fa.condFacts(c)...)
	}
	facts = append(facts, fa.loopFacts(s.At())...)
	facts = append(facts, fa.calleeFacts(conds)...)
	facts = append(facts, fa.entryFacts()...)
	return fa.closeFacts(facts, extra...)
}

// FactsOnEdge: the facts holding when control passes from pred to succ.
func (fa *FA) FactsOnEdge(pred, succ *ssa.BasicBlock, extra ...*Lin) []Fact {
	conds := append(append([]Cond{}, condsAt(pred)...), edgeCond(pred, succ)...)
	var facts []Fact
	for _, c := range conds {
		facts = append(facts, fa.condFacts(c)...)
	}
	facts = append(facts, fa.loopFacts(pred.Instrs[len(pred.Instrs)-1])...)
	facts = append(facts, fa.calleeFacts(conds)...)
	facts = append(facts, fa.entryFacts()...)
	return fa.closeFacts(facts, extra...)
}

func (fa *FA) FactsAt(in ssa.Instruction, extra ...*Lin) []Fact {
	var facts []Fact
	for _, c := range condsAtInstr(in) {
		facts = append(facts, fa.condFacts(c)...)
	}
	facts = append(facts, fa.loopFacts(in)...)
	facts = append(facts, fa.calleeFacts(condsAtInstr(in))...)
	facts = append(facts, fa.entryFacts()...)
	return fa.closeFacts(facts, extra...)
}

// calleeFacts: for every module call whose error result is known nil here, the
// guarantees of its success returns (computed from the callee's own body) about
// its integer results: constant lower bounds and `<= len(slice parameter)`.
func (fa *FA) calleeFacts(conds []Cond) []Fact {
	var out []Fact
	seen := map[*ssa.Call]bool{}
	for _, c := range conds {
		nc := normCond(c)
		b, ok := nc.V.(*ssa.BinOp)
		if !ok {
			continue
		}
		for _, e := range []ssa.Value{b.X, b.Y} {
			if nilTestOf(c, e) != 1 {
				continue
			}
			var call *ssa.Call
			if ex, ok := e.(*ssa.Extract); ok {
				call, _ = ex.Tuple.(*ssa.Call)
			} else {
				call, _ = e.(*ssa.Call)
			}
			if call == nil || seen[call] {
				continue
			}
			seen[call] = true
			out = append(out, fa.calleeFactsOfCall(call)...)
		}
	}
	return out
}

// calleeFactsOfCall: the success guarantees of one module call (to be used where its error result is nil).
func (fa *FA) calleeFactsOfCall(call *ssa.Call) []Fact {
	var out []Fact
	{
		{
			g := staticCallee(&call.Call)
			if g == nil || !fa.P.InModule(g) || g.Blocks == nil {
				return nil
			}
			for _, sf := range fa.P.retSummary(g) {
				res := resultN(call, sf.result)
				if res == nil {
					continue
				}
				rl := fa.Lin(res)
				switch sf.kind {
				case "ge-const":
					out = append(out, le(linConst(sf.c), rl, fmt.Sprintf("%s success guarantee: result#%d >= %d", fnName(g), sf.result, sf.c)))
				case "le-len-param":
					if sf.param < len(call.Call.Args) {
						out = append(out, le(rl, fa.linSym(lenOf(fa.Sym(call.Call.Args[sf.param])), 0).Add(linConst(sf.c)),
							fmt.Sprintf("%s success guarantee: result#%d <= len(arg%d)%+d", fnName(g), sf.result, sf.param, sf.c)))
					}
				case "le-param":
					if sf.param < len(call.Call.Args) {
						out = append(out, le(rl, fa.Lin(call.Call.Args[sf.param]), fmt.Sprintf("%s guarantees result#%d <= arg%d", fnName(g), sf.result, sf.param)))
					}
				case "le-param-diff":
					if sf.param < len(call.Call.Args) && sf.param2 < len(call.Call.Args) {
						out = append(out, le(rl, fa.Lin(call.Call.Args[sf.param]).Sub(fa.Lin(call.Call.Args[sf.param2])), fmt.Sprintf("%s guarantees result#%d <= arg%d - arg%d", fnName(g), sf.result, sf.param, sf.param2)))
					}
				}
			}
		}
	}
	out = append(out, fa.heapPostFacts(call)...)
	return out
}

// heapPostFacts: what a successful call leaves in the slice fields of the objects it was handed: when every success
// return of the callee has `len(param_i.f) >= 1` (e.g. `br.refill(ctx)` stores a non-empty batch into br.dirs before
// returning nil), the state of arg_i.f right after the call — the memory version the call creates — has that length.
func (fa *FA) heapPostFacts(call *ssa.Call) []Fact {
	g := staticCallee(&call.Call)
	if g == nil || !fa.P.InModule(g) || g.Blocks == nil {
		return nil
	}
	var out []Fact
	for i, prm := range g.Params {
		if i >= len(call.Call.Args) {
			break
		}
		pt, ok := prm.Type().Underlying().(*types.Pointer)
		if !ok {
			continue
		}
		st, ok := pt.Elem().Underlying().(*types.Struct)
		if !ok {
			continue
		}
		argK := fa.Sym(call.Call.Args[i]).K
		for k := 0; k < st.NumFields(); k++ {
			if _, isSl := st.Field(k).Type().Underlying().(*types.Slice); !isSl {
				continue
			}
			fname := st.Field(k).Name()
			if fa.P.fieldLenPost(g, i, fname) < 1 {
				continue
			}
			// the address &arg.f as the caller writes it, and the version this call creates in its class
			var as *Sym
			var cls locClass
			eachInstr(fa.Fn, func(in ssa.Instruction) {
				f2, ok := in.(*ssa.FieldAddr)
				if !ok || as != nil || fieldName(f2.X.Type(), f2.Field) != fname || fa.Sym(f2.X).K != argK {
					return
				}
				as, cls = fa.Sym(f2), addrClass(f2)
			})
			if as == nil {
				continue
			}
			ver := fa.verInfoFor(cls).clob[call]
			if ver == 0 {
				continue
			}
			post := &Sym{Op: "ld", K: fmt.Sprintf("ld(%s)@%d", as.K, ver), Args: []*Sym{as}, T: st.Field(k).Type(), Aux: string(cls)}
			out = append(out, le(linConst(1), fa.linSym(lenOf(post), 0), fmt.Sprintf("%s leaves len(%s.%s) >= 1 on success", fnName(g), prm.Name(), fname)))
		}
	}
	return out
}

var fieldLenPostCache = map[string]int64{}

// fieldLenPost: 1 when on every success return of g (nil error; every return if g has no error result) the slice field
// `name` of the object parameter i points to is known to be non-empty, else 0.
func (p *Prog) fieldLenPost(g *ssa.Function, i int, name string) int64 {
	key := fmt.Sprintf("%p/%d/%s", g, i, name)
	if v, ok := fieldLenPostCache[key]; ok {
		return v
	}
	fieldLenPostCache[key] = 0
	gfa := p.FA(g)
	prm := g.Params[i]
	var as *Sym
	var cls locClass
	var ft types.Type
	eachInstr(g, func(in ssa.Instruction) {
		f2, ok := in.(*ssa.FieldAddr)
		if !ok || as != nil || f2.X != ssa.Value(prm) || fieldName(f2.X.Type(), f2.Field) != name {
			return
		}
		as, cls = gfa.Sym(f2), addrClass(f2)
		ft = f2.Type().Underlying().(*types.Pointer).Elem()
	})
	if as == nil {
		return 0
	}
	n := 0
	for _, rs := range returnSites(g) {
		if len(rs.Results) > 0 {
			last := rs.Results[len(rs.Results)-1]
			if isErrorType(last.Type()) && !isNilConst(last) {
				if _, isConst := last.(*ssa.Const); isConst || errNeverNilAt(last, rs.At()) {
					continue
				}
				return 0 // an error that may be nil: not a plain success/failure exit
			}
		}
		n++
		val := gfa.memValueAtEnd(as, cls, rs.At().Block(), ft)
		l := gfa.linSym(lenOf(val), 0)
		facts := gfa.FactsAtSite(rs, l)
		if !EntailsLE(facts, linConst(1), l) {
			return 0
		}
	}
	if n == 0 {
		return 0
	}
	fieldLenPostCache[key] = 1
	return 1
}

type retFact struct {
	kind   string
	result int
	param  int
	c      int64
	param2 int
}

var retSummaryCache = map[*ssa.Function][]retFact{}
var retSummaryBusy = map[*ssa.Function]bool{}

// retSummary computes guarantees on the integer results of g's success returns
// (returns whose error result is the nil constant; all returns if g has no error result).
func (p *Prog) retSummary(g *ssa.Function) []retFact {
	if s, ok := retSummaryCache[g]; ok {
		return s
	}
	if retSummaryBusy[g] {
		return nil
	}
	retSummaryBusy[g] = true
	defer delete(retSummaryBusy, g)
	var out []retFact
	fa := p.FA(g)
	res := g.Signature.Results()
	errIdx := -1
	for i := 0; i < res.Len(); i++ {
		if isErrorType(res.At(i).Type()) {
			errIdx = i
		}
	}
	var succ []*ssa.Return
	for _, r := range returnsOf(g) {
		if len(r.Results) != res.Len() {
			continue
		}
		if errIdx >= 0 && !isNilConst(r.Results[errIdx]) {
			// a forwarded error (e.g. `return g(...)`) may be nil: the guarantee must hold there too,
			// unless a dominating test shows it is non-nil
			if knownNonNilAt(r.Results[errIdx], r) {
				continue
			}
			if _, isConst := r.Results[errIdx].(*ssa.Const); isConst {
				continue
			}
			if mi, isMI := r.Results[errIdx].(*ssa.MakeInterface); isMI {
				_ = mi
				continue // a freshly built error value
			}
			if u, isLoad := r.Results[errIdx].(*ssa.UnOp); isLoad {
				if _, isG := u.X.(*ssa.Global); isG {
					continue // a package-level error value
				}
			}
		}
		succ = append(succ, r)
	}
	if len(succ) == 0 {
		retSummaryCache[g] = nil
		return nil
	}
	for i := 0; i < res.Len(); i++ {
		if _, _, ok := intBits(res.At(i).Type()); !ok {
			continue
		}
		holds := func(goal func(l *Lin) *Lin) bool {
			for _, r := range succ {
				// the result as it stands (loop invariants and the edge-sensitive phi split see the path conditions)
				// on a return that forwards another call's error, success means that call succeeded
				var fwd []Fact
				if errIdx >= 0 {
					if ex, ok := r.Results[errIdx].(*ssa.Extract); ok {
						if c, ok := ex.Tuple.(*ssa.Call); ok {
							fwd = fa.calleeFactsOfCall(c)
						}
					}
				}
				{
					gl := goal(fa.Lin(r.Results[i]))
					facts := append(fa.FactsAt(r, gl), fwd...)
					if Entails(facts, gl) || fa.entailsPhiSplit(r, facts, gl, linConst(0), 3) {
						continue
					}
				}
				for _, alt := range phiAlternatives(r.Results[i], 3) {
					l := fa.Lin(alt)
					gl := goal(l)
					facts := fa.FactsAt(r, gl)
					if !Entails(facts, gl) && !fa.entailsPhiSplit(r, facts, gl, linConst(0), 2) {
						return false
					}
				}
			}
			return true
		}
		best := int64(-1)
		for _, c := range []int64{0, 1, 2, 4, 8} {
			cc := c
			if holds(func(l *Lin) *Lin { return linConst(cc).Sub(l) }) {
				best = cc
			}
		}
		if best >= 0 {
			out = append(out, retFact{"ge-const", i, 0, best, 0})
		}
		for j, prm := range g.Params {
			if _, ok := prm.Type().Underlying().(*types.Slice); !ok {
				continue
			}
			pl := fa.linSym(lenOf(fa.Sym(prm)), 0)
			if holds(func(l *Lin) *Lin { return l.Sub(pl) }) {
				out = append(out, retFact{"le-len-param", i, j, 0, 0})
			}
		}
		// relations between the result and the integer parameters: result <= p_j, result <= p_j - p_k
		var ips []int
		for j, prm := range g.Params {
			if _, _, ok := intBits(prm.Type()); ok {
				ips = append(ips, j)
			}
		}
		if len(ips) <= 4 {
			for _, j := range ips {
				pj := fa.Lin(g.Params[j])
				if holds(func(l *Lin) *Lin { return l.Sub(pj) }) {
					out = append(out, retFact{"le-param", i, j, 0, 0})
				}
				for _, k := range ips {
					if k == j {
						continue
					}
					pk := fa.Lin(g.Params[k])
					if holds(func(l *Lin) *Lin { return l.Sub(pj.Sub(pk)) }) {
						out = append(out, retFact{"le-param-diff", i, j, 0, k})
					}
				}
			}
		}
	}
	retSummaryCache[g] = out
	return out
}

// closeFacts adds atom range facts (to a fixed depth) for all atoms involved.
func (fa *FA) closeFacts(facts []Fact, extra ...*Lin) []Fact {
	seen := map[string]bool{}
	var work []*Sym
	push := func(l *Lin) {
		for k, s := range l.Atoms {
			if !seen[k] {
				seen[k] = true
				work = append(work, s)
			}
		}
	}
	for _, f := range facts {
		push(f.L)
	}
	for _, l := range extra {
		push(l)
	}
	for depth := 0; len(work) > 0 && depth < 3; depth++ {
		cur := work
		work = nil
		for _, s := range cur {
			for _, f := range fa.atomFacts(s, depth) {
				facts = append(facts, f)
				push(f.L)
			}
		}
	}
	return facts
}

// Entails decides facts ⊨ goal ≤ 0 by refuting facts ∧ goal ≥ 1.
func Entails(facts []Fact, goal *Lin) bool {
	rows := make([]*Lin, 0, len(facts)+1)
	for _, f := range facts {
		rows = append(rows, f.L)
	}
	neg := goal.Scale(-1).Add(linConst(1)) // -goal + 1 ≤ 0  ⇔ goal ≥ 1
	rows = append(rows, neg)
	return infeasible(rows)
}

// EntailsLE: facts ⊨ a ≤ b.
func EntailsLE(facts []Fact, a, b *Lin) bool { return Entails(facts, a.Sub(b)) }

const fmLimit = int64(1) << 50

func infeasible(rows []*Lin) bool {
	// only variables connected to the goal matter, but systems are tiny: eliminate all.
	vars := map[string]bool{}
	for _, r := range rows {
		for k := range r.T {
			vars[k] = true
		}
	}
	names := make([]string, 0, len(vars))
	for k := range vars {
		names = append(names, k)
	}
	sort.Strings(names)
	cur := pruneRows(rows)
	for _, v := range names {
		var pos, negs, rest []*Lin
		for _, r := range cur {
			c := r.T[v]
			switch {
			case c > 0:
				pos = append(pos, r)
			case c < 0:
				negs = append(negs, r)
			default:
				rest = append(rest, r)
			}
		}
		for _, p := range pos {
			for _, n := range negs {
				a, b := p.T[v], -n.T[v]
				comb := p.Scale(b).Add(n.Scale(a))
				delete(comb.T, v)
				big := false
				if comb.C > fmLimit || comb.C < -fmLimit {
					big = true
				}
				for _, c := range comb.T {
					if c > fmLimit || c < -fmLimit {
						big = true
					}
				}
				if !big {
					rest = append(rest, comb)
				}
			}
		}
		rest = pruneRows(rest)
		if len(rest) > 4000 {
			return false // give up: not proven
		}
		cur = rest
	}
	for _, r := range cur {
		if len(r.T) == 0 && r.C > 0 {
			return true // c ≤ 0 with c > 0: contradiction
		}
	}
	return false
}

func factStrings(facts []Fact) []string {
	out := []string{}
	seen := map[string]bool{}
	for _, f := range facts {
		s := f.String()
		if !seen[s] {
			seen[s] = true
			out = append(out, s)
		}
	}
	return out
}

// ---- canonical counting loops ----------------------------------------------------

// loopFacts: invariants of canonical counting loops whose induction variable is
// visible at `in`:
//
//	i = φ(c, i+1)  with the loop test  i < N  (or the range form) dominating `in`
//	⇒ c ≤ i  (and i < N from the dominating test, already collected)
//
// For the range-loop shape of go/ssa (t = φ(-1, t+1); t' = t+1; if t' < len) the
// body uses t' ≥ 0.
func (fa *FA) loopFacts(in ssa.Instruction) []Fact {
	var out []Fact
	for _, b := range fa.Fn.Blocks {
		if !(b == in.Block() || b.Dominates(in.Block())) {
			continue
		}
		for _, x := range b.Instrs {
			phi, ok := x.(*ssa.Phi)
			if !ok {
				break
			}
			if _, _, isInt := intBits(phi.Type()); !isInt {
				continue
			}
			out = append(out, fa.phiLowerBound(phi)...)
		}
		if isLoopHeader(b) {
			out = append(out, fa.loopInvariants(b)...)
		}
	}
	return out
}

// phiLowerBound: if every incoming edge of the phi is either ≥ some constant c or
// the phi itself plus a non-negative constant, then phi ≥ min c. Symmetric upper
// bounds are not derived (they come from the loop test).
func (fa *FA) phiLowerBound(phi *ssa.Phi) []Fact {
	ps := fa.Sym(phi)
	if ps.Op != "phi" {
		return nil
	}
	self := linAtom(ps)
	var lows []*Lin
	// the symmetric upper bound for a loop that counts down: every edge is the initial value or the phi minus a
	// non-negative constant, so the phi never exceeds its (single) initial value
	var highs []*Lin
	okHigh := true
	for _, e := range phi.Edges {
		l := fa.Lin(e)
		d := l.Sub(self)
		if c, ok := d.IsConst(); ok {
			if c > 0 {
				okHigh = false
			}
			continue
		}
		highs = append(highs, l)
	}
	var upper []Fact
	if okHigh && len(highs) == 1 {
		upper = append(upper, le(self, highs[0], "loop invariant: "+ps.K+" <= initial value "+highs[0].String()+" (the loop only counts down)"))
	}
	for _, e := range phi.Edges {
		l := fa.Lin(e)
		d := l.Sub(self)
		if c, ok := d.IsConst(); ok {
			if c >= 0 {
				continue // i + c, c ≥ 0: preserves any lower bound
			}
			return upper
		}
		lows = append(lows, l)
	}
	if len(lows) == 0 {
		return upper
	}
	var out []Fact
	out = append(out, upper...)
	if len(lows) == 1 {
		out = append(out, le(lows[0], self, "loop invariant: "+ps.K+" >= initial value "+lows[0].String()))
		return out
	}
	// several entries: only a common constant lower bound
	min := int64(0)
	for i, l := range lows {
		c, ok := l.IsConst()
		if !ok {
			return nil
		}
		if i == 0 || c < min {
			min = c
		}
	}
	out = append(out, le(linConst(min), self, "loop invariant: "+ps.K+" >= min initial"))
	return out
}

// phiUpperByStep: for a phi i = φ(init, i+1 ...) the value i+1 computed in the loop
// satisfies i+1 ≥ init+1; handled through Lin arithmetic automatically.

var _ = types.Typ

// ---- inductive loop invariants (template-based, Houdini-style) ---------------------
//
// For a loop header H with integer phis, candidate invariants of the forms
//     c <= p            (c in {-1,0})
//     p <= q + c        (q another phi or a bound term of the loop; c in {-1,0,1})
// are checked for initiation on the entry edges and consecution on the back edges
// (assuming all surviving candidates at the header); failing candidates are dropped
// until a fixed point. Survivors are inductive invariants of the header.

var loopInvCache = map[*ssa.BasicBlock][]Fact{}

func isLoopHeader(b *ssa.BasicBlock) bool {
	for _, p := range b.Preds {
		if p == b || b.Dominates(p) {
			return true
		}
	}
	return false
}

func substLin(l *Lin, m map[string]*Lin) *Lin {
	out := linConst(l.C)
	for k, c := range l.T {
		if r, ok := m[k]; ok {
			out = out.addScaled(r, c)
		} else {
			a := newLin()
			a.T[k] = 1
			a.Atoms[k] = l.Atoms[k]
			out = out.addScaled(a, c)
		}
	}
	return out
}

func (fa *FA) loopInvariants(h *ssa.BasicBlock) []Fact {
	if inv, ok := loopInvCache[h]; ok {
		return inv
	}
	loopInvCache[h] = nil
	var phis []*ssa.Phi
	for _, in := range h.Instrs {
		phi, ok := in.(*ssa.Phi)
		if !ok {
			break
		}
		if _, _, isInt := intBits(phi.Type()); isInt && fa.Sym(phi).Op == "phi" {
			phis = append(phis, phi)
		}
	}
	if len(phis) == 0 {
		return nil
	}
	phiLin := map[*ssa.Phi]*Lin{}
	for _, p := range phis {
		phiLin[p] = linAtom(fa.Sym(p))
	}
	// bound terms: the non-phi side of comparisons inside the loop whose other side mentions a header phi
	inLoopBlock := func(b *ssa.BasicBlock) bool {
		if !(b == h || h.Dominates(b)) {
			return false
		}
		return reachableFrom(b)[h]
	}
	mentionsPhi := func(l *Lin) bool {
		for k := range l.T {
			for _, p := range phis {
				if k == fa.Sym(p).K {
					return true
				}
			}
		}
		return false
	}
	var bounds []*Lin
	seenB := map[string]bool{}
	for _, b := range fa.Fn.Blocks {
		if !inLoopBlock(b) || len(b.Instrs) == 0 {
			continue
		}
		ifi, ok := b.Instrs[len(b.Instrs)-1].(*ssa.If)
		if !ok {
			continue
		}
		bo, ok := ifi.Cond.(*ssa.BinOp)
		if !ok {
			continue
		}
		if _, _, isInt := intBits(bo.X.Type()); !isInt {
			continue
		}
		lx, ly := fa.Lin(bo.X), fa.Lin(bo.Y)
		for _, pr := range [][2]*Lin{{lx, ly}, {ly, lx}} {
			if mentionsPhi(pr[0]) && !mentionsPhi(pr[1]) {
				if k := pr[1].String(); !seenB[k] {
					seenB[k] = true
					bounds = append(bounds, pr[1])
				}
			}
		}
	}
	type cand struct {
		l   *Lin // l <= 0
		txt string
	}
	var cands []cand
	for _, p := range phis {
		for _, c := range []int64{-1, 0} {
			cands = append(cands, cand{linConst(c).Sub(phiLin[p]), fmt.Sprintf("%d <= %s", c, fa.Sym(p).K)})
		}
		var others []*Lin
		for _, q := range phis {
			if q != p {
				others = append(others, phiLin[q])
			}
		}
		others = append(others, bounds...)
		for _, o := range others {
			for _, c := range []int64{-1, 0, 1} {
				cands = append(cands, cand{phiLin[p].Sub(o).Sub(linConst(c)), fmt.Sprintf("%s <= %s%+d", fa.Sym(p).K, o.String(), c)})
			}
		}
	}
	alive := make([]bool, len(cands))
	for i := range alive {
		alive[i] = true
	}
	changed := true
	for iter := 0; changed && iter < 20; iter++ {
		changed = false
		for ci, cd := range cands {
			if !alive[ci] {
				continue
			}
			ok := true
			for ei, pred := range h.Preds {
				sub := map[string]*Lin{}
				for _, p := range phis {
					sub[fa.Sym(p).K] = fa.Lin(p.Edges[ei])
				}
				goal := substLin(cd.l, sub)
				facts := fa.edgeFacts(pred, h, goal)
				isBack := pred == h || h.Dominates(pred)
				if isBack {
					for cj, c2 := range cands {
						if alive[cj] {
							facts = append(facts, Fact{c2.l, "assumed invariant " + c2.txt})
						}
					}
					facts = fa.closeFacts(facts, goal)
				}
				if !Entails(facts, goal) && !fa.entailsPhiSplit(pred.Instrs[len(pred.Instrs)-1], facts, goal, linConst(0), 2) {
					ok = false
					if os.Getenv("DBG_INV") != "" {
						fmt.Fprintf(os.Stderr, "   cand %s fails on edge %d->%d goal %s <= 0 (%d facts)\n", cd.txt, pred.Index, h.Index, goal.String(), len(facts))
					}
					break
				}
			}
			if !ok {
				alive[ci] = false
				changed = true
				if os.Getenv("DBG_INV") != "" {
					fmt.Fprintf(os.Stderr, "iter %d drop %s\n", iter, cd.txt)
				}
			}
		}
	}
	var out []Fact
	for ci, cd := range cands {
		if alive[ci] {
			out = append(out, Fact{cd.l, "inductive loop invariant: " + cd.txt})
		}
	}
	loopInvCache[h] = out
	return out
}

func gcd64(a, b int64) int64 {
	if a < 0 {
		a = -a
	}
	if b < 0 {
		b = -b
	}
	for b != 0 {
		a, b = b, a%b
	}
	return a
}

// pruneRows normalises rows (divide by the gcd of the coefficients, rounding the constant up,
// which is sound over the integers) and keeps, among rows with identical coefficients, the strongest.
func pruneRows(rows []*Lin) []*Lin {
	best := map[string]*Lin{}
	var order []string
	for _, r := range rows {
		if len(r.T) == 0 {
			if r.C > 0 {
				return []*Lin{r} // contradiction found
			}
			continue
		}
		g := int64(0)
		for _, c := range r.T {
			g = gcd64(g, c)
		}
		n := r
		if g > 1 {
			n = newLin()
			for k, c := range r.T {
				n.T[k] = c / g
				n.Atoms[k] = r.Atoms[k]
			}
			// T·x + C <= 0 with T divisible by g:  (T/g)·x <= -C/g  → integer: (T/g)·x + ceil(C/g) <= 0
			c := r.C
			q := c / g
			if c%g != 0 && c > 0 {
				q++
			}
			n.C = q
		}
		keys := make([]string, 0, len(n.T))
		for k, c := range n.T {
			keys = append(keys, fmt.Sprintf("%s*%d", k, c))
		}
		sort.Strings(keys)
		key := strings.Join(keys, "|")
		if old, ok := best[key]; ok {
			if n.C > old.C {
				best[key] = n
			}
		} else {
			best[key] = n
			order = append(order, key)
		}
	}
	out := make([]*Lin, 0, len(order))
	for _, k := range order {
		out = append(out, best[k])
	}
	return out
}

// ---- caller-derived preconditions of unexported helpers -------------------------------------------------------------
//
// For an unexported function all of whose uses are plain static calls (so the call sites describe every execution),
// simple relations between its integer parameters that hold at EVERY call site may be assumed inside it:
//
//	0 <= p_i,   p_i <= 2^40,   p_i <= p_j.
//
// Each candidate is proved at each call site from the facts valid there (arguments substituted). This lets an
// extracted arithmetic helper (e.g. a clamp on int64 offsets) be analysed under the guards its callers established.
var entryFactsBusy = map[*ssa.Function]bool{}

// entryTerm: a quantity of a function's entry state that callers can be asked about: an integer parameter, the
// length of a slice/string parameter, or the length of a slice field of a struct parameter.
type entryTerm struct {
	name   string
	isInt  bool
	callee *Lin                                 // the term inside the function
	atCall func(cfa *FA, args []ssa.Value) *Lin // the term as a caller sees it for given arguments
}

func scaleOrNil(l *Lin, k int64) *Lin {
	if l == nil {
		return nil
	}
	return l.Scale(k)
}

func (fa *FA) entryTerms() []entryTerm {
	var out []entryTerm
	for j, prm := range fa.Fn.Params {
		j, prm := j, prm
		if _, _, ok := intBits(prm.Type()); ok {
			out = append(out, entryTerm{name: prm.Name(), isInt: true, callee: fa.Lin(prm), atCall: func(cfa *FA, args []ssa.Value) *Lin {
				if j >= len(args) {
					return nil
				}
				return cfa.Lin(args[j])
			}})
			continue
		}
		switch t := prm.Type().Underlying().(type) {
		case *types.Slice:
			out = append(out, entryTerm{name: "len(" + prm.Name() + ")", callee: fa.linSym(lenOf(fa.Sym(prm)), 0), atCall: func(cfa *FA, args []ssa.Value) *Lin {
				if j >= len(args) {
					return nil
				}
				return cfa.linSym(lenOf(cfa.Sym(args[j])), 0)
			}})
		case *types.Struct:
			for k := 0; k < t.NumFields(); k++ {
				f := t.Field(k)
				if _, ok := f.Type().Underlying().(*types.Slice); !ok {
					continue
				}
				fname := f.Name()
				out = append(out, entryTerm{name: "len(" + prm.Name() + "." + fname + ")", callee: fa.linSym(lenOf(fa.fieldOf(fa.Sym(prm), fname, nil)), 0), atCall: func(cfa *FA, args []ssa.Value) *Lin {
					if j >= len(args) {
						return nil
					}
					return cfa.linSym(lenOf(cfa.fieldOf(cfa.Sym(args[j]), fname, nil)), 0)
				}})
			}
		}
	}
	return out
}

func (fa *FA) entryFacts() []Fact {
	if fa.entryDone {
		return fa.entry
	}
	fn := fa.Fn
	if entryFactsBusy[fn] {
		return nil
	}
	entryFactsBusy[fn] = true
	defer delete(entryFactsBusy, fn)
	fa.entryDone = true
	if fn.Parent() != nil || fn.Signature.Recv() != nil && false {
		return nil
	}
	terms := fa.entryTerms()
	nInt := 0
	for _, t := range terms {
		if t.isInt {
			nInt++
		}
	}
	if nInt == 0 || nInt > 4 || len(terms) > 7 {
		return nil
	}
	sites, exact := fa.P.staticCallSites(fn)
	if !exact || len(sites) == 0 || len(sites) > 6 {
		return nil
	}
	holdsAtAll := func(mk func(cfa *FA, args []ssa.Value) *Lin) bool { // goal <= 0
		for _, c := range sites {
			if c.Parent() == fn {
				return false // recursion: no induction attempted
			}
			cfa := fa.P.FA(c.Parent())
			goal := mk(cfa, c.Call.Args)
			if goal == nil {
				return false
			}
			facts := withMagnitudes(cfa.FactsAt(c, goal), goal)
			if !Entails(facts, goal) && !cfa.entailsPhiSplit(c, facts, goal, linConst(0), 2) {
				return false
			}
		}
		return true
	}
	var out []Fact
	for i, ti := range terms {
		ti := ti
		if ti.isInt {
			if holdsAtAll(func(cfa *FA, args []ssa.Value) *Lin { return scaleOrNil(ti.atCall(cfa, args), -1) }) {
				out = append(out, le(linConst(0), ti.callee, fmt.Sprintf("precondition proved at all %d call sites: %s >= 0", len(sites), ti.name)))
			}
			if holdsAtAll(func(cfa *FA, args []ssa.Value) *Lin {
				l := ti.atCall(cfa, args)
				if l == nil {
					return nil
				}
				return l.Sub(linConst(int64(1) << 40))
			}) {
				out = append(out, le(ti.callee, linConst(int64(1)<<40), fmt.Sprintf("precondition proved at all %d call sites: %s <= 2^40", len(sites), ti.name)))
			}
		}
		for j, tj := range terms {
			if i == j || (!ti.isInt && !tj.isInt) {
				continue
			}
			tj := tj
			if holdsAtAll(func(cfa *FA, args []ssa.Value) *Lin {
				a, b := ti.atCall(cfa, args), tj.atCall(cfa, args)
				if a == nil || b == nil {
					return nil
				}
				return a.Sub(b)
			}) {
				out = append(out, le(ti.callee, tj.callee, fmt.Sprintf("precondition proved at all %d call sites: %s <= %s", len(sites), ti.name, tj.name)))
			}
		}
	}
	fa.entry = out
	return out
}

// EntailsOnEdges proves goal <= 0 at instruction `at` by case analysis over the ways control reaches its block:
// either the facts valid at `at` on every path entail it, or it is entailed on every incoming CFG path (the branch
// conditions along the path added; paths whose conditions contradict each other as boolean literals are infeasible),
// up to depth blocks back. Short-circuit conditions such as `(a && x != 0) || (!a && x < 0)` need this: no single
// dominating condition holds, but each feasible path carries one.
func (fa *FA) EntailsOnEdges(at ssa.Instruction, goal *Lin, depth int) bool {
	return fa.entailsOnEdgesAssuming(at, goal, depth)
}

// entailsOnEdgesAssuming: as EntailsOnEdges, with extra branch literals assumed (paths contradicting them are infeasible).
func (fa *FA) entailsOnEdgesAssuming(at ssa.Instruction, goal *Lin, depth int, assume ...Cond) bool {
	if Entails(fa.FactsAt(at, goal), goal) {
		return true
	}
	contradictory := func(cs []Cond) bool {
		seen := map[ssa.Value]bool{}
		for _, c := range cs {
			nc := normCond(c)
			if t, ok := seen[nc.V]; ok && t != nc.Truth {
				return true
			}
			seen[nc.V] = nc.Truth
		}
		return false
	}
	var pathOK func(b *ssa.BasicBlock, acc []Cond, d int) bool
	pathOK = func(b *ssa.BasicBlock, acc []Cond, d int) bool {
		if d > depth || len(b.Preds) == 0 {
			return false
		}
		for _, pr := range b.Preds {
			if fa.exempt[pr] {
				continue // a way in that the caller has accounted for otherwise
			}
			cs := append([]Cond{}, acc...)
			if len(pr.Instrs) > 0 {
				if ifi, ok := pr.Instrs[len(pr.Instrs)-1].(*ssa.If); ok && pr.Succs[0] != pr.Succs[1] {
					for si := 0; si < 2; si++ {
						if pr.Succs[si] == b {
							cs = append(cs, normCond(Cond{ifi.Cond, si == 0}))
						}
					}
				}
			}
			// a condition that is a phi of b (a boolean computed differently on each way in, e.g. `invalid = bsp != 0`
			// in one branch and `invalid = bsp < 0` in the other) stands, on this edge, for the value flowing in on it
			for pi, bp := range b.Preds {
				if bp != pr {
					continue
				}
				for _, cd := range append([]Cond{}, cs...) {
					nc := normCond(cd)
					if ph, ok := nc.V.(*ssa.Phi); ok && ph.Block() == b && pi < len(ph.Edges) {
						cs = append(cs, normCond(Cond{ph.Edges[pi], nc.Truth}))
					}
				}
				break
			}
			all := append(append([]Cond{}, cs...), condsAt(pr)...)
			if contradictory(all) {
				continue
			}
			var facts []Fact
			for _, c := range all {
				facts = append(facts, fa.condFacts(c)...)
			}
			facts = fa.closeFacts(facts, goal)
			if Entails(facts, goal) {
				continue
			}
			if !pathOK(pr, cs, d+1) {
				return false
			}
		}
		return true
	}
	init := append([]Cond{}, assume...)
	init = append(init, condsAtInstr(at)...)
	// start from the block that tests the innermost dominating condition when `at` sits below a phi-valued test
	return pathOK(at.Block(), init, 0) || pathFromPhiConds(fa, at, goal, init, depth, pathOK)
}

// EntailsOnEdgesExcept: as EntailsOnEdges, but ways in through one of the exempt blocks need not entail the goal
// (the caller has another argument for them, e.g. "the value was installed on that path").
func (fa *FA) EntailsOnEdgesExcept(at ssa.Instruction, goal *Lin, depth int, exempt map[*ssa.BasicBlock]bool) bool {
	if exempt[at.Block()] {
		return true
	}
	fa.exempt = exempt
	defer func() { fa.exempt = nil }()
	return fa.entailsOnEdgesAssuming(at, goal, depth)
}

// pathFromPhiConds: when a dominating condition of `at` is a phi, restart the path analysis at the phi's block
// (the facts between that block and `at` are the dominating conditions already in acc).
func pathFromPhiConds(fa *FA, at ssa.Instruction, goal *Lin, acc []Cond, depth int, pathOK func(b *ssa.BasicBlock, acc []Cond, d int) bool) bool {
	for _, cd := range acc {
		nc := normCond(cd)
		if ph, ok := nc.V.(*ssa.Phi); ok {
			if pathOK(ph.Block(), acc, 0) {
				return true
			}
		}
	}
	return false
}
