package main

import (
	"fmt"
	"go/constant"
	"go/token"
	"go/types"
	"strings"

	"golang.org/x/tools/go/ssa"
)

// ---- callee naming ----------------------------------------------------------

// calleeName gives a stable, type-resolved name for a call:
//
//	static function:   "io.ReadFull", "p9p.readmsg"
//	static method:     "(*sync.Mutex).Lock", "(*p9p.channel).msgmsize"
//	interface invoke:  "invoke p9p.Channel.ReadFcall"
//	builtin:           "builtin len"
//	dynamic:           "dynamic"
func calleeName(c *ssa.CallCommon) string {
	if c.IsInvoke() {
		recv := c.Value.Type()
		return "invoke " + shortType(recv) + "." + c.Method.Name()
	}
	switch v := c.Value.(type) {
	case *ssa.Builtin:
		return "builtin " + v.Name()
	case *ssa.Function:
		return fnName(v)
	case *ssa.MakeClosure:
		if f, ok := v.Fn.(*ssa.Function); ok {
			return fnName(f)
		}
	}
	return "dynamic"
}

func fnName(f *ssa.Function) string {
	if f == nil {
		return "nil"
	}
	if f.Signature.Recv() != nil {
		rt := f.Signature.Recv().Type()
		return "(" + shortType(rt) + ")." + f.Name()
	}
	if f.Pkg != nil {
		return shortPkg(f.Pkg.Pkg.Path()) + "." + f.Name()
	}
	if f.Parent() != nil {
		return fnName(f.Parent()) + "$" + strings.TrimPrefix(f.Name(), f.Parent().Name()+"$")
	}
	if obj := f.Object(); obj != nil && obj.Pkg() != nil {
		return shortPkg(obj.Pkg().Path()) + "." + f.Name()
	}
	return f.Name()
}

func shortPkg(path string) string {
	if path == modPath {
		return "p9p"
	}
	if strings.HasPrefix(path, modPath+"/") {
		return strings.TrimPrefix(path, modPath+"/")
	}
	return path
}

func shortType(t types.Type) string {
	return types.TypeString(t, func(p *types.Package) string { return shortPkg(p.Path()) })
}

// staticCallee returns the called function for static calls (incl. immediately
// invoked closures), nil for invoke/dynamic calls.
func staticCallee(c *ssa.CallCommon) *ssa.Function {
	if c.IsInvoke() {
		return nil
	}
	switch v := c.Value.(type) {
	case *ssa.Function:
		return v
	case *ssa.MakeClosure:
		if f, ok := v.Fn.(*ssa.Function); ok {
			return f
		}
	}
	return nil
}

// ---- iteration ---------------------------------------------------------------

func eachInstr(fn *ssa.Function, f func(ssa.Instruction)) {
	for _, b := range fn.Blocks {
		for _, in := range b.Instrs {
			f(in)
		}
	}
}

// callsIn lists the call-like instructions (call, go, defer) of fn whose callee name matches.
func callsIn(fn *ssa.Function, name string) []ssa.CallInstruction {
	var out []ssa.CallInstruction
	eachInstr(fn, func(in ssa.Instruction) {
		if c, ok := in.(ssa.CallInstruction); ok {
			if calleeName(c.Common()) == name {
				out = append(out, c)
			}
		}
	})
	return out
}

// withClosures returns fn and all functions nested in it.
func withClosures(fn *ssa.Function) []*ssa.Function {
	out := []*ssa.Function{fn}
	for _, a := range fn.AnonFuncs {
		out = append(out, withClosures(a)...)
	}
	return out
}

func instrIndex(in ssa.Instruction) int {
	for i, x := range in.Block().Instrs {
		if x == in {
			return i
		}
	}
	return -1
}

// instrDominates: a is executed before b on every path that reaches b.
func instrDominates(a, b ssa.Instruction) bool {
	if a.Parent() != b.Parent() {
		return false
	}
	if a.Block() == b.Block() {
		return instrIndex(a) < instrIndex(b)
	}
	return a.Block().Dominates(b.Block())
}

// reachableFrom computes the blocks reachable from block b (including b when
// includeSelf or through a cycle).
func reachableFrom(b *ssa.BasicBlock) map[*ssa.BasicBlock]bool {
	seen := map[*ssa.BasicBlock]bool{}
	var walk func(x *ssa.BasicBlock)
	walk = func(x *ssa.BasicBlock) {
		for _, s := range x.Succs {
			if !seen[s] {
				seen[s] = true
				walk(s)
			}
		}
	}
	walk(b)
	return seen
}

// canReach: is there a CFG path from instruction a to instruction b (a executed first)?
func canReach(a, b ssa.Instruction) bool {
	if a.Parent() != b.Parent() {
		return false
	}
	if a.Block() == b.Block() && instrIndex(a) < instrIndex(b) {
		return true
	}
	return reachableFrom(a.Block())[b.Block()]
}

// ---- branch conditions --------------------------------------------------------

// Cond is a boolean SSA value with the truth value it has on some edge.
type Cond struct {
	V     ssa.Value
	Truth bool
}

func (c Cond) String() string {
	if c.Truth {
		return valStr(c.V)
	}
	return "!(" + valStr(c.V) + ")"
}

// edgeDominates reports whether every path from entry to b traverses the edge d→s
// (s being successor number si of d).
func edgeDominates(d *ssa.BasicBlock, si int, b *ssa.BasicBlock) bool {
	s := d.Succs[si]
	if len(d.Succs) == 2 && d.Succs[0] == d.Succs[1] {
		return false
	}
	if !(s == b || s.Dominates(b)) {
		return false
	}
	for _, p := range s.Preds {
		if p == d {
			continue
		}
		if !(s == p || s.Dominates(p)) { // other entries must be back edges
			return false
		}
	}
	return true
}

// condsAt returns the branch conditions that hold whenever block b is entered.
// Negations (!x) are unfolded.
func condsAt(b *ssa.BasicBlock) []Cond {
	var out []Cond
	for d := b.Idom(); d != nil; d = d.Idom() {
		out = append(out, condsFromDom(d, b)...)
	}
	return out
}

func condsFromDom(d, b *ssa.BasicBlock) []Cond {
	var out []Cond
	if len(d.Instrs) == 0 {
		return nil
	}
	ifi, ok := d.Instrs[len(d.Instrs)-1].(*ssa.If)
	if !ok {
		return nil
	}
	for si := 0; si < 2; si++ {
		if edgeDominates(d, si, b) {
			out = append(out, normCond(Cond{ifi.Cond, si == 0}))
		}
	}
	return out
}

func normCond(c Cond) Cond {
	for {
		u, ok := c.V.(*ssa.UnOp)
		if !ok || u.Op != token.NOT {
			return c
		}
		c = Cond{u.X, !c.Truth}
	}
}

// condsAtInstr: conditions that hold whenever the instruction executes.
func condsAtInstr(in ssa.Instruction) []Cond { return condsAt(in.Block()) }

// ---- value helpers --------------------------------------------------------------

func valStr(v ssa.Value) string {
	if v == nil {
		return "<nil>"
	}
	switch x := v.(type) {
	case *ssa.Const:
		return x.String()
	case *ssa.BinOp:
		return "(" + valStr(x.X) + " " + x.Op.String() + " " + valStr(x.Y) + ")"
	case *ssa.UnOp:
		return x.Op.String() + valStr(x.X)
	case *ssa.FieldAddr:
		return "&" + valStr(x.X) + "." + fieldName(x.X.Type(), x.Field)
	case *ssa.Field:
		return valStr(x.X) + "." + fieldNameV(x.X.Type(), x.Field)
	case *ssa.Call:
		args := []string{}
		for _, a := range x.Call.Args {
			args = append(args, valStr(a))
		}
		return calleeName(&x.Call) + "(" + strings.Join(args, ", ") + ")"
	case *ssa.Extract:
		return fmt.Sprintf("%s#%d", valStr(x.Tuple), x.Index)
	case *ssa.Parameter:
		return x.Name()
	case *ssa.FreeVar:
		return x.Name()
	case *ssa.Convert:
		return shortType(x.Type()) + "(" + valStr(x.X) + ")"
	case *ssa.ChangeType:
		return valStr(x.X)
	case *ssa.MakeInterface:
		return valStr(x.X)
	case *ssa.Alloc:
		if x.Comment != "" {
			return "&" + x.Comment
		}
	}
	return v.Name()
}

func fieldName(ptrT types.Type, i int) string {
	if p, ok := ptrT.Underlying().(*types.Pointer); ok {
		return fieldNameV(p.Elem(), i)
	}
	return fmt.Sprintf("f%d", i)
}

func fieldNameV(t types.Type, i int) string {
	if s, ok := t.Underlying().(*types.Struct); ok && i < s.NumFields() {
		return s.Field(i).Name()
	}
	return fmt.Sprintf("f%d", i)
}

func fieldVar(ptrT types.Type, i int) *types.Var {
	if p, ok := ptrT.Underlying().(*types.Pointer); ok {
		if s, ok := p.Elem().Underlying().(*types.Struct); ok && i < s.NumFields() {
			return s.Field(i)
		}
	}
	return nil
}

func fieldVarV(t types.Type, i int) *types.Var {
	if s, ok := t.Underlying().(*types.Struct); ok && i < s.NumFields() {
		return s.Field(i)
	}
	return nil
}

// constInt returns the integer value of a constant SSA value.
func constInt(v ssa.Value) (int64, bool) {
	c, ok := v.(*ssa.Const)
	if !ok || c.Value == nil {
		return 0, false
	}
	if c.Value.Kind() != constant.Int {
		return 0, false
	}
	if i, ok := constant.Int64Val(c.Value); ok {
		return i, true
	}
	return 0, false
}

func isNilConst(v ssa.Value) bool {
	c, ok := v.(*ssa.Const)
	return ok && c.Value == nil
}

// stripConv removes value-preserving wrappers: ChangeType, MakeInterface, ChangeInterface.
func stripConv(v ssa.Value) ssa.Value {
	for {
		switch x := v.(type) {
		case *ssa.ChangeType:
			v = x.X
		case *ssa.MakeInterface:
			v = x.X
		case *ssa.ChangeInterface:
			v = x.X
		default:
			return v
		}
	}
}

// isNamed: t (or *t) is the named type pkgpath.name.
func isNamed(t types.Type, pkgPath, name string) bool {
	if p, ok := t.(*types.Pointer); ok {
		t = p.Elem()
	}
	n, ok := t.(*types.Named)
	if !ok {
		return false
	}
	o := n.Obj()
	return o.Name() == name && o.Pkg() != nil && o.Pkg().Path() == pkgPath
}

func isP9P(t types.Type, name string) bool { return isNamed(t, modPath, name) }

// referrers returns *v.Referrers() or nil.
func referrers(v ssa.Value) []ssa.Instruction {
	r := v.Referrers()
	if r == nil {
		return nil
	}
	return *r
}

// returnsOf lists the Return instructions of fn.
func returnsOf(fn *ssa.Function) []*ssa.Return {
	var out []*ssa.Return
	for _, b := range fn.Blocks {
		if len(b.Instrs) == 0 {
			continue
		}
		if b.Index != 0 && len(b.Preds) == 0 {
			continue // the synthetic recover block of functions with defers: unreachable in normal flow
		}
		if r, ok := b.Instrs[len(b.Instrs)-1].(*ssa.Return); ok {
			out = append(out, r)
		}
	}
	return out
}

// binop decomposes a comparison value.
func asBinOp(v ssa.Value) (*ssa.BinOp, bool) {
	b, ok := v.(*ssa.BinOp)
	return b, ok
}

func negateOp(op token.Token) token.Token {
	switch op {
	case token.EQL:
		return token.NEQ
	case token.NEQ:
		return token.EQL
	case token.LSS:
		return token.GEQ
	case token.GEQ:
		return token.LSS
	case token.GTR:
		return token.LEQ
	case token.LEQ:
		return token.GTR
	}
	return token.ILLEGAL
}

func swapOp(op token.Token) token.Token {
	switch op {
	case token.LSS:
		return token.GTR
	case token.GTR:
		return token.LSS
	case token.LEQ:
		return token.GEQ
	case token.GEQ:
		return token.LEQ
	}
	return op
}

// ---- return sites --------------------------------------------------------------
//
// A function written with a single trailing `return x` has one Return block that
// merges several paths. For path rules ("every exit that reports success …") each
// incoming edge of such a pure join is its own exit: retSite describes one exit.

type retSite struct {
	Ret     *ssa.Return
	Pred    *ssa.BasicBlock // non-nil: the exit is the edge Pred → Ret.Block()
	Results []ssa.Value     // results with the join's phis resolved for this edge
}

// pureJoin: the block contains only phis, loads of result cells, rundefers and the return.
func pureJoin(b *ssa.BasicBlock) bool {
	if len(b.Preds) < 2 {
		return false
	}
	for _, in := range b.Instrs {
		switch x := in.(type) {
		case *ssa.Phi, *ssa.Return, *ssa.DebugRef:
		case *ssa.UnOp:
			if x.Op != token.MUL {
				return false
			}
			if _, ok := x.X.(*ssa.Alloc); !ok {
				return false
			}
		default:
			return false
		}
	}
	return true
}

func returnSites(fn *ssa.Function) []retSite {
	var out []retSite
	for _, r := range returnsOf(fn) {
		b := r.Block()
		if !pureJoin(b) {
			out = append(out, retSite{Ret: r, Results: r.Results})
			continue
		}
		for i, p := range b.Preds {
			res := make([]ssa.Value, len(r.Results))
			for k, v := range r.Results {
				res[k] = v
				if ph, ok := v.(*ssa.Phi); ok && ph.Block() == b {
					res[k] = ph.Edges[i]
				}
			}
			out = append(out, retSite{Ret: r, Pred: p, Results: res})
		}
	}
	return out
}

// At: the instruction whose program point represents the exit (for dominance queries).
func (s retSite) At() ssa.Instruction {
	if s.Pred != nil {
		return s.Pred.Instrs[len(s.Pred.Instrs)-1]
	}
	return s.Ret
}

// Conds: branch conditions that hold on this exit.
func (s retSite) Conds() []Cond {
	if s.Pred == nil {
		return condsAtInstr(s.Ret)
	}
	cs := condsAt(s.Pred)
	if ifi, ok := s.Pred.Instrs[len(s.Pred.Instrs)-1].(*ssa.If); ok && s.Pred.Succs[0] != s.Pred.Succs[1] {
		for si := 0; si < 2; si++ {
			if s.Pred.Succs[si] == s.Ret.Block() {
				cs = append(cs, normCond(Cond{ifi.Cond, si == 0}))
			}
		}
	}
	return cs
}

// DominatedBy: instruction x executes before this exit on every path to it.
func (s retSite) DominatedBy(x ssa.Instruction) bool {
	at := s.At()
	if x == at {
		return true
	}
	return instrDominates(x, at)
}

func (s retSite) Pos() token.Pos {
	if s.Pred != nil {
		for i := len(s.Pred.Instrs) - 1; i >= 0; i-- {
			if p := s.Pred.Instrs[i].Pos(); p.IsValid() {
				return p
			}
		}
	}
	return s.Ret.Pos()
}

// withHelpers: fn followed by the module functions (same package) it calls statically, transitively up to depth,
// excluding methods of interface-implementing receivers other than fn's own. Rules anchored on "the code of fn" use
// it so that extracting a helper does not hide the construct from them.
func (p *Prog) withHelpers(fn *ssa.Function, depth int) []*ssa.Function {
	out := []*ssa.Function{fn}
	seen := map[*ssa.Function]bool{fn: true}
	var walk func(f *ssa.Function, d int)
	walk = func(f *ssa.Function, d int) {
		if d >= depth {
			return
		}
		eachInstr(f, func(in ssa.Instruction) {
			c, ok := in.(ssa.CallInstruction)
			if !ok {
				return
			}
			g := staticCallee(c.Common())
			if g == nil || seen[g] || g.Blocks == nil || !p.InModule(g) || g.Pkg != fn.Pkg {
				return
			}
			seen[g] = true
			out = append(out, g)
			walk(g, d+1)
		})
	}
	walk(fn, 0)
	return out
}

// staticCallSites: the plain static calls of fn in its package; exact=false when fn is also referenced in another
// way (go, defer, function value), in which case the list does not describe every execution of fn.
func (p *Prog) staticCallSites(fn *ssa.Function) (sites []*ssa.Call, exact bool) {
	exact = true
	if fn.Pkg == nil {
		return nil, false
	}
	for _, f := range p.allFns {
		root := f
		for root.Parent() != nil {
			root = root.Parent()
		}
		if root.Pkg != fn.Pkg {
			continue
		}
		eachInstr(f, func(in ssa.Instruction) {
			for _, op := range in.Operands(nil) {
				if op == nil || *op != ssa.Value(fn) {
					continue
				}
				if c, ok := in.(*ssa.Call); ok && c.Call.Value == ssa.Value(fn) {
					sites = append(sites, c)
				} else {
					exact = false
				}
			}
		})
	}
	if fn.Object() != nil && fn.Object().Exported() {
		exact = false // callable from outside the package
	}
	return
}

// callOrDeferSites: the number of plain or deferred static calls of fn in its package; exact=false when fn is also
// referenced in another way (go, function value) or is exported.
func (p *Prog) callOrDeferSites(fn *ssa.Function) (n int, exact bool) {
	exact = true
	if fn.Pkg == nil {
		return 0, false
	}
	for _, f := range p.allFns {
		root := f
		for root.Parent() != nil {
			root = root.Parent()
		}
		if root.Pkg != fn.Pkg {
			continue
		}
		eachInstr(f, func(in ssa.Instruction) {
			for _, op := range in.Operands(nil) {
				if op == nil || *op != ssa.Value(fn) {
					continue
				}
				switch c := in.(type) {
				case *ssa.Call:
					if c.Call.Value == ssa.Value(fn) {
						n++
						continue
					}
				case *ssa.Defer:
					if c.Call.Value == ssa.Value(fn) {
						n++
						continue
					}
				}
				exact = false
			}
		})
	}
	if fn.Object() != nil && fn.Object().Exported() {
		exact = false
	}
	return
}

// guardedHereOrAtCallers: `in` executes only under a branch condition satisfying pred — in its own function, or,
// when it sits in an unexported helper, at every call site of that helper (transitively up to depth).
func (p *Prog) guardedHereOrAtCallers(in ssa.Instruction, pred func(Cond) bool, depth int) bool {
	for _, cd := range condsAtInstr(in) {
		if pred(normCond(cd)) {
			return true
		}
	}
	if depth <= 0 {
		return false
	}
	sites, exact := p.staticCallSites(in.Parent())
	if !exact || len(sites) == 0 {
		return false
	}
	for _, c := range sites {
		if !p.guardedHereOrAtCallers(c, pred, depth-1) {
			return false
		}
	}
	return true
}
