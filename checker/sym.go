package main

// Symbolic values over SSA with memory versioning ("load numbering") and affine
// normal forms (engine E5 of DESIGN.md; the fact language of engine E4).
//
// go/ssa performs no CSE and has no memory SSA: `ch.msize` read twice is two
// different values. Here every load is given a canonical key
//     ld(<address expression>)@<version>
// where the version changes exactly at the instructions that may write the
// location class of the address (stores to the same field of any object,
// whole-struct stores, calls whose transitive mod-set contains the class).
// Loads of non-escaping locals are resolved to the stored value itself.
// Integer values are then normalised to c0 + Σ ci·atom_i, so that two
// algebraically equal expressions have identical normal forms.

import (
	"fmt"
	"go/constant"
	"go/token"
	"go/types"
	"sort"
	"strings"

	"golang.org/x/tools/go/callgraph"
	"golang.org/x/tools/go/callgraph/cha"
	"golang.org/x/tools/go/ssa"
)

// ---------------------------------------------------------------- mod sets --

// locClass identifies a set of memory locations that may alias.
//
//	"F:<pkg>.<Struct>.<field>"  a struct field of any object of that struct type
//	"T:<type>"                  anything reached through a plain *T pointer (cells, escaped locals)
//	"G:<pkg>.<name>"            a package-level variable
//	"E:<type>"                  slice/array elements of that type
type locClass string

type ModSets struct {
	p    *Prog
	cg   *callgraph.Graph
	mods map[*ssa.Function]map[locClass]bool
}

var modSetsCache = map[*Prog]*ModSets{}

func (p *Prog) ModSets() *ModSets {
	if m, ok := modSetsCache[p]; ok {
		return m
	}
	m := &ModSets{p: p, mods: map[*ssa.Function]map[locClass]bool{}}
	m.cg = cha.CallGraph(p.SSA)
	// direct effects
	for _, fn := range p.allFns {
		set := map[locClass]bool{}
		eachInstr(fn, func(in ssa.Instruction) {
			switch x := in.(type) {
			case *ssa.Store:
				for _, c := range storeClasses(x.Addr) {
					set[c] = true
				}
			case *ssa.MapUpdate:
				set[locClass("M:"+shortType(x.Map.Type()))] = true
			}
		})
		m.mods[fn] = set
	}
	// transitive closure over module callees (CHA: sound over-approximation)
	changed := true
	for changed {
		changed = false
		for _, fn := range p.allFns {
			node := m.cg.Nodes[fn]
			if node == nil {
				continue
			}
			for _, e := range node.Out {
				cal := e.Callee.Func
				if !p.InModule(cal) {
					continue
				}
				for c := range m.mods[cal] {
					if !m.mods[fn][c] {
						m.mods[fn][c] = true
						changed = true
					}
				}
			}
		}
	}
	modSetsCache[p] = m
	return m
}

// calleesOf returns the module functions a call site may invoke (CHA).
func (m *ModSets) calleesOf(site ssa.CallInstruction) []*ssa.Function {
	node := m.cg.Nodes[site.Parent()]
	if node == nil {
		return nil
	}
	var out []*ssa.Function
	for _, e := range node.Out {
		if e.Site == site && m.p.InModule(e.Callee.Func) {
			out = append(out, e.Callee.Func)
		}
	}
	return out
}

func fieldClass(fv *types.Var, owner types.Type) locClass {
	return locClass("F:" + shortType(owner) + "." + fv.Name())
}

// addrClasses: the location classes an address may denote.
func addrClass(addr ssa.Value) locClass {
	switch a := addr.(type) {
	case *ssa.FieldAddr:
		pt := a.X.Type().Underlying().(*types.Pointer)
		fv := fieldVar(a.X.Type(), a.Field)
		if fv != nil {
			return fieldClass(fv, pt.Elem())
		}
	case *ssa.IndexAddr:
		var et types.Type
		switch t := a.X.Type().Underlying().(type) {
		case *types.Slice:
			et = t.Elem()
		case *types.Pointer:
			if arr, ok := t.Elem().Underlying().(*types.Array); ok {
				et = arr.Elem()
			}
		}
		if et != nil {
			return locClass("E:" + shortType(et))
		}
	case *ssa.Global:
		return locClass("G:" + shortPkg(a.Pkg.Pkg.Path()) + "." + a.Name())
	case *ssa.Alloc:
		if c, ok := cellClass(a); ok {
			return c
		}
	case *ssa.FreeVar:
		if c, ok := freeVarClass(a, 0); ok {
			return c
		}
	}
	if pt, ok := addr.Type().Underlying().(*types.Pointer); ok {
		return locClass("T:" + shortType(pt.Elem()))
	}
	return "T:?"
}

// storeClasses: classes written by a store to addr, including the field classes
// covered by a whole-struct store.
func storeClasses(addr ssa.Value) []locClass {
	out := []locClass{addrClass(addr)}
	if pt, ok := addr.Type().Underlying().(*types.Pointer); ok {
		out = append(out, structFieldClasses(pt.Elem(), 0)...)
	}
	// a store to a field also changes what a whole-struct load through a pointer to any enclosing struct sees
	for a := addr; ; {
		fa, ok := a.(*ssa.FieldAddr)
		if !ok {
			break
		}
		if pt, ok := fa.X.Type().Underlying().(*types.Pointer); ok {
			out = append(out, locClass("T:"+shortType(pt.Elem())))
		}
		a = fa.X
	}
	return out
}

func structFieldClasses(t types.Type, depth int) []locClass {
	st, ok := t.Underlying().(*types.Struct)
	if !ok || depth > 3 {
		return nil
	}
	var out []locClass
	for i := 0; i < st.NumFields(); i++ {
		out = append(out, fieldClass(st.Field(i), t))
		out = append(out, structFieldClasses(st.Field(i).Type(), depth+1)...)
	}
	return out
}

// ---------------------------------------------------------------- symbols --

type Sym struct {
	Op   string // const,param,fv,global,ld,fld,len,cap,bin,un,conv,phi,call,ext,alloc,make,slice,fa,ia,ta,other
	K    string // canonical key
	V    ssa.Value
	Args []*Sym
	T    types.Type
	Int  int64 // for const (valid if IsInt)
	IsI  bool
	Aux  string
}

func (s *Sym) String() string { return s.K }

// FA is the per-function analysis context.
type FA struct {
	P         *Prog
	Fn        *ssa.Function
	entry     []Fact
	entryDone bool
	ovfSafe   map[*ssa.BinOp]bool
	ovfBusy   map[*ssa.BinOp]bool
	ms        *ModSets
	syms      map[ssa.Value]*Sym
	vers      map[locClass]*verInfo
	local     map[*ssa.Alloc]bool // non-escaping allocs
	idx       map[ssa.Instruction]int
	inProg    map[ssa.Value]bool
	exempt    map[*ssa.BasicBlock]bool // EntailsOnEdgesExcept: ways in that need not entail the goal
}

var faCache = map[*ssa.Function]*FA{}

func (p *Prog) FA(fn *ssa.Function) *FA {
	if fa, ok := faCache[fn]; ok {
		return fa
	}
	fa := &FA{P: p, Fn: fn, ms: p.ModSets(), syms: map[ssa.Value]*Sym{}, vers: map[locClass]*verInfo{},
		local: map[*ssa.Alloc]bool{}, idx: map[ssa.Instruction]int{}, inProg: map[ssa.Value]bool{}}
	for _, b := range fn.Blocks {
		for i, in := range b.Instrs {
			fa.idx[in] = i
			if a, ok := in.(*ssa.Alloc); ok {
				fa.local[a] = isLocalAlloc(a)
			}
		}
	}
	faCache[fn] = fa
	return fa
}

// isLocalAlloc: the address never leaves the function: every use is a load, a
// store *to* it, or a FieldAddr/IndexAddr chain ending in loads/stores-to.
func isLocalAlloc(a *ssa.Alloc) bool {
	var ok func(v ssa.Value, depth int) bool
	ok = func(v ssa.Value, depth int) bool {
		if depth > 6 {
			return false
		}
		for _, r := range referrers(v) {
			switch x := r.(type) {
			case *ssa.UnOp:
				if x.Op != token.MUL {
					return false
				}
			case *ssa.Store:
				if x.Val == v { // the address itself is stored somewhere
					return false
				}
			case *ssa.FieldAddr:
				if !ok(x, depth+1) {
					return false
				}
			case *ssa.IndexAddr:
				if x.X != v || !ok(x, depth+1) {
					return false
				}
			case *ssa.DebugRef:
			default:
				return false
			}
		}
		return true
	}
	return ok(a, 0)
}

// rootAlloc follows FieldAddr chains down to an Alloc; path lists the fields.
func rootAlloc(addr ssa.Value) (*ssa.Alloc, []int) {
	var path []int
	for {
		switch a := addr.(type) {
		case *ssa.Alloc:
			// reverse path
			for i, j := 0, len(path)-1; i < j; i, j = i+1, j-1 {
				path[i], path[j] = path[j], path[i]
			}
			return a, path
		case *ssa.FieldAddr:
			path = append(path, a.Field)
			addr = a.X
		default:
			return nil, nil
		}
	}
}

// ---- versions ---------------------------------------------------------------

type verInfo struct {
	class   locClass
	clob    map[ssa.Instruction]int // clobbering instruction → version id it creates
	in      map[*ssa.BasicBlock]int
	out     map[*ssa.BasicBlock]int
	byBlock map[*ssa.BasicBlock][]ssa.Instruction
}

// clobbers reports whether instruction in may write a location of class c.
// local (non-escaping alloc) classes are handled separately.
func (fa *FA) clobbers(in ssa.Instruction, c locClass) bool {
	switch x := in.(type) {
	case *ssa.Store:
		if a, _ := rootAlloc(x.Addr); a != nil && fa.local[a] {
			return false // a private local: cannot alias heap classes
		}
		for _, sc := range storeClasses(x.Addr) {
			if sc == c {
				return true
			}
		}
	case *ssa.MapUpdate:
		return c == locClass("M:"+shortType(x.Map.Type()))
	case ssa.CallInstruction:
		com := x.Common()
		if _, ok := com.Value.(*ssa.Builtin); ok {
			return false
		}
		callees := fa.ms.calleesOf(x)
		for _, cal := range callees {
			if fa.ms.mods[cal][c] {
				if owner, isCell := cellOwner[c]; isCell && !nestedIn(cal, owner) {
					// a (recursive) activation of the owner writes its own fresh cell, not this one
					continue
				}
				return true
			}
		}
		// a closure handed to (or started by) this call may run and write what it captures
		if strings.HasPrefix(string(c), "A:") {
			vals := append([]ssa.Value{com.Value}, com.Args...)
			for _, a := range vals {
				if mc, ok := a.(*ssa.MakeClosure); ok {
					if f, ok := mc.Fn.(*ssa.Function); ok && fa.ms.mods[f][c] {
						return true
					}
				}
			}
		}
		// a pointer handed to code outside the module may be written through
		if strings.HasPrefix(string(c), "T:") || strings.HasPrefix(string(c), "E:") {
			args := com.Args
			if com.IsInvoke() {
				args = append([]ssa.Value{}, com.Args...)
			}
			for _, a := range args {
				a = stripConv(a)
				if pt, ok := a.Type().Underlying().(*types.Pointer); ok {
					if locClass("T:"+shortType(pt.Elem())) == c {
						return true
					}
				}
				if st, ok := a.Type().Underlying().(*types.Slice); ok {
					if locClass("E:"+shortType(st.Elem())) == c {
						return true
					}
				}
			}
		}
	}
	return false
}

func (fa *FA) verInfoFor(c locClass) *verInfo {
	if vi, ok := fa.vers[c]; ok {
		return vi
	}
	vi := &verInfo{class: c, clob: map[ssa.Instruction]int{}, in: map[*ssa.BasicBlock]int{}, byBlock: map[*ssa.BasicBlock][]ssa.Instruction{}}
	next := 1
	for _, b := range fa.Fn.Blocks {
		for _, in := range b.Instrs {
			if fa.clobbers(in, c) {
				vi.clob[in] = next
				next++
				vi.byBlock[b] = append(vi.byBlock[b], in)
			}
		}
	}
	// optimistic forward dataflow; version ids: 0 = function entry, k = after clobber k,
	// 1000+i = merge at block i.
	const undef = -1
	out := map[*ssa.BasicBlock]int{}
	for _, b := range fa.Fn.Blocks {
		vi.in[b] = undef
		out[b] = undef
	}
	changed := true
	for iter := 0; changed && iter < 50; iter++ {
		changed = false
		for _, b := range fa.Fn.Blocks {
			var in int
			if b.Index == 0 {
				in = 0
			} else {
				in = undef
				for _, p := range b.Preds {
					o := out[p]
					if o == undef {
						continue
					}
					if in == undef {
						in = o
					} else if in != o {
						in = 1000 + b.Index
					}
				}
			}
			o := in
			if cl := vi.byBlock[b]; len(cl) > 0 {
				o = vi.clob[cl[len(cl)-1]]
			}
			if in != vi.in[b] || o != out[b] {
				vi.in[b], out[b] = in, o
				changed = true
			}
		}
	}
	vi.out = out
	fa.vers[c] = vi
	return vi
}

// versionAt: the version of class c seen by instruction in.
func (fa *FA) versionAt(in ssa.Instruction, c locClass) int {
	vi := fa.verInfoFor(c)
	b := in.Block()
	v := vi.in[b]
	my := fa.idx[in]
	for _, cl := range vi.byBlock[b] {
		if fa.idx[cl] < my {
			v = vi.clob[cl]
		}
	}
	return v
}

// ---- reaching stores for private locals --------------------------------------

// localDef finds the unique store that defines (alloc, path) at instruction at.
// Returns (store, exact) where exact=false means a whole-struct (prefix) store.
func (fa *FA) localDef(a *ssa.Alloc, path []int, at ssa.Instruction) (*ssa.Store, []int, bool) {
	// collect stores that overlap
	type st struct {
		s    *ssa.Store
		path []int
	}
	var stores []st
	var collect func(v ssa.Value, p []int)
	collect = func(v ssa.Value, p []int) {
		for _, r := range referrers(v) {
			switch x := r.(type) {
			case *ssa.Store:
				if x.Addr == v {
					stores = append(stores, st{x, append([]int{}, p...)})
				}
			case *ssa.FieldAddr:
				collect(x, append(p, x.Field))
			case *ssa.IndexAddr:
				// element stores: treat as opaque overlap with unknown path
				for _, rr := range referrers(x) {
					if s, ok := rr.(*ssa.Store); ok && s.Addr == x {
						stores = append(stores, st{s, nil})
					}
				}
			}
		}
	}
	collect(a, nil)
	overlaps := func(p, q []int) bool { // one is a prefix of the other
		n := len(p)
		if len(q) < n {
			n = len(q)
		}
		for i := 0; i < n; i++ {
			if p[i] != q[i] {
				return false
			}
		}
		return true
	}
	// backward search from `at` for the nearest overlapping store on every path
	var found *ssa.Store
	var foundPath []int
	multiple := false
	seen := map[*ssa.BasicBlock]bool{}
	storeIn := func(b *ssa.BasicBlock, before int) (*ssa.Store, []int) {
		var best *ssa.Store
		var bp []int
		bi := -1
		for _, s := range stores {
			if s.s.Block() != b || !overlaps(s.path, path) {
				continue
			}
			i := fa.idx[s.s]
			if i < before && i > bi {
				best, bp, bi = s.s, s.path, i
			}
		}
		return best, bp
	}
	var walk func(b *ssa.BasicBlock, before int)
	walk = func(b *ssa.BasicBlock, before int) {
		if s, sp := storeIn(b, before); s != nil {
			if found != nil && found != s {
				multiple = true
			}
			found, foundPath = s, sp
			return
		}
		if b.Index == 0 {
			// reaches entry with no store: zero value
			multiple = true
			return
		}
		for _, p := range b.Preds {
			if seen[p] {
				continue
			}
			seen[p] = true
			walk(p, 1<<30)
		}
	}
	walk(at.Block(), fa.idx[at])
	if multiple || found == nil {
		return nil, nil, false
	}
	return found, foundPath, len(foundPath) == len(path)
}

// ---- symbol construction ------------------------------------------------------

func (fa *FA) atom(op string, v ssa.Value, key string) *Sym {
	return &Sym{Op: op, K: key, V: v, T: v.Type()}
}

func (fa *FA) uniq(v ssa.Value) string {
	return fmt.Sprintf("%s", v.Name())
}

// Sym returns the canonical symbol of an SSA value of this function.
func (fa *FA) Sym(v ssa.Value) *Sym {
	if s, ok := fa.syms[v]; ok {
		return s
	}
	if fa.inProg[v] {
		if _, isPhi := v.(*ssa.Phi); isPhi {
			return fa.atom("phi", v, "phi:"+fa.uniq(v)) // a cycle through a loop phi: the phi is its own atom
		}
		return fa.atom("other", v, "rec:"+fa.uniq(v))
	}
	fa.inProg[v] = true
	s := fa.sym1(v)
	delete(fa.inProg, v)
	fa.syms[v] = s
	return s
}

func (fa *FA) sym1(v ssa.Value) *Sym {
	switch x := v.(type) {
	case *ssa.Const:
		s := &Sym{Op: "const", V: v, T: v.Type()}
		if x.Value == nil {
			s.K = "nil"
			return s
		}
		if x.Value.Kind() == constant.Int {
			if i, ok := constant.Int64Val(x.Value); ok {
				s.Int, s.IsI = i, true
				s.K = fmt.Sprintf("%d", i)
				return s
			}
		}
		s.K = "c:" + x.Value.ExactString()
		return s
	case *ssa.Parameter:
		return fa.atom("param", v, "p:"+x.Name())
	case *ssa.FreeVar:
		return fa.atom("fv", v, "fv:"+x.Name())
	case *ssa.Global:
		return fa.atom("global", v, "g:"+shortPkg(x.Pkg.Pkg.Path())+"."+x.Name())
	case *ssa.Function:
		return fa.atom("func", v, "fn:"+fnName(x))
	case *ssa.ChangeType:
		return fa.Sym(x.X)
	case *ssa.MakeInterface:
		return fa.Sym(x.X)
	case *ssa.ChangeInterface:
		return fa.Sym(x.X)
	case *ssa.Alloc:
		return fa.atom("alloc", v, "alloc:"+fa.uniq(v)+":"+x.Comment)
	case *ssa.FieldAddr:
		b := fa.Sym(x.X)
		return &Sym{Op: "fa", K: "&" + b.K + "." + fieldName(x.X.Type(), x.Field), V: v, Args: []*Sym{b}, T: v.Type(), Aux: fieldName(x.X.Type(), x.Field)}
	case *ssa.Field:
		b := fa.Sym(x.X)
		return fa.fieldOf(b, fieldNameV(x.X.Type(), x.Field), v)
	case *ssa.IndexAddr:
		b, i := fa.Sym(x.X), fa.Sym(x.Index)
		return &Sym{Op: "ia", K: "&" + b.K + "[" + i.K + "]", V: v, Args: []*Sym{b, i}, T: v.Type()}
	case *ssa.UnOp:
		if x.Op == token.MUL {
			return fa.loadSym(x)
		}
		a := fa.Sym(x.X)
		return &Sym{Op: "un", K: x.Op.String() + "(" + a.K + ")", V: v, Args: []*Sym{a}, T: v.Type(), Aux: x.Op.String()}
	case *ssa.BinOp:
		a, b := fa.Sym(x.X), fa.Sym(x.Y)
		ka, kb := a.K, b.K
		switch x.Op {
		case token.ADD, token.MUL, token.AND, token.OR, token.XOR, token.EQL, token.NEQ:
			if _, isStr := x.Type().Underlying().(*types.Basic); isStr && x.Type().Underlying().(*types.Basic).Info()&types.IsString != 0 {
				break // string concatenation is not commutative
			}
			if kb < ka {
				ka, kb = kb, ka
			}
		}
		return &Sym{Op: "bin", K: "(" + ka + " " + x.Op.String() + " " + kb + ")", V: v, Args: []*Sym{a, b}, T: v.Type(), Aux: x.Op.String()}
	case *ssa.Convert:
		a := fa.Sym(x.X)
		return &Sym{Op: "conv", K: shortType(x.Type()) + "(" + a.K + ")", V: v, Args: []*Sym{a}, T: v.Type()}
	case *ssa.Phi:
		// a phi whose incoming values are all the same symbol is that symbol
		var first *Sym
		same := true
		for _, e := range x.Edges {
			if e == v {
				continue
			}
			s := fa.Sym(e)
			if first == nil {
				first = s
			} else if first.K != s.K {
				same = false
			}
		}
		if same && first != nil && !strings.HasPrefix(first.K, "rec:") {
			return first
		}
		return fa.atom("phi", v, "phi:"+fa.uniq(v))
	case *ssa.Extract:
		t := fa.Sym(x.Tuple)
		return &Sym{Op: "ext", K: fmt.Sprintf("%s#%d", t.K, x.Index), V: v, Args: []*Sym{t}, T: v.Type(), Int: int64(x.Index)}
	case *ssa.TypeAssert:
		a := fa.Sym(x.X)
		k := "ta(" + a.K + "," + shortType(x.AssertedType)
		if x.CommaOk {
			k += ",ok"
		}
		return &Sym{Op: "ta", K: k + ")", V: v, Args: []*Sym{a}, T: v.Type()}
	case *ssa.Slice:
		args := []*Sym{fa.Sym(x.X), nil, nil, nil}
		k := "slice(" + args[0].K
		for i, e := range []ssa.Value{x.Low, x.High, x.Max} {
			if e != nil {
				args[i+1] = fa.Sym(e)
				k += "," + args[i+1].K
			} else {
				k += ",_"
			}
		}
		return &Sym{Op: "slice", K: k + ")", V: v, Args: args, T: v.Type()}
	case *ssa.MakeSlice:
		return &Sym{Op: "make", K: "make:" + fa.uniq(v), V: v, Args: []*Sym{fa.Sym(x.Len), fa.Sym(x.Cap)}, T: v.Type()}
	case *ssa.Call:
		if b, ok := x.Call.Value.(*ssa.Builtin); ok {
			switch b.Name() {
			case "len", "cap":
				a := fa.Sym(x.Call.Args[0])
				return &Sym{Op: b.Name(), K: b.Name() + "(" + a.K + ")", V: v, Args: []*Sym{a}, T: v.Type()}
			case "append":
				args := []*Sym{}
				for _, a := range x.Call.Args {
					args = append(args, fa.Sym(a))
				}
				return &Sym{Op: "append", K: "append:" + fa.uniq(v), V: v, Args: args, T: v.Type()}
			}
		}
		if k, ok := fa.getterKey(x); ok {
			s := fa.atom("call", v, k)
			s.Aux = calleeName(&x.Call)
			if x.Call.IsInvoke() {
				s.Args = append(s.Args, fa.Sym(x.Call.Value))
			}
			for _, a := range x.Call.Args {
				s.Args = append(s.Args, fa.Sym(a))
			}
			return s
		}
		s := fa.atom("call", v, "call:"+fa.uniq(v)+":"+calleeName(&x.Call))
		s.Aux = calleeName(&x.Call)
		for _, a := range x.Call.Args {
			s.Args = append(s.Args, fa.Sym(a))
		}
		return s
	}
	return fa.atom("other", v, "v:"+fa.uniq(v))
}

func (fa *FA) fieldOf(b *Sym, name string, v ssa.Value) *Sym {
	for b.Op == "upd" {
		if b.Aux == name {
			return b.Args[1]
		}
		if strings.HasPrefix(b.Aux, name+".") || strings.HasPrefix(name, b.Aux+".") {
			break
		}
		b = b.Args[0]
	}
	var vt types.Type
	if v != nil {
		vt = v.Type()
	}
	_ = vt
	s := &Sym{Op: "fld", K: b.K + "." + name, V: v, Args: []*Sym{b}, Aux: name}
	if st, ok := underStruct(b.T); ok {
		for i := 0; i < st.NumFields(); i++ {
			if st.Field(i).Name() == name {
				s.T = st.Field(i).Type()
			}
		}
	}
	if s.T == nil && v != nil {
		s.T = v.Type()
	}
	return s
}

func underStruct(t types.Type) (*types.Struct, bool) {
	if t == nil {
		return nil, false
	}
	st, ok := t.Underlying().(*types.Struct)
	return st, ok
}

func (fa *FA) loadSym(ld *ssa.UnOp) *Sym {
	addr := ld.X
	if a, path := rootAlloc(addr); a != nil && fa.local[a] {
		if s := fa.localValueAt(a, path, ld, 0); s != nil {
			return s
		}
		return fa.atom("ld", ld, "ld(local:"+fa.uniq(a)+fmt.Sprint(path)+")@"+fa.uniq(ld))
	}
	c := addrClass(addr)
	ver := fa.versionAt(ld, c)
	as := fa.Sym(addr)
	// store-to-load forwarding: the version was created by a store through the very same
	// address expression (must-alias), so the load yields the stored value.
	if ver > 0 && ver < 1000 {
		for in, id := range fa.verInfoFor(c).clob {
			if id != ver {
				continue
			}
			if st, ok := in.(*ssa.Store); ok && st != nil {
				if fa.Sym(st.Addr).K == as.K && types.Identical(st.Val.Type(), ld.Type()) {
					return fa.Sym(st.Val)
				}
			}
		}
	}
	return &Sym{Op: "ld", K: fmt.Sprintf("ld(%s)@%d", as.K, ver), V: ld, Args: []*Sym{as}, T: ld.Type(), Aux: string(c)}
}

// localValueAt: the value of (private local a).path just before instruction at,
// nil when it is not determined by a unique reaching store.
func (fa *FA) localValueAt(a *ssa.Alloc, path []int, at ssa.Instruction, depth int) *Sym {
	if depth > 8 {
		return nil
	}
	st, spath, _ := fa.localDef(a, path, at)
	if st == nil {
		return nil
	}
	val := fa.Sym(st.Val)
	switch {
	case len(spath) == len(path):
		return val
	case len(spath) < len(path):
		// a whole-struct (prefix) store: project the remaining fields
		t := st.Val.Type()
		s := val
		for _, f := range path[len(spath):] {
			s = fa.fieldOf(s, fieldNameV(t, f), st.Val)
			if fv := fieldVarV(t, f); fv != nil {
				t = fv.Type()
			}
		}
		return s
	default:
		// an aggregate read after a partial (field) store: functional update
		prev := fa.localValueAt(a, path, st, depth+1)
		if prev == nil {
			prev = fa.atom("ld", st.Val, "ld(local:"+fa.uniq(a)+fmt.Sprint(path)+")@before:"+fmt.Sprint(fa.idx[st], st.Block().Index))
		}
		// type of the aggregate at path
		t := a.Type().Underlying().(*types.Pointer).Elem()
		for _, f := range path {
			if fv := fieldVarV(t, f); fv != nil {
				t = fv.Type()
			}
		}
		names := []string{}
		tt := t
		for _, f := range spath[len(path):] {
			names = append(names, fieldNameV(tt, f))
			if fv := fieldVarV(tt, f); fv != nil {
				tt = fv.Type()
			}
		}
		fld := strings.Join(names, ".")
		return &Sym{Op: "upd", K: "upd(" + prev.K + "," + fld + "=" + val.K + ")", Args: []*Sym{prev, val}, Aux: fld, T: t}
	}
}

// ---------------------------------------------------------------- affine forms --

// Lin is c0 + Σ coef·atom over canonical atom keys.
type Lin struct {
	C     int64
	T     map[string]int64
	Atoms map[string]*Sym
}

func newLin() *Lin { return &Lin{T: map[string]int64{}, Atoms: map[string]*Sym{}} }

func linConst(c int64) *Lin { l := newLin(); l.C = c; return l }

func linAtom(s *Sym) *Lin {
	l := newLin()
	l.T[s.K] = 1
	l.Atoms[s.K] = s
	return l
}

func (l *Lin) clone() *Lin {
	n := newLin()
	n.C = l.C
	for k, v := range l.T {
		n.T[k] = v
		n.Atoms[k] = l.Atoms[k]
	}
	return n
}

func (l *Lin) addScaled(o *Lin, k int64) *Lin {
	n := l.clone()
	n.C += k * o.C
	for a, c := range o.T {
		n.T[a] += k * c
		n.Atoms[a] = o.Atoms[a]
		if n.T[a] == 0 {
			delete(n.T, a)
			delete(n.Atoms, a)
		}
	}
	return n
}

func (l *Lin) Add(o *Lin) *Lin { return l.addScaled(o, 1) }
func (l *Lin) Sub(o *Lin) *Lin { return l.addScaled(o, -1) }
func (l *Lin) Scale(k int64) *Lin {
	return newLin().addScaled(l, k)
}

func (l *Lin) IsConst() (int64, bool) { return l.C, len(l.T) == 0 }

func (l *Lin) Equal(o *Lin) bool {
	d := l.Sub(o)
	return d.C == 0 && len(d.T) == 0
}

// EqualMod: equality of the two forms modulo 2^bits.
func (l *Lin) EqualMod(o *Lin, bits uint) bool {
	d := l.Sub(o)
	m := int64(1) << bits
	if ((d.C%m)+m)%m != 0 {
		return false
	}
	for _, c := range d.T {
		if ((c%m)+m)%m != 0 {
			return false
		}
	}
	return true
}

func (l *Lin) String() string {
	keys := []string{}
	for k := range l.T {
		keys = append(keys, k)
	}
	sort.Strings(keys)
	parts := []string{}
	for _, k := range keys {
		c := l.T[k]
		switch c {
		case 1:
			parts = append(parts, "+"+k)
		case -1:
			parts = append(parts, "-"+k)
		default:
			parts = append(parts, fmt.Sprintf("%+d*%s", c, k))
		}
	}
	if l.C != 0 || len(parts) == 0 {
		parts = append(parts, fmt.Sprintf("%+d", l.C))
	}
	return strings.TrimPrefix(strings.Join(parts, " "), "+")
}

func intBits(t types.Type) (bits int, signed bool, ok bool) {
	b, isB := t.Underlying().(*types.Basic)
	if !isB || b.Info()&types.IsInteger == 0 {
		return 0, false, false
	}
	switch b.Kind() {
	case types.Int, types.Int64, types.UntypedInt:
		return 64, true, true
	case types.Int32, types.UntypedRune:
		return 32, true, true
	case types.Int16:
		return 16, true, true
	case types.Int8:
		return 8, true, true
	case types.Uint, types.Uint64, types.Uintptr:
		return 64, false, true
	case types.Uint32:
		return 32, false, true
	case types.Uint16:
		return 16, false, true
	case types.Uint8:
		return 8, false, true
	}
	return 0, false, false
}

// Lin computes the exact affine form of an integer SSA value: the form denotes
// the mathematical value (no wrap-around is assumed away for unsigned types:
// unsigned +,- and narrowing conversions are opaque atoms; signed 64-bit
// arithmetic is assumed not to overflow — listed in the evidence assumptions).
func (fa *FA) Lin(v ssa.Value) *Lin { return fa.linSym(fa.Sym(v), 0) }

// LinMod computes the affine form modulo 2^bits: +,-,* and conversions from
// types at least `bits` wide are ring homomorphisms and are interpreted.
func (fa *FA) LinMod(v ssa.Value, bits int) *Lin { return fa.linSym(fa.Sym(v), bits) }

func (fa *FA) linSym(s *Sym, mod int) *Lin {
	if s == nil {
		return linConst(0)
	}
	switch s.Op {
	case "const":
		if s.IsI {
			return linConst(s.Int)
		}
		return linAtom(s)
	case "bin":
		bits, signed, ok := intBits(s.T)
		if !ok {
			return linAtom(s)
		}
		interp := (signed && bits == 64) || (mod > 0 && bits >= mod)
		if !interp {
			return linAtom(s)
		}
		switch s.Aux {
		case "+", "-":
			a, b := fa.linSym(s.Args[0], mod), fa.linSym(s.Args[1], mod)
			if mod == 0 && !fa.signedOpSafe(s, a, b) {
				return linAtom(s) // the 64-bit signed operation may wrap: its result is an unknown
			}
			if s.Aux == "+" {
				return a.Add(b)
			}
			return a.Sub(b)
		case "*":
			a, b := fa.linSym(s.Args[0], mod), fa.linSym(s.Args[1], mod)
			if mod == 0 && !fa.signedOpSafe(s, a, b) {
				return linAtom(s)
			}
			if c, ok := a.IsConst(); ok {
				return b.Scale(c)
			}
			if c, ok := b.IsConst(); ok {
				return a.Scale(c)
			}
		}
		return linAtom(s)
	case "conv":
		a := s.Args[0]
		fb, fs, fok := intBits(a.T)
		tb, ts, tok := intBits(s.T)
		if !fok || !tok {
			return linAtom(s)
		}
		if mod > 0 {
			// modulo 2^mod a conversion is transparent iff neither side is narrower than mod
			// (zero/sign extension of a narrower value is not a homomorphism of the wider sum)
			if fb >= mod && tb >= mod {
				return fa.linSym(a, mod)
			}
			if fb < mod && !fs && tb >= fb {
				// widening of an unsigned narrow value: value preserved exactly
				return fa.linSym(a, 0)
			}
			return linAtom(s)
		}
		switch {
		case fs == ts && tb >= fb: // widening, same signedness
			return fa.linSym(a, 0)
		case !fs && ts && tb > fb: // uintN → wider signed
			return fa.linSym(a, 0)
		case fs && !ts && tb >= fb:
			// signed → unsigned of at least the same width: value preserved iff operand ≥ 0
			la := fa.linSym(a, 0)
			if fa.nonNegLin(la) {
				return la
			}
		case !fs && ts && tb == fb:
			// uint64 → int64: preserved iff < 2^63; only for provably small forms (len-like)
			la := fa.linSym(a, 0)
			if fa.smallLin(la) {
				return la
			}
		}
		return linAtom(s)
	case "len":
		return fa.linLen(s, mod)
	case "cap":
		return fa.linCap(s)
	case "call":
		// binary.Size of a fixed-size integer is a constant
		if s.Aux == "encoding/binary.Size" && len(s.Args) == 1 {
			if b, _, ok := intBits(s.Args[0].T); ok {
				return linConst(int64(b / 8))
			}
		}
		return linAtom(s)
	case "ld", "param", "fv", "phi", "ext", "fld", "other", "un", "ta":
		return linAtom(s)
	}
	return linAtom(s)
}

// nonNegLin: every term is a non-negative atom (len, unsigned) with positive coefficient.
func (fa *FA) nonNegLin(l *Lin) bool {
	if l.C < 0 {
		return false
	}
	for k, c := range l.T {
		if c < 0 || !symNonNeg(l.Atoms[k]) {
			return false
		}
	}
	return true
}

func (fa *FA) smallLin(l *Lin) bool {
	for k := range l.T {
		a := l.Atoms[k]
		if a.Op == "len" || a.Op == "cap" {
			continue
		}
		if b, s, ok := intBits(a.T); ok && !s && b <= 32 {
			continue
		}
		return false
	}
	return true
}

func symNonNeg(s *Sym) bool {
	if s == nil {
		return false
	}
	if s.Op == "len" || s.Op == "cap" {
		return true
	}
	if _, signed, ok := intBits(s.T); ok && !signed {
		return true
	}
	return false
}

// linLen: len(x) by structure of x.
func (fa *FA) linLen(s *Sym, mod int) *Lin {
	x := s.Args[0]
	switch x.Op {
	case "slice":
		// len(x[lo:hi]) = hi - lo ; hi defaults to len(x)
		var lo, hi *Lin
		if x.Args[1] != nil {
			lo = fa.linSym(x.Args[1], 0)
		} else {
			lo = linConst(0)
		}
		if x.Args[2] != nil {
			hi = fa.linSym(x.Args[2], 0)
		} else {
			base := x.Args[0]
			if pt, isPtr := base.T.Underlying().(*types.Pointer); isPtr {
				if arr, ok := pt.Elem().Underlying().(*types.Array); ok {
					hi = linConst(arr.Len()) // a[:] of an array (e.g. the variadic argument array)
					return hi.Sub(lo)
				}
				return linAtom(s)
			}
			hi = fa.linSym(&Sym{Op: "len", K: "len(" + base.K + ")", Args: []*Sym{base}, T: s.T}, 0)
		}
		return hi.Sub(lo)
	case "make":
		return fa.linSym(x.Args[0], 0)
	case "append":
		// append(s, t...) has len(s)+len(t); append(s, e1..) variadic is lowered to a slice literal
		if len(x.Args) == 2 {
			a, b := x.Args[0], x.Args[1]
			la := fa.linSym(&Sym{Op: "len", K: "len(" + a.K + ")", Args: []*Sym{a}, T: s.T}, 0)
			lb := fa.linSym(&Sym{Op: "len", K: "len(" + b.K + ")", Args: []*Sym{b}, T: s.T}, 0)
			return la.Add(lb)
		}
	case "const":
		if c, ok := x.V.(*ssa.Const); ok && c.Value != nil && c.Value.Kind() == constant.String {
			return linConst(int64(len(constant.StringVal(c.Value))))
		}
		if x.K == "nil" {
			return linConst(0)
		}
	case "call":
		// a module helper whose every return hands back a slice exactly as long as one of its slice parameters
		// (`func clone(src []T) []T { dst := make([]T, len(src)); copy(dst, src); return dst }`)
		if c, ok := x.V.(*ssa.Call); ok && !c.Call.IsInvoke() {
			if g := staticCallee(&c.Call); g != nil && g.Blocks != nil && fa.P.InModule(g) {
				if l := fa.P.sliceLenSummary(g, fa, c.Call.Args); l != nil {
					return l
				}
			}
		}
	}
	return linAtom(s)
}

type sliceLenSum struct {
	c     int64
	coefs []int64 // per entry term of g
}

var sliceLenSumCache = map[*ssa.Function]*sliceLenSum{}

// sliceLenSummary: when every return of g (single slice result) hands back a slice whose length is one and the same
// affine form over g's entry terms (integer parameters, lengths of slice parameters and of slice fields of struct
// parameters), that form evaluated for the given arguments in the caller's terms; nil otherwise.
// `func clone(src []T) []T { dst := make([]T, len(src)); copy(dst, src); return dst }` gives len(src).
func (p *Prog) sliceLenSummary(g *ssa.Function, cfa *FA, args []ssa.Value) *Lin {
	sum, done := sliceLenSumCache[g]
	if !done {
		sliceLenSumCache[g] = nil // recursion guard
		sum = p.computeSliceLenSum(g)
		sliceLenSumCache[g] = sum
	}
	if sum == nil {
		return nil
	}
	terms := p.FA(g).entryTerms()
	out := linConst(sum.c)
	for i, k := range sum.coefs {
		if k == 0 {
			continue
		}
		l := terms[i].atCall(cfa, args)
		if l == nil {
			return nil
		}
		out = out.Add(l.Scale(k))
	}
	return out
}

func (p *Prog) computeSliceLenSum(g *ssa.Function) *sliceLenSum {
	if g.Signature.Results().Len() != 1 {
		return nil
	}
	if _, ok := g.Signature.Results().At(0).Type().Underlying().(*types.Slice); !ok {
		return nil
	}
	fa := p.FA(g)
	rets := returnsOf(g)
	if len(rets) == 0 {
		return nil
	}
	terms := fa.entryTerms()
	var first *Lin
	for _, rt := range rets {
		got := fa.linSym(lenOf(fa.Sym(rt.Results[0])), 0)
		if first == nil {
			first = got
		} else if !got.Equal(first) {
			return nil
		}
	}
	// express the form over the entry terms (each term is a single atom with coefficient 1, or not usable)
	sum := &sliceLenSum{c: first.C, coefs: make([]int64, len(terms))}
	rest := first.clone()
	rest.C = 0
	for i, t := range terms {
		if t.callee == nil || t.callee.C != 0 || len(t.callee.T) != 1 {
			continue
		}
		for k, c := range t.callee.T {
			if c != 1 {
				continue
			}
			if k2, has := rest.T[k]; has {
				sum.coefs[i] = k2
				rest = rest.Sub(t.callee.Scale(k2))
			}
		}
	}
	if len(rest.T) != 0 {
		return nil
	}
	return sum
}

func lenOf(x *Sym) *Sym {
	return &Sym{Op: "len", K: "len(" + x.K + ")", Args: []*Sym{x}, T: types.Typ[types.Int]}
}

func capOf(x *Sym) *Sym {
	return &Sym{Op: "cap", K: "cap(" + x.K + ")", Args: []*Sym{x}, T: types.Typ[types.Int]}
}

// linCap: cap(x) by structure of x.
func (fa *FA) linCap(s *Sym) *Lin {
	x := s.Args[0]
	switch x.Op {
	case "slice":
		lo := linConst(0)
		if x.Args[1] != nil {
			lo = fa.linSym(x.Args[1], 0)
		}
		if x.Args[3] != nil {
			return fa.linSym(x.Args[3], 0).Sub(lo)
		}
		base := x.Args[0]
		if _, isPtr := base.T.Underlying().(*types.Pointer); isPtr {
			return linAtom(s)
		}
		return fa.linSym(capOf(base), 0).Sub(lo)
	case "make":
		if x.Args[1] != nil {
			return fa.linSym(x.Args[1], 0)
		}
		return fa.linSym(x.Args[0], 0)
	}
	return linAtom(s)
}

// ---- pure getters ------------------------------------------------------------------

var getterCache = map[*ssa.Function]*getterInfo{}

type getterInfo struct {
	pure    bool
	classes []locClass
}

// pureGetter: the function only loads fields of its arguments and returns a value
// computed from them (no stores, calls, allocation of escaping memory, channel ops).
func pureGetter(fn *ssa.Function) *getterInfo {
	if gi, ok := getterCache[fn]; ok {
		return gi
	}
	gi := &getterInfo{pure: fn.Blocks != nil}
	for _, b := range fn.Blocks {
		for _, in := range b.Instrs {
			switch x := in.(type) {
			case *ssa.FieldAddr, *ssa.Field, *ssa.Return, *ssa.Convert, *ssa.ChangeType, *ssa.BinOp, *ssa.DebugRef, *ssa.If, *ssa.Jump, *ssa.Phi, *ssa.MakeInterface:
			case *ssa.UnOp:
				if x.Op == token.MUL {
					gi.classes = append(gi.classes, addrClass(x.X))
				}
			default:
				gi.pure = false
			}
		}
	}
	getterCache[fn] = gi
	return gi
}

// getterKey: canonical, memory-versioned key for calls of pure getters
// (e.g. Channel.MSize()), so that two reads with no intervening write agree.
func (fa *FA) getterKey(c *ssa.Call) (string, bool) {
	var callees []*ssa.Function
	if f := staticCallee(&c.Call); f != nil {
		if !fa.P.InModule(f) {
			return "", false
		}
		callees = []*ssa.Function{f}
	} else if c.Call.IsInvoke() {
		callees = fa.ms.calleesOf(c)
	}
	if len(callees) == 0 {
		return "", false
	}
	vers := []string{}
	for _, f := range callees {
		gi := pureGetter(f)
		if !gi.pure {
			return "", false
		}
		for _, cl := range gi.classes {
			vers = append(vers, fmt.Sprintf("%s@%d", cl, fa.versionAt(c, cl)))
		}
	}
	sort.Strings(vers)
	args := []string{}
	if c.Call.IsInvoke() {
		args = append(args, fa.Sym(c.Call.Value).K)
	}
	for _, a := range c.Call.Args {
		args = append(args, fa.Sym(a).K)
	}
	return "get:" + calleeName(&c.Call) + "(" + strings.Join(args, ",") + ")[" + strings.Join(vers, ",") + "]", true
}

// ---- closure-shared cells ---------------------------------------------------------

var cellClassCache = map[*ssa.Alloc]locClass{}

// cellClass: a variable whose address is used only for loads, stores and closure
// capture (a captured local). Such a cell aliases nothing else, so it gets a
// location class of its own; it is written only by stores in its function and by
// closures that capture it.
func cellClass(a *ssa.Alloc) (locClass, bool) {
	if c, ok := cellClassCache[a]; ok {
		return c, c != ""
	}
	ok := true
	var chk func(v ssa.Value, depth int)
	chk = func(v ssa.Value, depth int) {
		for _, r := range referrers(v) {
			switch x := r.(type) {
			case *ssa.UnOp:
				if x.Op != token.MUL {
					ok = false
				}
			case *ssa.Store:
				if x.Val == v {
					ok = false
				}
			case *ssa.MakeClosure:
			case *ssa.DebugRef:
			case *ssa.FieldAddr:
				if depth < 4 {
					chk(x, depth+1)
				} else {
					ok = false
				}
			default:
				ok = false
			}
		}
	}
	chk(a, 0)
	c := locClass("")
	if ok && a.Parent() != nil {
		c = locClass("A:" + fnName(a.Parent()) + ":" + a.Name() + ":" + a.Comment)
		cellOwner[c] = a.Parent()
	}
	cellClassCache[a] = c
	return c, c != ""
}

// freeVarClass resolves a closure's free variable to the captured cell's class.
func freeVarClass(fv *ssa.FreeVar, depth int) (locClass, bool) {
	fn := fv.Parent()
	if fn == nil || fn.Parent() == nil || depth > 4 {
		return "", false
	}
	idx := -1
	for i, f := range fn.FreeVars {
		if f == fv {
			idx = i
		}
	}
	if idx < 0 {
		return "", false
	}
	var res locClass
	found := false
	eachInstr(fn.Parent(), func(in ssa.Instruction) {
		mc, ok := in.(*ssa.MakeClosure)
		if !ok || mc.Fn != fn || idx >= len(mc.Bindings) {
			return
		}
		switch b := mc.Bindings[idx].(type) {
		case *ssa.Alloc:
			if c, ok := cellClass(b); ok {
				res, found = c, true
			}
		case *ssa.FreeVar:
			if c, ok := freeVarClass(b, depth+1); ok {
				res, found = c, true
			}
		}
	})
	return res, found
}

var cellOwner = map[locClass]*ssa.Function{}

// nestedIn: f is a closure (transitively) nested inside owner.
func nestedIn(f, owner *ssa.Function) bool {
	for p := f.Parent(); p != nil; p = p.Parent() {
		if p == owner {
			return true
		}
	}
	return false
}

// memValueAtEnd: the symbol of location (addr sym `as`, class c) at the end of block b:
// the value stored by the last must-alias store when that created the version, else a versioned load atom.
func (fa *FA) memValueAtEnd(as *Sym, c locClass, b *ssa.BasicBlock, t types.Type) *Sym {
	vi := fa.verInfoFor(c)
	ver := vi.out[b]
	if ver > 0 && ver < 1000 {
		for in, id := range vi.clob {
			if id != ver {
				continue
			}
			if st, ok := in.(*ssa.Store); ok {
				if fa.Sym(st.Addr).K == as.K && types.Identical(st.Val.Type(), t) {
					return fa.Sym(st.Val)
				}
			}
		}
	}
	return &Sym{Op: "ld", K: fmt.Sprintf("ld(%s)@%d", as.K, ver), Args: []*Sym{as}, T: t, Aux: string(c)}
}

// ---- signed 64-bit overflow ------------------------------------------------------------------------------------
//
// int64/int arithmetic is interpreted as integer arithmetic only when it cannot wrap. Values of type int, lengths,
// capacities and narrower integers are assumed to be below 2^44 in magnitude (they count or index memory); values
// whose type is int64 or uint64 (file offsets taken from the wire) are arbitrary. An operation involving such a
// value is interpreted only if the facts valid at the operation bound it: for a+b, no overflow above needs
// a<=0 or b<=0 or both <= 2^44; no overflow below needs a>=0 or b>=0 or both >= -2^44.

const ovfBound = int64(1) << 44

func wideAtom(a *Sym) bool {
	if a.Op == "len" || a.Op == "cap" {
		return false
	}
	if b, ok := a.T.Underlying().(*types.Basic); ok {
		return b.Kind() == types.Int64 || b.Kind() == types.Uint64
	}
	return false
}

func linHasWide(l *Lin) bool {
	for _, a := range l.Atoms {
		if wideAtom(a) {
			return true
		}
	}
	return false
}

func (fa *FA) signedOpSafe(s *Sym, a, b *Lin) bool {
	if !linHasWide(a) && !linHasWide(b) {
		return true
	}
	bin, ok := s.V.(*ssa.BinOp)
	if !ok {
		return false
	}
	if fa.ovfSafe == nil {
		fa.ovfSafe = map[*ssa.BinOp]bool{}
		fa.ovfBusy = map[*ssa.BinOp]bool{}
	}
	if r, ok := fa.ovfSafe[bin]; ok {
		return r
	}
	if fa.ovfBusy[bin] {
		return false
	}
	fa.ovfBusy[bin] = true
	defer delete(fa.ovfBusy, bin)
	facts := fa.FactsAt(bin, a, b)
	// assumed magnitudes of memory-sized quantities
	facts = withMagnitudes(facts, a, b)
	leC := func(l *Lin, c int64) bool {
		return Entails(facts, l.Sub(linConst(c))) || fa.entailsPhiSplit(bin, facts, l, linConst(c), 2)
	}
	geC := func(l *Lin, c int64) bool {
		return Entails(facts, linConst(c).Sub(l)) || fa.entailsPhiSplit(bin, facts, linConst(c), l, 2)
	}
	res := false
	switch s.Aux {
	case "+", "-":
		y := b
		if s.Aux == "-" {
			y = b.Scale(-1)
		}
		above := leC(a, 0) || leC(y, 0) || (leC(a, ovfBound) && leC(y, ovfBound))
		below := geC(a, 0) || geC(y, 0) || (geC(a, -ovfBound) && geC(y, -ovfBound))
		res = above && below
	case "*":
		x, c := a, int64(0)
		if k, ok := a.IsConst(); ok {
			x, c = b, k
		} else if k, ok := b.IsConst(); ok {
			c = k
		} else {
			res = false
			break
		}
		if c < 0 {
			c = -c
		}
		if c == 0 {
			res = true
		} else if c <= 1<<16 {
			res = leC(x, ovfBound/c) && geC(x, -ovfBound/c)
		}
	}
	fa.ovfSafe[bin] = res
	return res
}

// withMagnitudes adds the assumed/typed magnitude bounds of every atom of the facts and of the given forms: lengths
// and capacities are below 2^40; narrow integers have their type's range; other non-wide integers (type int) are
// within ±2^44. Wide atoms (int64/uint64) get nothing.
func withMagnitudes(facts []Fact, extra ...*Lin) []Fact {
	lins := append([]*Lin{}, extra...)
	for _, f := range facts {
		lins = append(lins, f.L)
	}
	seenAt := map[string]bool{}
	for _, l := range lins {
		for k, at := range l.Atoms {
			if seenAt[k] {
				continue
			}
			seenAt[k] = true
			if at.Op == "len" || at.Op == "cap" {
				facts = append(facts, le(linAtom(at), linConst(int64(1)<<40), "assumed: lengths are below 2^40"))
			} else if bits, signed, ok := intBits(at.T); ok && !wideAtom(at) {
				if bits <= 32 {
					if signed {
						facts = append(facts, le(linAtom(at), linConst(int64(1)<<31), "type range"), le(linConst(-(int64(1)<<31)), linAtom(at), "type range"))
					} else {
						facts = append(facts, le(linAtom(at), linConst(int64(1)<<32), "type range"), le(linConst(0), linAtom(at), "type range"))
					}
				} else {
					facts = append(facts, le(linAtom(at), linConst(ovfBound), "assumed: int values are below 2^44"), le(linConst(-ovfBound), linAtom(at), "assumed: int values are above -2^44"))
				}
			}
		}
	}
	return facts
}
