package main

// Engine E1b: the per-type layout "grammar" of encode / decode / size9p.
// Each clause of the three sibling type switches is abstracted to the sequence
// of I/O events it performs (in CFG order, loop events marked with '*'), with
// every operand classified relative to the clause variable v. The sequences are
// compared with the layout 9P2000 prescribes for that Go type.

import (
	"fmt"
	"go/token"
	"go/types"
	"regexp"
	"sort"
	"strings"

	"golang.org/x/tools/go/ssa"
)

type tsClause struct {
	types []types.Type
	body  *ssa.BasicBlock
	vals  map[ssa.Value]bool // the clause variable(s): extracted values, or the operand itself for multi-type clauses
}

// typeSwitchClauses groups the comma-ok type assertions on operand x by the block their ok-edge enters.
func typeSwitchClauses(fn *ssa.Function, x ssa.Value) []*tsClause {
	byBody := map[*ssa.BasicBlock]*tsClause{}
	var order []*tsClause
	eachInstr(fn, func(in ssa.Instruction) {
		ta, ok := in.(*ssa.TypeAssert)
		if !ok || !ta.CommaOk || ta.X != x {
			return
		}
		okv := resultN(ta, 1)
		if okv == nil {
			return
		}
		var body *ssa.BasicBlock
		for _, rf := range referrers(okv) {
			if ifi, ok := rf.(*ssa.If); ok {
				body = ifi.Block().Succs[0]
			}
		}
		if body == nil {
			return
		}
		c := byBody[body]
		if c == nil {
			c = &tsClause{body: body, vals: map[ssa.Value]bool{}}
			byBody[body] = c
			order = append(order, c)
		}
		c.types = append(c.types, ta.AssertedType)
		if v := resultN(ta, 0); v != nil {
			c.vals[v] = true
		}
	})
	for _, c := range order {
		if len(c.types) > 1 {
			c.vals = map[ssa.Value]bool{x: true}
		} else {
			c.vals[x] = true
		}
	}
	return order
}

type gctx struct {
	fn      *ssa.Function
	vals    map[ssa.Value]bool
	spill   map[ssa.Value]bool // locals holding a copy of the (struct-valued) clause variable
	depth   int
	rawMake bool
	// bind: values of an inlined helper (its parameters, and the locals they are spilled to) standing for an operand
	// of the calling clause, with that operand's class
	bind map[ssa.Value]string
}

var vTokenRe = regexp.MustCompile(`\bv\b`)

// vDerived: the class is computed from the clause variable
func vDerived(c string) bool { return !strings.Contains(c, "?") && vTokenRe.MatchString(c) }

// bindParams: the context of a helper called from a clause with the given argument classes
func (g *gctx) bindParams(callee *ssa.Function, args []ssa.Value) *gctx {
	vals := map[ssa.Value]bool{}
	bind := map[ssa.Value]string{}
	for i, a := range args {
		if i >= len(callee.Params) {
			break
		}
		c := g.cls(a)
		if c == "v" {
			vals[callee.Params[i]] = true
		} else if vDerived(c) {
			bind[callee.Params[i]] = c
		}
	}
	sub := newGctx(callee, vals)
	sub.depth = g.depth
	sub.bind = bind
	for v, c := range bind {
		for _, r := range referrers(v) {
			if st, ok := r.(*ssa.Store); ok && st.Val == v {
				if a, ok := st.Addr.(*ssa.Alloc); ok {
					// a spilled parameter that is never re-assigned still stands for the argument
					n := 0
					for _, r2 := range referrers(a) {
						if st2, ok := r2.(*ssa.Store); ok && st2.Addr == ssa.Value(a) {
							n++
						}
					}
					if n == 1 {
						sub.bind[a] = c
					}
				}
			}
		}
	}
	return sub
}

func newGctx(fn *ssa.Function, vals map[ssa.Value]bool) *gctx {
	g := &gctx{fn: fn, vals: vals, spill: map[ssa.Value]bool{}}
	for v := range vals {
		for _, r := range referrers(v) {
			if st, ok := r.(*ssa.Store); ok && st.Val == v {
				if a, ok := st.Addr.(*ssa.Alloc); ok {
					g.spill[a] = true
				}
			}
		}
	}
	return g
}

func bitsOf(t types.Type) int {
	b, _, _ := intBits(t)
	return b
}

// cls classifies an operand relative to the clause variable.
func (g *gctx) cls(v ssa.Value) string {
	if v == nil {
		return "nil"
	}
	g.depth++
	defer func() { g.depth-- }()
	if g.depth > 12 {
		return "?deep"
	}
	if g.vals[v] {
		return "v"
	}
	if c, ok := g.bind[v]; ok {
		return c
	}
	switch x := v.(type) {
	case *ssa.MakeInterface:
		return g.cls(x.X)
	case *ssa.ChangeType:
		return g.cls(x.X)
	case *ssa.ChangeInterface:
		return g.cls(x.X)
	case *ssa.Const:
		if x.Value == nil {
			return "nil"
		}
		if i, ok := constInt(x); ok {
			if i == 0 {
				return "zero:" + shortType(x.Type())
			}
			return fmt.Sprintf("%d", i)
		}
		return "const"
	case *ssa.UnOp:
		if x.Op == token.MUL {
			if a, ok := x.X.(*ssa.Alloc); ok {
				if g.spill[a] {
					return "v"
				}
				if g.vals[a] {
					return "*v"
				}
				if c, ok := g.bind[a]; ok {
					return c
				}
				return a.Comment
			}
			if ia, ok := x.X.(*ssa.IndexAddr); ok {
				if c, ok := constInt(ia.Index); ok {
					return fmt.Sprintf("%s[%d]", g.cls(ia.X), c)
				}
				return "elem(" + g.cls(ia.X) + ")"
			}
			if fa, ok := x.X.(*ssa.FieldAddr); ok {
				return g.cls(fa.X) + "." + fieldName(fa.X.Type(), fa.Field)
			}
			inner := g.cls(x.X)
			if inner == "v" {
				return "*v"
			}
			return "*" + inner
		}
	case *ssa.Alloc:
		if g.spill[x] {
			return "v"
		}
		el := x.Type().Underlying().(*types.Pointer).Elem()
		return "&" + x.Comment + ":" + shortType(el)
	case *ssa.Field:
		return g.cls(x.X) + "." + fieldNameV(x.X.Type(), x.Field)
	case *ssa.FieldAddr:
		return "&" + g.cls(x.X) + "." + fieldName(x.X.Type(), x.Field)
	case *ssa.IndexAddr:
		return "&" + g.cls(x.X) + "[i]"
	case *ssa.Extract:
		if c, ok := x.Tuple.(*ssa.Call); ok {
			if calleeName(&c.Call) == "p9p.fields9p" && x.Index == 0 {
				return "fields9p(" + g.cls(c.Call.Args[0]) + ")"
			}
			if calleeName(&c.Call) == "p9p.newMessage" && x.Index == 0 {
				return "newMessage(" + g.cls(c.Call.Args[0]) + ")"
			}
		}
		if _, ok := x.Tuple.(*ssa.Next); ok {
			return "elem(range)"
		}
		// (value, error) helper handed operands of the clause: on success its value is what its own success returns
		// compute, classified in its body with the parameters standing for the arguments
		if c, ok := x.Tuple.(*ssa.Call); ok && x.Index == 0 && g.depth < 8 {
			callee := staticCallee(&c.Call)
			if callee != nil && callee.Blocks != nil && callee.Pkg == g.fn.Pkg && callee != g.fn && callee.Signature.Results().Len() == 2 {
				sub := g.bindParams(callee, c.Call.Args)
				if len(sub.vals) > 0 || len(sub.bind) > 0 {
					set := map[string]bool{}
					for _, rt := range returnsOf(callee) {
						if len(rt.Results) != 2 || !isNilConst(rt.Results[1]) {
							continue
						}
						set[sub.cls(rt.Results[0])] = true
					}
					if len(set) == 1 {
						for k := range set {
							if !strings.Contains(k, "?") {
								return k
							}
						}
					}
				}
			}
		}
	case *ssa.Slice:
		lo := ""
		if x.Low != nil {
			lo = g.cls(x.Low)
		}
		hi := ""
		if x.High != nil {
			hi = g.cls(x.High)
		}
		if a, ok := x.X.(*ssa.Alloc); ok && a.Comment == "varargs" {
			return "varargs"
		}
		return g.cls(x.X) + "[" + lo + ":" + hi + "]"
	case *ssa.Phi:
		set := map[string]bool{}
		for _, e := range x.Edges {
			set[g.cls(e)] = true
		}
		keys := []string{}
		for k := range set {
			keys = append(keys, k)
		}
		sort.Strings(keys)
		return strings.Join(keys, "|")
	case *ssa.MakeSlice:
		// a slice that is stored into the clause variable is, from then on, the clause variable's value
		if !g.rawMake {
			for _, rf := range referrers(x) {
				if st, ok := rf.(*ssa.Store); ok && st.Val == ssa.Value(x) {
					g.rawMake = true
					t := g.cls(st.Addr)
					g.rawMake = false
					if t == "v" {
						return "*v"
					}
				}
			}
		}
		// []interface{} filled with &x[i]
		if it, ok := x.Type().Underlying().(*types.Slice); ok {
			if _, isIface := it.Elem().Underlying().(*types.Interface); isIface {
				src := ""
				for _, r := range referrers(x) {
					ia, ok := r.(*ssa.IndexAddr)
					if !ok {
						continue
					}
					for _, rr := range referrers(ia) {
						if st, ok := rr.(*ssa.Store); ok && st.Addr == ssa.Value(ia) {
							if mi, ok := st.Val.(*ssa.MakeInterface); ok {
								if ia2, ok := mi.X.(*ssa.IndexAddr); ok && ia2.Index == ia.Index {
									src = g.cls(ia2.X)
								}
							}
						}
					}
				}
				if src != "" {
					return "ptrs(" + src + ")/len=" + g.cls(x.Len)
				}
			}
		}
		return "make" + shortType(x.Type()) + "(" + g.cls(x.Len) + ")"
	case *ssa.Convert:
		tb := bitsOf(x.Type())
		switch in := x.X.(type) {
		case *ssa.Call:
			switch calleeName(&in.Call) {
			case "builtin len":
				return fmt.Sprintf("len%d(%s)", tb, g.cls(in.Call.Args[0]))
			case "(time.Time).Unix":
				return fmt.Sprintf("unix%d(%s)", tb, g.cls(in.Call.Args[0]))
			case "p9p.size9p":
				return fmt.Sprintf("size%d(%s)", tb, g.callArgs(in))
			case "encoding/binary.Size":
				return fmt.Sprintf("bsize(%s)", g.cls(in.Call.Args[0]))
			}
		case *ssa.BinOp:
			if in.Op == token.ADD {
				return fmt.Sprintf("u%d(%s+%s)", tb, g.cls(in.X), g.cls(in.Y))
			}
		}
		if _, isStr := x.Type().Underlying().(*types.Basic); isStr && x.Type().Underlying().(*types.Basic).Kind() == types.String {
			return "string(" + g.cls(x.X) + ")"
		}
		return shortType(x.Type()) + "(" + g.cls(x.X) + ")"
	case *ssa.Call:
		n := calleeName(&x.Call)
		switch n {
		case "builtin len":
			return "len(" + g.cls(x.Call.Args[0]) + ")"
		case "encoding/binary.Size":
			return "bsize(" + g.cls(x.Call.Args[0]) + ")"
		case "p9p.size9p":
			return "S(" + g.callArgs(x) + ")"
		case "time.Unix":
			return "time.Unix(" + g.cls(x.Call.Args[0]) + "," + g.cls(x.Call.Args[1]) + ")"
		case "(time.Time).UTC":
			return g.cls(x.Call.Args[0]) + ".UTC"
		case "bytes.NewReader":
			return "reader(" + g.cls(x.Call.Args[0]) + ")"
		case "reflect.New":
			return "reflect.New(" + g.cls(x.Call.Args[0]) + ")"
		case "reflect.TypeOf":
			return "TypeOf(" + g.cls(x.Call.Args[0]) + ")"
		case "(reflect.Value).Interface":
			return g.cls(x.Call.Args[0]) + ".Interface"
		case "(reflect.Value).Elem":
			return g.cls(x.Call.Args[0]) + ".Elem"
		case "builtin append":
			return "append(" + g.cls(x.Call.Args[0]) + "," + g.cls(x.Call.Args[1]) + ")"
		}
		// a helper of one parameter computing an operand from the clause variable: classified by its own body, with
		// the argument's class substituted for the helper's parameter
		if callee := staticCallee(&x.Call); callee != nil && callee.Blocks != nil && len(x.Call.Args) == 1 && len(callee.Params) == 1 &&
			callee.Signature.Results().Len() == 1 && callee.Pkg == g.fn.Pkg && g.depth < 8 {
			rets := returnsOf(callee)
			sub := newGctx(callee, map[ssa.Value]bool{callee.Params[0]: true})
			sub.depth = g.depth
			set := map[string]bool{}
			for _, rt := range rets {
				set[sub.cls(rt.Results[0])] = true
			}
			if len(set) == 1 {
				for k := range set {
					if !strings.Contains(k, "?") {
						arg := g.cls(x.Call.Args[0])
						return substV(k, arg)
					}
				}
			}
		}
		return n + "()"
	case *ssa.BinOp:
		return "(" + g.cls(x.X) + x.Op.String() + g.cls(x.Y) + ")"
	case *ssa.TypeAssert:
		return g.cls(x.X) + ".(" + shortType(x.AssertedType) + ")"
	}
	return "?" + v.Name()
}

// callArgs renders the variadic argument list of encode/decode/size9p calls.
func (g *gctx) callArgs(c *ssa.Call) string {
	args := c.Call.Args
	last := args[len(args)-1]
	var out []string
	for _, a := range args[:len(args)-1] {
		if ft := a.Type().String(); strings.Contains(ft, "encoder") || strings.Contains(ft, "decoder") {
			continue
		}
		out = append(out, g.cls(a))
	}
	if sl, ok := last.(*ssa.Slice); ok {
		if arr, ok := sl.X.(*ssa.Alloc); ok && arr.Comment == "varargs" {
			type ent struct {
				i int64
				s string
			}
			var es []ent
			for _, r := range referrers(arr) {
				ia, ok := r.(*ssa.IndexAddr)
				if !ok {
					continue
				}
				idx, _ := constInt(ia.Index)
				for _, rr := range referrers(ia) {
					if st, ok := rr.(*ssa.Store); ok && st.Addr == ssa.Value(ia) {
						es = append(es, ent{idx, g.cls(st.Val)})
					}
				}
			}
			sort.Slice(es, func(i, j int) bool { return es[i].i < es[j].i })
			for _, e := range es {
				out = append(out, e.s)
			}
			return strings.Join(out, ",")
		}
	}
	out = append(out, g.cls(last)+"...")
	return strings.Join(out, ",")
}

// regionBlocks: blocks dominated by body, minus the regions of the given nested bodies.
func regionBlocks(fn *ssa.Function, body *ssa.BasicBlock, exclude []*ssa.BasicBlock) []*ssa.BasicBlock {
	var out []*ssa.BasicBlock
	for _, b := range fn.Blocks {
		if !(b == body || body.Dominates(b)) {
			continue
		}
		skip := false
		for _, e := range exclude {
			if b == e || e.Dominates(b) {
				skip = true
			}
		}
		if !skip {
			out = append(out, b)
		}
	}
	return out
}

// events lists the I/O events of a clause region in CFG order.
var inlineDepth int

func clauseEvents(fn *ssa.Function, blocks []*ssa.BasicBlock, g *gctx, role string) ([]string, []string) {
	var ev, notes []string
	inRegion := map[*ssa.BasicBlock]bool{}
	for _, b := range blocks {
		inRegion[b] = true
	}
	loopMark := func(in ssa.Instruction) string {
		// a loop inside the clause region (not the outer range-over-vs loop)
		seen := map[*ssa.BasicBlock]bool{}
		var walk func(x *ssa.BasicBlock) bool
		walk = func(x *ssa.BasicBlock) bool {
			for _, s := range x.Succs {
				if !inRegion[s] || seen[s] {
					continue
				}
				if s == in.Block() {
					return true
				}
				seen[s] = true
				if walk(s) {
					return true
				}
			}
			return false
		}
		if walk(in.Block()) {
			return "*"
		}
		return ""
	}
	for _, b := range blocks {
		for _, in := range b.Instrs {
			switch x := in.(type) {
			case *ssa.Call:
				n := calleeName(&x.Call)
				lm := loopMark(in)
				switch n {
				case "encoding/binary.Write":
					if !isLittleEndianArg(x.Call.Args[1]) {
						notes = append(notes, "binary.Write with a byte order other than LittleEndian")
					}
					ev = append(ev, lm+"W("+g.cls(x.Call.Args[2])+")")
				case "encoding/binary.Read":
					if !isLittleEndianArg(x.Call.Args[1]) {
						notes = append(notes, "binary.Read with a byte order other than LittleEndian")
					}
					ev = append(ev, lm+"R("+g.cls(x.Call.Args[2])+")")
				case "io.WriteString":
					ev = append(ev, lm+"WS("+g.cls(x.Call.Args[1])+")")
				case "io.ReadFull":
					ev = append(ev, lm+"RF("+g.cls(x.Call.Args[1])+")")
				case "(*p9p.encoder).encode":
					ev = append(ev, lm+"E("+g.callArgs(x)+")")
				case "(*p9p.decoder).decode":
					recv := ""
					if a, ok := x.Call.Args[0].(*ssa.Alloc); ok {
						if flds, _, ok := allocFields(a); ok && flds["rd"] != nil {
							recv = "SUB[" + g.cls(flds["rd"]) + "]."
						}
					}
					ev = append(ev, lm+recv+"D("+g.callArgs(x)+")")
				default:
					// a clause body moved into a helper of the same package that is handed the clause variable: its
					// events are those of the clause, with the helper's parameter standing for the clause variable
					callee := staticCallee(&x.Call)
					if callee == nil || callee.Blocks == nil || callee.Pkg != fn.Pkg || callee == fn || inlineDepth > 2 {
						break
					}
					switch fnName(callee) {
					case "(*p9p.encoder).encode", "(*p9p.decoder).decode", "p9p.size9p", "p9p.fields9p", "p9p.newMessage":
						break
					default:
						sub := g.bindParams(callee, x.Call.Args)
						if len(sub.vals) == 0 && len(sub.bind) == 0 {
							break
						}
						inlineDepth++
						evs, ns := clauseEvents(callee, callee.Blocks, sub, role)
						inlineDepth--
						for _, e := range evs {
							if lm != "" && !strings.HasPrefix(e, "*") {
								e = lm + e
							}
							ev = append(ev, e)
						}
						notes = append(notes, ns...)
					}
				}
			case *ssa.Store:
				if role != "decode" {
					continue
				}
				// stores through the clause variable
				tgt := g.cls(x.Addr)
				if tgt == "v" || strings.HasPrefix(tgt, "&v.") {
					g.rawMake = true
					val := g.cls(x.Val)
					g.rawMake = false
					ev = append(ev, loopMark(in)+"SET("+tgt+"="+val+")")
				}
			case *ssa.BinOp:
				if role != "size" || x.Op != token.ADD {
					continue
				}
				// s += X : the accumulator is a phi/ADD chain of type uint32 rooted in the function's result phi
				if isAccumulator(x.X) {
					ev = append(ev, loopMark(in)+"ADD("+g.cls(x.Y)+")")
				}
			}
		}
	}
	return ev, notes
}

func isAccumulator(v ssa.Value) bool {
	switch x := v.(type) {
	case *ssa.Phi:
		return x.Comment == "s"
	case *ssa.BinOp:
		return x.Op == token.ADD && isAccumulator(x.X)
	}
	return false
}

// ---- expected layouts --------------------------------------------------------------

var intTypes = []string{"uint8", "uint16", "uint32", "uint64", "p9p.FcallType", "p9p.Tag", "p9p.QType", "p9p.Fid", "p9p.Flag"}

func expectedEvents(role, typ string) ([]string, bool) {
	isInt := func(t string) bool {
		for _, i := range intTypes {
			if i == t {
				return true
			}
		}
		return false
	}
	ptr := strings.HasPrefix(typ, "*")
	base := strings.TrimPrefix(typ, "*")
	switch role {
	case "encode":
		if isInt(base) {
			return []string{"W(v)"}, true
		}
		if ptr {
			switch base {
			case "[]byte", "string", "[]string", "time.Time", "p9p.Qid", "[]p9p.Qid", "p9p.Dir", "[]p9p.Dir", "p9p.Fcall":
				return []string{"E(*v)"}, true
			}
			return nil, false
		}
		switch base {
		case "[]byte":
			return []string{"E(len32(v))", "W(v)"}, true
		case "string":
			return []string{"W(len16(v))", "WS(v)"}, true
		case "[]string":
			return []string{"E(len16(v))", "*E(elem(v))"}, true
		case "time.Time":
			return []string{"E(unix32(v))"}, true
		case "p9p.Qid":
			return []string{"E(v.Type,v.Version,v.Path)"}, true
		case "[]p9p.Qid":
			return []string{"E(len16(v))", "E(ptrs(v)/len=len(v)...)"}, true
		case "p9p.Dir":
			return []string{"E(size16(fields9p(v)...))", "E(fields9p(v)...)"}, true
		case "[]p9p.Dir":
			return []string{"E(ptrs(v)/len=len(v)...)"}, true
		case "p9p.Fcall":
			return []string{"E(v.Type,v.Tag,v.Message)"}, true
		}
	case "decode":
		if ptr && isInt(base) {
			return []string{"R(v)"}, true
		}
		switch typ {
		case "*[]byte":
			return []string{"D(&ll:uint32)", "SET(v=make[]byte(int(ll)))", "R(v)"}, true
		case "*string":
			return []string{"D(&ll:uint16)", "RF(make[]byte(ll))", "SET(v=string(make[]byte(ll)))"}, true
		case "*[]string":
			return []string{"D(&ll:uint16)", "SET(v=make[]string(int(ll)))", "D(ptrs(*v)/len=int(ll)...)"}, true
		case "*time.Time":
			return []string{"D(&epoch:uint32)", "SET(v=time.Unix(int64(epoch),zero:int64).UTC)"}, true
		case "*p9p.Qid":
			return []string{"D(&v.Type,&v.Version,&v.Path)"}, true
		case "*[]p9p.Qid":
			return []string{"D(&ll:uint16)", "SET(v=make[]p9p.Qid(int(ll)))", "D(ptrs(*v)/len=int(ll)...)"}, true
		case "*p9p.Dir":
			return []string{"D(&ll:uint16)", "RF(make[]byte(ll))", "SUB[reader(make[]byte(ll))].D(fields9p(v)...)"}, true
		case "*p9p.Fcall":
			return []string{"D(&v.Type,&v.Tag)", "D(reflect.New(TypeOf(newMessage(v.Type))).Interface)", "SET(&v.Message=reflect.New(TypeOf(newMessage(v.Type))).Elem.Interface.(p9p.Message))"}, true
		}
	case "size":
		if isInt(base) {
			return []string{"ADD(bsize(v))"}, true
		}
		if ptr {
			switch base {
			case "[]byte", "string", "[]string", "p9p.Qid", "[]p9p.Qid", "p9p.Dir", "[]p9p.Dir", "p9p.Fcall":
				return []string{"ADD(S(*v))"}, true
			case "time.Time":
				return []string{"ADD(S(zero:uint32))"}, true
			}
			return nil, false
		}
		switch base {
		case "[]byte":
			return []string{"ADD(u32(bsize(zero:uint32)+len(v)))"}, true
		case "string":
			return []string{"ADD(u32(bsize(zero:uint16)+len(v)))"}, true
		case "[]string":
			return []string{"ADD(S(zero:uint16))", "*ADD(S(elem(v)))"}, true
		case "time.Time":
			return []string{"ADD(S(zero:uint32))"}, true
		case "p9p.Qid":
			return []string{"ADD(S(v.Type,v.Version,v.Path))"}, true
		case "[]p9p.Qid":
			return []string{"ADD(S(zero:uint16))", "ADD(S(ptrs(v)/len=len(v)...))"}, true
		case "p9p.Dir":
			return []string{"ADD((S(fields9p(v)...)+S(zero:uint16)))"}, true
		case "[]p9p.Dir":
			return []string{"ADD(S(ptrs(v)/len=len(v)...))"}, true
		case "p9p.Fcall":
			return []string{"ADD(S(v.Type,v.Tag,v.Message))"}, true
		}
	}
	return nil, false
}

// fieldTypesOnWire: the Go types that can reach the codec as message fields (value forms), plus Fcall/Dir/Qid.
func fieldTypesOnWire(p *Prog) []types.Type {
	seen := map[string]types.Type{}
	var add func(t types.Type)
	add = func(t types.Type) {
		k := shortType(t)
		if _, ok := seen[k]; ok {
			return
		}
		seen[k] = t
		if n, ok := t.(*types.Named); ok && n.Obj().Pkg() != nil && n.Obj().Pkg().Path() == modPath {
			if st, ok := n.Underlying().(*types.Struct); ok {
				for i := 0; i < st.NumFields(); i++ {
					if st.Field(i).Exported() {
						ft := st.Field(i).Type()
						if _, isIface := ft.Underlying().(*types.Interface); isIface {
							continue
						}
						add(ft)
					}
				}
			}
		}
	}
	for k := range spec9p {
		if n := p.Named("p9p", "Message"+k); n != nil {
			if st, ok := n.Underlying().(*types.Struct); ok {
				for i := 0; i < st.NumFields(); i++ {
					if st.Field(i).Exported() {
						add(st.Field(i).Type())
					}
				}
			}
		}
	}
	if n := p.Named("p9p", "Fcall"); n != nil {
		add(n)
	}
	var out []types.Type
	keys := []string{}
	for k := range seen {
		keys = append(keys, k)
	}
	sort.Strings(keys)
	for _, k := range keys {
		out = append(out, seen[k])
	}
	return out
}

// forms (pointer/value) of the message kinds each role special-cases; filled by c01MessageClause
var msgForms = map[string]map[string]map[string]bool{}

func c01Grammar(r *Run) {
	p := r.P
	msgForms = map[string]map[string]map[string]bool{}
	fns := map[string]*ssa.Function{"encode": p.Fn("p9p:(*encoder).encode"), "decode": p.Fn("p9p:(*decoder).decode"), "size": p.Fn("p9p:size9p")}
	for role, fn := range fns {
		if fn == nil {
			r.Undecided("grammar", role, token.NoPos, "codec function not found")
			return
		}
		r.SawFn(fnName(fn))
	}
	wire := fieldTypesOnWire(p)
	for _, role := range []string{"encode", "decode", "size"} {
		fn := fns[role]
		// the switch operand: the value loaded from the variadic slice element
		var operand ssa.Value
		eachInstr(fn, func(in ssa.Instruction) {
			if ta, ok := in.(*ssa.TypeAssert); ok && ta.CommaOk && operand == nil {
				if u, ok := ta.X.(*ssa.UnOp); ok {
					if _, ok := u.X.(*ssa.IndexAddr); ok {
						operand = ta.X
					}
				}
			}
		})
		if operand == nil {
			r.Undecided("grammar", role+": type switch operand", fn.Pos(), "cannot find the type switch over the variadic arguments")
			continue
		}
		clauses := typeSwitchClauses(fn, operand)
		have := map[string]*tsClause{}
		for _, c := range clauses {
			for _, t := range c.types {
				have[shortType(t)] = c
			}
		}
		// (g) exhaustiveness
		for _, t := range wire {
			k := shortType(t)
			need := k
			if role == "decode" {
				need = "*" + k
			}
			_, ok := have[need]
			if isP9P(t, "Fcall") && role != "decode" {
				// Marshal/Size are handed *Fcall
				_, ok2 := have["*"+k]
				ok = ok && ok2
			}
			r.Check(ok, "grammar/exhaustive", fmt.Sprintf("%s has a clause for %s", role, need), fn.Pos(),
				fmt.Sprintf("%s has no clause for the field type %s: such fields are silently skipped (%s)", role, need, map[string]string{"encode": "nothing is emitted", "decode": "nothing is consumed", "size": "counted as 0 bytes"}[role]))
		}
		// Message clause present
		if _, ok := have["p9p.Message"]; !ok {
			r.Bad("grammar/exhaustive", role+" has a clause for Message", fn.Pos(), "no Message clause")
		}
		// (h,i) per-clause layout
		nClauses := 0
		for _, c := range clauses {
			if len(c.types) == 1 && isP9P(c.types[0], "Message") {
				c01MessageClause(r, role, fn, c)
				nClauses++
				continue
			}
			g := newGctx(fn, c.vals)
			blocks := regionBlocks(fn, c.body, nil)
			ev, notes := clauseEvents(fn, blocks, g, role)
			for _, t := range c.types {
				k := shortType(t)
				want, known := expectedEvents(role, k)
				key := fmt.Sprintf("%s(%s)", role, k)
				if !known {
					if k == "*[]p9p.Dir" && role == "decode" {
						// directory listings: not one of the 27 messages; shape only
						okShape := strings.Contains(strings.Join(ev, " "), "*D(&element")
						r.Check(okShape, "grammar/layout", key, c.body.Instrs[0].Pos(), "decode(*[]Dir) does not loop over decode(&element): "+strings.Join(ev, " "))
						continue
					}
					r.Undecided("grammar/layout", key, c.body.Instrs[0].Pos(), "no expected layout for this type in the checker's table")
					continue
				}
				nClauses++
				if len(notes) > 0 {
					r.Bad("grammar/endianness", key, c.body.Instrs[0].Pos(), strings.Join(notes, "; "))
				}
				cev, cwant := canonEvents(role, ev), canonEvents(role, want)
				// a pointer clause may re-dispatch to the value clause (`e.encode(*v)`) or do that clause's work on *v
				// directly (a shared helper `e.encodeDir(*v)`): the value clause's layout with *v for v
				if strings.Join(cev, " ") != strings.Join(cwant, " ") && strings.HasPrefix(k, "*") && role != "decode" {
					if wantV, knownV := expectedEvents(role, strings.TrimPrefix(k, "*")); knownV {
						var alt []string
						for _, e := range wantV {
							alt = append(alt, substV(e, "*v"))
						}
						if calt := canonEvents(role, alt); strings.Join(cev, " ") == strings.Join(calt, " ") {
							cwant, want = calt, alt
						}
					}
				}
				if strings.Join(cev, " ") == strings.Join(cwant, " ") {
					r.Ok("grammar/layout", key, c.body.Instrs[0].Pos(), strings.Join(cev, " "))
				} else {
					r.Bad("grammar/layout", key, c.body.Instrs[0].Pos(),
						"the clause performs ["+strings.Join(ev, " ")+"] but the 9P2000 layout of "+k+" is ["+strings.Join(want, " ")+"]", "got: "+strings.Join(ev, " "), "want: "+strings.Join(want, " "))
				}
			}
		}
		r.Floor("grammar/layout", nClauses, map[string]int{"encode": 27, "decode": 17, "size": 27}[role], "typed clauses in "+role)
	}
	// sibling agreement on the special cases: size9p must count the extra stat size field for exactly the forms
	// (pointer / value) of Rstat and Twstat for which encode emits it — otherwise Size() != len(Marshal()) for that form
	for _, kind := range []string{"MessageRstat", "MessageTwstat"} {
		for _, form := range []string{"value", "pointer"} {
			e, s := msgForms["encode"][kind][form], msgForms["size"][kind][form]
			key := fmt.Sprintf("size/encode agree on the %s form of %s", form, kind)
			if e == s {
				r.Ok("grammar/layout", key, fns["size"].Pos())
			} else {
				r.Bad("grammar/layout", key, fns["size"].Pos(), fmt.Sprintf("encode special-cases the %s form: %v, size9p: %v — Size() and the marshalled length differ by 2 for that form (frames can exceed msize by 2 bytes unnoticed)", form, e, s))
			}
		}
	}
}

// the Message clause: inner switch on the message kind for the doubled stat size
func c01MessageClause(r *Run, role string, fn *ssa.Function, c *tsClause) {
	var mv ssa.Value
	for v := range c.vals {
		if _, ok := v.(*ssa.Extract); ok {
			mv = v
		}
	}
	if mv == nil {
		r.Undecided("grammar/layout", role+"(Message)", fn.Pos(), "clause variable not found")
		return
	}
	inner := typeSwitchClauses(fn, mv)
	var innerBodies []*ssa.BasicBlock
	for _, ic := range inner {
		innerBodies = append(innerBodies, ic.body)
	}
	mvals := map[ssa.Value]bool{mv: true}
	for _, ic := range inner {
		for v := range ic.vals {
			mvals[v] = true
		}
	}
	g := newGctx(fn, mvals)
	pos := c.body.Instrs[0].Pos()
	tail, notes := clauseEvents(fn, regionBlocks(fn, c.body, innerBodies), g, role)
	if len(notes) > 0 {
		r.Bad("grammar/endianness", role+"(Message)", pos, strings.Join(notes, "; "))
	}
	// events per message kind: a clause listing several kinds (pointer and value forms, or Rstat and Twstat merged
	// when their bodies agree) attributes its events to each of them
	got := map[string][][]string{}
	valueForm := map[string]bool{}
	for _, ic := range inner {
		ev, _ := clauseEvents(fn, regionBlocks(fn, ic.body, nil), g, role)
		for _, t := range ic.types {
			st := shortType(t)
			name := strings.TrimPrefix(strings.TrimPrefix(st, "*"), "p9p.")
			got[name] = append(got[name], ev)
			if msgForms[role] == nil {
				msgForms[role] = map[string]map[string]bool{}
			}
			if msgForms[role][name] == nil {
				msgForms[role][name] = map[string]bool{}
			}
			if !strings.HasPrefix(st, "*") {
				valueForm[name] = true
				msgForms[role][name]["value"] = true
			} else {
				msgForms[role][name]["pointer"] = true
			}
		}
	}
	want := map[string]map[string][]string{
		"encode": {
			"MessageRstat":  {"E(size16(fields9p(v)...))"},
			"MessageTwstat": {"E(fields9p(v)[0])", "E(size16(fields9p(v)[1:]...))"},
			"tail":          {"E(fields9p(v)|fields9p(v)[1:]...)"},
		},
		"decode": {
			"MessageRstat":  {"D(&ll:uint16)"},
			"MessageTwstat": {"D(fields9p(v)[0])", "D(&ll:uint16)"},
			"tail":          {"D(fields9p(v)|fields9p(v)[1:]...)"},
		},
		"size": {
			"MessageRstat":  {"ADD(S(zero:uint16))"},
			"MessageTwstat": {"ADD(S(zero:uint16))"},
			"tail":          {"ADD(S(fields9p(v)...))"},
		},
	}[role]
	got["tail"] = [][]string{tail}
	valueForm["tail"] = true
	keys := []string{}
	for k := range want {
		keys = append(keys, k)
	}
	sort.Strings(keys)
	for _, k := range keys {
		key := fmt.Sprintf("%s(Message) %s", role, k)
		g2, ok := got[k]
		if !ok || !valueForm[k] {
			r.Bad("grammar/layout", key, pos, "no special case for "+k+" (value form): the extra size[2] of the stat record is not handled")
			continue
		}
		bad := ""
		for _, ev := range g2 {
			if strings.Join(canonEvents(role, ev), " ") != strings.Join(canonEvents(role, want[k]), " ") {
				bad = strings.Join(ev, " ")
			}
		}
		if bad == "" {
			r.Ok("grammar/layout", key, pos, strings.Join(g2[0], " "))
		} else {
			r.Bad("grammar/layout", key, pos, "performs ["+bad+"], expected ["+strings.Join(want[k], " ")+"]")
		}
	}
	for k := range got {
		if _, ok := want[k]; !ok {
			r.Bad("grammar/layout", fmt.Sprintf("%s(Message) special case %s", role, k), pos, "unexpected special case for "+k+": 9P2000 has extra framing only for Rstat and Twstat")
		}
	}
}

// ---- canonical forms: equivalent spellings of one layout compare equal -------------

func splitTop(s string) []string {
	var out []string
	depth, start := 0, 0
	for i, c := range s {
		switch c {
		case '(', '[':
			depth++
		case ')', ']':
			depth--
		case ',':
			if depth == 0 {
				out = append(out, s[start:i])
				start = i + 1
			}
		}
	}
	if start <= len(s) {
		out = append(out, s[start:])
	}
	return out
}

func splitPlus(s string) []string {
	for strings.HasPrefix(s, "(") && strings.HasSuffix(s, ")") && balanced(s[1:len(s)-1]) {
		s = s[1 : len(s)-1]
	}
	var out []string
	depth, start := 0, 0
	for i, c := range s {
		switch c {
		case '(', '[':
			depth++
		case ')', ']':
			depth--
		case '+':
			if depth == 0 {
				out = append(out, s[start:i])
				start = i + 1
			}
		}
	}
	out = append(out, s[start:])
	return out
}

func balanced(s string) bool {
	d := 0
	for _, c := range s {
		if c == '(' {
			d++
		}
		if c == ')' {
			d--
			if d < 0 {
				return false
			}
		}
	}
	return d == 0
}

var intClass = []string{"len16(", "len32(", "unix32(", "size16(", "zero:uint"}

func isIntClass(a string) bool {
	for _, p := range intClass {
		if strings.HasPrefix(a, p) {
			return true
		}
	}
	return false
}

func zeroSize(a string) (string, bool) {
	for _, pre := range []string{"zero:", "bsize(zero:"} {
		if strings.HasPrefix(a, pre) {
			t := strings.TrimSuffix(strings.TrimPrefix(a, pre), ")")
			switch t {
			case "uint8":
				return "1", true
			case "uint16":
				return "2", true
			case "uint32":
				return "4", true
			case "uint64":
				return "8", true
			}
		}
	}
	return "", false
}

// canonEvents rewrites an event list into a normal form:
//
//	encode: E(a,b) = E(a) E(b); E(<integer expression>) = W(<integer expression>)
//	decode: D(a,b) = D(a) D(b); D(&x:uintN) = R(&x:uintN)
//	size:   ADD(S(a,b)) = ADD(S(a)) ADD(S(b)); S(zero:uintN) = bsize(zero:uintN) = N/8; sums are flattened; terms are sorted
func canonEvents(role string, ev []string) []string {
	var out []string
	for _, e := range ev {
		e = stripIntWrap(e)
		star := ""
		if strings.HasPrefix(e, "*") {
			star, e = "*", e[1:]
		}
		switch {
		case role == "encode" && strings.HasPrefix(e, "E(") && strings.HasSuffix(e, ")"):
			for _, a := range splitTop(e[2 : len(e)-1]) {
				if isIntClass(a) {
					out = append(out, star+"W("+a+")")
				} else {
					out = append(out, star+"E("+a+")")
				}
			}
		case role == "decode" && strings.HasPrefix(e, "D(") && strings.HasSuffix(e, ")"):
			for _, a := range splitTop(e[2 : len(e)-1]) {
				if strings.HasPrefix(a, "&") && strings.Contains(a, ":uint") && !strings.Contains(a, ".") {
					out = append(out, star+"R("+a+")")
				} else {
					out = append(out, star+"D("+a+")")
				}
			}
		case role == "size" && strings.HasPrefix(e, "ADD(") && strings.HasSuffix(e, ")"):
			var terms []string
			var flat func(x string)
			flat = func(x string) {
				parts := splitPlus(x)
				if len(parts) > 1 {
					for _, p := range parts {
						flat(p)
					}
					return
				}
				x = parts[0]
				if strings.HasPrefix(x, "u32(") && strings.HasSuffix(x, ")") {
					flat(x[4 : len(x)-1])
					return
				}
				if strings.HasPrefix(x, "S(") && strings.HasSuffix(x, ")") {
					for _, a := range splitTop(x[2 : len(x)-1]) {
						if z, ok := zeroSize(a); ok {
							terms = append(terms, z)
						} else {
							terms = append(terms, "S("+a+")")
						}
					}
					return
				}
				if z, ok := zeroSize(x); ok {
					terms = append(terms, z)
					return
				}
				terms = append(terms, x)
			}
			flat(e[4 : len(e)-1])
			for _, t := range terms {
				out = append(out, star+"ADD("+t+")")
			}
		default:
			out = append(out, star+e)
		}
	}
	if role == "size" {
		sort.Strings(out)
	}
	return out
}

// substV replaces the clause-variable token v of a class string by arg (tokens are delimited by non-identifier characters).
func substV(k, arg string) string {
	var b strings.Builder
	isId := func(c byte) bool {
		return c == '_' || c >= 'a' && c <= 'z' || c >= 'A' && c <= 'Z' || c >= '0' && c <= '9'
	}
	for i := 0; i < len(k); i++ {
		if k[i] == 'v' && (i == 0 || !isId(k[i-1])) && (i+1 == len(k) || !isId(k[i+1])) {
			b.WriteString(arg)
			continue
		}
		b.WriteByte(k[i])
	}
	return b.String()
}

// stripIntWrap removes value-preserving int(...) wrappers (widening of a narrower unsigned wire value) from a class string.
func stripIntWrap(s string) string {
	isId := func(c byte) bool {
		return c == '_' || c >= 'a' && c <= 'z' || c >= 'A' && c <= 'Z' || c >= '0' && c <= '9'
	}
	for {
		i := -1
		for j := 0; j+4 <= len(s); j++ {
			if s[j:j+4] == "int(" && (j == 0 || !isId(s[j-1])) {
				i = j
				break
			}
		}
		if i < 0 {
			return s
		}
		depth, end := 0, -1
		for j := i + 3; j < len(s); j++ {
			if s[j] == '(' {
				depth++
			} else if s[j] == ')' {
				depth--
				if depth == 0 {
					end = j
					break
				}
			}
		}
		if end < 0 {
			return s
		}
		s = s[:i] + s[i+4:end] + s[end+1:]
	}
}
