package main

import (
	"fmt"
	"go/token"
	"go/types"
	"strings"

	"golang.org/x/tools/go/ssa"
)

func init() { register("C20", checkC20) }

// ownFid: v is a load of the receiver's own fid/afid field (receiver may be a spilled value copy, or embedded: f.cEnt.fid).
func ownFid(fn *ssa.Function, v ssa.Value) bool {
	u, ok := v.(*ssa.UnOp)
	if !ok || u.Op != token.MUL {
		if f, ok := v.(*ssa.Field); ok {
			return rootIsReceiver(fn, f.X) && (fieldNameV(f.X.Type(), f.Field) == "fid" || fieldNameV(f.X.Type(), f.Field) == "afid")
		}
		return false
	}
	fa, ok := u.X.(*ssa.FieldAddr)
	if !ok {
		return false
	}
	n := fieldName(fa.X.Type(), fa.Field)
	if n != "fid" && n != "afid" {
		return false
	}
	return rootIsReceiver(fn, fa.X)
}

// rootIsReceiver: the address/value chain starts at the method's receiver (directly, through its spill slot, or through embedded fields).
func rootIsReceiver(fn *ssa.Function, v ssa.Value) bool {
	if len(fn.Params) == 0 || fn.Signature.Recv() == nil {
		return false
	}
	recv := fn.Params[0]
	for depth := 0; depth < 6; depth++ {
		switch x := v.(type) {
		case *ssa.Parameter:
			return x == recv
		case *ssa.Alloc:
			for _, r := range referrers(x) {
				if st, ok := r.(*ssa.Store); ok && st.Addr == ssa.Value(x) && st.Val == ssa.Value(recv) {
					return true
				}
			}
			return false
		case *ssa.FieldAddr:
			v = x.X
		case *ssa.Field:
			v = x.X
		default:
			return false // in particular: no pointer dereference on the way (ent.fs.root.fid is another entry's fid)
		}
	}
	return false
}

func checkC20(r *Run) {
	p := r.P
	r.Decides = append(r.Decides,
		"every Session call made by the client file-system layer (cEnt, fileRef, aFile, openDir, fsState) passes the receiver's own fid/afid, or a fid just obtained from the allocator, in the fid position(s)",
		"new fids come only from fsState.newFid, which is the only writer of nextfid after construction and increments it before returning it (monotonic, never reused)",
		"cEnt.Walk walks to a freshly allocated fid, compares the number of returned qids with the number of names it actually sent (the normalised slice, same value), and returns the new entry only on the edge where they are equal and the call succeeded; every other exit returns no entry",
		"Create/Open return entries/files carrying the receiver's fid; Clunk/Remove/Stat/WStat forward to the same-named Session call")
	r.NotDecided = append(r.NotDecided, "the server-side count of bound fids over histories", "concurrent use of the non-atomic allocator")

	cfile := func(fn *ssa.Function) bool { return p.FileOf(fn.Pos()) == "cfilesys.go" }
	c20SessionWalkSendsAllNames(r)
	c20Attach(r)
	// the names cEnt.Walk sends are NormalizePath(names): the layer is faithful only if that normalisation is the
	// specified one (rule shared with C16)
	c16Normalize(r, p.Fn("p9p:NormalizePath"))
	c16NormalizeFresh(r, p.Fn("p9p:NormalizePath"), "walk")
	// (1) fid arguments
	nCalls := 0
	for _, fn := range p.FuncsOfPkg("p9p") {
		if !cfile(fn) {
			continue
		}
		r.SawFn(fnName(fn))
		eachInstr(fn, func(in ssa.Instruction) {
			c, ok := in.(*ssa.Call)
			if !ok || !c.Call.IsInvoke() || !isP9P(c.Call.Value.Type(), "Session") {
				return
			}
			m := c.Call.Method.Name()
			if m == "Version" || m == "Stop" {
				return
			}
			nCalls++
			r.CallSites++
			// forwarders must call the same-named method
			if fn.Signature.Recv() != nil && fn.Parent() == nil {
				same := map[string]string{"Stat": "Stat", "WStat": "WStat", "Clunk": "Clunk", "Remove": "Remove", "Read": "Read", "Write": "Write", "Create": "Create", "Open": "Open", "Walk": "Walk", "Auth": "Auth", "Attach": "Attach"}
				if want, ok := same[fn.Name()]; ok {
					r.Check(m == want, "own-fid", fmt.Sprintf("%s: forwards to Session.%s", fnName(fn), want), c.Pos(), "the method calls Session."+m+" instead of Session."+want)
				}
			}
			for i, a := range c.Call.Args {
				if !isP9P(a.Type(), "Fid") {
					continue
				}
				ok := ownFid(fn, a)
				why := ""
				if !ok {
					// a fid just allocated: result of newFid(), or field fid of a value returned by newEnt()
					if fresh, desc := freshFid(fn, a); fresh {
						ok = true
						why = desc
					}
				}
				if !ok {
					if k, isC := a.(*ssa.Const); isC {
						if v, ok2 := constInt(k); ok2 && uint32(v) == 0xFFFFFFFF && m == "Attach" {
							ok, why = true, "NOFID (no auth)"
						}
					}
				}
				if !ok && m == "Attach" {
					// Attach's afid: NOFID or the auth file's own fid (directly, through a phi, or computed by a helper)
					if authFidValue(p, a, 0) {
						ok, why = true, "NOFID or the auth file's fid"
					}
				}
				r.Check(ok, "own-fid", fmt.Sprintf("%s: Session.%s arg %d is the entry's own fid", fnName(fn), m, i), c.Pos(),
					"the session call is issued on a fid that is neither the receiver's own nor freshly allocated ("+valStr(a)+"): operations hit another entry's fid", why)
			}
		})
	}
	r.Floor("own-fid", nCalls, 13, "Session calls in the client layer")

	// (2) allocator
	nf := p.Fn("p9p:(*fsState).newFid")
	if nf == nil {
		r.Undecided("allocator", "(*fsState).newFid", token.NoPos, "anchor not found")
	} else {
		fa := p.FA(nf)
		okInc, okRet := false, false
		var stored ssa.Value
		eachInstr(nf, func(in ssa.Instruction) {
			st, ok := in.(*ssa.Store)
			if !ok {
				return
			}
			f, ok := st.Addr.(*ssa.FieldAddr)
			if !ok || fieldName(f.X.Type(), f.Field) != "nextfid" {
				return
			}
			stored = st.Val
			if b, ok := st.Val.(*ssa.BinOp); ok && b.Op == token.ADD {
				if c, ok := constInt(b.Y); ok && c == 1 && isLoadOfField(b.X, "fsState", "nextfid") {
					okInc = true
				}
			}
		})
		okRet = true
		nRetNF := 0
		for _, ret := range returnsOf(nf) {
			nRetNF++
			// every way out hands back the value just stored by the increment (no second source of fids: free lists, caches)
			if !(stored != nil && fa.Sym(ret.Results[0]).K == fa.Sym(stored).K) {
				okRet = false
			}
		}
		if nRetNF == 0 {
			okRet = false
		}
		r.Check(okInc && okRet, "allocator", "newFid: increments nextfid and returns the new value", nf.Pos(), "the allocator can hand out the same fid twice")
	}
	for _, fn := range p.FuncsOfPkg("p9p") {
		eachInstr(fn, func(in ssa.Instruction) {
			st, ok := in.(*ssa.Store)
			if !ok {
				return
			}
			f, ok := st.Addr.(*ssa.FieldAddr)
			if !ok || !isP9P(f.X.Type(), "fsState") || fieldName(f.X.Type(), f.Field) != "nextfid" {
				return
			}
			okW := fn == nf
			if a, isAlloc := f.X.(*ssa.Alloc); isAlloc && a.Parent() == fn {
				okW = true // the constructor's literal
			}
			r.Check(okW, "allocator", fnName(fn)+": nextfid written only by the allocator/constructor", st.Pos(), "nextfid is modified outside newFid: fids can repeat")
		})
	}

	c20Walk(r)
	c20Create(r)
}

// freshFid: v is the result of newFid() or the fid field of a value returned by newEnt() in the same function.
func freshFid(fn *ssa.Function, v ssa.Value) (bool, string) {
	if c, ok := v.(*ssa.Call); ok && calleeName(&c.Call) == "(*p9p.fsState).newFid" {
		return true, "fresh fid from newFid()"
	}
	if u, ok := v.(*ssa.UnOp); ok && u.Op == token.MUL {
		if fa, ok := u.X.(*ssa.FieldAddr); ok && fieldName(fa.X.Type(), fa.Field) == "fid" {
			if a, ok := fa.X.(*ssa.Alloc); ok {
				for _, r := range referrers(a) {
					if st, ok := r.(*ssa.Store); ok && st.Addr == ssa.Value(a) {
						if c, ok := st.Val.(*ssa.Call); ok && calleeName(&c.Call) == "(*p9p.fsState).newEnt" {
							return true, "fid of a fresh entry from newEnt()"
						}
					}
				}
			}
		}
	}
	return false, ""
}

func c20Walk(r *Run) {
	p := r.P
	w := p.Fn("p9p:(cEnt).Walk")
	ne := p.Fn("p9p:(*fsState).newEnt")
	if w == nil || ne == nil {
		r.Undecided("walk", "(cEnt).Walk / newEnt", token.NoPos, "anchors not found")
		return
	}
	// newEnt's fid comes from newFid
	okNE := false
	for _, ret := range returnsOf(ne) {
		if flds, _, ok := compositeFields(ret.Results[0]); ok {
			if c, ok := flds["fid"].(*ssa.Call); ok && calleeName(&c.Call) == "(*p9p.fsState).newFid" {
				okNE = true
			}
		}
	}
	r.Check(okNE, "walk", "newEnt: the new entry's fid comes from the allocator", ne.Pos(), "new entries do not get a fresh fid")
	var sw *ssa.Call
	for _, c := range findCallsInvoke(w, "Walk", "Session") {
		sw = c
	}
	if sw == nil {
		r.Bad("walk", "cEnt.Walk: issues Session.Walk", w.Pos(), "no Session.Walk call")
		return
	}
	sent := sw.Call.Args[len(sw.Call.Args)-1] // the names actually sent
	// the sent names are the normalised ones (result of NormalizePath on the parameter)
	okNorm := false
	if ex, ok := sent.(*ssa.Extract); ok && ex.Index == 0 {
		if c, ok := ex.Tuple.(*ssa.Call); ok && calleeName(&c.Call) == "p9p.NormalizePath" {
			okNorm = true
		}
	}
	r.Check(okNorm, "walk", "cEnt.Walk: sends the normalised names", sw.Pos(), "un-normalised names are sent (the server rejects '.', '' and 'x/..' forms)")
	qids := resultN(sw, 0)
	// success return: returns `next` on the edge err == nil && len(qids) == len(sent)
	nSucc := 0
	for _, ret := range returnsOf(w) {
		if len(ret.Results) != 3 {
			continue
		}
		ent := stripConv(ret.Results[1])
		// is the returned entry the fresh one?
		isNext := false
		if u, ok := ent.(*ssa.UnOp); ok && u.Op == token.MUL {
			if a, ok := u.X.(*ssa.Alloc); ok {
				for _, rf := range referrers(a) {
					if st, ok := rf.(*ssa.Store); ok && st.Addr == ssa.Value(a) {
						if c, ok := st.Val.(*ssa.Call); ok && calleeName(&c.Call) == "(*p9p.fsState).newEnt" {
							isNext = true
						}
					}
				}
			}
		}
		if !isNext {
			// must not claim success with an entry: error non-nil
			if isNilConst(ret.Results[2]) {
				r.Bad("walk", "cEnt.Walk: success returns the walked-to entry", ret.Pos(), "a nil error is returned together with an entry that is not the walked-to one")
			}
			continue
		}
		nSucc++
		okErr := callSucceededAt(sw, ret) && isNilConst(ret.Results[2])
		// completeness test against the names that were sent
		okCmp := false
		for _, cd := range condsAtInstr(ret) {
			nc := normCond(cd)
			b, ok := nc.V.(*ssa.BinOp)
			if !ok || !((b.Op == token.EQL && nc.Truth) || (b.Op == token.NEQ && !nc.Truth)) {
				continue
			}
			// the comparison, as an affine form, is len(qids) - len(names sent) (however it is spelled:
			// `len(qids) != len(steps)`, `last+1 != len(steps)` with last = len(qids)-1, …)
			if _, _, isInt := intBits(b.X.Type()); isInt {
				wfa := p.FA(w)
				d := wfa.Lin(b.X).Sub(wfa.Lin(b.Y))
				want := wfa.linSym(lenOf(wfa.Sym(qids)), 0).Sub(wfa.linSym(lenOf(wfa.Sym(sent)), 0))
				if d.Equal(want) || d.Equal(want.Scale(-1)) {
					okCmp = true
				}
			}
		}
		r.Check(okErr, "walk", "cEnt.Walk: the new entry is returned only when the session call succeeded", ret.Pos(), "an entry for an unbound fid is returned after a failed walk")
		r.Check(okCmp, "walk", "cEnt.Walk: complete iff len(qids) == len(names sent)", ret.Pos(),
			"the completeness test does not compare the reply with the names actually sent: a walk the server completed is reported as failure (the bound fid leaks), or a partial walk is reported as success (entry for an unbound fid)")
	}
	r.Floor("walk", nSucc, 1, "success return of cEnt.Walk")
	// the new fid position is the fresh entry's fid, the source is the receiver's fid (checked by own-fid)
	okNew := false
	if len(sw.Call.Args) >= 3 {
		if fresh, _ := freshFid(w, sw.Call.Args[2]); fresh {
			okNew = true
		}
	}
	r.Check(okNew, "walk", "cEnt.Walk: walks to a freshly allocated fid", sw.Pos(), "the walk's newfid is not fresh: an existing binding is overwritten / duplicate fid")
	_ = strings.Contains
}

func c20Create(r *Run) {
	p := r.P
	for _, name := range []string{"Create", "Open"} {
		fn := p.Fn("p9p:(cEnt)." + name)
		if fn == nil {
			r.Undecided("entry-fid", "(cEnt)."+name, token.NoPos, "anchor not found")
			continue
		}
		// every fileRef literal returned embeds the receiver (so it carries the receiver's fid) — the literal may be
		// built by a helper method called on the receiver (`ent.fileEnt(iounit)`)
		n := 0
		top := fn
		scopes := []*ssa.Function{fn}
		eachInstr(top, func(in ssa.Instruction) {
			c, ok := in.(*ssa.Call)
			if !ok {
				return
			}
			g := staticCallee(&c.Call)
			if g == nil || g.Blocks == nil || g.Pkg != top.Pkg || g == top || g.Signature.Recv() == nil || len(c.Call.Args) == 0 {
				return
			}
			if !types.Identical(g.Signature.Recv().Type(), top.Signature.Recv().Type()) {
				return
			}
			recv := stripConv(c.Call.Args[0])
			isOwn := recv == ssa.Value(top.Params[0])
			if u, ok := recv.(*ssa.UnOp); ok && u.Op == token.MUL && rootIsReceiver(top, u.X) {
				isOwn = true
			}
			if isOwn {
				scopes = append(scopes, g)
			}
		})
		for _, fn := range scopes {
			fn := fn
			eachInstr(fn, func(in ssa.Instruction) {
				a, ok := in.(*ssa.Alloc)
				if !ok || !isP9P(a.Type(), "fileRef") || a.Comment != "complit" {
					return
				}
				flds, _, _ := allocFields(a)
				v := flds["cEnt"]
				n++
				ok2 := false
				if v != nil {
					if u, ok := stripConv(v).(*ssa.UnOp); ok && u.Op == token.MUL && rootIsReceiver(fn, u.X) {
						ok2 = true
					}
					if stripConv(v) == ssa.Value(fn.Params[0]) {
						ok2 = true
					}
				}
				r.Check(ok2, "entry-fid", "cEnt."+name+": the file returned is bound to the entry's own fid", in.Pos(), "the file handle returned refers to another entry's fid")
			})
		}
		r.Floor("entry-fid", n, 1, "fileRef literal in cEnt."+name)
	}
}

// The success test in cEnt.Walk compares the number of qids returned with the number of names it asked for; that is
// only meaningful if the client session puts every one of those names into the Twalk (or refuses the call): a
// session that sends a prefix makes the server bind newfid after a walk the layer then reports as incomplete.
func c20SessionWalkSendsAllNames(r *Run) {
	p := r.P
	cw := p.Fn("p9p:(*client).Walk")
	if cw == nil {
		r.Undecided("walk", "(*client).Walk", token.NoPos, "anchor not found")
		return
	}
	r.SawFn(fnName(cw))
	var names *ssa.Parameter
	for _, prm := range cw.Params {
		if sl, ok := prm.Type().Underlying().(*types.Slice); ok {
			if b, ok := sl.Elem().Underlying().(*types.Basic); ok && b.Kind() == types.String {
				names = prm
			}
		}
	}
	n := 0
	eachInstr(cw, func(in ssa.Instruction) {
		a, ok := in.(*ssa.Alloc)
		if !ok || !isP9P(a.Type(), "MessageTwalk") {
			return
		}
		flds, _, _ := allocFields(a)
		n++
		r.Check(names != nil && flds["Wnames"] == ssa.Value(names), "walk", "client.Walk: the Twalk carries exactly the names it was given (all of them, or the call is refused)", in.Pos(),
			"the request carries something other than the caller's name list (e.g. a truncated prefix): the server completes and binds a walk the caller takes for incomplete — the new fid is leaked")
	})
	r.Floor("walk", n, 1, "Twalk literal in client.Walk")
	// what the call reports is what the server answered: the qids handed back on success are the Rwalk's own list
	// (its length is how the layer above tells a completed walk from a partial one)
	var isReplyQids func(f *ssa.Function, v ssa.Value, d int) bool
	isReplyQids = func(f *ssa.Function, v ssa.Value, d int) bool {
		v = stripConv(v)
		switch x := v.(type) {
		case *ssa.Field:
			if fieldNameV(x.X.Type(), x.Field) != "Qids" || !isP9P(x.X.Type(), "MessageRwalk") {
				return false
			}
			src := x.X
			if ex, ok := src.(*ssa.Extract); ok {
				src = ex.Tuple
			}
			_, isTA := src.(*ssa.TypeAssert)
			return isTA
		case *ssa.UnOp:
			if fad, ok := x.X.(*ssa.FieldAddr); ok && x.Op == token.MUL && fieldName(fad.X.Type(), fad.Field) == "Qids" {
				if ta, ok := stripConv(fad.X).(*ssa.TypeAssert); ok {
					_ = ta
					return true
				}
				if ex, ok := fad.X.(*ssa.Extract); ok {
					_, isTA := ex.Tuple.(*ssa.TypeAssert)
					return isTA
				}
				if al, ok := fad.X.(*ssa.Alloc); ok && !al.Heap && isP9P(al.Type(), "MessageRwalk") {
					// a local holding the asserted reply: every store into it is the type assertion's value
					ns, good := 0, true
					for _, ref := range *al.Referrers() {
						if st, ok := ref.(*ssa.Store); ok && st.Addr == ssa.Value(al) {
							ns++
							src := st.Val
							if ex, ok := src.(*ssa.Extract); ok {
								src = ex.Tuple
							}
							if _, isTA := src.(*ssa.TypeAssert); !isTA {
								good = false
							}
						}
					}
					return ns > 0 && good
				}
			}
			if sl := storedLocal(x); sl != nil && sl != ssa.Value(x) {
				return isReplyQids(f, sl, d+1)
			}
		case *ssa.Phi:
			if d > 3 {
				return false
			}
			for _, e := range x.Edges {
				if !isNilConst(e) && !isReplyQids(f, e, d+1) {
					return false
				}
			}
			return true
		case *ssa.Extract:
			if call, ok := x.Tuple.(*ssa.Call); ok && d < 2 {
				if g := call.Call.StaticCallee(); g != nil && g.Blocks != nil {
					all := true
					for _, gr := range returnsOf(g) {
						if x.Index < len(gr.Results) && !isNilConst(gr.Results[x.Index]) && !isReplyQids(g, gr.Results[x.Index], d+1) {
							all = false
						}
					}
					return all
				}
			}
		}
		return false
	}
	nr := 0
	for _, ret := range returnsOf(cw) {
		if len(ret.Results) != 2 || isNilConst(ret.Results[0]) {
			continue
		}
		if !isNilConst(ret.Results[1]) && errNeverNilAt(ret.Results[1], ret) {
			continue
		}
		nr++
		r.Check(isReplyQids(cw, ret.Results[0], 0), "walk", "client.Walk: on success the qids returned are the Rwalk's own list", ret.Pos(),
			"the list handed back is not the reply's: its length no longer tells how far the server walked, and a partial walk can be taken for a complete one")
	}
	r.Floor("walk", nr, 1, "success return of client.Walk")
}

// Attach/Auth: every entry handed out on success carries a fid obtained from the allocator in this very call and
// bound by this call's own (successful) session request — entries are never shared between two hand-outs, so live
// entries correspond to pairwise distinct server fids.
func c20Attach(r *Run) {
	p := r.P
	n := 0
	for _, spec := range []struct{ fn, method, field string }{{"p9p:(*fsState).Attach", "Attach", "fid"}, {"p9p:(*fsState).Auth", "Auth", "afid"}} {
		fn := p.Fn(spec.fn)
		if fn == nil {
			r.Undecided("attach", spec.fn, token.NoPos, "anchor not found")
			continue
		}
		r.SawFn(fnName(fn))
		calls := findCallsInvoke(fn, spec.method, "Session")
		for _, ret := range returnsOf(fn) {
			if len(ret.Results) != 2 || !isNilConst(ret.Results[1]) {
				continue
			}
			n++
			key := fmt.Sprintf("%s: the entry returned on success carries a fid allocated and bound in this call", fnName(fn))
			flds, _, ok := compositeFields(ret.Results[0])
			if !ok || flds[spec.field] == nil {
				r.Bad("attach", key, ret.Pos(), "the entry returned is not built here from a fresh fid (e.g. a cached entry is handed out again): two live entries share one server fid, and clunking one kills the other")
				continue
			}
			fid := flds[spec.field]
			fresh, _ := freshFid(fn, fid)
			bound := false
			for _, c := range calls {
				for _, a := range c.Call.Args {
					if a == fid && callSucceededAt(c, ret) {
						bound = true
					}
				}
			}
			r.Check(fresh && bound, "attach", key, ret.Pos(), "the returned entry's fid is not a freshly allocated one that this call's own session request bound")
		}
	}
	r.Floor("attach", n, 2, "success returns of fsState.Attach/Auth")
}

// authFidValue: v is NOFID, the afid field of an auth file, a phi of such values, or the result of a helper all of
// whose returns yield such a value at that result position.
func authFidValue(p *Prog, v ssa.Value, depth int) bool {
	if depth > 4 {
		return false
	}
	switch x := v.(type) {
	case *ssa.Const:
		c, ok := constInt(x)
		return ok && uint32(c) == 0xFFFFFFFF
	case *ssa.Field:
		return fieldNameV(x.X.Type(), x.Field) == "afid"
	case *ssa.UnOp:
		if x.Op == token.MUL {
			if f, ok := x.X.(*ssa.FieldAddr); ok {
				return fieldName(f.X.Type(), f.Field) == "afid"
			}
		}
	case *ssa.Phi:
		for _, e := range x.Edges {
			if !authFidValue(p, e, depth+1) {
				return false
			}
		}
		return len(x.Edges) > 0
	case *ssa.Extract:
		c, ok := x.Tuple.(*ssa.Call)
		if !ok {
			return false
		}
		g := staticCallee(&c.Call)
		if g == nil || g.Blocks == nil || !p.InModule(g) {
			return false
		}
		n := 0
		for _, ret := range returnsOf(g) {
			if x.Index >= len(ret.Results) {
				return false
			}
			n++
			if !authFidValue(p, ret.Results[x.Index], depth+1) {
				return false
			}
		}
		return n > 0
	}
	return false
}
