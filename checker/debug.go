package main

import (
	"fmt"
	"os"
	"sort"
)

func init() {
	register("DEBUG", func(r *Run) {
		keys := []string{}
		for k := range r.P.funcs {
			keys = append(keys, k)
		}
		sort.Strings(keys)
		for _, k := range keys {
			fmt.Fprintln(os.Stderr, k)
		}
		r.OkTrivial("debug", "loaded", 0)
	})
}
