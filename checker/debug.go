package main

import (
	"fmt"
	"golang.org/x/tools/go/ssa"
	"os"
	"sort"
)

func init() {
	register("DEBUG", func(r *Run) {
		keys := []string{}
		for k := range r.P.funcs {
			keys = append(keys, k)
		}
		sort.Strings(keys)
		for _, k := range keys {
			fmt.Fprintln(os.Stderr, k)
		}
		r.OkTrivial("debug", "loaded", 0)
	})
}

func init() {
	register("DEBUGPRED", func(r *Run) {
		fn := r.P.Fn(os.Getenv("DBG_FN"))
		ts := newTS(r.P, sfidSpec)
		c := &tsCtx{fn: fn, fa: r.P.FA(fn), rootFn: fn}
		for _, b := range fn.Blocks {
			if ifi, ok := b.Instrs[len(b.Instrs)-1].(*ssa.If); ok {
				k, neg := ts.predKey(c, ifi.Cond)
				fmt.Fprintf(os.Stderr, "block %d: %s neg=%v retestable=%v\n", b.Index, k, neg, ts.retestable(c, k))
			}
		}
		r.OkTrivial("debug", "x", 0)
	})
}

func init() {
	register("DEBUGCLOB", func(r *Run) {
		fn := r.P.Fn(os.Getenv("DBG_FN"))
		fa := r.P.FA(fn)
		eachInstr(fn, func(in ssa.Instruction) {
			if a, ok := in.(*ssa.Alloc); ok {
				c := addrClass(a)
				vi := fa.verInfoFor(c)
				fmt.Fprintf(os.Stderr, "alloc %s (%s) class %s: %d clobbers\n", a.Name(), a.Comment, c, len(vi.clob))
				for ci, id := range vi.clob {
					fmt.Fprintf(os.Stderr, "    v%d: block %d: %s\n", id, ci.Block().Index, ci.String())
				}
			}
		})
		r.OkTrivial("debug", "x", 0)
	})
}

func init() {
	register("DEBUGINV", func(r *Run) {
		fn := r.P.Fn(os.Getenv("DBG_FN"))
		fa := r.P.FA(fn)
		for _, b := range fn.Blocks {
			if isLoopHeader(b) {
				fmt.Fprintf(os.Stderr, "header %d:\n", b.Index)
				for _, f := range fa.loopInvariants(b) {
					fmt.Fprintf(os.Stderr, "   %s\n", f)
				}
			}
		}
		r.OkTrivial("debug", "x", 0)
	})
}

func init() {
	register("DEBUGRET", func(r *Run) {
		fn := r.P.Fn(os.Getenv("DBG_FN"))
		for _, f := range r.P.retSummary(fn) {
			fmt.Fprintf(os.Stderr, "   %+v\n", f)
		}
		fa := r.P.FA(fn)
		for _, ret := range returnsOf(fn) {
			for i, v := range ret.Results {
				fmt.Fprintf(os.Stderr, "  result %d: %s lin=%s\n", i, valStr(v), fa.Lin(v))
				for _, f := range fa.FactsAt(ret, fa.Lin(v)) {
					fmt.Fprintf(os.Stderr, "      fact %s\n", f)
				}
			}
		}
		r.OkTrivial("debug", "x", 0)
	})
}

func init() {
	register("DEBUGERR", func(r *Run) {
		for _, pk := range []string{"p9p", "ufs", "ramfs"} {
			for _, fn := range r.P.FuncsOfPkg(pk) {
				eachInstr(fn, func(in ssa.Instruction) {
					c, ok := in.(ssa.CallInstruction)
					if !ok {
						return
					}
					sig := c.Common().Signature()
					if sig == nil || sig.Results().Len() == 0 || !isErrorType(sig.Results().At(sig.Results().Len()-1).Type()) {
						return
					}
					kind := ""
					switch x := in.(type) {
					case *ssa.Defer:
						kind = "deferred"
					case *ssa.Go:
						kind = "go"
					case *ssa.Call:
						e := errResult(x)
						if e == nil {
							kind = "result discarded"
						} else if len(referrers(e)) == 0 {
							kind = "error unused"
						}
					}
					if kind != "" {
						fmt.Fprintf(os.Stderr, "%s | %s | %s | %s\n", r.P.Pos(in.Pos()), fnName(fn), calleeName(c.Common()), kind)
					}
				})
			}
		}
		r.OkTrivial("debug", "x", 0)
	})
}

func init() {
	register("DEBUGCONV", func(r *Run) {
		for _, pk := range []string{"p9p", "ufs", "ramfs"} {
			for _, fn := range r.P.FuncsOfPkg(pk) {
				eachInstr(fn, func(in ssa.Instruction) {
					cv, ok := in.(*ssa.Convert)
					if !ok {
						return
					}
					fb, fs, ok1 := intBits(cv.X.Type())
					tb, ts, ok2 := intBits(cv.Type())
					if !ok1 || !ok2 {
						return
					}
					if _, isC := cv.X.(*ssa.Const); isC {
						return
					}
					narrowing := tb < fb || (tb == fb && fs != ts)
					if narrowing {
						fmt.Fprintf(os.Stderr, "%s | %s | %s -> %s | %s\n", r.P.Pos(in.Pos()), fnName(fn), shortType(cv.X.Type()), shortType(cv.Type()), valStr(cv.X))
					}
				})
			}
		}
		r.OkTrivial("debug", "x", 0)
	})
}
