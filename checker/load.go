package main

import (
	"crypto/sha256"
	"fmt"
	"go/ast"
	"go/token"
	"go/types"
	"os"
	"path/filepath"
	"sort"
	"strings"

	"golang.org/x/tools/go/packages"
	"golang.org/x/tools/go/ssa"
	"golang.org/x/tools/go/ssa/ssautil"
)

const modPath = "github.com/frobnitzem/go-p9p"

// Prog is the resolved program: every package of the module under analysis,
// type-checked from the current working tree, plus its SSA form.
type Prog struct {
	Repo    string
	Config  string // e.g. "linux/amd64"
	Fset    *token.FileSet
	Pkgs    map[string]*packages.Package // key: "p9p", "ramfs", "ufs", "sleepfs", "cmd/9pr", "cmd/9ps"
	SSA     *ssa.Program
	SSAPkgs map[string]*ssa.Package
	funcs   map[string]*ssa.Function // "p9p:(*channel).ReadFcall"
	decls   map[*types.Func]*ast.FuncDecl
	allFns  []*ssa.Function // module functions incl. anonymous, deterministic order
}

func pkgKey(path string) string {
	if path == modPath {
		return "p9p"
	}
	return strings.TrimPrefix(path, modPath+"/")
}

func fileHash(p string) string {
	b, err := os.ReadFile(p)
	if err != nil {
		return "missing"
	}
	return fmt.Sprintf("%x", sha256.Sum256(b))
}

// Load type-checks ./... of repo for the given GOOS/GOARCH and build tags and
// builds SSA for the module's packages. Any parse or type error is fatal: the
// caller turns it into an UNDECIDED(load) obligation.
func Load(repo, goos, goarch string, tags string) (*Prog, error) {
	gomod, gosum := filepath.Join(repo, "go.mod"), filepath.Join(repo, "go.sum")
	modBefore, _ := os.ReadFile(gomod)
	sumBefore, _ := os.ReadFile(gosum)
	defer func() {
		// go list -mod=mod may rewrite go.mod/go.sum; never leave the tree changed.
		if b, _ := os.ReadFile(gomod); modBefore != nil && string(b) != string(modBefore) {
			os.WriteFile(gomod, modBefore, 0644)
		}
		if b, _ := os.ReadFile(gosum); sumBefore != nil && string(b) != string(sumBefore) {
			os.WriteFile(gosum, sumBefore, 0644)
		}
	}()

	env := []string{}
	for _, e := range os.Environ() {
		k := strings.SplitN(e, "=", 2)[0]
		switch k {
		case "GOFLAGS", "GOPROXY", "GOSUMDB", "GOTOOLCHAIN", "GOWORK", "GOOS", "GOARCH", "CGO_ENABLED":
			continue
		}
		env = append(env, e)
	}
	env = append(env, "GOFLAGS=-mod=mod", "GOPROXY=off", "GOSUMDB=off", "GOTOOLCHAIN=local", "GOWORK=off",
		"GOOS="+goos, "GOARCH="+goarch, "CGO_ENABLED=0")
	cfg := &packages.Config{
		Mode: packages.NeedName | packages.NeedFiles | packages.NeedCompiledGoFiles | packages.NeedImports |
			packages.NeedTypes | packages.NeedTypesSizes | packages.NeedSyntax | packages.NeedTypesInfo | packages.NeedModule,
		Dir:   repo,
		Env:   env,
		Tests: false,
	}
	if tags != "" {
		cfg.BuildFlags = []string{"-tags=" + tags}
	}
	pkgs, err := packages.Load(cfg, "./...")
	if err != nil {
		return nil, fmt.Errorf("packages.Load: %v", err)
	}
	p := &Prog{Repo: repo, Config: goos + "/" + goarch, Pkgs: map[string]*packages.Package{}, SSAPkgs: map[string]*ssa.Package{},
		funcs: map[string]*ssa.Function{}, decls: map[*types.Func]*ast.FuncDecl{}}
	if tags != "" {
		p.Config += " -tags " + tags
	}
	var errs []string
	for _, pk := range pkgs {
		for _, e := range pk.Errors {
			errs = append(errs, e.Error())
		}
		if pk.Types == nil || pk.TypesInfo == nil {
			errs = append(errs, pk.PkgPath+": not type-checked")
		}
	}
	if len(errs) > 0 {
		return nil, fmt.Errorf("load errors: %s", strings.Join(errs, "; "))
	}
	for _, pk := range pkgs {
		if pk.PkgPath != modPath && !strings.HasPrefix(pk.PkgPath, modPath+"/") {
			continue
		}
		p.Pkgs[pkgKey(pk.PkgPath)] = pk
		p.Fset = pk.Fset
	}
	for _, need := range []string{"p9p", "ramfs", "ufs", "sleepfs", "cmd/9pr", "cmd/9ps"} {
		if p.Pkgs[need] == nil {
			return nil, fmt.Errorf("package %s did not resolve (%d packages loaded)", need, len(p.Pkgs))
		}
	}
	prog, spkgs := ssautil.Packages(pkgs, ssa.BuilderMode(0))
	for i, sp := range spkgs {
		if sp == nil {
			return nil, fmt.Errorf("no SSA package for %s", pkgs[i].PkgPath)
		}
		if k := pkgKey(pkgs[i].PkgPath); p.Pkgs[k] == pkgs[i] {
			p.SSAPkgs[k] = sp
		}
	}
	prog.Build()
	p.SSA = prog

	for k, pk := range p.Pkgs {
		for _, f := range pk.Syntax {
			for _, d := range f.Decls {
				if fd, ok := d.(*ast.FuncDecl); ok {
					if obj, ok := pk.TypesInfo.Defs[fd.Name].(*types.Func); ok {
						p.decls[obj] = fd
					}
				}
			}
		}
		_ = k
	}
	all := ssautil.AllFunctions(prog)
	for fn := range all {
		if fn.Pkg == nil && fn.Parent() == nil {
			continue
		}
		root := fn
		for root.Parent() != nil {
			root = root.Parent()
		}
		if root.Pkg == nil {
			continue
		}
		k := pkgKey(root.Pkg.Pkg.Path())
		if p.SSAPkgs[k] != root.Pkg {
			continue
		}
		if fn.Synthetic != "" && fn.Blocks == nil {
			continue
		}
		p.allFns = append(p.allFns, fn)
		p.funcs[k+":"+fn.RelString(root.Pkg.Pkg)] = fn
	}
	sort.Slice(p.allFns, func(i, j int) bool {
		a, b := p.allFns[i], p.allFns[j]
		if a.Pos() != b.Pos() {
			return a.Pos() < b.Pos()
		}
		return a.String() < b.String()
	})
	for _, fn := range p.allFns {
		unspillReturns(fn)
	}
	return p, nil
}

// unspillReturns undoes go/ssa's result spilling in functions that contain a defer: there every `return v, w` is
// lowered to `*r0 = v; *r1 = w; rundefers; t0 = *r0; t1 = *r1; return t0, t1` with r0, r1 stack-local slots. The
// slots are `local` (not heap) allocations, so no deferred closure can change them between the store and the
// reload; the Return's operands are replaced, in this in-memory copy, by the stored values so that every rule sees
// the same return shape whether or not the function has a defer.
func unspillReturns(fn *ssa.Function) {
	for _, b := range fn.Blocks {
		if len(b.Instrs) == 0 || b == fn.Recover {
			continue
		}
		ret, ok := b.Instrs[len(b.Instrs)-1].(*ssa.Return)
		if !ok {
			continue
		}
		for i, v := range ret.Results {
			u, ok := v.(*ssa.UnOp)
			if !ok || u.Op != token.MUL || u.Block() != b {
				continue
			}
			a, ok := u.X.(*ssa.Alloc)
			if !ok || a.Heap {
				continue
			}
			var val ssa.Value
			for _, in := range b.Instrs {
				if in == ssa.Instruction(u) {
					break
				}
				if st, ok := in.(*ssa.Store); ok && st.Addr == ssa.Value(a) {
					val = st.Val
				}
			}
			if val != nil {
				ret.Results[i] = val
			}
		}
	}
}

// Fn returns the module function with the given key, e.g. "p9p:(*channel).ReadFcall",
// "p9p:readmsg", "p9p:(*conn).serve$1" — nil when absent.
func (p *Prog) Fn(key string) *ssa.Function { return p.funcs[key] }

// FnKey is the inverse of Fn.
func (p *Prog) FnKey(fn *ssa.Function) string {
	root := fn
	for root.Parent() != nil {
		root = root.Parent()
	}
	if root.Pkg == nil {
		return fn.String()
	}
	return pkgKey(root.Pkg.Pkg.Path()) + ":" + fn.RelString(root.Pkg.Pkg)
}

// InModule reports whether fn (or its outermost parent) belongs to the analysed module.
func (p *Prog) InModule(fn *ssa.Function) bool {
	if fn == nil {
		return false
	}
	root := fn
	for root.Parent() != nil {
		root = root.Parent()
	}
	if root.Pkg == nil {
		// synthetic wrappers/thunks: attribute to the object's package
		if obj := root.Object(); obj != nil && obj.Pkg() != nil {
			pp := obj.Pkg().Path()
			return pp == modPath || strings.HasPrefix(pp, modPath+"/")
		}
		return false
	}
	pp := root.Pkg.Pkg.Path()
	return pp == modPath || strings.HasPrefix(pp, modPath+"/")
}

// FuncsOfPkg lists the source functions (incl. closures) of one package in position order.
func (p *Prog) FuncsOfPkg(key string) []*ssa.Function {
	var out []*ssa.Function
	for _, fn := range p.allFns {
		root := fn
		for root.Parent() != nil {
			root = root.Parent()
		}
		if root.Pkg == p.SSAPkgs[key] && fn.Synthetic == "" {
			out = append(out, fn)
		}
	}
	return out
}

// Pos renders a position relative to the repo root, "file.go:12".
func (p *Prog) Pos(pos token.Pos) string {
	if !pos.IsValid() {
		return "-"
	}
	ps := p.Fset.Position(pos)
	rel, err := filepath.Rel(p.Repo, ps.Filename)
	if err != nil {
		rel = ps.Filename
	}
	return fmt.Sprintf("%s:%d", rel, ps.Line)
}

// FileOf returns the repo-relative file name of a position.
func (p *Prog) FileOf(pos token.Pos) string {
	if !pos.IsValid() {
		return ""
	}
	rel, err := filepath.Rel(p.Repo, p.Fset.Position(pos).Filename)
	if err != nil {
		return p.Fset.Position(pos).Filename
	}
	return rel
}

// Decl returns the syntax of a declared function or method.
func (p *Prog) Decl(pkg, name string) *ast.FuncDecl {
	fn := p.Fn(pkg + ":" + name)
	if fn == nil {
		return nil
	}
	if obj, ok := fn.Object().(*types.Func); ok {
		return p.decls[obj]
	}
	return nil
}

// Named looks up a package-level named type.
func (p *Prog) Named(pkg, name string) *types.Named {
	pk := p.Pkgs[pkg]
	if pk == nil {
		return nil
	}
	if tn, ok := pk.Types.Scope().Lookup(name).(*types.TypeName); ok {
		if n, ok := tn.Type().(*types.Named); ok {
			return n
		}
	}
	return nil
}

// Obj looks up any package-level object.
func (p *Prog) Obj(pkg, name string) types.Object {
	pk := p.Pkgs[pkg]
	if pk == nil {
		return nil
	}
	return pk.Types.Scope().Lookup(name)
}
