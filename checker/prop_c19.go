package main

import (
	"fmt"
	"go/token"
	"go/types"
	"sort"
	"strings"

	"golang.org/x/tools/go/ssa"
)

func init() { register("C19", checkC19) }

// pkgConstInt: value of an integer constant of an imported package (e.g. os.O_TRUNC) for the current GOOS/GOARCH.
func pkgConstInt(p *Prog, pkgKey, importPath, name string) (int64, bool) {
	pk := p.Pkgs[pkgKey]
	if pk == nil {
		return 0, false
	}
	for _, imp := range pk.Types.Imports() {
		if imp.Path() == importPath {
			if c, ok := imp.Scope().Lookup(name).(*types.Const); ok {
				return constantInt64(c)
			}
		}
	}
	return 0, false
}

func p9pConst(p *Prog, name string) (int64, bool) {
	if c, ok := p.Pkgs["p9p"].Types.Scope().Lookup(name).(*types.Const); ok {
		return constantInt64(c)
	}
	return 0, false
}

func checkC19(r *Run) {
	r.Decides = append(r.Decides,
		"oflags maps mode&3 ∈ {OREAD,OWRITE,ORDWR,OEXEC} to {O_RDONLY,O_WRONLY,O_RDWR,O_RDONLY} and adds O_TRUNC exactly when the OTRUNC bit is set (table extracted from the switch's edge conditions, compared with the os constants of the build configuration)",
		"dirFromInfo fills each Dir field from the matching os.FileInfo accessor (Name←Name, Length←Size, ModTime←ModTime, Mode←Mode, Qid.Path and AccessTime←Sys) and sets DMDIR / QTDIR exactly on the IsDir edge",
		"Read/Write are ReadAt/WriteAt on the receiver's own file with the caller's buffer and offset; Open/Create/Remove/WStat act on the receiver's own host path; WStat changes mode, length and name only when the field is not the 'don't touch' sentinel and with the requested value; Create passes perm&0777 and oflags(mode)|O_CREATE, Mkdir on the DMDIR edge")
	r.NotDecided = append(r.NotDecided, "the resulting host state (OS semantics)", "chown/user lookup", "directory listing order")
	r.Trusted = append(r.Trusted, "os, syscall")

	c19Oflags(r)
	c19DirFromInfo(r)
	c19PassThrough(r)
	c19WStat(r)
	c19Create(r)
	c19FreshStat(r)
	c19Listing(r)
	c19HostEffects(r)
}

// Every FileRef handed out describes the host as it is now: its Info comes from dirFromInfo(os.Stat(host path of
// that very Path)) made, successfully, in the function that builds the FileRef; nothing else writes FileRef.Info.
// (FileRef.Stat returns the cached Info, so a FileRef built from another one's Info reports stale metadata and
// even "walks" to files that no longer exist.)
func c19FreshStat(r *Run) {
	p := r.P
	nLit := 0
	for _, fn := range p.FuncsOfPkg("ufs") {
		fn := fn
		eachInstr(fn, func(in ssa.Instruction) {
			switch x := in.(type) {
			case *ssa.Alloc:
				pt, ok := x.Type().Underlying().(*types.Pointer)
				if !ok || !strings.HasSuffix(shortType(pt.Elem()), "ufs.FileRef") {
					return
				}
				flds, _, ok := allocFields(x)
				if !ok || len(flds) == 0 {
					return // a plain local copy, not a construction
				}
				if _, isLit := flds["Path"]; !isLit {
					return
				}
				nLit++
				key := fnName(fn) + ": FileRef literal takes Info from a successful os.Stat of its own path"
				info, _ := flds["Info"].(*ssa.Call)
				if info == nil || calleeName(&info.Call) != "ufs.dirFromInfo" {
					r.Bad("fresh-stat", key, x.Pos(), "the FileRef's Info is not computed by dirFromInfo(os.Stat(...)) here (copied or left empty): stats through this fid do not reflect the host")
					return
				}
				var st *ssa.Call
				if ex, ok := info.Call.Args[0].(*ssa.Extract); ok && ex.Index == 0 {
					st, _ = ex.Tuple.(*ssa.Call)
				}
				okStat := st != nil && (calleeName(&st.Call) == "os.Stat" || calleeName(&st.Call) == "os.Lstat") && callSucceededAt(st, info)
				okPath := okStat && derivesFrom(st.Call.Args[0], flds["Path"], 5)
				r.Check(okStat && okPath, "fresh-stat", key, x.Pos(), "the Info does not come from a successful stat of the host path of this FileRef's own Path")
			case *ssa.Store:
				f, ok := x.Addr.(*ssa.FieldAddr)
				if !ok || !strings.HasSuffix(shortType(f.X.Type()), "ufs.FileRef") || fieldName(f.X.Type(), f.Field) != "Info" {
					return
				}
				if a, isA := f.X.(*ssa.Alloc); isA {
					if _, _, ok := allocFields(a); ok {
						return // part of a literal, handled above
					}
				}
				c, _ := x.Val.(*ssa.Call)
				r.Check(c != nil && calleeName(&c.Call) == "ufs.dirFromInfo", "fresh-stat", fnName(fn)+": FileRef.Info is only ever assigned dirFromInfo(...)", x.Pos(), "FileRef.Info is overwritten with something that is not a fresh host stat")
			}
		})
	}
	r.Floor("fresh-stat", nLit, 1, "FileRef constructions in ufs")
	// every entry handed out (Attach, Walk, Create) is constructed — and therefore stat-ed — for that call: a FileRef
	// kept from an earlier call carries the stat taken then
	nOut := 0
	for _, fn := range p.FuncsOfPkg("ufs") {
		if fn.Parent() != nil {
			continue
		}
		res := fn.Signature.Results()
		for i := 0; i < res.Len(); i++ {
			if !isP9P(res.At(i).Type(), "Dirent") {
				continue
			}
			for _, ret := range returnsOf(fn) {
				if i >= len(ret.Results) || isNilConst(ret.Results[i]) {
					continue
				}
				nOut++
				okFresh := true
				if !freshEntry(ret.Results[i], 0) {
					okFresh = false
				}
				r.Check(okFresh, "fresh-stat", fnName(fn)+": the entry handed out is constructed (stat-ed) by this call", ret.Pos(),
					"the entry returned is not the result of newRef or a fresh FileRef literal (e.g. a copy of a cached FileRef): its stat is the one taken when it was cached, not the host's current one")
			}
		}
	}
	r.Floor("fresh-stat", nOut, 3, "entries handed out by ufs (Attach, Walk, Create)")
	// atime reads the access time
	nAt := 0
	for _, fn := range p.FuncsOfPkg("ufs") {
		if fn.Name() != "atime" {
			continue
		}
		eachInstr(fn, func(in ssa.Instruction) {
			var name string
			switch x := in.(type) {
			case *ssa.FieldAddr:
				if strings.HasSuffix(shortType(x.X.Type()), "Stat_t") {
					name = fieldName(x.X.Type(), x.Field)
				}
			case *ssa.Field:
				if strings.HasSuffix(shortType(x.X.Type()), "Stat_t") {
					name = fieldNameV(x.X.Type(), x.Field)
				}
			}
			if name == "" {
				return
			}
			nAt++
			r.Check(strings.HasPrefix(name, "Atim"), "dir-map", "atime: the access time is read from the stat record's access-time field", in.Pos(),
				"atime reads Stat_t."+name+": Dir.AccessTime does not carry the host's access time")
		})
	}
	r.Floor("dir-map", nAt, 1, "Stat_t field read in atime")
}

func c19Oflags(r *Run) {
	p := r.P
	fn := p.Fn("ufs:oflags")
	if fn == nil {
		r.Undecided("oflags", "oflags", token.NoPos, "anchor not found")
		return
	}
	r.SawFn(fnName(fn))
	// the function is a pure table: fold it for every access mode, with and without each flag bit
	// (conditional constant propagation; no code of the repository is executed)
	want := map[string]string{"OREAD": "O_RDONLY", "OWRITE": "O_WRONLY", "ORDWR": "O_RDWR", "OEXEC": "O_RDONLY"}
	names := []string{}
	for k := range want {
		names = append(names, k)
	}
	sort.Strings(names)
	otr, _ := p9pConst(p, "OTRUNC")
	htr, ok0 := pkgConstInt(p, "ufs", "os", "O_TRUNC")
	if !ok0 {
		r.Undecided("oflags", "oflags: os.O_TRUNC", fn.Pos(), "constant not resolved")
		return
	}
	for _, k := range names {
		kv, ok1 := p9pConst(p, k)
		wv, ok2 := pkgConstInt(p, "ufs", "os", want[k])
		okAll := ok1 && ok2
		detail := ""
		for _, extra := range []int64{0, 0x20, 0x40, 0x60} { // OCEXEC, ORCLOSE must not matter
			for _, tr := range []bool{false, true} {
				in := kv | extra
				exp := wv
				if tr {
					in |= otr
					exp |= htr
				}
				got, ok := ccpCall(fn, []ccpVal{{kind: "i", i: in}})
				if !ok || got.kind != "i" {
					okAll = false
					detail = fmt.Sprintf("oflags(%#x) does not fold to a constant", in)
					continue
				}
				if got.i != exp {
					okAll = false
					detail = fmt.Sprintf("oflags(%#x) = %#x, want %#x", in, got.i, exp)
				}
			}
		}
		r.Check(okAll, "oflags", fmt.Sprintf("oflags: %s → os.%s, O_TRUNC exactly with OTRUNC, other flag bits ignored", k, want[k]), fn.Pos(),
			"the open-mode table is wrong: "+detail)
	}
}

func c19DirFromInfo(r *Run) {
	p := r.P
	fn := p.Fn("ufs:dirFromInfo")
	if fn == nil {
		r.Undecided("dir-map", "dirFromInfo", token.NoPos, "anchor not found")
		return
	}
	r.SawFn(fnName(fn))
	// the values that are "the FileInfo being converted": dirFromInfo's parameter and, inside helpers it calls, the
	// parameter it is passed as
	infoVals := map[ssa.Value]bool{fn.Params[0]: true}
	// accessor(v): the set of os.FileInfo methods v depends on
	var deps func(v ssa.Value, depth int, out map[string]bool)
	deps = func(v ssa.Value, depth int, out map[string]bool) {
		if depth > 10 || v == nil {
			return
		}
		switch x := v.(type) {
		case *ssa.Call:
			if x.Call.IsInvoke() && infoVals[x.Call.Value] {
				out[x.Call.Method.Name()] = true
				return
			}
			// a helper of the package that is handed the FileInfo: what its result depends on
			if g := staticCallee(&x.Call); g != nil && g.Blocks != nil && p.InModule(g) && strings.HasPrefix(fnName(g), "ufs.") && fnName(g) != "ufs.atime" {
				bound := false
				for i, a := range x.Call.Args {
					if infoVals[a] && i < len(g.Params) {
						infoVals[g.Params[i]] = true
						bound = true
					}
				}
				if bound {
					for _, ret := range returnsOf(g) {
						for _, rv := range ret.Results {
							deps(rv, depth+1, out)
						}
					}
					return
				}
			}
			if x.Call.IsInvoke() {
				deps(x.Call.Value, depth+1, out)
			}
			for _, a := range x.Call.Args {
				deps(a, depth+1, out)
			}
		case *ssa.Convert:
			deps(x.X, depth+1, out)
		case *ssa.ChangeType:
			deps(x.X, depth+1, out)
		case *ssa.BinOp:
			deps(x.X, depth+1, out)
			deps(x.Y, depth+1, out)
		case *ssa.UnOp:
			deps(x.X, depth+1, out)
		case *ssa.FieldAddr:
			deps(x.X, depth+1, out)
		case *ssa.Field:
			deps(x.X, depth+1, out)
		case *ssa.TypeAssert:
			deps(x.X, depth+1, out)
		case *ssa.Extract:
			deps(x.Tuple, depth+1, out)
		case *ssa.MakeInterface:
			deps(x.X, depth+1, out)
		}
	}
	want := map[string]string{"Name": "Name", "Length": "Size", "ModTime": "ModTime", "Mode": "Mode", "Qid.Path": "Sys", "AccessTime": "Sys"}
	seen := map[string]bool{}
	dmdir, _ := p9pConst(p, "DMDIR")
	qtdir, _ := p9pConst(p, "QTDIR")
	isDirEdge := func(in ssa.Instruction) bool {
		for _, cd := range condsAtInstr(in) {
			nc := normCond(cd)
			if c, ok := nc.V.(*ssa.Call); ok && nc.Truth && strings.HasSuffix(calleeName(&c.Call), ".IsDir") {
				d := map[string]bool{}
				deps(c, 0, d)
				if d["Mode"] || d["IsDir"] {
					return true
				}
			}
		}
		return false
	}
	nDirBits := 0
	var scanStores func(sfn *ssa.Function, prefix string, depth int)
	scanStores = func(sfn *ssa.Function, prefix string, depth int) {
		eachInstr(sfn, func(in ssa.Instruction) {
			st, ok := in.(*ssa.Store)
			if !ok {
				return
			}
			// path of the field within the local Dir
			var names []string
			addr := st.Addr
			for {
				fa, ok := addr.(*ssa.FieldAddr)
				if !ok {
					break
				}
				names = append([]string{fieldName(fa.X.Type(), fa.Field)}, names...)
				addr = fa.X
			}
			if len(names) == 0 {
				return
			}
			path := prefix + strings.Join(names, ".")
			// a whole sub-record filled by a helper (dir.Qid = qidFromInfo(info)): the helper's own field stores count
			isPrefix := false
			for k := range want {
				if strings.HasPrefix(k, path+".") {
					isPrefix = true
				}
			}
			if c, ok := st.Val.(*ssa.Call); ok && depth < 2 && isPrefix {
				if g := staticCallee(&c.Call); g != nil && g.Blocks != nil && p.InModule(g) {
					if _, isStruct := c.Type().Underlying().(*types.Struct); isStruct {
						for i, a := range c.Call.Args {
							if infoVals[a] && i < len(g.Params) {
								infoVals[g.Params[i]] = true
							}
						}
						scanStores(g, path+".", depth+1)
						return
					}
				}
			}
			// OR-in of the directory bits
			if bo, ok := st.Val.(*ssa.BinOp); ok && bo.Op == token.OR {
				if c, ok := constInt(bo.Y); ok {
					switch {
					case path == "Mode" && uint32(c) == uint32(dmdir):
						nDirBits++
						r.Check(isDirEdge(st), "dir-map", "dirFromInfo: DMDIR set exactly for directories", st.Pos(), "the directory mode bit does not follow info.Mode().IsDir()")
						return
					case path == "Qid.Type" && uint8(c) == uint8(qtdir):
						nDirBits++
						r.Check(isDirEdge(st), "dir-map", "dirFromInfo: QTDIR set exactly for directories", st.Pos(), "the qid type does not follow info.Mode().IsDir()")
						return
					}
				}
			}
			w, tracked := want[path]
			if !tracked {
				return
			}
			d := map[string]bool{}
			deps(st.Val, 0, d)
			got := []string{}
			for k := range d {
				got = append(got, k)
			}
			sort.Strings(got)
			seen[path] = true
			r.Check(len(d) == 1 && d[w], "dir-map", fmt.Sprintf("dirFromInfo: Dir.%s ← info.%s()", path, w), st.Pos(),
				fmt.Sprintf("Dir.%s is computed from info.{%s} instead of info.%s()", path, strings.Join(got, ","), w))
		})
	}
	scanStores(fn, "", 0)
	for k := range want {
		if !seen[k] {
			r.Bad("dir-map", "dirFromInfo: Dir."+k+" is filled", fn.Pos(), "the field is left at its zero value")
		}
	}
	r.Floor("dir-map", nDirBits, 2, "directory bits (DMDIR, QTDIR)")
}

func recvField(v ssa.Value, recv ssa.Value, field string) bool { return loadsField(v, recv, field) }

func c19PassThrough(r *Run) {
	p := r.P
	for _, spec := range []struct{ m, host string }{{"Read", "(*os.File).ReadAt"}, {"Write", "(*os.File).WriteAt"}} {
		fn := p.Fn("ufs:(*FileRef)." + spec.m)
		if fn == nil {
			r.Undecided("pass-through", "(*FileRef)."+spec.m, token.NoPos, "anchor not found")
			continue
		}
		r.SawFn(fnName(fn))
		cs := findCalls(fn, spec.host)
		if len(cs) != 1 {
			r.Bad("pass-through", "FileRef."+spec.m+": one "+spec.host, fn.Pos(), fmt.Sprintf("%d calls of %s", len(cs), spec.host))
			continue
		}
		c := cs[0]
		ok := recvField(c.Call.Args[0], fn.Params[0], "file") && c.Call.Args[1] == ssa.Value(fn.Params[2]) && c.Call.Args[2] == ssa.Value(fn.Params[3])
		r.Check(ok, "pass-through", "FileRef."+spec.m+": "+spec.host+"(own file, p, offset)", c.Pos(), "the host I/O does not use the fid's own file with the caller's buffer and offset")
		// n returned is the host call's n
		okN := false
		for _, ret := range returnsOf(fn) {
			if len(ret.Results) == 2 {
				for _, alt := range phiAlternatives(ret.Results[0], 2) {
					if alt == resultN(c, 0) {
						okN = true
					}
				}
			}
		}
		r.Check(okN, "pass-through", "FileRef."+spec.m+": returns the host call's byte count", c.Pos(), "the count returned is not the host's")
		// the host call is made on every path: a return it does not dominate is allowed only for an empty buffer
		fa := p.FA(fn)
		lp := fa.linSym(lenOf(fa.Sym(fn.Params[2])), 0)
		always := true
		var where token.Pos = c.Pos()
		for _, ret := range returnsOf(fn) {
			if c.Block().Dominates(ret.Block()) {
				continue
			}
			if lp != nil && EntailsLE(fa.FactsAt(ret, lp), lp, linConst(0)) {
				continue
			}
			always = false
			if ret.Pos().IsValid() {
				where = ret.Pos()
			}
		}
		r.Check(always, "pass-through", "FileRef."+spec.m+": the host call is made on every path (except for an empty buffer)", where, "a path returns without asking the host: what the fid reads or writes can differ from the host file")
	}
}

// sentinelGuard: instruction in is dominated by `field != sentinel` for dir.<field> (param dir of type Dir).
func c19WStat(r *Run) {
	p := r.P
	fn := p.Fn("ufs:(*FileRef).WStat")
	if fn == nil {
		r.Undecided("wstat", "(*FileRef).WStat", token.NoPos, "anchor not found")
		return
	}
	pt := newPT(p)
	allOnes32 := func(v ssa.Value) bool { c, ok := constInt(v); return ok && uint32(c) == 0xFFFFFFFF }
	allOnes64 := func(v ssa.Value) bool {
		c, ok := v.(*ssa.Const)
		return ok && c.Value != nil && c.Value.ExactString() == "18446744073709551615"
	}
	emptyStr := func(v ssa.Value) bool {
		c, ok := v.(*ssa.Const)
		return ok && c.Value != nil && c.Value.ExactString() == `""`
	}
	// a scope is WStat itself, or a helper it hands the request (or single fields of it) to: the helper's
	// parameters stand for those fields, and a guard may sit at the call site instead of inside the helper
	type wscope struct {
		fn     *ssa.Function
		dirs   []ssa.Value          // Dir-typed parameters standing for the request
		bind   map[ssa.Value]string // parameter → field of the request it carries
		outer  ssa.Instruction      // the call in the parent scope
		parent *wscope
	}
	var isDirField func(sc *wscope, v ssa.Value, field string) bool
	isDirField = func(sc *wscope, v ssa.Value, field string) bool {
		if sc.bind[v] == field {
			return true
		}
		for _, dp := range sc.dirs {
			if f, ok := fieldOfValue(v, dp); ok && f == field {
				return true
			}
		}
		// the Dir parameter is spilled to a local: load of &local.field
		if u, ok := v.(*ssa.UnOp); ok && u.Op == token.MUL {
			if fa, ok := u.X.(*ssa.FieldAddr); ok && fieldName(fa.X.Type(), fa.Field) == field && isP9P(fa.X.Type(), "Dir") {
				return true
			}
		}
		return false
	}
	var guarded func(sc *wscope, in ssa.Instruction, field string, sentinel func(ssa.Value) bool) bool
	guarded = func(sc *wscope, in ssa.Instruction, field string, sentinel func(ssa.Value) bool) bool {
		for _, cd := range condsAtInstr(in) {
			nc := normCond(cd)
			b, ok := nc.V.(*ssa.BinOp)
			if !ok || (b.Op != token.NEQ && b.Op != token.EQL) {
				continue
			}
			for _, pair := range [][2]ssa.Value{{b.X, b.Y}, {b.Y, b.X}} {
				if isDirField(sc, pair[0], field) && sentinel(pair[1]) && (b.Op == token.NEQ) == nc.Truth {
					return true
				}
			}
		}
		return sc.parent != nil && guarded(sc.parent, sc.outer, field, sentinel)
	}
	n := 0
	var scan func(sc *wscope, depth int)
	scan = func(sc *wscope, depth int) {
		fn := sc.fn
		r.SawFn(fnName(fn))
		fa := p.FA(fn)
		ownPath := func(v ssa.Value, at ssa.Instruction) bool {
			c, ok := v.(*ssa.Call)
			if !ok || calleeName(&c.Call) != "(ufs.FileRef).fullPath" {
				return false
			}
			if pt.classAt(fn, v, at, nil, 0) != pHC {
				return false
			}
			// the path must be current: no store into the FileRef (e.g. the rename's ref.Path = rel)
			// between computing the host path and using it
			if u, ok := c.Call.Args[0].(*ssa.UnOp); ok && u.Op == token.MUL {
				cls := addrClass(u.X)
				return fa.versionAt(u, cls) == fa.versionAt(at, cls)
			}
			return false
		}
		for _, c := range findCalls(fn, "os.Chmod") {
			n++
			okMode := false
			if b, ok := unconv(c.Call.Args[1]).(*ssa.BinOp); ok && b.Op == token.AND && isDirField(sc, b.X, "Mode") {
				if m, ok := constInt(b.Y); ok && m == 0777 {
					okMode = true
				}
			}
			r.Check(guarded(sc, c, "Mode", allOnes32) && ownPath(c.Call.Args[0], c) && okMode, "wstat", "WStat: chmod(own path, dir.Mode&0777) only when Mode is not the sentinel", c.Pos(),
				"mode change does not follow the request (sentinel ignored, other or stale path, or other bits)")
		}
		for _, c := range findCalls(fn, "os.Truncate") {
			n++
			okLen := false
			if cv, ok := c.Call.Args[1].(*ssa.Convert); ok && isDirField(sc, cv.X, "Length") {
				okLen = true
			}
			r.Check(guarded(sc, c, "Length", allOnes64) && ownPath(c.Call.Args[0], c) && okLen, "wstat", "WStat: truncate(own path, dir.Length) only when Length is not the sentinel", c.Pos(),
				"length change does not follow the request (sentinel ignored, or it acts on another / a stale path, e.g. the pre-rename path)")
		}
		for _, c := range findCalls(fn, "syscall.Rename", "os.Rename") {
			n++
			r.Check(guarded(sc, c, "Name", emptyStr) && ownPath(c.Call.Args[0], c), "wstat", "WStat: rename(own path, …) only when Name is set", c.Pos(), "rename does not follow the request")
			// the new name enters the target
			tgt := c.Call.Args[1]
			okT := false
			if ex, ok := tgt.(*ssa.Extract); ok {
				if fc, ok := ex.Tuple.(*ssa.Call); ok && calleeName(&fc.Call) == "(*ufs.fServer).fullPath" {
					for _, alt := range phiAlternatives(fc.Call.Args[1], 2) {
						if jc, ok := alt.(*ssa.Call); ok && calleeName(&jc.Call) == "path.Join" {
							el := varargsElems(jc.Call.Args[0])
							if len(el) == 2 && isDirField(sc, el[1], "Name") {
								// … joined to the directory of the entry's own path
								if dc, ok := el[0].(*ssa.Call); ok && calleeName(&dc.Call) == "path.Dir" && pt.classAt(fn, dc.Call.Args[0], c, nil, 0) == pRC {
									okT = true
								}
							}
						}
					}
				}
			}
			r.Check(okT, "wstat", "WStat: rename target is the requested name in the entry's directory", c.Pos(), "the rename target is not built from dir.Name")
		}
		if depth >= 1 {
			return
		}
		// helpers of the package handed the request or fields of it
		eachInstr(fn, func(in ssa.Instruction) {
			c, ok := in.(*ssa.Call)
			if !ok {
				return
			}
			g := staticCallee(&c.Call)
			if g == nil || g.Blocks == nil || g.Pkg != fn.Pkg || g == fn {
				return
			}
			sub := &wscope{fn: g, bind: map[ssa.Value]string{}, outer: c, parent: sc}
			for i, a := range c.Call.Args {
				if i >= len(g.Params) {
					break
				}
				for _, f := range []string{"Mode", "Length", "Name"} {
					if isDirField(sc, a, f) {
						sub.bind[g.Params[i]] = f
					}
				}
				if isP9P(a.Type(), "Dir") {
					sub.dirs = append(sub.dirs, g.Params[i])
				}
			}
			if len(sub.bind) > 0 || len(sub.dirs) > 0 {
				scan(sub, depth+1)
			}
		})
	}
	scan(&wscope{fn: fn, dirs: []ssa.Value{fn.Params[len(fn.Params)-1]}, bind: map[ssa.Value]string{}}, 0)
	r.Floor("wstat", n, 3, "chmod/truncate/rename sites in WStat")
}

func c19Create(r *Run) {
	p := r.P
	pt := newPT(p)
	cr := p.Fn("ufs:(*FileRef).Create")
	op := p.Fn("ufs:(*FileRef).Open")
	rm := p.Fn("ufs:(*FileRef).Remove")
	if cr == nil || op == nil || rm == nil {
		r.Undecided("create-open", "FileRef.Create/Open/Remove", token.NoPos, "anchors not found")
		return
	}
	crPerm, crMode := cr.Params[3], cr.Params[4]
	nOF := 0
	ocreate, _ := pkgConstInt(p, "ufs", "os", "O_CREATE")
	dmdir, _ := p9pConst(p, "DMDIR")
	var createCalls []*ssa.Call // os.OpenFile calls that create the file, wherever they sit
	helperOf := map[*ssa.Function]bool{}
	for _, cfn := range p.withHelpers(cr, 1) {
		// inside a helper, perm and mode are the parameters Create binds to its own perm and mode
		var perm, mode ssa.Value = crPerm, crMode
		if cfn != cr {
			perm, mode = nil, nil
			for i, prm := range cfn.Params {
				allPerm, allMode, n := true, true, 0
				for _, cs := range findCalls(cr, fnName(cfn)) {
					n++
					if i >= len(cs.Call.Args) || cs.Call.Args[i] != ssa.Value(crPerm) {
						allPerm = false
					}
					if i >= len(cs.Call.Args) || cs.Call.Args[i] != ssa.Value(crMode) {
						allMode = false
					}
				}
				if n > 0 && allPerm {
					perm = prm
				}
				if n > 0 && allMode {
					mode = prm
				}
			}
			if len(findCalls(cfn, "os.OpenFile"))+len(findCalls(cfn, "os.Mkdir")) == 0 {
				continue
			}
			helperOf[cfn] = true
		}
		cr := cfn
		perm0777 := func(v ssa.Value) bool {
			b, ok := unconv(v).(*ssa.BinOp)
			if !ok || b.Op != token.AND || b.X != ssa.Value(perm) {
				return false
			}
			m, ok := constInt(b.Y)
			return ok && m == 0777
		}
		for _, c := range findCalls(cr, "os.Mkdir") {
			okEdge := false
			for _, cd := range condsAtInstr(c) {
				nc := normCond(cd)
				if b, ok := nc.V.(*ssa.BinOp); ok && b.Op == token.NEQ && nc.Truth {
					if a, ok := b.X.(*ssa.BinOp); ok && a.Op == token.AND && a.X == ssa.Value(perm) {
						if m, ok := constInt(a.Y); ok && uint32(m) == uint32(dmdir) {
							okEdge = true
						}
					}
				}
			}
			r.Check(okEdge && perm0777(c.Call.Args[1]), "create-open", "Create: mkdir(perm&0777) exactly for DMDIR", c.Pos(), "directories are not created by mkdir with the requested permission bits")
		}
		for _, c := range findCalls(cr, "os.OpenFile") {
			nOF++
			createCalls = append(createCalls, c)
			okFlags := false
			if b, ok := c.Call.Args[1].(*ssa.BinOp); ok && b.Op == token.OR {
				if oc, ok := b.X.(*ssa.Call); ok && calleeName(&oc.Call) == "ufs.oflags" && oc.Call.Args[0] == ssa.Value(mode) {
					if m, ok := constInt(b.Y); ok && m == ocreate {
						okFlags = true
					}
				}
			}
			r.Check(okFlags && perm0777(c.Call.Args[2]), "create-open", "Create: OpenFile(path, oflags(mode)|O_CREATE, perm&0777)", c.Pos(), "files are not created with the requested open mode / permission bits")
		}
	}
	r.Floor("create-open", nOF, 1, "OpenFile in Create")
	// Open: the host file is opened (never created) with the translated mode — directly, or in a helper handed the
	// entry's own path and the mode
	nOpen := 0
	type openSite struct {
		c    *ssa.Call
		res  ssa.Value                 // the opened file as Open sees it
		at   ssa.Instruction           // where, in Open
		bind func(ssa.Value) ssa.Value // value of the site's function → value in Open
	}
	var osites []openSite
	for _, c := range findCalls(op, "os.OpenFile") {
		osites = append(osites, openSite{c, resultN(c, 0), c, func(v ssa.Value) ssa.Value { return v }})
	}
	eachInstr(op, func(in ssa.Instruction) {
		hc, ok := in.(*ssa.Call)
		if !ok {
			return
		}
		g := staticCallee(&hc.Call)
		if g == nil || g.Blocks == nil || g.Pkg != op.Pkg || g == op {
			return
		}
		for _, c := range findCalls(g, "os.OpenFile") {
			// the helper must hand back OpenFile's own result
			fwd := false
			for _, ret := range returnsOf(g) {
				if len(ret.Results) >= 1 && ret.Results[0] == resultN(c, 0) {
					fwd = true
				}
				if tup, ok := ret.Results[0].(*ssa.Extract); ok && tup.Tuple == ssa.Value(c) {
					fwd = true
				}
			}
			if !fwd {
				continue
			}
			hc := hc
			osites = append(osites, openSite{c, resultN(hc, 0), hc, func(v ssa.Value) ssa.Value {
				for i, prm := range g.Params {
					if ssa.Value(prm) == v && i < len(hc.Call.Args) {
						return hc.Call.Args[i]
					}
				}
				return nil
			}})
		}
	})
	for _, os := range osites {
		c := os.c
		nOpen++
		okFlags := false
		if oc, ok := c.Call.Args[1].(*ssa.Call); ok && calleeName(&oc.Call) == "ufs.oflags" && os.bind(oc.Call.Args[0]) == ssa.Value(op.Params[2]) {
			okFlags = true
		}
		pathArg := os.bind(c.Call.Args[0])
		r.Check(okFlags && pathArg != nil && pt.classAt(op, pathArg, os.at, nil, 0) == pHC, "create-open", "Open: OpenFile(own path, oflags(mode), 0)", c.Pos(),
			"open does not use the entry's own path with exactly the requested mode (e.g. it adds O_CREATE: opening a file that is gone re-creates it)")
		// the opened file becomes the fid's file
		okSt := false
		eachInstr(op, func(in ssa.Instruction) {
			if st, ok := in.(*ssa.Store); ok {
				if fa, ok := st.Addr.(*ssa.FieldAddr); ok && fa.X == ssa.Value(op.Params[0]) && fieldName(fa.X.Type(), fa.Field) == "file" && st.Val == os.res && callSucceededAt(os.at.(ssa.Value), st) {
					okSt = true
				}
			}
		})
		r.Check(okSt, "create-open", "Open: the opened host file becomes the entry's file", c.Pos(), "reads/writes go to another file than the one opened")
	}
	r.Floor("create-open", nOpen, 1, "OpenFile reached from Open")
	for _, c := range findCalls(rm, "os.Remove") {
		r.Check(pt.classAt(rm, c.Call.Args[0], c, nil, 0) == pHC, "create-open", "Remove: removes the entry's own host path", c.Pos(), "remove acts on another path")
	}
	// Create: the created file becomes the new entry's file
	okFile := false
	eachInstr(cr, func(in ssa.Instruction) {
		if st, ok := in.(*ssa.Store); ok {
			if fa, ok := st.Addr.(*ssa.FieldAddr); ok && fieldName(fa.X.Type(), fa.Field) == "file" {
				for _, alt := range phiAlternatives(st.Val, 2) {
					if ex, ok := alt.(*ssa.Extract); ok {
						if c, ok := ex.Tuple.(*ssa.Call); ok && calleeName(&c.Call) == "os.OpenFile" {
							okFile = true
						}
						// … or the result of the helper that creates the node and returns OpenFile's own result
						if c, ok := ex.Tuple.(*ssa.Call); ok && ex.Index == 0 {
							if g := staticCallee(&c.Call); g != nil && helperOf[g] {
								for _, ret := range returnsOf(g) {
									for _, cc := range createCalls {
										if len(ret.Results) > 0 && ret.Results[0] == resultN(cc, 0) {
											okFile = true
										}
									}
								}
							}
						}
					}
				}
			}
		}
	})
	r.Check(okFile, "create-open", "Create: the created host file becomes the new entry's open file", cr.Pos(), "the file created is not the one later read/written through the fid")
}

// unconv strips type-only conversions (ChangeType and integer Convert between same-width types).
func unconv(v ssa.Value) ssa.Value {
	for {
		switch x := v.(type) {
		case *ssa.ChangeType:
			v = x.X
		case *ssa.Convert:
			fb, _, ok1 := intBits(x.X.Type())
			tb, _, ok2 := intBits(x.Type())
			if ok1 && ok2 && fb == tb {
				v = x.X
			} else {
				return v
			}
		default:
			return v
		}
	}
}

// c19HostEffects: each file-system operation changes the host through exactly the host call that has the same
// meaning, so that its outcome (success, error, resulting state) is the host's own:
//
//	Remove → os.Remove;  WStat → os.Chmod / os.Chown / rename / os.Truncate on the path;  Create → os.Mkdir, os.OpenFile;
//	Open → os.OpenFile;  Write → (*os.File).WriteAt.
//
// A different mutating call — ftruncate on the open descriptor, rmdir/unlink chosen from a cached type — behaves
// differently from the direct operation in corner cases (read-only descriptors, symlinks, stale type).
func c19HostEffects(r *Run) {
	p := r.P
	mutating := map[string]bool{"Remove": true, "RemoveAll": true, "Rename": true, "Truncate": true, "Chmod": true, "Chown": true, "Lchown": true,
		"Mkdir": true, "MkdirAll": true, "OpenFile": true, "Create": true, "Rmdir": true, "Unlink": true, "Link": true, "Symlink": true,
		"Chtimes": true, "WriteAt": true, "Write": true, "WriteString": true, "WriteFile": true, "Ftruncate": true, "Fchmod": true, "Fchown": true}
	allowed := map[string]map[string]bool{
		"Remove": {"os.Remove": true},
		"WStat":  {"os.Chmod": true, "os.Chown": true, "syscall.Rename": true, "os.Rename": true, "os.Truncate": true},
		"Create": {"os.Mkdir": true, "os.OpenFile": true},
		"Open":   {"os.OpenFile": true},
		"Write":  {"(*os.File).WriteAt": true},
		"Read":   {}, "Stat": {}, "Walk": {}, "OpenDir": {}, "Clunk": {}, "Qid": {}, "IOUnit": {},
	}
	required := map[string][]string{"Remove": {"os.Remove"}, "Open": {"os.OpenFile"}, "Write": {"(*os.File).WriteAt"}}
	n := 0
	for m, allow := range allowed {
		fn := p.Fn("ufs:(*FileRef)." + m)
		if fn == nil {
			continue
		}
		have := map[string]bool{}
		for _, f := range p.withHelpers(fn, 1) {
			if f != fn && f.Signature.Recv() != nil && f.Object() != nil && f.Object().Exported() {
				continue // another operation of the interface, judged on its own
			}
			f := f
			eachInstr(f, func(in ssa.Instruction) {
				c, ok := in.(ssa.CallInstruction)
				if !ok {
					return
				}
				g := staticCallee(c.Common())
				if g == nil || g.Pkg == nil {
					return
				}
				pk := g.Pkg.Pkg.Path()
				if pk != "os" && pk != "syscall" {
					return
				}
				if !mutating[g.Name()] {
					return
				}
				n++
				name := calleeName(c.Common())
				have[name] = true
				r.Check(allow[name], "host-effects", fmt.Sprintf("FileRef.%s: changes the host only through %s", m, allowedList(allow)), in.Pos(),
					"FileRef."+m+" acts on the host through "+name+", which is not the host operation this request stands for: its result differs from the direct operation in corner cases")
			})
		}
		for _, need := range required[m] {
			r.Check(have[need], "host-effects", fmt.Sprintf("FileRef.%s: performs %s", m, need), fn.Pos(), "the operation no longer goes through "+need)
		}
	}
	r.Floor("host-effects", n, 8, "mutating host calls in FileRef methods")
}

func allowedList(m map[string]bool) string {
	ks := []string{}
	for k := range m {
		ks = append(ks, k)
	}
	sort.Strings(ks)
	if len(ks) == 0 {
		return "no mutating host call"
	}
	return strings.Join(ks, ", ")
}

// freshEntry: the entry value is constructed by the call that hands it out: the result of newRef, a FileRef literal
// (its Info is checked by the literal rule), nil, or the result of a helper of the package all of whose returned
// entries are fresh in turn (`ref.clone()`, `ref.walkNames(n, names)`).
func freshEntry(v ssa.Value, depth int) bool {
	if depth > 3 {
		return false
	}
	out := stripConv(v)
	if mi, ok := out.(*ssa.MakeInterface); ok {
		out = stripConv(mi.X)
	}
	for _, alt := range phiAlternatives(out, 2) {
		x := stripConv(alt)
		if mi, ok := x.(*ssa.MakeInterface); ok {
			x = stripConv(mi.X)
		}
		var call *ssa.Call
		idx := 0
		switch y := x.(type) {
		case *ssa.Const:
			if y.Value == nil {
				continue
			}
			return false
		case *ssa.Alloc:
			if flds, _, ok := allocFields(y); ok {
				if _, isLit := flds["Path"]; isLit {
					continue
				}
			}
			return false
		case *ssa.Extract:
			call, _ = y.Tuple.(*ssa.Call)
			idx = y.Index
		case *ssa.Call:
			call = y
		}
		if call == nil {
			return false
		}
		g := staticCallee(&call.Call)
		if g == nil {
			return false
		}
		if g.Name() == "newRef" {
			if idx == 0 {
				continue
			}
			return false
		}
		if g.Blocks == nil || g.Pkg == nil || g.Pkg.Pkg.Name() != "ufs" {
			return false
		}
		n := 0
		for _, ret := range returnsOf(g) {
			if idx >= len(ret.Results) {
				return false
			}
			n++
			if !freshEntry(ret.Results[idx], depth+1) {
				return false
			}
		}
		if n == 0 {
			return false
		}
	}
	return true
}

// c19Listing: a directory listing describes the directory's own entries: every Dir put into it is built from
// DirEntry.Info() of an entry os.ReadDir returned (lstat semantics: a symbolic link is listed as itself). Re-statting
// the names with os.Stat follows links — a dangling link or a link loop then fails and silently drops out of the listing.
func c19Listing(r *Run) {
	p := r.P
	od := p.Fn("ufs:(*FileRef).OpenDir")
	if od == nil {
		r.Undecided("listing", "(*FileRef).OpenDir", token.NoPos, "anchor not found")
		return
	}
	n := 0
	for _, fn := range p.withHelpers(od, 2) {
		if fn != od && fn.Name() != "dirFromEntry" && !strings.Contains(strings.ToLower(fn.Name()), "list") && !strings.Contains(strings.ToLower(fn.Name()), "entr") {
			continue // fullPath, IsDir, … : not part of building the listing
		}
		r.SawFn(fnName(fn))
		for _, c := range findCalls(fn, "ufs.dirFromInfo") {
			n++
			ok := false
			if ex, isEx := c.Call.Args[0].(*ssa.Extract); isEx && ex.Index == 0 {
				if ic, isC := ex.Tuple.(*ssa.Call); isC && ic.Call.IsInvoke() && ic.Call.Method.Name() == "Info" && strings.HasSuffix(shortType(ic.Call.Value.Type()), "DirEntry") {
					ok = true
				}
			}
			r.Check(ok, "listing", fnName(fn)+": a listing entry is built from DirEntry.Info() of the directory's own entry", c.Pos(),
				"the entry is described by a fresh stat of its name instead of the directory entry's own Info(): os.Stat follows symbolic links, so dangling links vanish from the listing and links are listed as their targets")
		}
		for _, c := range findCalls(fn, "os.Stat") {
			r.Bad("listing", fnName(fn)+": the listing does not re-stat names (os.Stat follows links)", c.Pos(), "os.Stat is called while building a directory listing")
		}
	}
	r.Floor("listing", n, 1, "dirFromInfo calls building the listing")
}
