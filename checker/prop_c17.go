package main

import (
	"fmt"
	"go/token"
	"go/types"
	"sort"
	"strings"

	"golang.org/x/tools/go/ssa"
)

func init() { register("C17", checkC17) }

func loadsField(v ssa.Value, base ssa.Value, field string) bool {
	u, ok := v.(*ssa.UnOp)
	if !ok || u.Op != token.MUL {
		return false
	}
	fa, ok := u.X.(*ssa.FieldAddr)
	return ok && fa.X == base && fieldName(fa.X.Type(), fa.Field) == field
}

func checkC17(r *Run) {
	p := r.P
	r.Decides = append(r.Decides,
		"Readdir.Read: the offset test (rd.offset != offset → error, 0 bytes) dominates every other effect; whole marshalled entries are appended only on an edge implying len(p)+len(entry) <= cap(p), into p[:0:len(p)] (so the bytes returned never exceed the caller's buffer and consist of whole entries); on the overflow edge the current entry is saved in the one-item buffer, and the iterator is consulted only when that buffer is empty (which is emptied when consumed) — no entry is dropped or duplicated; rd.offset advances by exactly the number of bytes returned and n is that number; io.EOF is mapped to nil",
		"mkNext1/NewFixedReaddir: index/slice obligations under the refill guards; an empty batch ends the listing",
		"the session substitutes a Readdir built from OpenDir for directories (open and create) and never calls Dirent.Open on them",
		"client openDir.Next reads at its running offset, advances it by the bytes received, decodes exactly buf[:n] entry by entry until EOF")
	r.NotDecided = append(r.NotDecided, "end-to-end equality of listings across msize values", "entries larger than the read count (precondition of the property)")

	rd := p.Fn("p9p:(*Readdir).Read")
	if rd == nil {
		r.Undecided("anchor", "(*Readdir).Read", token.NoPos, "anchor not found")
		return
	}
	r.SawFn(fnName(rd))
	fa := p.FA(rd)
	recv, pParam, offParam := rd.Params[0], rd.Params[2], rd.Params[3]

	// (1) offset test first
	var offIf *ssa.If
	var matchTruth bool
	eachInstr(rd, func(in ssa.Instruction) {
		ifi, ok := in.(*ssa.If)
		if !ok || offIf != nil {
			return
		}
		b, ok := ifi.Cond.(*ssa.BinOp)
		if !ok || (b.Op != token.NEQ && b.Op != token.EQL) {
			return
		}
		if (loadsField(b.X, recv, "offset") && b.Y == ssa.Value(offParam)) || (loadsField(b.Y, recv, "offset") && b.X == ssa.Value(offParam)) {
			offIf = ifi
			matchTruth = b.Op == token.EQL
		}
	})
	if offIf == nil {
		r.Bad("offset-first", "Readdir.Read: rejects reads at an offset other than the running offset", rd.Pos(), "no comparison of the requested offset with the running offset")
		return
	}
	r.Check(offIf.Block().Index == 0, "offset-first", "Readdir.Read: the offset test is the first thing done", offIf.Pos(), "effects precede the offset test")
	// mismatch edge returns (0, non-nil error)
	mis := offIf.Block().Succs[1]
	if !matchTruth {
		mis = offIf.Block().Succs[0]
	}
	okMis := false
	if ret, ok := mis.Instrs[len(mis.Instrs)-1].(*ssa.Return); ok && len(ret.Results) == 2 {
		if c, ok := constInt(ret.Results[0]); ok && c == 0 && !isNilConst(ret.Results[1]) {
			okMis = true
		}
	}
	r.Check(okMis, "offset-first", "Readdir.Read: a wrong offset returns (0, error)", offIf.Pos(), "a read at another offset is not refused")
	// everything with effects is on the match edge
	nEff := 0
	eachInstr(rd, func(in ssa.Instruction) {
		switch in.(type) {
		case *ssa.Call, *ssa.Store:
		default:
			return
		}
		if in.Block() == offIf.Block() || in.Block() == mis {
			return
		}
		nEff++
		ok := false
		for _, cd := range condsAtInstr(in) {
			if nc := normCond(cd); nc.V == offIf.Cond && nc.Truth == matchTruth {
				ok = true
			}
		}
		if !ok {
			r.Bad("offset-first", "Readdir.Read: no effect before the offset test passed", in.Pos(), "an effect ("+in.String()+") is reachable without the offset test having passed")
		}
	})
	r.Ok("offset-first", fmt.Sprintf("Readdir.Read: all %d calls/stores are dominated by the passed offset test", nEff), offIf.Pos())

	// (6a) the working slice starts as p[:0:len(p)]
	var work *ssa.Slice
	eachInstr(rd, func(in ssa.Instruction) {
		if sl, ok := in.(*ssa.Slice); ok && sl.X == ssa.Value(pParam) {
			work = sl
		}
	})
	okWork := false
	if work != nil && work.Low == nil && work.High != nil && work.Max != nil {
		h, _ := constInt(work.High)
		if h == 0 && fa.Lin(work.Max).Equal(fa.linSym(lenOf(fa.Sym(pParam)), 0)) {
			okWork = true
		}
	}
	r.Check(okWork, "whole-entries", "Readdir.Read: output is built in p[:0:len(p)]", rd.Pos(), "the output slice is not the empty prefix of the caller's buffer capped at its length: more than the requested bytes can be returned")

	// (2) append guard
	nApp := 0
	var marshal *ssa.Call
	for _, c := range findCalls(rd, "invoke p9p.Codec.Marshal") {
		marshal = c
	}
	eachInstr(rd, func(in ssa.Instruction) {
		c, ok := in.(*ssa.Call)
		if !ok || calleeName(&c.Call) != "builtin append" {
			return
		}
		nApp++
		lp := fa.linSym(lenOf(fa.Sym(c.Call.Args[0])), 0)
		ld := fa.linSym(lenOf(fa.Sym(c.Call.Args[1])), 0)
		cp := fa.linSym(capOf(fa.Sym(c.Call.Args[0])), 0)
		facts := fa.FactsAt(c, lp, ld, cp)
		r.Check(EntailsLE(facts, lp.Add(ld), cp), "whole-entries", "Readdir.Read: an entry is appended only when it fits (len(p)+len(entry) <= cap(p))", c.Pos(),
			"an entry can be appended beyond the caller's count: the reply exceeds the requested size / the buffer is reallocated", factStrings(facts)...)
		// what is appended is the whole marshalled entry
		okWhole := marshal != nil && c.Call.Args[1] == resultN(marshal, 0) && callSucceededAt(marshal, c)
		r.Check(okWhole, "whole-entries", "Readdir.Read: what is appended is a whole marshalled entry", c.Pos(), "a partial or unmarshalled entry is appended")
		// destination is the working slice (phi of work / previous appends)
		okDst := false
		for _, alt := range phiAlternatives(c.Call.Args[0], 3) {
			if alt == ssa.Value(work) {
				okDst = true
			}
		}
		r.Check(okDst, "whole-entries", "Readdir.Read: entries are appended to the output slice", c.Pos(), "append target is not the output slice")
	})
	r.Floor("whole-entries", nApp, 1, "append of an entry")
	// (6) return-range guarantee 0 <= n <= len(p) (the File.Read contract the dispatcher relies on):
	// n = len(output); output starts as p[:0:len(p)] (cap = len(p)); every append is guarded by len+len(entry) <= cap,
	// so append never reallocates, cap stays len(p), and len(output) <= cap(output) = len(p).
	guarded := true
	for _, o := range r.Obligs {
		if o.Rule == "whole-entries" && o.Status != Discharged {
			guarded = false
		}
	}
	r.Check(okWork && guarded && nApp >= 1, "return-range", "Readdir.Read: 0 <= n <= len(p) (File.Read contract)", rd.Pos(),
		"the premises of the no-reallocation argument do not hold: n may exceed len(p) and the dispatcher's p[:n] panics",
		"output = p[:0:len(p)]", "every append guarded by len(output)+len(entry) <= cap(output)", "n = len(output) <= cap(output) = len(p)")

	// (3) one-item look-ahead
	// Read and the *Readdir methods it calls (the look-ahead step may be extracted into a helper method)
	type scoped struct {
		fn   *ssa.Function
		recv ssa.Value
	}
	scope := []scoped{{rd, recv}}
	for _, g := range r.P.withHelpers(rd, 1)[1:] {
		if g.Signature.Recv() != nil && len(g.Params) > 0 && types.Identical(g.Params[0].Type(), recv.Type()) {
			// only when called on Read's own receiver
			same := true
			for _, c := range findCalls(rd, fnName(g)) {
				if len(c.Call.Args) == 0 || c.Call.Args[0] != ssa.Value(recv) {
					same = false
				}
			}
			if same {
				scope = append(scope, scoped{g, g.Params[0]})
			}
		}
	}
	var bufStoreNonNil, bufStoreNil *ssa.Store
	var bufStoreNilRecv ssa.Value
	for _, sc := range scope {
		sc := sc
		eachInstr(sc.fn, func(in ssa.Instruction) {
			st, ok := in.(*ssa.Store)
			if !ok {
				return
			}
			f, ok := st.Addr.(*ssa.FieldAddr)
			if !ok || f.X != sc.recv || fieldName(f.X.Type(), f.Field) != "buf" {
				return
			}
			if isNilConst(st.Val) {
				bufStoreNil, bufStoreNilRecv = st, sc.recv
			} else if sc.fn == rd {
				bufStoreNonNil = st
			}
		})
	}
	okSave := false
	if bufStoreNonNil != nil && marshal != nil {
		// saved on the does-not-fit edge, and what is saved is the entry that was marshalled
		lp := fa.linSym(lenOf(fa.Sym(work)), 0)
		_ = lp
		facts := fa.FactsAt(bufStoreNonNil)
		for _, f := range facts {
			_ = f
		}
		// the store is on an edge where the fit test failed: some dominating cond compares len+len(dp) with cap and says >
		for _, cd := range condsAtInstr(bufStoreNonNil) {
			nc := normCond(cd)
			if b, ok := nc.V.(*ssa.BinOp); ok {
				// the edge says  len(output)+len(entry) > cap(output)  in any spelling: hi - lo has +len and -cap terms
				var hi, lo ssa.Value
				switch {
				case (b.Op == token.GTR && nc.Truth) || (b.Op == token.LEQ && !nc.Truth):
					hi, lo = b.X, b.Y
				case (b.Op == token.LSS && nc.Truth) || (b.Op == token.GEQ && !nc.Truth):
					hi, lo = b.Y, b.X
				}
				if hi != nil {
					d := fa.Lin(hi).Sub(fa.Lin(lo))
					nLen, nCap := 0, 0
					for k, c := range d.T {
						switch {
						case d.Atoms[k].Op == "len" && c == 1:
							nLen++
						case d.Atoms[k].Op == "cap" && c == -1:
							nCap++
						}
					}
					if nLen >= 1 && nCap == 1 {
						okSave = true
					}
				}
			}
		}
		if a, ok := bufStoreNonNil.Val.(*ssa.Alloc); ok {
			arg := stripConv(marshal.Call.Args[0])
			if u, ok := arg.(*ssa.UnOp); !ok || u.X != ssa.Value(a) {
				okSave = false
			}
		} else {
			okSave = false
		}
	}
	r.Check(okSave, "look-ahead", "Readdir.Read: the entry that does not fit is saved for the next read", rd.Pos(), "an entry that does not fit in this read is dropped (it is never delivered)")
	// iterator consulted only when the buffer is empty; buffer emptied when consumed
	nNext := 0
	for _, sc := range scope {
		recv := sc.recv
		eachInstr(sc.fn, func(in ssa.Instruction) {
			c, ok := in.(*ssa.Call)
			if !ok || !loadsField(c.Call.Value, recv, "nextfn") {
				return
			}
			nNext++
			ok2 := false
			for _, cd := range condsAtInstr(c) {
				nc := normCond(cd)
				if b, ok := nc.V.(*ssa.BinOp); ok && (b.Op == token.NEQ || b.Op == token.EQL) {
					for _, pair := range [][2]ssa.Value{{b.X, b.Y}, {b.Y, b.X}} {
						if loadsField(pair[0], recv, "buf") && isNilConst(pair[1]) && (b.Op == token.EQL) == nc.Truth {
							ok2 = true
						}
					}
				}
			}
			r.Check(ok2, "look-ahead", "Readdir.Read: the iterator is asked for a new entry only when no entry is pending", c.Pos(), "a pending (saved) entry is skipped: the listing loses an entry")
			e := resultN(c, 1)
			r.Check(e != nil && len(referrers(e)) > 0, "look-ahead", "Readdir.Read: iterator errors end the read", c.Pos(), "iterator errors are ignored")
		})
	}
	r.Floor("look-ahead", nNext, 1, "iterator call")
	okConsume := false
	if bufStoreNil != nil {
		recv := bufStoreNilRecv
		for _, cd := range condsAtInstr(bufStoreNil) {
			nc := normCond(cd)
			if b, ok := nc.V.(*ssa.BinOp); ok && (b.Op == token.NEQ || b.Op == token.EQL) {
				for _, pair := range [][2]ssa.Value{{b.X, b.Y}, {b.Y, b.X}} {
					if loadsField(pair[0], recv, "buf") && isNilConst(pair[1]) && (b.Op == token.NEQ) == nc.Truth {
						okConsume = true
					}
				}
			}
		}
	}
	r.Check(okConsume, "look-ahead", "Readdir.Read: a pending entry is taken exactly once (buffer cleared when consumed)", rd.Pos(), "the pending entry is delivered again on every read (duplicate entries) or never cleared")

	// (4) offset advance and (5) EOF mapping, (6) n
	nRet := 0
	for _, ret := range returnsOf(rd) {
		if ret.Block() == mis {
			continue
		}
		nRet++
		n := ret.Results[0]
		// n == len(final p)
		okN := false
		var pfin *Sym
		if c, ok := n.(*ssa.Call); ok && calleeName(&c.Call) == "builtin len" {
			for _, alt := range phiAlternatives(c.Call.Args[0], 1) {
				_ = alt
			}
			pfin = fa.Sym(c.Call.Args[0])
			if ph, ok := c.Call.Args[0].(*ssa.Phi); ok {
				for _, alt := range phiAlternatives(ph, 3) {
					if alt == ssa.Value(work) {
						okN = true
					}
				}
			}
		}
		r.Check(okN, "offset-advance", "Readdir.Read: n is the length of the output slice", ret.Pos(), "the count returned is not the number of bytes placed in the buffer")
		// offset store dominating the return with value old+n
		okOff := false
		eachInstr(rd, func(in ssa.Instruction) {
			st, ok := in.(*ssa.Store)
			if !ok || !instrDominates(st, ret) {
				return
			}
			f, ok := st.Addr.(*ssa.FieldAddr)
			if !ok || f.X != ssa.Value(recv) || fieldName(f.X.Type(), f.Field) != "offset" {
				return
			}
			if pfin == nil {
				return
			}
			want := fa.linSym(lenOf(pfin), 0)
			got := fa.LinMod(st.Val, 64) // the offset is advanced in int64 arithmetic: the relation is exact modulo 2^64
			// got - want must be exactly one load of rd.offset at the entry version
			d := got.Sub(want)
			if d.C == 0 && len(d.T) == 1 {
				for k, c := range d.T {
					if c == 1 && d.Atoms[k].Op == "ld" && d.Atoms[k].Aux == "F:p9p.Readdir.offset" {
						okOff = true
					}
				}
			}
		})
		r.Check(okOff, "offset-advance", "Readdir.Read: rd.offset advances by exactly the bytes returned", ret.Pos(), "the running offset does not advance by n: the next sequential read is refused or entries are skipped")
		// EOF → nil
		okEOF := false
		if ph, ok := ret.Results[1].(*ssa.Phi); ok {
			for i, e := range ph.Edges {
				if !isNilConst(e) {
					continue
				}
				pred := ph.Block().Preds[i]
				for _, cd := range append(condsAt(pred), edgeCond(pred, ph.Block())...) {
					nc := normCond(cd)
					if b, ok := nc.V.(*ssa.BinOp); ok && b.Op == token.EQL && nc.Truth {
						for _, side := range []ssa.Value{b.X, b.Y} {
							if u, ok := side.(*ssa.UnOp); ok {
								if g, ok := u.X.(*ssa.Global); ok && g.Name() == "EOF" {
									okEOF = true
								}
							}
						}
					}
				}
			}
		}
		r.Check(okEOF, "eof", "Readdir.Read: io.EOF from the iterator is reported as a short/empty read with nil error", ret.Pos(), "io.EOF escapes to the client as an error at the end of a listing")
	}
	r.Floor("offset-advance", nRet, 1, "normal return of Readdir.Read")

	// (7) bounds
	n := 0
	for _, fn := range p.FuncsOfPkg("p9p") {
		if p.FileOf(fn.Pos()) == "readdir.go" {
			r.SawFn(fnName(fn))
			n += dischargeBounds(r, fn, "bounds", nil)
		}
	}
	if fn := p.Fn("p9p:(*openDir).Next"); fn != nil {
		n += dischargeBounds(r, fn, "bounds", nil)
	}
	r.Floor("bounds", n, 6, "bounds obligations in readdir.go / openDir.Next")
	// an empty batch ends the listing: in mkNext1's closure, len(ret)==0 → done = true and EOF
	c17EmptyBatch(r)
	c17SessionSubstitutes(r)
	c17ClientNext(r)
	// the client obtains exactly the server's entries: DecodeDir accepts every record its steps accept
	if dd := p.Fn("p9p:DecodeDir"); dd != nil {
		nf := 0
		for _, f := range p.withHelpers(dd, 1) {
			nf += onlyForwardedErrors(r, f, "decode-dir", "a well-formed directory entry can be refused")
		}
		r.Floor("decode-dir", nf, 2, "error returns of DecodeDir")
	}
}

// edgeCond: the branch condition (if any) holding on the edge pred→succ.
func edgeCond(pred, succ *ssa.BasicBlock) []Cond {
	if ifi, ok := pred.Instrs[len(pred.Instrs)-1].(*ssa.If); ok && pred.Succs[0] != pred.Succs[1] {
		for si := 0; si < 2; si++ {
			if pred.Succs[si] == succ {
				return []Cond{normCond(Cond{ifi.Cond, si == 0})}
			}
		}
	}
	return nil
}

func c17EmptyBatch(r *Run) {
	p := r.P
	// the single-entry iterator mkNext1 hands out: its closure, or a bound method of a state object
	var cl *ssa.Function
	if mk := p.Fn("p9p:mkNext1"); mk != nil {
		if len(mk.AnonFuncs) == 1 {
			cl = mk.AnonFuncs[0]
		} else {
			for _, ret := range returnsOf(mk) {
				if mc, ok := stripConv(ret.Results[0]).(*ssa.MakeClosure); ok {
					if f, ok := mc.Fn.(*ssa.Function); ok {
						if f.Synthetic != "" && f.Object() != nil {
							if tf, ok := f.Object().(*types.Func); ok {
								f = mk.Prog.FuncValue(tf)
							}
						}
						if f != nil && f.Blocks != nil {
							cl = f
						}
					}
				}
			}
		}
	}
	if cl == nil {
		r.Undecided("iterator", "mkNext1 closure", token.NoPos, "anchor not found")
		return
	}
	// every return with EOF either follows the done flag or sets it on an empty batch; an error from next is returned as is
	okDone := false
	nBadLatch := 0
	clTop := cl
	for _, cl := range p.withHelpers(clTop, 1) {
		cl := cl
		eachInstr(cl, func(in ssa.Instruction) {
			st, ok := in.(*ssa.Store)
			if !ok {
				return
			}
			isFlag := false
			if fv, ok := st.Addr.(*ssa.FreeVar); ok && fv.Name() == "done" {
				isFlag = true
			}
			if f, ok := st.Addr.(*ssa.FieldAddr); ok && len(cl.Params) > 0 && len(clTop.Params) > 0 && f.X == ssa.Value(cl.Params[0]) &&
				types.Identical(cl.Params[0].Type(), clTop.Params[0].Type()) && fieldName(f.X.Type(), f.Field) == "done" {
				isFlag = true // the flag kept in the iterator's state object (set by the iterator or a method it calls)
			}
			if isFlag {
				if c, ok := st.Val.(*ssa.Const); ok && c.Value != nil && c.Value.String() == "true" {
					fa := p.FA(cl)
					facts := fa.FactsAt(st)
					empty := false
					for _, f := range facts {
						for _, a := range f.L.Atoms {
							if a.Op == "len" && Entails(facts, linAtom(a)) { // len(batch) <= 0
								empty = true
							}
						}
					}
					// … and only then: the latch is set on the success edge of the refill (a refill that failed says nothing
					// about the end of the listing — latching it turns a transient error into a false end of directory)
					refillOK := false
					eachInstr(cl, func(in2 ssa.Instruction) {
						c2, ok := in2.(*ssa.Call)
						if !ok || c2.Call.IsInvoke() || staticCallee(&c2.Call) != nil {
							return
						}
						if _, isB := c2.Call.Value.(*ssa.Builtin); isB {
							return
						}
						if e := errResult(c2); e != nil && instrDominates(c2, st) && knownNilAt(e, st) {
							refillOK = true
						}
					})
					if empty && refillOK {
						okDone = true
					} else {
						nBadLatch++
						r.Bad("iterator", "mkNext1: the finished flag is set only after a successful refill that returned no entries", st.Pos(),
							"the end-of-listing latch is set on a path where the refill failed or returned entries: a transient error (or a non-empty batch) ends the listing early and the remaining entries are never delivered")
					}
				}
			}
		})
	}
	cl = clTop
	_ = nBadLatch
	r.Check(okDone, "iterator", "mkNext1: an empty batch marks the listing finished", cl.Pos(), "an empty batch does not end the listing (the iterator is polled for ever / entries after it are lost)")
}

func c17SessionSubstitutes(r *Run) {
	p := r.P
	isDirTestsTheBit(r, "isdir")
	// Readdir keeps an iterator, a look-ahead entry and the running offset without a lock of its own: it relies on
	// the session to serialise the reads of one fid — File.Read is called with the fid's lock held
	{
		ts, _ := runSessionTypestate(p, false)
		keys := []string{}
		for k := range ts.acc {
			if strings.HasPrefix(k, "(*p9p.session).Read:") {
				keys = append(keys, k)
			}
		}
		sort.Strings(keys)
		nRead := 0
		for _, k := range keys {
			a := ts.acc[k]
			if !strings.Contains(k, "File") {
				continue
			}
			nRead++
			if a.ok {
				r.Ok("read-serialised", a.key, a.pos)
			} else {
				r.Bad("read-serialised", a.key, a.pos, a.why+" — two reads of one directory fid overlap in the Readdir: both pass the offset check and share the iterator and the look-ahead entry")
			}
		}
		r.Floor("read-serialised", nRead, 2, "accesses to the fid's File in session.Read")
	}
	ol := p.Fn("p9p:openLocked")
	if ol == nil {
		r.Undecided("substitute", "openLocked", token.NoPos, "anchor not found")
		return
	}
	isDirEdge := func(in ssa.Instruction, want bool) bool {
		for _, cd := range condsAtInstr(in) {
			nc := normCond(cd)
			if c, ok := nc.V.(*ssa.Call); ok && calleeName(&c.Call) == "p9p.IsDir" && nc.Truth == want {
				return true
			}
		}
		return false
	}
	nR := 0
	olFns := p.withHelpers(ol, 1)
	var newRd, opens []*ssa.Call
	for _, f := range olFns {
		newRd = append(newRd, findCalls(f, "p9p.NewReaddir")...)
		opens = append(opens, findCallsInvoke(f, "Open", "Dirent")...)
	}
	for _, c := range newRd {
		nR++
		okArg := false
		if ex, ok := stripConv(c.Call.Args[1]).(*ssa.Extract); ok && ex.Index == 0 {
			if oc, ok := ex.Tuple.(*ssa.Call); ok && oc.Call.IsInvoke() && oc.Call.Method.Name() == "OpenDir" {
				okArg = true
			}
		}
		r.Check(isDirEdge(c, true) && okArg, "substitute", "openLocked: directories get a Readdir over Dirent.OpenDir", c.Pos(), "the directory reader is not built from the entry's OpenDir on the is-directory edge")
	}
	r.Floor("substitute", nR, 1, "NewReaddir in openLocked")
	for _, c := range opens {
		r.Check(isDirEdge(c, false), "substitute", "openLocked: Dirent.Open is not called for directories", c.Pos(), "directories are opened as plain files: directory reads are not packed into whole entries")
	}
	// the stored File is what was opened
	cr := p.Fn("p9p:(*session).Create")
	if cr != nil {
		// (the open may sit in a helper of Create handed the new entry, with the is-directory test at the call site)
		isDirCond := func(nc Cond) bool {
			c, ok := nc.V.(*ssa.Call)
			return ok && calleeName(&c.Call) == "p9p.IsDir" && nc.Truth
		}
		isCreated := func(v ssa.Value) bool {
			ex, isEx := stripConv(v).(*ssa.Extract)
			if !isEx || ex.Index != 0 {
				return false
			}
			cc, isC := ex.Tuple.(*ssa.Call)
			return isC && cc.Call.IsInvoke() && cc.Call.Method.Name() == "Create"
		}
		ok := false
		type site struct {
			c *ssa.Call
			f *ssa.Function
		}
		var sites []site
		for _, f := range p.withHelpers(cr, 1) {
			for _, c := range findCalls(f, "p9p.openLocked") {
				sites = append(sites, site{c, f})
				if p.guardedHereOrAtCallers(c, isDirCond, 1) {
					ok = true
				}
			}
		}
		r.Check(ok, "substitute", "session.Create: a created directory is opened through openLocked (Readdir)", cr.Pos(), "a created directory is left with the file returned by the file system instead of a Readdir")
		// … and what is opened is the entry just created, not the parent
		for _, st := range sites {
			c := st.c
			okEnt := false
			if len(c.Call.Args) >= 2 {
				if a, isA := c.Call.Args[1].(*ssa.Alloc); isA {
					if flds, _, okF := allocFields(a); okF {
						ent := stripConv(flds["Ent"])
						if isCreated(ent) {
							okEnt = true
						} else if prm, isP := ent.(*ssa.Parameter); isP && st.f != cr {
							// the helper's parameter: the created entry at every call of the helper
							if cs, exact := p.staticCallSites(st.f); exact && len(cs) > 0 {
								okEnt = true
								for _, hc := range cs {
									idx := -1
									for i, q := range st.f.Params {
										if q == prm {
											idx = i
										}
									}
									if idx < 0 || idx >= len(hc.Call.Args) || !isCreated(hc.Call.Args[idx]) {
										okEnt = false
									}
								}
							}
						}
					}
				}
			}
			r.Check(okEnt, "substitute", "session.Create: the directory reader is opened on the entry Create returned", c.Pos(),
				"the Readdir of a freshly created directory is built over another entry (e.g. the parent): reads on the new fid list the wrong directory")
		}
	}
}

func c17ClientNext(r *Run) {
	p := r.P
	nx := p.Fn("p9p:(*openDir).Next")
	if nx == nil {
		r.Undecided("client-next", "(*openDir).Next", token.NoPos, "anchor not found")
		return
	}
	r.SawFn(fnName(nx))
	fa := p.FA(nx)
	recv := nx.Params[0]
	var rdc *ssa.Call
	eachInstr(nx, func(in ssa.Instruction) {
		if c, ok := in.(*ssa.Call); ok && (calleeName(&c.Call) == "(p9p.fileRef).Read" || (c.Call.IsInvoke() && c.Call.Method.Name() == "Read")) {
			rdc = c
		}
	})
	if rdc == nil {
		r.Bad("client-next", "openDir.Next: reads the directory", nx.Pos(), "no read call")
		return
	}
	args := rdc.Call.Args
	okArgs := false
	for i := range args {
		if i+1 < len(args) && loadsField(args[i], recv, "buf") && loadsField(args[i+1], recv, "nread") {
			okArgs = true
		}
	}
	r.Check(okArgs, "client-next", "openDir.Next: reads into its buffer at the running offset", rdc.Pos(), "the directory is not read at the running offset")
	// each open directory reads into a buffer of its own
	nBuf := 0
	for _, fn := range p.FuncsOfPkg("p9p") {
		eachInstr(fn, func(in ssa.Instruction) {
			a, ok := in.(*ssa.Alloc)
			if !ok || !isP9P(a.Type(), "openDir") {
				return
			}
			flds, _, ok := allocFields(a)
			if !ok {
				return
			}
			b, has := flds["buf"]
			if !has {
				return
			}
			nBuf++
			_, fresh := b.(*ssa.MakeSlice)
			r.Check(fresh, "client-next", fnName(fn)+": an open directory gets a chunk buffer made for it", in.Pos(),
				"open directories share one chunk buffer: a listing decodes bytes another listing's read put there (entries of the wrong directory, own entries lost)")
		})
	}
	r.Floor("client-next", nBuf, 1, "openDir constructions")
	n := resultN(rdc, 0)
	okAdv := false
	eachInstr(nx, func(in ssa.Instruction) {
		st, ok := in.(*ssa.Store)
		if !ok {
			return
		}
		f, ok := st.Addr.(*ssa.FieldAddr)
		if !ok || f.X != ssa.Value(recv) || fieldName(f.X.Type(), f.Field) != "nread" {
			return
		}
		d := fa.LinMod(st.Val, 64).Sub(fa.LinMod(n, 64))
		if d.C == 0 && len(d.T) == 1 {
			for k, c := range d.T {
				if c == 1 && d.Atoms[k].Op == "ld" && d.Atoms[k].Aux == "F:p9p.openDir.nread" {
					okAdv = true
				}
			}
		}
	})
	r.Check(okAdv, "client-next", "openDir.Next: the running offset advances by the bytes received", rdc.Pos(), "the client's offset does not advance by n: the server refuses the next read or entries repeat")
	// the listing is declared finished only on evidence of its end: the read reported EOF, returned no bytes, or
	// yielded no entry — never because a chunk was merely shorter than the buffer (the server sends whole entries
	// only, so almost every chunk is short)
	nDone := 0
	eachInstr(nx, func(in ssa.Instruction) {
		st, ok := in.(*ssa.Store)
		if !ok {
			return
		}
		f, ok := st.Addr.(*ssa.FieldAddr)
		if !ok || f.X != ssa.Value(recv) || fieldName(f.X.Type(), f.Field) != "done" {
			return
		}
		if c, isC := st.Val.(*ssa.Const); !isC || c.Value == nil || c.Value.String() != "true" {
			r.Bad("client-next", "openDir.Next: done is only ever set to true", st.Pos(), "the end-of-listing flag is set from a computed value")
			return
		}
		nDone++
		okEnd := false
		for _, cd := range condsAtInstr(st) {
			nc := normCond(cd)
			b, isB := nc.V.(*ssa.BinOp)
			if !isB || b.Op != token.EQL || !nc.Truth {
				continue
			}
			for _, side := range []ssa.Value{b.X, b.Y} {
				if u, isU := side.(*ssa.UnOp); isU && u.Op == token.MUL {
					if g, isG := u.X.(*ssa.Global); isG && g.Name() == "EOF" {
						okEnd = true
					}
				}
			}
		}
		facts := fa.FactsAt(st, fa.Lin(n))
		if Entails(facts, fa.Lin(n)) { // n <= 0
			okEnd = true
		}
		for _, fct := range facts {
			for _, a := range fct.L.Atoms {
				if a.Op == "len" && len(a.Args) == 1 && strings.Contains(shortType(a.Args[0].T), "[]p9p.Dir") && Entails(facts, linAtom(a)) {
					okEnd = true // no entry was decoded from this chunk
				}
			}
		}
		r.Check(okEnd, "client-next", "openDir.Next: the listing is marked finished only on EOF, an empty read or an empty batch", st.Pos(),
			"the client stops listing on a condition that does not mean end-of-directory (e.g. a short chunk): the remaining entries are silently dropped")
	})
	r.Floor("client-next", nDone, 1, "stores to openDir.done")
	// decodes exactly buf[:n]
	okSl := false
	isChunk := func(v ssa.Value) bool {
		sl, ok := v.(*ssa.Slice)
		return ok && loadsField(sl.X, recv, "buf") && sl.Low == nil && sl.High == n
	}
	var dd []*ssa.Call
	for _, f := range p.withHelpers(nx, 1) {
		dd = append(dd, findCalls(f, "p9p.DecodeDir")...)
		for _, c := range findCalls(f, "bytes.NewReader") {
			if f == nx {
				if isChunk(c.Call.Args[0]) {
					okSl = true
				}
				continue
			}
			// the decoding loop moved into a helper: the reader is built over a parameter that Next binds to buf[:n]
			for i, prm := range f.Params {
				if c.Call.Args[0] != ssa.Value(prm) {
					continue
				}
				for _, cs := range findCalls(nx, fnName(f)) {
					if i < len(cs.Call.Args) && isChunk(cs.Call.Args[i]) {
						okSl = true
					}
				}
			}
		}
	}
	r.Check(okSl, "client-next", "openDir.Next: decodes exactly the bytes received (buf[:n])", rdc.Pos(), "stale bytes beyond n are decoded as entries")
	r.Check(len(dd) == 1 && inLoop(dd[0]), "client-next", "openDir.Next: decodes entries until the chunk is exhausted", nx.Pos(), "entries after the first of a chunk are not decoded")
	if len(dd) == 1 {
		e := errResult(dd[0])
		r.Check(e != nil && len(referrers(e)) > 0, "client-next", "openDir.Next: decode errors are examined", dd[0].Pos(), "decode errors ignored")
	}
}
