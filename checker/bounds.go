package main

// Engine E4: panic-freedom obligations for slice expressions, indexing, make
// sizes and unchecked type assertions, discharged by linear-fact entailment.

import (
	"fmt"
	"go/token"
	"go/types"
	"os"
	"os/exec"
	"path/filepath"
	"sort"
	"strings"

	"golang.org/x/tools/go/ssa"
)

type boundGoal struct {
	a, b *Lin // a <= b
	text string
}

type BoundOb struct {
	In    ssa.Instruction
	Kind  string // slice, index, make, typeassert
	Key   string
	Goals []boundGoal
}

// boundObligations enumerates the obligations of one function.
func (fa *FA) boundObligations() []BoundOb {
	var out []BoundOb
	fname := fnName(fa.Fn)
	eachInstr(fa.Fn, func(in ssa.Instruction) {
		switch x := in.(type) {
		case *ssa.Slice:
			base := fa.Sym(x.X)
			var upper *Lin
			upperTxt := ""
			switch t := x.X.Type().Underlying().(type) {
			case *types.Slice:
				upper, upperTxt = fa.linSym(capOf(base), 0), "cap("+valStr(x.X)+")"
			case *types.Basic: // string
				upper, upperTxt = fa.linSym(lenOf(base), 0), "len("+valStr(x.X)+")"
			case *types.Pointer:
				if arr, ok := t.Elem().Underlying().(*types.Array); ok {
					upper, upperTxt = linConst(arr.Len()), fmt.Sprint(arr.Len())
				}
			}
			if upper == nil {
				return
			}
			lo, hi, max := linConst(0), (*Lin)(nil), (*Lin)(nil)
			loT, hiT, maxT := "0", "", ""
			if x.Low != nil {
				lo, loT = fa.Lin(x.Low), valStr(x.Low)
			}
			if x.High != nil {
				hi, hiT = fa.Lin(x.High), valStr(x.High)
			}
			if x.Max != nil {
				max, maxT = fa.Lin(x.Max), valStr(x.Max)
			}
			ob := BoundOb{In: in, Kind: "slice", Key: fmt.Sprintf("%s: slice %s[%s:%s:%s]", fname, valStr(x.X), loT, hiT, maxT)}
			if x.Low != nil {
				ob.Goals = append(ob.Goals, boundGoal{linConst(0), lo, "0 <= " + loT})
			}
			last, lastT := lo, loT
			if hi != nil {
				ob.Goals = append(ob.Goals, boundGoal{last, hi, lastT + " <= " + hiT})
				last, lastT = hi, hiT
			} else if x.Low != nil {
				// hi defaults to len(x)
				if _, isPtr := x.X.Type().Underlying().(*types.Pointer); !isPtr {
					ob.Goals = append(ob.Goals, boundGoal{lo, fa.linSym(lenOf(base), 0), loT + " <= len"})
				}
				last = nil
			} else {
				last = nil
			}
			if max != nil {
				if last != nil {
					ob.Goals = append(ob.Goals, boundGoal{last, max, lastT + " <= " + maxT})
				}
				last, lastT = max, maxT
			}
			if last != nil {
				ob.Goals = append(ob.Goals, boundGoal{last, upper, lastT + " <= " + upperTxt})
			}
			if len(ob.Goals) > 0 {
				out = append(out, ob)
			}
		case *ssa.IndexAddr:
			idx := fa.Lin(x.Index)
			var n *Lin
			switch t := x.X.Type().Underlying().(type) {
			case *types.Slice:
				n = fa.linSym(lenOf(fa.Sym(x.X)), 0)
			case *types.Pointer:
				if arr, ok := t.Elem().Underlying().(*types.Array); ok {
					n = linConst(arr.Len())
				}
			}
			if n == nil {
				return
			}
			out = append(out, BoundOb{In: in, Kind: "index", Key: fmt.Sprintf("%s: index %s[%s]", fname, valStr(x.X), valStr(x.Index)),
				Goals: []boundGoal{{linConst(0), idx, "0 <= " + valStr(x.Index)}, {idx.Add(linConst(1)), n, valStr(x.Index) + " < len"}}})
		case *ssa.Index:
			idx := fa.Lin(x.Index)
			var n *Lin
			switch t := x.X.Type().Underlying().(type) {
			case *types.Array:
				n = linConst(t.Len())
			case *types.Basic:
				n = fa.linSym(lenOf(fa.Sym(x.X)), 0)
			}
			if n == nil {
				return
			}
			out = append(out, BoundOb{In: in, Kind: "index", Key: fmt.Sprintf("%s: index %s[%s]", fname, valStr(x.X), valStr(x.Index)),
				Goals: []boundGoal{{linConst(0), idx, "0 <= " + valStr(x.Index)}, {idx.Add(linConst(1)), n, valStr(x.Index) + " < len"}}})
		case *ssa.Lookup:
			if b, ok := x.X.Type().Underlying().(*types.Basic); ok && b.Info()&types.IsString != 0 {
				idx := fa.Lin(x.Index)
				n := fa.linSym(lenOf(fa.Sym(x.X)), 0)
				out = append(out, BoundOb{In: in, Kind: "index", Key: fmt.Sprintf("%s: index %s[%s]", fname, valStr(x.X), valStr(x.Index)),
					Goals: []boundGoal{{linConst(0), idx, "0 <= " + valStr(x.Index)}, {idx.Add(linConst(1)), n, valStr(x.Index) + " < len"}}})
			}
		case *ssa.MakeSlice:
			ln, cp := fa.Lin(x.Len), fa.Lin(x.Cap)
			ob := BoundOb{In: in, Kind: "make", Key: fmt.Sprintf("%s: make %s len %s", fname, shortType(x.Type()), valStr(x.Len)),
				Goals: []boundGoal{{linConst(0), ln, "0 <= " + valStr(x.Len)}}}
			if x.Cap != x.Len {
				ob.Goals = append(ob.Goals, boundGoal{ln, cp, "len <= cap"})
			}
			out = append(out, ob)
		case *ssa.TypeAssert:
			if !x.CommaOk {
				out = append(out, BoundOb{In: in, Kind: "typeassert", Key: fmt.Sprintf("%s: %s.(%s) without comma-ok", fname, valStr(x.X), shortType(x.AssertedType))})
			}
		}
	})
	return out
}

// reviewedBound is a T4 table entry: an obligation that is not discharged by linear
// entailment but by a reviewed argument. Keyed by (function, obligation-key fragment).
type reviewedBound struct {
	fn, frag, reason string
}

// dischargeBounds evaluates every obligation of fn and records it under (prop, rule).
// Returns the number of obligations.
func dischargeBounds(r *Run, fn *ssa.Function, rule string, reviewed []reviewedBound) int {
	fa := r.P.FA(fn)
	obs := fa.boundObligations()
	r.BoundsFns[fn] = true
	for _, ob := range obs {
		r.BoundsPos[r.P.Pos(ob.In.Pos())] = true
	}
	for _, ob := range obs {
		if ob.Kind == "typeassert" {
			done := false
			for _, rv := range reviewed {
				if rv.fn == fnName(fn) && strings.Contains(ob.Key, rv.frag) {
					r.Ok(rule, ob.Key, ob.In.Pos(), "reviewed: "+rv.reason)
					done = true
				}
			}
			if !done {
				r.Bad(rule, ob.Key, ob.In.Pos(), "type assertion without comma-ok panics when the dynamic type differs")
			}
			continue
		}
		var ls []*Lin
		for _, g := range ob.Goals {
			ls = append(ls, g.a, g.b)
		}
		facts := fa.FactsAt(ob.In, ls...)
		typeOnly := fa.closeFacts(nil, ls...)
		var failed []string
		nontrivial := false
		for _, g := range ob.Goals {
			if EntailsLE(typeOnly, g.a, g.b) {
				continue
			}
			nontrivial = true
			if !EntailsLE(facts, g.a, g.b) && !fa.entailsPhiSplit(ob.In, facts, g.a, g.b, 2) {
				failed = append(failed, g.text)
			}
		}
		if len(failed) == 0 {
			if nontrivial {
				r.Ok(rule, ob.Key, ob.In.Pos(), factStrings(facts)...)
			} else {
				r.OkTrivial(rule, ob.Key, ob.In.Pos())
			}
			continue
		}
		done := false
		for _, rv := range reviewed {
			if rv.fn == fnName(fn) && strings.Contains(ob.Key, rv.frag) {
				r.Ok(rule, ob.Key, ob.In.Pos(), "reviewed: "+rv.reason)
				done = true
				break
			}
		}
		if !done {
			// a helper's precondition: the goal speaks only of the helper's parameters and holds at every call site
			if why, ok := provedAtCallers(r.P, fn, ob); ok {
				r.Ok(rule, ob.Key, ob.In.Pos(), why)
				continue
			}
			r.Bad(rule, ob.Key, ob.In.Pos(), "cannot prove "+strings.Join(failed, " and ")+" on every path: the operation can panic", factStrings(facts)...)
		}
	}
	return len(obs)
}

// provedAtCallers: every goal of ob is an affine statement over fn's parameters and their lengths (immutable in
// the callee), fn is an unexported function all of whose uses are plain static calls, and at each call site the
// goal — with the arguments substituted — is entailed by the facts valid there.
func provedAtCallers(p *Prog, fn *ssa.Function, ob BoundOb) (string, bool) {
	if fn.Parent() != nil {
		return "", false
	}
	sites, exact := p.staticCallSites(fn)
	if !exact || len(sites) == 0 {
		return "", false
	}
	paramIdx := func(v ssa.Value) int {
		for i, prm := range fn.Params {
			if ssa.Value(prm) == v {
				return i
			}
		}
		return -1
	}
	for _, c := range sites {
		cfa := p.FA(c.Parent())
		for _, g := range ob.Goals {
			goal := g.a.Sub(g.b)
			sub := linConst(goal.C)
			for k, coef := range goal.T {
				a := goal.Atoms[k]
				var repl *Lin
				switch {
				case a.Op == "param":
					if i := paramIdx(a.V); i >= 0 && i < len(c.Call.Args) {
						repl = cfa.Lin(c.Call.Args[i])
					}
				case a.Op == "len" && len(a.Args) == 1 && a.Args[0].Op == "param":
					if i := paramIdx(a.Args[0].V); i >= 0 && i < len(c.Call.Args) {
						repl = cfa.linSym(lenOf(cfa.Sym(c.Call.Args[i])), 0)
					}
				}
				if repl == nil {
					return "", false
				}
				sub = sub.Add(repl.Scale(coef))
			}
			facts := cfa.FactsAt(c, sub)
			if !Entails(facts, sub) && !cfa.entailsPhiSplit(c, facts, sub, linConst(0), 2) {
				return "", false
			}
		}
	}
	return fmt.Sprintf("precondition over the parameters, proved at all %d call sites of %s", len(sites), fnName(fn)), true
}

var _ = token.NoPos

// entailsPhiSplit proves a <= b by case analysis on one phi atom of the goal: on the paths
// entering the phi's block through edge i the phi equals its i-th operand and the edge's
// branch conditions hold (in addition to the facts valid at the obligation on every path).
func (fa *FA) entailsPhiSplit(at ssa.Instruction, facts []Fact, a, b *Lin, depth int) bool {
	if depth == 0 {
		return false
	}
	goal := a.Sub(b)
	for k, s := range goal.Atoms {
		_ = k
		var phi *ssa.Phi
		if s.Op == "phi" {
			phi, _ = s.V.(*ssa.Phi)
		}
		// memory merge: len/cap of (or the value of) a load whose version is a merge of its block's predecessors
		if ld := s; (s.Op == "len" || s.Op == "cap" || s.Op == "ld") && phi == nil {
			if s.Op != "ld" && len(s.Args) == 1 {
				ld = s.Args[0]
			}
			if ld.Op == "ld" && len(ld.Args) == 1 {
				var ver int
				if i := strings.LastIndex(ld.K, "@"); i >= 0 {
					fmt.Sscanf(ld.K[i+1:], "%d", &ver)
				}
				if ver >= 1000 && ver-1000 < len(fa.Fn.Blocks) {
					mb := fa.Fn.Blocks[ver-1000]
					if (mb == at.Block() || mb.Dominates(at.Block())) && !hasBackEdge(mb) {
						ok := len(mb.Preds) > 0
						for _, pr := range mb.Preds {
							val := fa.memValueAtEnd(ld.Args[0], locClass(ld.Aux), pr, ld.T)
							var el *Lin
							switch s.Op {
							case "len":
								el = fa.linSym(lenOf(val), 0)
							case "cap":
								el = fa.linSym(capOf(val), 0)
							default:
								el = fa.linSym(val, 0)
							}
							ef := fa.edgeFacts(pr, mb)
							eq := []Fact{le(linAtom(s), el, "memory merge edge"), le(el, linAtom(s), "memory merge edge")}
							all := fa.closeFacts(append(append(append([]Fact{}, facts...), ef...), eq...), el)
							if !EntailsLE(all, a, b) && !fa.entailsPhiSplit(at, all, a, b, depth-1) {
								ok = false
								break
							}
						}
						if ok {
							return true
						}
					}
				}
			}
		}
		if phi == nil {
			// len(phi) etc.: look one level down
			if (s.Op == "len" || s.Op == "cap") && len(s.Args) == 1 && s.Args[0].Op == "phi" {
				phi, _ = s.Args[0].V.(*ssa.Phi)
				if phi != nil && hasBackEdge(phi.Block()) {
					phi = nil
					continue
				}
				if phi != nil {
					// case split on the slice-valued phi: len(phi) == len(edge value)
					ok := true
					for i, e := range phi.Edges {
						ef := fa.edgeFacts(phi.Block().Preds[i], phi.Block())
						var el *Lin
						if s.Op == "len" {
							el = fa.linSym(lenOf(fa.Sym(e)), 0)
						} else {
							el = fa.linSym(capOf(fa.Sym(e)), 0)
						}
						eq := []Fact{le(linAtom(s), el, "phi edge"), le(el, linAtom(s), "phi edge")}
						all := fa.closeFacts(append(append(append([]Fact{}, facts...), ef...), eq...), el)
						if !EntailsLE(all, a, b) && !fa.entailsPhiSplit(at, all, a, b, depth-1) {
							ok = false
							break
						}
					}
					if ok {
						return true
					}
				}
			}
			continue
		}
		if !(phi.Block() == at.Block() || phi.Block().Dominates(at.Block())) {
			continue
		}
		// a loop-header phi cannot be split: the value flowing in on the back edge (and the conditions holding on
		// that edge) are expressed over the previous iteration's values of the loop's variables, the facts over
		// the current ones — equating `i` with `i + 1` would make the facts contradictory and prove anything
		if hasBackEdge(phi.Block()) {
			continue
		}
		ok := true
		for i, e := range phi.Edges {
			ef := fa.edgeFacts(phi.Block().Preds[i], phi.Block())
			el := fa.Lin(e)
			eq := []Fact{le(linAtom(s), el, "phi edge"), le(el, linAtom(s), "phi edge")}
			all := fa.closeFacts(append(append(append([]Fact{}, facts...), ef...), eq...), el)
			if !EntailsLE(all, a, b) && !fa.entailsPhiSplit(at, all, a, b, depth-1) {
				ok = false
				break
			}
		}
		if ok {
			return true
		}
	}
	return false
}

// hasBackEdge: some predecessor of b is dominated by b (b is a loop header).
func hasBackEdge(b *ssa.BasicBlock) bool {
	for _, p := range b.Preds {
		if p == b || b.Dominates(p) {
			return true
		}
	}
	return false
}

// EqualJointPhi: a == b, if need be by joint case analysis over the incoming edges of a block whose phis occur in
// the difference: values assigned together on each branch (`end = size; count = size - offset`) are related on
// every edge although the phis taken one by one are not.
func (fa *FA) EqualJointPhi(a, b *Lin, depth int) bool {
	d := a.Sub(b)
	if d.C == 0 && len(d.T) == 0 {
		return true
	}
	if depth == 0 {
		return false
	}
	blocks := map[*ssa.BasicBlock]bool{}
	for _, s := range d.Atoms {
		if s.Op == "phi" {
			if phi, ok := s.V.(*ssa.Phi); ok {
				blocks[phi.Block()] = true
			}
		}
	}
	for blk := range blocks {
		ok := len(blk.Preds) > 0
		for i := range blk.Preds {
			di := linConst(d.C)
			for k, c := range d.T {
				s := d.Atoms[k]
				if phi, isPhi := s.V.(*ssa.Phi); isPhi && s.Op == "phi" && phi.Block() == blk {
					di = di.Add(fa.Lin(phi.Edges[i]).Scale(c))
				} else {
					di = di.Add(linAtom(s).Scale(c))
				}
			}
			if !fa.EqualJointPhi(di, linConst(0), depth-1) {
				ok = false
				break
			}
		}
		if ok {
			return true
		}
	}
	return false
}

// bceCrossCheck (thorough tier): the Go compiler's own list of bounds checks it could not
// prove away (-d=ssa/check_bce) must be covered by the obligations the enumerator produced for
// the functions it analysed — so no bounds check (e.g. one inlined from the standard library)
// escapes the enumeration. The compiler is used as an oracle on the enumeration only; nothing is run.
func bceCrossCheck(r *Run) {
	if len(r.BoundsFns) == 0 || r.P == nil {
		return
	}
	pkgs := map[string]bool{}
	type span struct {
		file       string
		start, end int
		fn         string
	}
	var spans []span
	for fn := range r.BoundsFns {
		root := fn
		for root.Parent() != nil {
			root = root.Parent()
		}
		if root.Pkg == nil {
			continue
		}
		pkgs[root.Pkg.Pkg.Path()] = true
		syn := fn.Syntax()
		if syn == nil {
			continue
		}
		ps, pe := r.P.Fset.Position(syn.Pos()), r.P.Fset.Position(syn.End())
		rel, _ := filepath.Rel(r.P.Repo, ps.Filename)
		spans = append(spans, span{rel, ps.Line, pe.Line, fnName(fn)})
	}
	cache, err := os.MkdirTemp("", "p9pcheck-gocache-")
	if err != nil {
		r.Notes = append(r.Notes, "bce cross-check skipped: "+err.Error())
		return
	}
	defer os.RemoveAll(cache)
	args := []string{"build", "-o", os.DevNull}
	var plist []string
	for p := range pkgs {
		plist = append(plist, p)
		args = append(args, "-gcflags="+p+"=-d=ssa/check_bce/debug=1")
	}
	sort.Strings(plist)
	args = append(args, plist...)
	cmd := exec.Command("go", args...)
	cmd.Dir = r.P.Repo
	cmd.Env = append(os.Environ(), "GOFLAGS=-mod=mod", "GOPROXY=off", "GOSUMDB=off", "GOTOOLCHAIN=local", "GOWORK=off", "GOCACHE="+cache)
	out, _ := cmd.CombinedOutput()
	nSites, nCovered := 0, 0
	var missing []string
	for _, line := range strings.Split(string(out), "\n") {
		if !strings.Contains(line, "Found Is") {
			continue
		}
		parts := strings.SplitN(strings.TrimPrefix(line, "./"), ":", 4)
		if len(parts) < 3 {
			continue
		}
		file := parts[0]
		var ln int
		fmt.Sscanf(parts[1], "%d", &ln)
		// resolve the file relative to the repo: the compiler prints paths relative to the package directory
		cands := []string{file}
		for _, p := range plist {
			sub := strings.TrimPrefix(strings.TrimPrefix(p, modPath), "/")
			if sub != "" {
				cands = append(cands, sub+"/"+file)
			}
		}
		inScope := ""
		key := ""
		for _, c := range cands {
			for _, sp := range spans {
				if sp.file == c && ln >= sp.start && ln <= sp.end {
					inScope, key = sp.fn, fmt.Sprintf("%s:%d", c, ln)
				}
			}
		}
		if inScope == "" {
			continue
		}
		nSites++
		if r.BoundsPos[key] {
			nCovered++
		} else {
			missing = append(missing, key+" ("+inScope+": "+strings.TrimSpace(parts[len(parts)-1])+")")
		}
	}
	sort.Strings(missing)
	if nSites == 0 {
		r.Undecided("bce-crosscheck", "compiler cross-check of the bounds enumeration", token.NoPos, "the compiler reported no bounds checks in the analysed functions (build failed?): "+firstLine(string(out)))
		return
	}
	if len(missing) == 0 {
		r.Ok("bce-crosscheck", "every compiler-unproven bounds check in the analysed functions is an enumerated obligation", token.NoPos, fmt.Sprintf("%d compiler-unproven sites, %d covered", nSites, nCovered))
	} else {
		r.Bad("bce-crosscheck", "every compiler-unproven bounds check in the analysed functions is an enumerated obligation", token.NoPos,
			"bounds checks the compiler could not prove are missing from the enumeration: "+strings.Join(missing, "; "))
	}
}
