package main

// Engine E9: ownership of the Dirent handle stored in <guarded>.Ent, layered on
// the typestate interpreter. Per token the abstract state is
//   "B" a live handle is stored,  "N" nil is stored,  "R" the stored handle has been released.
// Rules (reported under the names below):
//   own/replace-without-release  O1: a non-nil store over a live handle, other than the reviewed
//                                    consumption by Dirent.Create on that same handle
//   own/released-stays-bound     O2: the lock is dropped or the function returns while a released handle is still stored
//   own/double-release, own/use-after-release
//   own/unbound-not-released     O3: the table entry was deleted but the live handle is neither released nor re-bound
//   own/placeholder-left         a reserved fid whose placeholder is neither bound nor removed from the table

import (
	"fmt"
	"go/token"
	"strings"

	"golang.org/x/tools/go/ssa"
)

const entField = "Ent"

var releaseMethods = map[string]bool{"Clunk": true, "Remove": true}

// entOwner: v is a load of &X.Ent for a token pointer X → X.
func (ts *TS) entOwner(v ssa.Value) ssa.Value {
	u, ok := stripConv(v).(*ssa.UnOp)
	if !ok || u.Op != token.MUL {
		return nil
	}
	fa, ok := u.X.(*ssa.FieldAddr)
	if !ok || !ts.isTokPtr(fa.X.Type()) || fieldName(fa.X.Type(), fa.Field) != entField {
		return nil
	}
	return fa.X
}

func (ts *TS) ownAlloc(c *tsCtx, s *tsState, a *ssa.Alloc) *tsState {
	if !ts.own || !ts.isTokPtr(a.Type()) {
		return s
	}
	s = s.clone()
	s.ent[ts.tokOf(c, s, a)] = "N"
	return s
}

// ownSetEnt models X.Ent = val.
func (ts *TS) ownSetEnt(c *tsCtx, s *tsState, x ssa.Value, val ssa.Value, pos token.Pos) *tsState {
	if !ts.own {
		return s
	}
	t := ts.tokOf(c, s, x)
	s = s.clone()
	if isNilConst(val) {
		s.ent[t] = "N"
		return s
	}
	// the value as the outermost caller sees it (an inlined helper receives it as a parameter)
	vc := c
	val, vc = c.resolve(val)
	if !ts.isPrivate(c, s, t, x) { // a scratch object local to this function is not a fid
		delete(s.pend, stripConv(val))
	}
	prior := s.ent[t]
	c = vc
	if prior == "B" {
		// reviewed consumption: "Create consumes the parent handle" (filesys.go, Dirent.Create contract)
		consumed := false
		if ex, ok := stripConv(val).(*ssa.Extract); ok && ex.Index == 0 {
			if call, ok := ex.Tuple.(*ssa.Call); ok && call.Call.IsInvoke() && call.Call.Method.Name() == "Create" {
				if owner := ts.entOwner(call.Call.Value); owner != nil && ts.tokOf(c, s, owner) == t {
					consumed = true
				}
			}
		}
		if !consumed {
			ts.violate("own/replace-without-release", fmt.Sprintf("%s: %s.Ent overwritten while holding a live handle", fnName(c.rootFn), ts.spec.Type), pos,
				"a new entry is bound over the old one without releasing it (and it is not the handle consumed by Dirent.Create): the old entry is never clunked")
		} else {
			ts.consumed++
		}
	}
	s.ent[t] = "B"
	return s
}

// ownInvoke models an interface call on the entry stored in X.Ent.
func (ts *TS) ownInvoke(c *tsCtx, s *tsState, call *ssa.Call) *tsState {
	if !ts.own || !call.Call.IsInvoke() {
		return s
	}
	// handles handed out by the file system that the session must bind or release
	if m := call.Call.Method.Name(); (m == "Create" && ts.entOwner(call.Call.Value) != nil) || (m == "Attach" && isP9P(call.Call.Value.Type(), "FileSys")) {
		if h := resultN(call, 0); h != nil {
			s = s.clone()
			s.pend[h] = true
			ts.createSites++
		}
	}
	// direct release of a pending handle
	if releaseMethods[call.Call.Method.Name()] {
		if h := stripConv(call.Call.Value); s.pend[h] {
			s = s.clone()
			delete(s.pend, h)
			return s
		}
	}
	owner := ts.entOwner(call.Call.Value)
	if owner == nil {
		return s
	}
	t := ts.tokOf(c, s, owner)
	m := call.Call.Method.Name()
	st := s.ent[t]
	if releaseMethods[m] {
		ts.releaseSites++
		s = s.clone()
		switch st {
		case "R":
			ts.violate("own/double-release", fmt.Sprintf("%s: %s on an already released entry", fnName(c.rootFn), m), call.Pos(), "the entry bound to the fid is released twice on this path")
		case "N":
			ts.violate("own/release-of-nil", fmt.Sprintf("%s: %s on a nil entry", fnName(c.rootFn), m), call.Pos(), "release is called on a fid whose entry is nil on this path (nil dereference)")
		}
		s.ent[t] = "R"
		return s
	}
	if st == "R" {
		ts.violate("own/use-after-release", fmt.Sprintf("%s: %s.%s after the entry was released", fnName(c.rootFn), entField, m), call.Pos(), "the entry is used after Clunk/Remove on this path")
	}
	return s
}

// ownUnlock checks O2 when a token's lock is dropped.
func (ts *TS) ownUnlock(c *tsCtx, s *tsState, t string, pos token.Pos) {
	if !ts.own {
		return
	}
	if s.ent[t] == "R" {
		ts.violate("own/released-stays-bound", fmt.Sprintf("%s: lock of %s dropped while its released entry is still stored", fnName(c.rootFn), shortTok(t)), pos,
			"after Clunk/Remove the fid still holds the dead entry when its lock is released: the next operation uses or releases it again")
	}
}

// ownDelete models refs.Delete(key): the tokens reserved/looked-up under that key are unbound.
func (ts *TS) ownDelete(c *tsCtx, s *tsState, key ssa.Value) *tsState {
	if !ts.own {
		return s
	}
	k := c.prefixlessSym(key)
	s = s.clone()
	n := 0
	heldOne := false
	for t, fk := range ts.fidOf {
		if fk == k {
			s.unb[t] = true
			n++
			if s.held[t] {
				heldOne = true
			}
		}
	}
	ts.deleteSites++
	if !heldOne {
		ts.violate("table/delete-unheld", fmt.Sprintf("%s: table entry %s deleted without holding that fid", fnName(c.rootFn), k), token.NoPos,
			"a function removes a fid from the table that it neither reserved nor looked up (and locked) on this path: an unrelated binding can be destroyed")
	}
	return s
}

func (c *tsCtx) prefixlessSym(v ssa.Value) string {
	// an inlined helper sees the fid through its parameter: resolve to the caller's value
	if rv, rc := c.resolve(v); rc != c {
		return rc.prefixlessSym(rv)
	}
	// closures see the fid through a captured cell: resolve to the parent's value when possible
	if u, ok := stripConv(v).(*ssa.UnOp); ok && u.Op == token.MUL {
		if fv, ok := u.X.(*ssa.FreeVar); ok && c.env != nil && c.parent != nil {
			if b, ok := c.env[fv]; ok {
				if a, ok := b.(*ssa.Alloc); ok {
					// the cell's (single) initialising store
					for _, r := range referrers(a) {
						if st, ok := r.(*ssa.Store); ok && st.Addr == a {
							return c.parent.fa.Sym(st.Val).K
						}
					}
				}
			}
		}
	}
	return c.fa.Sym(v).K
}

// ownRefineNil: branch on `X.Ent == nil`; returns (decided, value).
func (ts *TS) ownRefineNil(c *tsCtx, s *tsState, other ssa.Value) (tok string, known bool, isNil bool) {
	if !ts.own {
		return "", false, false
	}
	owner := ts.entOwner(other)
	if owner == nil {
		return "", false, false
	}
	t := ts.tokOf(c, s, owner)
	switch s.ent[t] {
	case "N":
		return t, true, true
	case "B", "R":
		return t, true, false
	}
	return t, false, false
}

// ownAtReturn evaluates the end-of-function ownership rules for one return state.
func (ts *TS) ownAtReturn(c *tsCtx, s *tsState, pos token.Pos) {
	if !ts.own {
		return
	}
	for h := range s.pend {
		call := h.(*ssa.Extract).Tuple.(*ssa.Call)
		e := errResult(call)
		failed := false
		if e != nil {
			for _, cd := range condsAt(retBlockOf(c, pos)) {
				nc := normCond(cd)
				if b, ok := nc.V.(*ssa.BinOp); ok {
					for _, side := range []ssa.Value{b.X, b.Y} {
						if nilTestOf(cd, side) == -1 && derivesFrom(side, e, 6) {
							failed = true
						}
					}
				}
			}
		}
		if !failed {
			ts.violate("own/created-entry-dropped", fmt.Sprintf("%s: entry returned by %s neither bound nor released", fnName(c.rootFn), call.Call.Method.Name()), pos,
				"the file system handed out a new entry (and, for Create, consumed the parent handle) but this path returns without binding it to a fid or releasing it")
		}
	}
	for t, st := range s.ent {
		if strings.HasPrefix(t, "?") {
			continue
		}
		isEntry := c.entry[t]
		unbound := s.unb[t] || strings.Contains(t, "LoadAndDelete")
		switch {
		case st == "R" && !isEntry:
			ts.violate("own/released-stays-bound", fmt.Sprintf("%s: returns while %s still stores a released entry", fnName(c.rootFn), shortTok(t)), pos,
				"the entry was released but is still stored in the fid at return")
		case st == "B" && unbound:
			ts.violate("own/unbound-not-released", fmt.Sprintf("%s: table entry of %s deleted but its entry not released", fnName(c.rootFn), shortTok(t)), pos,
				"the fid was removed from the table while it still holds a live entry that is never clunked: the file system's handle leaks")
		case st == "N" && !unbound && ts.lookedUp[t]:
			ts.violate("own/nil-left-bound", fmt.Sprintf("%s: fid %s left in the table after its entry was released", fnName(c.rootFn), shortTok(t)), pos,
				"the entry of a fid found in the table was released (and cleared) but the fid was not removed from the table: it answers 'unknown fid' to every operation and its number can never be reused (duplicate fid)")
		case st == "N" && !unbound && !s.file[t] && ts.reserved[t]:
			ts.violate("own/placeholder-left", fmt.Sprintf("%s: reserved fid %s neither bound nor removed", fnName(c.rootFn), shortTok(t)), pos,
				"a fid reserved with a placeholder is left in the table with no entry: it can neither be used nor reused (duplicate fid for ever)")
		}
	}
}

// retBlockOf finds the block of the Return at pos in the root function.
func retBlockOf(c *tsCtx, pos token.Pos) *ssa.BasicBlock {
	for _, r := range returnsOf(c.fn) {
		if r.Pos() == pos {
			return r.Block()
		}
	}
	return c.fn.Blocks[0]
}
