// p9pcheck decides structural clauses of the properties C01..C20 of go-p9p by
// static analysis of the repository's current working tree.
package main

import (
	"encoding/json"
	"flag"
	"fmt"
	"go/token"
	"os"
	"path/filepath"
	"runtime/debug"
	"sort"
	"strconv"
	"strings"
)

type propCheck struct {
	id  string
	run func(r *Run)
}

var registry = map[string]func(r *Run){}

func register(id string, f func(r *Run)) { registry[id] = f }

func main() {
	prop := flag.String("prop", "", "property id (C01..C20)")
	tier := flag.String("tier", "", "quick|thorough (default: $VERIF_TIER or quick)")
	repo := flag.String("repo", "/repo", "repository working tree to analyse")
	replay := flag.String("replay", "", "replay file: re-evaluate that obligation on the current tree")
	list := flag.Bool("list", false, "list registered properties")
	evdir := flag.String("evidence", "", "evidence directory (default /verif/evidence)")
	flag.Parse()

	if *list {
		ids := []string{}
		for id := range registry {
			ids = append(ids, id)
		}
		sort.Strings(ids)
		fmt.Println(strings.Join(ids, " "))
		return
	}
	if *tier == "" {
		*tier = os.Getenv("VERIF_TIER")
	}
	if *tier != "thorough" {
		*tier = "quick"
	}
	seed := 0
	if s := os.Getenv("VERIF_SEED"); s != "" {
		seed, _ = strconv.Atoi(s)
	}
	if *evdir == "" {
		*evdir = filepath.Join(verifDir(), "evidence")
	}

	var only *Oblig
	if *replay != "" {
		b, err := os.ReadFile(*replay)
		if err != nil {
			fmt.Println("cannot read replay file:", err)
			os.Exit(2)
		}
		var rf replayFile
		if err := json.Unmarshal(b, &rf); err != nil || rf.Oblig == nil {
			fmt.Println("bad replay file:", err)
			os.Exit(2)
		}
		only = rf.Oblig
		*prop = rf.Oblig.Prop
		if rf.Tier != "" {
			*tier = rf.Tier
		}
	}
	f, ok := registry[*prop]
	if !ok {
		fmt.Printf("unknown property %q\n", *prop)
		os.Exit(2)
	}
	os.Exit(runProp(*prop, *tier, *repo, seed, *evdir, f, only))
}

type buildConfig struct{ goos, goarch, tags string }

func runProp(prop, tier, repo string, seed int, evdir string, f func(*Run), only *Oblig) int {
	r := NewRun(prop, tier)
	configs := []buildConfig{{"linux", "amd64", ""}}
	if tier == "thorough" {
		// darwin is not analysed: its export data would have to be compiled from scratch (minutes) and the only
		// darwin-specific file (ufs/util_darwin.go, atime accessor) is anchored by no rule
		configs = append(configs, buildConfig{"linux", "amd64", "verif"}, buildConfig{"linux", "386", ""})
	}
	for i, c := range configs {
		p, err := Load(repo, c.goos, c.goarch, c.tags)
		name := c.goos + "/" + c.goarch
		if c.tags != "" {
			name += " -tags " + c.tags
		}
		if err != nil {
			if i == 0 {
				r.add("load", "load "+name, token.NoPos, Undecided, err.Error(), true, nil)
			} else {
				// secondary configurations: a configuration that does not type-check in
				// this sandbox (e.g. missing export data for another GOOS) is reported, not fatal.
				r.Notes = append(r.Notes, fmt.Sprintf("configuration %s not analysed: %v", name, firstLine(err.Error())))
			}
			continue
		}
		r.P = p
		r.Configs = append(r.Configs, name)
		before := len(r.Obligs)
		func() {
			defer func() {
				if e := recover(); e != nil {
					r.add("checker", "panic in checker ("+name+")", token.NoPos, Undecided,
						fmt.Sprintf("%v\n%s", e, debug.Stack()), true, nil)
				}
			}()
			f(r)
			if strings.HasPrefix(prop, "C") {
				errorsHandled(r)
			}
			if i == 0 && tier == "thorough" {
				bceCrossCheck(r)
			}
		}()
		if i > 0 {
			// keep only the obligations that differ from the primary configuration
			r.Obligs = dedupe(r.Obligs, before)
		}
	}
	if only != nil {
		var keep []*Oblig
		for _, o := range r.Obligs {
			if o.Rule == only.Rule && o.Key == only.Key {
				keep = append(keep, o)
			}
		}
		fmt.Printf("replay of [%s/%s] %s on %s\n", only.Prop, only.Rule, only.Key, repo)
		if len(keep) == 0 {
			fmt.Println("  the obligation no longer exists on this tree (construct removed or renamed)")
		}
		for _, o := range keep {
			fmt.Printf("  %s: %s %s\n", o.Pos, o.Status, o.Reason)
			for _, fa := range o.Facts {
				fmt.Printf("    fact: %s\n", fa)
			}
		}
		r.Obligs = keep
		return r.Finish(filepath.Join(os.TempDir(), "p9pcheck-replay-evidence.json"), seed)
	}
	return r.Finish(filepath.Join(evdir, prop+".json"), seed)
}

func dedupe(obs []*Oblig, from int) []*Oblig {
	seen := map[string]bool{}
	for _, o := range obs[:from] {
		seen[o.Rule+"|"+o.Key+"|"+string(o.Status)] = true
	}
	out := obs[:from]
	for _, o := range obs[from:] {
		if !seen[o.Rule+"|"+o.Key+"|"+string(o.Status)] {
			out = append(out, o)
		}
	}
	return out
}

func firstLine(s string) string {
	if i := strings.IndexByte(s, '\n'); i >= 0 {
		return s[:i]
	}
	if len(s) > 300 {
		return s[:300]
	}
	return s
}
