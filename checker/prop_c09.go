package main

import (
	"fmt"
	"go/token"
	"go/types"
	"sort"
	"strings"

	"golang.org/x/tools/go/ssa"
)

func init() { register("C09", checkC09) }

// route describes where a value comes from: "param:3", "field:Offset", "result:0", "?…".
// conv notes the (allowed) conversion applied.
type route struct {
	src  string
	conv string
}

func (r route) String() string {
	if r.conv == "" {
		return r.src
	}
	return r.conv + "(" + r.src + ")"
}

func intKind(t types.Type) (bits int, signed bool) {
	b, s, _ := intBits(t)
	return b, s
}

// convNote classifies a conversion from→to; ok=false when it can lose information beyond the documented wire limits.
func convNote(from, to types.Type, counts bool) (string, bool) {
	fb, fs := intKind(from)
	tb, ts := intKind(to)
	if fb == 0 || tb == 0 {
		return "conv", false
	}
	switch {
	case fb == 64 && tb == 64:
		return "same-width", true // int64 <-> uint64: bit identity
	case tb >= fb && (fs == ts || !fs):
		return "widen", true
	case counts && fb == 64 && tb == 32 && !ts:
		return "count32", true // lengths/counts are 32-bit on the wire (documented limit)
	}
	return fmt.Sprintf("narrow%d→%d", fb, tb), false
}

// paramIndex: position of v among the method's parameters (receiver excluded), -1 if not a parameter.
func paramIndex(fn *ssa.Function, v ssa.Value) int {
	off := 0
	if fn.Signature.Recv() != nil {
		off = 1
	}
	for i, p := range fn.Params {
		if p == v {
			return i - off
		}
	}
	return -1
}

// clientRoute: how a T-message field value is computed from the client method's parameters.
func clientRoute(fn *ssa.Function, v ssa.Value) route {
	v = stripConv(v)
	if i := paramIndex(fn, v); i >= 0 {
		return route{fmt.Sprintf("param:%d", i), ""}
	}
	if cv, ok := v.(*ssa.Convert); ok {
		inner := stripConv(cv.X)
		if i := paramIndex(fn, inner); i >= 0 {
			note, ok := convNote(inner.Type(), cv.Type(), false)
			if !ok {
				return route{"?" + valStr(v), note}
			}
			return route{fmt.Sprintf("param:%d", i), note}
		}
		if c, ok := inner.(*ssa.Call); ok && calleeName(&c.Call) == "builtin len" {
			if i := paramIndex(fn, c.Call.Args[0]); i >= 0 {
				note, ok := convNote(inner.Type(), cv.Type(), true)
				if !ok {
					return route{"?" + valStr(v), note}
				}
				return route{fmt.Sprintf("len(param:%d)", i), note}
			}
		}
	}
	return route{"?" + valStr(v), ""}
}

// fieldOfValue: v reads field F of the struct value `of` (ssa.Field, or load of a local copy's field).
func fieldOfValue(v ssa.Value, of ssa.Value) (string, bool) {
	v = stripConv(v)
	if f, ok := v.(*ssa.Field); ok && stripConv(f.X) == of {
		return fieldNameV(f.X.Type(), f.Field), true
	}
	if u, ok := v.(*ssa.UnOp); ok && u.Op == token.MUL {
		if fa, ok := u.X.(*ssa.FieldAddr); ok {
			if a, ok := fa.X.(*ssa.Alloc); ok {
				n := 0
				match := false
				for _, r := range referrers(a) {
					if st, ok := r.(*ssa.Store); ok && st.Addr == ssa.Value(a) {
						n++
						if stripConv(st.Val) == of {
							match = true
						}
					}
				}
				if n == 1 && match {
					return fieldName(fa.X.Type(), fa.Field), true
				}
			}
		}
	}
	return "", false
}

// serverArgRoute: how an argument of the Session call is computed from the T-message msg.
func serverArgRoute(v ssa.Value, msg ssa.Value) route {
	v = stripConv(v)
	if f, ok := fieldOfValue(v, msg); ok {
		return route{"field:" + f, ""}
	}
	if cv, ok := v.(*ssa.Convert); ok {
		if f, ok := fieldOfValue(cv.X, msg); ok {
			note, ok := convNote(cv.X.Type(), cv.Type(), false)
			if !ok {
				return route{"?" + valStr(v), note}
			}
			return route{"field:" + f, note}
		}
	}
	if ms, ok := v.(*ssa.MakeSlice); ok {
		// a buffer sized from a count field (possibly clamped, possibly through a helper that computes the clamp)
		var fromField func(x ssa.Value, depth int) (string, bool)
		fromField = func(x ssa.Value, depth int) (string, bool) {
			if depth > 4 {
				return "", false
			}
			for _, alt := range phiAlternatives(x, 4) {
				a := stripConv(alt)
				if cv, ok := a.(*ssa.Convert); ok {
					a = cv.X
				}
				if f, ok := fieldOfValue(a, msg); ok {
					return f, true
				}
				if c, ok := a.(*ssa.Call); ok && staticCallee(&c.Call) != nil {
					for _, arg := range c.Call.Args {
						if f, ok := fromField(arg, depth+1); ok {
							return f, true
						}
					}
				}
			}
			return "", false
		}
		if f, ok := fromField(ms.Len, 0); ok {
			return route{"field:" + f, "buffer"}
		}
	}
	return route{"?" + valStr(v), ""}
}

// serverResultRoute: how an R-message field is computed from the Session call's results.
func serverResultRoute(v ssa.Value, call *ssa.Call, buf ssa.Value) route {
	v = stripConv(v)
	if ex, ok := v.(*ssa.Extract); ok && ex.Tuple == ssa.Value(call) {
		return route{fmt.Sprintf("result:%d", ex.Index), ""}
	}
	if v == ssa.Value(call) {
		return route{"result:0", ""}
	}
	if cv, ok := v.(*ssa.Convert); ok {
		if ex, ok := stripConv(cv.X).(*ssa.Extract); ok && ex.Tuple == ssa.Value(call) {
			note, ok := convNote(cv.X.Type(), cv.Type(), true)
			if !ok {
				return route{"?" + valStr(v), note}
			}
			return route{fmt.Sprintf("result:%d", ex.Index), note}
		}
	}
	if sl, ok := v.(*ssa.Slice); ok && buf != nil && sl.X == buf && sl.Low == nil && sl.High != nil {
		if ex, ok := stripConv(sl.High).(*ssa.Extract); ok && ex.Tuple == ssa.Value(call) {
			return route{fmt.Sprintf("result:%d", ex.Index), "prefix-of-buffer"}
		}
	}
	return route{"?" + valStr(v), ""}
}

// clientResultRoute: how a returned value is computed from the R-message reply.
func clientResultRoute(fn *ssa.Function, v ssa.Value, reply ssa.Value) route {
	v = stripConv(v)
	if f, ok := fieldOfValue(v, reply); ok {
		return route{"field:" + f, ""}
	}
	if cv, ok := v.(*ssa.Convert); ok {
		if f, ok := fieldOfValue(cv.X, reply); ok {
			note, ok := convNote(cv.X.Type(), cv.Type(), true)
			if !ok {
				return route{"?" + valStr(v), note}
			}
			return route{"field:" + f, note}
		}
	}
	if c, ok := v.(*ssa.Call); ok && calleeName(&c.Call) == "builtin copy" {
		if f, ok := fieldOfValue(c.Call.Args[1], reply); ok && paramIndex(fn, c.Call.Args[0]) >= 0 {
			return route{"field:" + f, "copy-into-param"}
		}
	}
	return route{"?" + valStr(v), ""}
}

func checkC09(r *Run) {
	p := r.P
	r.Decides = append(r.Decides,
		"for each of the 11 Session methods: every parameter of the client method reaches exactly one field of the T-message (identity, or one of the documented conversions: same-width int64/uint64, len(p)→uint32 count, uint32→int), and the server dispatcher passes that same field as the same-position argument of Session.M — the composition is the identity on arguments",
		"every result of Session.M reaches one field of the R-message on the server and the client returns that same field at the same result position (conversions: int→uint32 count, prefix-of-buffer, copy into the caller's buffer)",
		"the reply is consumed through a checked assertion to the R-type whose code is T+1, on whose failure an error is returned; transport errors are returned unchanged",
		"the dispatch table is exhaustive (shared with C06); Tread buffers are sized from Count with the msize clamp",
		"both read loops decode every frame into an Fcall allocated for that frame and hand on that very object (no reply/request object is shared between concurrent calls)")
	r.NotDecided = append(r.NotDecided, "transport of field values through the codec (C01 decides the layout)", "clipping of read/write sizes to msize as values; whole-second timestamps", "that all concurrent calls complete (flow-control coupling of the two loops is a timing property)")

	iface, _ := p.Obj("p9p", "Session").Type().Underlying().(*types.Interface)
	h := p.Fn("p9p:(sessionHandler).Handle")
	if iface == nil || h == nil {
		r.Undecided("anchor", "Session / sessionHandler.Handle", token.NoPos, "anchors not found")
		return
	}
	codes := fcallCodes(p)
	// server clauses: kind → (msg value, Session call)
	type clause struct {
		msg  ssa.Value
		call *ssa.Call
		body *ssa.BasicBlock
		fn   *ssa.Function // the function holding the clause: Handle, or the helper the clause delegates to
	}
	clauses := map[string]*clause{} // keyed by Session method name
	eachInstr(h, func(in ssa.Instruction) {
		ta, ok := in.(*ssa.TypeAssert)
		if !ok || !ta.CommaOk {
			return
		}
		okv, msg := resultN(ta, 1), resultN(ta, 0)
		var body *ssa.BasicBlock
		if okv != nil {
			for _, rf := range referrers(okv) {
				if ifi, ok := rf.(*ssa.If); ok {
					body = ifi.Block().Succs[0]
				}
			}
		}
		if body == nil || msg == nil {
			return
		}
		direct := false
		eachInstr(h, func(in2 ssa.Instruction) {
			if c, ok := in2.(*ssa.Call); ok && c.Call.IsInvoke() && isP9P(c.Call.Value.Type(), "Session") && (body == c.Block() || body.Dominates(c.Block())) {
				clauses[c.Call.Method.Name()] = &clause{msg, c, body, h}
				direct = true
			}
		})
		if direct {
			return
		}
		// the clause delegates to a helper (`return sess.handleRead(ctx, msg)`): the helper's body is the clause and
		// its parameter bound to the asserted message is the request
		if g, deleg := delegatedClause(p, h, body, ""); g != nil {
			for i, a := range deleg.Call.Args {
				if stripConv(a) == msg && i < len(g.Params) {
					for _, c := range findCallsInvoke(g, "", "Session") {
						r.SawFn(fnName(g))
						clauses[c.Call.Method.Name()] = &clause{g.Params[i], c, g.Blocks[0], g}
					}
				}
			}
		}
	})

	nMethods := 0
	names := []string{}
	for i := 0; i < iface.NumMethods(); i++ {
		m := iface.Method(i)
		sig := m.Type().(*types.Signature)
		if sig.Params().Len() == 0 || !strings.HasSuffix(sig.Params().At(0).Type().String(), "context.Context") {
			continue
		}
		names = append(names, m.Name())
	}
	sort.Strings(names)
	for _, name := range names {
		cm := p.Fn("p9p:(*client)." + name)
		cl := clauses[name]
		if cm == nil || cl == nil {
			r.Bad("msgflow", "Session."+name+": client method and dispatcher clause exist", token.NoPos, fmt.Sprintf("client method found: %v, dispatcher clause found: %v", cm != nil, cl != nil))
			continue
		}
		nMethods++
		r.SawFn(fnName(cm))
		// --- client request
		sends := findCalls(cm, "invoke p9p.roundTripper.send")
		if len(sends) != 1 {
			r.Bad("msgflow", "client."+name+": exactly one round trip", cm.Pos(), fmt.Sprintf("%d send calls", len(sends)))
			continue
		}
		snd := sends[0]
		// the call reaches the session: the client answers locally (without a round trip) only what the protocol
		// cannot carry — a walk of more than 16 names
		for _, rs := range returnSites(cm) {
			if rs.DominatedBy(snd) {
				continue
			}
			okLimit := false
			if name == "Walk" {
				cfa := p.FA(cm)
				for _, prm := range cm.Params {
					if _, isSl := prm.Type().Underlying().(*types.Slice); isSl {
						goal := linConst(17).Sub(cfa.linSym(lenOf(cfa.Sym(prm)), 0)) // 17 - len(names) <= 0
						if Entails(cfa.FactsAtSite(rs, goal), goal) {
							okLimit = true
						}
					}
				}
			}
			r.Check(okLimit, "msgflow", "client."+name+": answered without a round trip only beyond the protocol's limits", rs.Pos(),
				"the client refuses (or answers) the call locally although the protocol can carry it: the session never sees the call")
		}
		flds, tnamed, ok := compositeFields(snd.Call.Args[1])
		if !ok || tnamed == nil {
			r.Undecided("msgflow", "client."+name+": request literal", snd.Pos(), "the message sent is not a composite literal")
			continue
		}
		tKind := strings.TrimPrefix(tnamed.Obj().Name(), "Message")
		// server message type must be the same T type
		sType := stripConv(cl.msg).Type()
		r.Check(types.Identical(sType, tnamed), "msgflow", "Session."+name+": client sends the message type the dispatcher clause handles", snd.Pos(),
			"client sends "+shortType(tnamed)+" but the clause calling Session."+name+" handles "+shortType(sType))
		// argument routes
		sig := cm.Signature
		nParams := sig.Params().Len()
		clientParamField := map[int]string{}
		fieldUsed := map[string]bool{}
		fkeys := []string{}
		for f := range flds {
			fkeys = append(fkeys, f)
		}
		sort.Strings(fkeys)
		for _, f := range fkeys {
			v := flds[f]
			if v == nil {
				r.Bad("msgflow", fmt.Sprintf("client.%s: field %s.%s set once", name, tKind, f), snd.Pos(), "field assigned twice")
				continue
			}
			rt := clientRoute(cm, v)
			if strings.HasPrefix(rt.src, "?") {
				r.Bad("msgflow", fmt.Sprintf("client.%s: %s.%s comes from a parameter", name, tKind, f), snd.Pos(),
					"the field is computed as "+rt.String()+": not a parameter under an allowed conversion (value altered on its way to the wire)")
				continue
			}
			idx := -1
			fmt.Sscanf(strings.TrimPrefix(strings.TrimPrefix(rt.src, "len("), "param:"), "%d", &idx)
			clientParamField[idx] = f
			fieldUsed[f] = true
			r.Ok("msgflow", fmt.Sprintf("client.%s: %s.%s ← %s", name, tKind, f, rt.String()), snd.Pos())
		}
		// every exported field of the T struct is set
		if st, ok := tnamed.Underlying().(*types.Struct); ok {
			for i := 0; i < st.NumFields(); i++ {
				if !fieldUsed[st.Field(i).Name()] {
					r.Bad("msgflow", fmt.Sprintf("client.%s: %s.%s is set", name, tKind, st.Field(i).Name()), snd.Pos(), "the field is left at its zero value: the argument is not transmitted")
				}
			}
		}
		// server args
		args := cl.call.Call.Args
		for j := 1; j < nParams; j++ { // skip ctx
			if j >= len(args) {
				break
			}
			rt := serverArgRoute(args[j], cl.msg)
			key := fmt.Sprintf("Session.%s arg %d (%s)", name, j, sig.Params().At(j).Name())
			if strings.HasPrefix(rt.src, "?") {
				r.Bad("msgflow", key+": server passes a field of the request", cl.call.Pos(), "the argument is computed as "+rt.String()+": not a field of the received message under an allowed conversion")
				continue
			}
			sf := strings.TrimPrefix(rt.src, "field:")
			cf, has := clientParamField[j]
			if !has {
				r.Bad("msgflow", key+": transmitted by the client", snd.Pos(), "the client does not put this parameter into the request")
				continue
			}
			r.Check(cf == sf, "msgflow", key+": client field == server field", cl.call.Pos(),
				fmt.Sprintf("the client stores parameter %d in %s.%s but the server passes %s.%s as that argument: the session receives a different value than the caller passed", j, tKind, cf, tKind, sf),
				"client: "+cf, "server: "+rt.String())
		}
		r.Check(stripConv(args[0]).Type().String() == "context.Context", "msgflow", "Session."+name+": server passes its context", cl.call.Pos(), "context argument missing")

		// --- reply
		var ta *ssa.TypeAssert
		eachInstr(cm, func(in ssa.Instruction) {
			if x, ok := in.(*ssa.TypeAssert); ok && stripConv(x.X) == resultN(snd, 0) {
				ta = x
			}
		})
		if ta == nil || !ta.CommaOk {
			r.Bad("msgflow", "client."+name+": reply consumed through a checked assertion", snd.Pos(), "no comma-ok assertion on the reply")
			continue
		}
		rnamed, _ := ta.AssertedType.(*types.Named)
		rKind := ""
		if rnamed != nil {
			rKind = strings.TrimPrefix(rnamed.Obj().Name(), "Message")
		}
		r.Check(codes[rKind] == codes[tKind]+1 && codes[tKind] != 0, "msgflow", fmt.Sprintf("client.%s: expects %s (code %s+1)", name, rKind, tKind), ta.Pos(),
			"the reply type expected by the client is not the R-message paired with "+tKind)
		// transport error returned unchanged
		if e := errResult(snd); e != nil {
			okp, _ := errPropagated(cm, e)
			r.Check(okp, "msgflow", "client."+name+": transport/Rerror error is returned", snd.Pos(), "errors of the round trip are dropped")
		}
		reply := resultN(ta, 0)
		// server R literal on the success edge
		var rlit map[string]ssa.Value
		var srvRet *ssa.Return
		for _, ret := range returnsOf(cl.fn) {
			if (cl.body == ret.Block() || cl.body.Dominates(ret.Block())) && len(ret.Results) == 2 && isNilConst(ret.Results[1]) {
				if f2, n2, ok := compositeFields(ret.Results[0]); ok && n2 != nil {
					rlit, srvRet = f2, ret
					r.Check(types.Identical(n2, ta.AssertedType), "msgflow", "Session."+name+": server replies with the type the client expects", ret.Pos(),
						"server returns "+shortType(n2)+", client expects "+shortType(ta.AssertedType))
				}
			}
		}
		if srvRet == nil {
			// the clause hands the call's error and the acknowledgement to an ack-or-error helper
			for _, ret := range returnsOf(cl.fn) {
				if !(cl.body == ret.Block() || cl.body.Dominates(ret.Block())) {
					continue
				}
				if ack, ok := ackHelperReturn(p, ret, cl.call); ok {
					if f2, n2, ok := compositeFields(ack); ok && n2 != nil {
						rlit, srvRet = f2, ret
						r.Check(types.Identical(n2, ta.AssertedType), "msgflow", "Session."+name+": server replies with the type the client expects", ret.Pos(),
							"server returns "+shortType(n2)+", client expects "+shortType(ta.AssertedType))
					} else if mi, isMI := ack.(*ssa.MakeInterface); isMI {
						if f3, n3, ok := compositeFields(mi.X); ok && n3 != nil {
							rlit, srvRet = f3, ret
							r.Check(types.Identical(n3, ta.AssertedType), "msgflow", "Session."+name+": server replies with the type the client expects", ret.Pos(),
								"server returns "+shortType(n3)+", client expects "+shortType(ta.AssertedType))
						}
					}
				}
			}
		}
		if srvRet == nil {
			r.Undecided("msgflow", "Session."+name+": server success reply", h.Pos(), "no success return with a reply literal found in the clause")
			continue
		}
		var buf ssa.Value
		for _, a := range args {
			if ms, ok := a.(*ssa.MakeSlice); ok {
				buf = ms
			}
		}
		serverFieldResult := map[string]int{}
		rkeys := []string{}
		for f := range rlit {
			rkeys = append(rkeys, f)
		}
		sort.Strings(rkeys)
		for _, f := range rkeys {
			rt := serverResultRoute(rlit[f], cl.call, buf)
			if strings.HasPrefix(rt.src, "?") {
				r.Bad("msgflow", fmt.Sprintf("Session.%s: %s.%s comes from a result of the session call", name, rKind, f), srvRet.Pos(), "the reply field is computed as "+rt.String())
				continue
			}
			idx := -1
			fmt.Sscanf(rt.src, "result:%d", &idx)
			serverFieldResult[f] = idx
			r.Ok("msgflow", fmt.Sprintf("Session.%s: %s.%s ← %s", name, rKind, f, rt.String()), srvRet.Pos())
		}
		// every non-error result of the session call is transmitted
		res := sig.Results()
		for i := 0; i < res.Len()-1; i++ {
			found := false
			for _, idx := range serverFieldResult {
				if idx == i {
					found = true
				}
			}
			r.Check(found, "msgflow", fmt.Sprintf("Session.%s result %d: put into the reply by the server", name, i), srvRet.Pos(), "the result is not transmitted")
		}
		// client returns on the ok edge
		nOk := 0
		for _, ret := range returnsOf(cm) {
			okEdge := false
			for _, cd := range condsAtInstr(ret) {
				if nc := normCond(cd); nc.V == resultN(ta, 1) && nc.Truth {
					okEdge = true
				}
			}
			// `return ackResult(ok)`: a helper that yields nil only when the assertion succeeded
			if !okEdge && len(ret.Results) > 0 && okGatedError(p, ret.Results[len(ret.Results)-1], []ssa.Value{resultN(ta, 1)}) {
				okEdge = true
			}
			if !okEdge {
				continue
			}
			nOk++
			for i := 0; i < res.Len()-1 && i < len(ret.Results); i++ {
				rt := clientResultRoute(cm, ret.Results[i], reply)
				key := fmt.Sprintf("Session.%s result %d", name, i)
				if strings.HasPrefix(rt.src, "?") {
					r.Bad("msgflow", key+": client returns a field of the reply", ret.Pos(), "the returned value is computed as "+rt.String()+": not a field of the reply under an allowed conversion")
					continue
				}
				cf := strings.TrimPrefix(rt.src, "field:")
				idx, has := serverFieldResult[cf]
				r.Check(has && idx == i, "msgflow", key+": server field == client field", ret.Pos(),
					fmt.Sprintf("the client returns %s.%s as result %d but the server stored result %d there: the caller receives a different value than the session returned", rKind, cf, i, idx),
					"client: "+rt.String())
			}
		}
		r.Check(nOk >= 1, "msgflow", "client."+name+": success return on the ok edge of the reply assertion", cm.Pos(), "no return on the ok edge")
	}
	r.Floor("msgflow", nMethods, 11, "Session methods with client and server side")
	// concurrency half: callers obtain their own results — every frame is a fresh object (client reader and server reader)
	_, rdr := transportRoles(p)
	checkFreshFrame(r, rdr, "fresh-frame")
	checkFreshFrame(r, p.Fn("p9p:(*conn).read"), "fresh-frame")
	checkDispatchTable(r, "dispatch")
	checkReplyBufferFresh(r, "fresh-reply-buffer")
	// "all of them complete": the client's single owner loop delivers replies with plain sends; those never block
	// (and so never stall every other caller) only because the per-request channels are buffered
	for _, f := range []string{"field:fcallRequest.response", "field:fcallRequest.err"} {
		ok, why := chanFieldAlwaysBuffered(p, f)
		var pos token.Pos
		if sf := p.Fn("p9p:(*transport).send"); sf != nil {
			pos = sf.Pos()
		}
		r.Check(ok, "buffered-reply", f+" always created with capacity >= 1", pos, why)
	}
	// Tread clamp in the dispatcher: the buffer length never exceeds msize-11 when positive and is never negative (bounds rule)
	n := 0
	for _, f := range p.withHelpers(h, 1) {
		n += dischargeBounds(r, f, "bounds", nil)
	}
	r.Floor("bounds", n, 2, "obligations in the dispatcher")
	// "callers issuing calls concurrently each obtain their own results": the tag multiplexing on both sides — the
	// client's rules (tags free and distinct, registered before the write, reply routed to the request found under
	// the reply's own tag) and the server's (reply built from the request's own tag and its handler's own result,
	// duplicate tags refused) are necessary conditions of this property too and are evaluated here as well
	checkC05(r)
	checkC06(r)
	// every call re-arms the deadline of the shared connection (a caller without a deadline must not inherit the
	// expired deadline of an earlier caller)
	ioDeadlineArmed(r, "io-deadline")
	// each caller's frame carries that caller's message: the marshalled bytes are not shared between calls
	c01MarshalFresh(r)
	// "up to the documented wire limits": an oversize request is refused locally with the exact excess and the
	// session stays usable — the sender-side partition of maybeTruncate (shared with C02)
	if mt := p.Fn("p9p:(*channel).maybeTruncate"); mt != nil {
		c02Truncate(r, mt)
	}
	// "… and all of them complete", "up to the documented wire limits": one caller's failed request write must not
	// end the owner loop for the others (rule shared with C12); a frame of exactly msize — what a clipped write
	// or a full read produces — is accepted by the receiving channel (rules shared with C03)
	if owner, _ := transportRoles(p); owner != nil {
		c12WriteFailure(r, p, owner)
	}
	if rm, rf := p.Fn("p9p:readmsg"), p.Fn("p9p:(*channel).ReadFcall"); rm != nil && rf != nil {
		c03ReadFcall(r, rf, rm)
	}
	clientReplyTyped(r, "reply-typed")
	// arguments and results travel through the codec: per-type layout agreement of encode/decode/size and fresh
	// storage for decoded payloads (codec-grammar rules shared with C01)
	c01Grammar(r)
	r.Exhaustive = true
}
