package main

import (
	"fmt"
	"go/token"
	"go/types"
	"strings"

	"golang.org/x/tools/go/ssa"
)

func init() { register("C03", checkC03) }

// edgeFacts: the facts holding on the CFG edge pred→succ.
func (fa *FA) edgeFacts(pred, succ *ssa.BasicBlock, extra ...*Lin) []Fact {
	var facts []Fact
	for _, c := range condsAt(pred) {
		facts = append(facts, fa.condFacts(c)...)
	}
	conds := append([]Cond{}, condsAt(pred)...)
	if len(pred.Instrs) > 0 {
		if ifi, ok := pred.Instrs[len(pred.Instrs)-1].(*ssa.If); ok && pred.Succs[0] != pred.Succs[1] {
			for si := 0; si < 2; si++ {
				if pred.Succs[si] == succ {
					ec := normCond(Cond{ifi.Cond, si == 0})
					facts = append(facts, fa.condFacts(ec)...)
					conds = append(conds, ec)
				}
			}
		}
	}
	facts = append(facts, fa.calleeFacts(conds)...)
	return fa.closeFacts(facts, extra...)
}

// phiAlternatives expands v through phis into its possible defining values (bounded).
func phiAlternatives(v ssa.Value, depth int) []ssa.Value {
	if phi, ok := v.(*ssa.Phi); ok && depth > 0 {
		var out []ssa.Value
		for _, e := range phi.Edges {
			out = append(out, phiAlternatives(e, depth-1)...)
		}
		return out
	}
	return []ssa.Value{v}
}

func checkC03(r *Run) {
	p := r.P
	r.Decides = append(r.Decides,
		"readmsg: the wire length reaches a slice bound only under a two-sided guard (0 <= length-4 <= len(buf)); every slice/index obligation of readmsg/ReadFcall/SetMSize is entailed by dominating guards",
		"readmsg: the body lands at the start of the caller's buffer; when the body exceeds the buffer the remainder (length-4-len(buf), affine) is discarded before success is reported, and success without discard is only reachable on an edge implying body <= len(buf)",
		"readmsg reports n = header + bytes read (+ bytes discarded); ReadFcall refuses n > len(rdbuf) with overflow exactly n - len(rdbuf) before decoding, and decodes exactly rdbuf[:n-4], the bytes read by this call (frame isolation)",
		"ReadFcall clears *fcall before Unmarshal, applies the inbound Tread clamp (maybeTruncate) on the success path, and returns every error of readmsg/Unmarshal/maybeTruncate")
	r.NotDecided = append(r.NotDecided, "independence from the chunking of Read results (delegated to bufio/io.ReadFull)", "mid-frame timeouts", "32-bit int truncation of the wire length")
	r.Trusted = append(r.Trusted, "io.ReadFull/io.CopyN contracts (success ⇒ exactly len(buf)/n bytes consumed)", "bufio.Reader")

	rm := p.Fn("p9p:readmsg")
	rf := p.Fn("p9p:(*channel).ReadFcall")
	sms := p.Fn("p9p:(*channel).SetMSize")
	for name, f := range map[string]*ssa.Function{"readmsg": rm, "(*channel).ReadFcall": rf, "(*channel).SetMSize": sms} {
		if f == nil {
			r.Undecided("anchor", "p9p."+name, token.NoPos, "anchor function not found")
			return
		}
		r.SawFn("p9p." + name)
	}
	nb := 0
	nb += dischargeBounds(r, rm, "bounds", nil)
	nb += dischargeBounds(r, rf, "bounds", nil)
	r.Floor("bounds", nb, 2, "slice obligations in readmsg/ReadFcall")

	c03Readmsg(r, rm)
	c03ReadFcall(r, rf, rm)
	ng := 0
	for _, f := range []*ssa.Function{rm, rf} {
		ng += errorGatesSuccess(r, f, "error-gates-success")
	}
	r.Floor("error-gates-success", ng, 4, "error-returning steps in readmsg/ReadFcall")
	// a frame whose body is too short is an error, not a message with zero-valued fields: no failed decode step
	// continues to a success return (rule shared with C04)
	if _, scope := decodeScope(r.P); len(scope) > 0 {
		nd := 0
		for _, fn := range scope {
			nd += errorGatesSuccess(r, fn, "error-gates-success")
		}
		r.Floor("error-gates-success", nd, 15, "error-returning steps on the decode path")
	}
	c02OverflowExposed(r)
	// frame isolation continues through the decoder: every decoded field is read into storage made for it (the
	// codec-grammar rules: decode(*[]byte) is make + read), never a view of the channel's reused read buffer
	c01Grammar(r)
	// the inbound Tread clamp is maybeTruncate's Tread clause: C03 relies on it lowering every count whose largest
	// reply would not fit (rules shared with C02)
	if mt := r.P.Fn("p9p:(*channel).maybeTruncate"); mt != nil {
		c02Truncate(r, mt)
	} else {
		r.Undecided("anchor", "(*channel).maybeTruncate", token.NoPos, "anchor function not found")
	}
	// the overflow test and the discard compare the frame length with len(ch.rdbuf): both are right only while
	// len(rdbuf) == msize, which newChannel establishes and SetMSize must preserve on every path
	if sm, nc := r.P.Fn("p9p:(*channel).SetMSize"), r.P.Fn("p9p:newChannel"); sm != nil && nc != nil {
		c10BufferInvariant(r, sm, nc)
	} else {
		r.Undecided("buffer-invariant", "SetMSize/newChannel", token.NoPos, "anchor not found")
	}
}

// c03HeaderRead recognises the read of the length prefix and returns the call whose success guarantees the
// four bytes were read, and the exact affine form of the wire length.
//
//	(a) binary.Read(rd, LittleEndian, &x) with x uint32
//	(b) io.ReadFull(rd, hdr[:]) over a 4-byte buffer, value binary.LittleEndian.Uint32(hdr[:])
//
// A single rd.Read into the header buffer is reported: it may return fewer than 4 bytes.
func c03HeaderRead(r *Run, fa *FA, rm *ssa.Function, rdParam ssa.Value) (*ssa.Call, *Lin, string) {
	for _, hdr := range findCalls(rm, "encoding/binary.Read") {
		var wire *ssa.Alloc
		if mi, ok := hdr.Call.Args[2].(*ssa.MakeInterface); ok {
			wire, _ = mi.X.(*ssa.Alloc)
		}
		if wire == nil || hdr.Call.Args[0] != rdParam {
			continue
		}
		b, sg, ok := intBits(wire.Type().Underlying().(*types.Pointer).Elem())
		if !ok || b != 32 || sg {
			return nil, nil, "the length prefix is not read as a 4-byte unsigned integer"
		}
		if !isLittleEndianArg(hdr.Call.Args[1]) {
			return nil, nil, "the length prefix is not read little-endian"
		}
		var wireSym *Sym
		eachInstr(rm, func(in ssa.Instruction) {
			if u, ok := in.(*ssa.UnOp); ok && u.Op == token.MUL && u.X == ssa.Value(wire) && instrDominates(hdr, u) {
				sy := fa.Sym(u)
				if wireSym == nil {
					wireSym = sy
				} else if wireSym.K != sy.K {
					wireSym = &Sym{Op: "other", K: "inconsistent"}
				}
			}
		})
		if wireSym == nil || wireSym.K == "inconsistent" {
			return nil, nil, "the length variable is rewritten after being read"
		}
		return hdr, linAtom(wireSym), ""
	}
	// (b) / (c): a byte buffer decoded with LittleEndian.Uint32
	var dec *ssa.Call
	eachInstr(rm, func(in ssa.Instruction) {
		if c, ok := in.(*ssa.Call); ok && calleeName(&c.Call) == "(encoding/binary.littleEndian).Uint32" {
			dec = c
		}
	})
	if dec == nil {
		eachInstr(rm, func(in ssa.Instruction) {
			if c, ok := in.(*ssa.Call); ok && strings.HasSuffix(calleeName(&c.Call), "bigEndian).Uint32") {
				dec = c
			}
		})
		if dec != nil {
			return nil, nil, "the length prefix is decoded big-endian"
		}
		return nil, nil, ""
	}
	bufBase := func(v ssa.Value) ssa.Value {
		if sl, ok := v.(*ssa.Slice); ok {
			return sl.X
		}
		return v
	}
	base := bufBase(dec.Call.Args[len(dec.Call.Args)-1])
	size := int64(-1)
	if a, ok := base.(*ssa.Alloc); ok {
		if arr, ok := a.Type().Underlying().(*types.Pointer).Elem().Underlying().(*types.Array); ok {
			size = arr.Len()
		}
	}
	if ms, ok := base.(*ssa.MakeSlice); ok {
		if c, ok := constInt(ms.Len); ok {
			size = c
		}
	}
	if size != 4 {
		return nil, nil, "the header buffer is not 4 bytes"
	}
	for _, f := range findCalls(rm, "io.ReadFull", "io.ReadAtLeast") {
		if f.Call.Args[0] == rdParam && bufBase(f.Call.Args[1]) == base && instrDominates(f, dec) && callSucceededAt(f, dec) {
			return f, fa.Lin(dec), ""
		}
	}
	for _, f := range findCalls(rm, "invoke io.Reader.Read") {
		if bufBase(f.Call.Args[0]) == base {
			return nil, nil, "the length prefix is fetched with a single Read, which may return fewer than 4 bytes: the frame length is then wrong and the stream loses synchronisation (use io.ReadFull)"
		}
	}
	return nil, nil, "the header buffer is decoded without a successful full read of 4 bytes"
}

func c03Readmsg(r *Run, rm *ssa.Function) {
	fa := r.P.FA(rm)
	pParam := rm.Params[1]
	rdParam := rm.Params[0]
	fulls := findCalls(rm, "io.ReadFull")
	copys := findCalls(rm, "io.CopyN")
	if len(copys) == 0 {
		// the discard moved into a helper: a call of a module function that wraps io.CopyN
		for _, g := range r.P.withHelpers(rm, 1)[1:] {
			if len(findCalls(g, "io.CopyN")) == 1 {
				copys = append(copys, findCalls(rm, fnName(g))...)
			}
		}
	}
	hdr, wireLin, problem := c03HeaderRead(r, fa, rm, rdParam)
	if hdr == nil {
		if problem != "" {
			r.Bad("frame-read", "readmsg: the 4-byte little-endian length prefix is read completely", rm.Pos(), problem)
		} else {
			r.Undecided("frame-read", "readmsg: the 4-byte little-endian length prefix is read completely", rm.Pos(), "no recognised read of the length prefix (binary.Read into a uint32, or io.ReadFull of 4 bytes + LittleEndian.Uint32)")
		}
		return
	}
	// the body read is the ReadFull that is not the header read
	var bodyFulls []*ssa.Call
	for _, f := range fulls {
		if f != hdr {
			bodyFulls = append(bodyFulls, f)
		}
	}
	fulls = bodyFulls
	r.Floor("frame-read", len(fulls), 1, "io.ReadFull of the body")
	r.Floor("discard", len(copys), 1, "io.CopyN discard of an oversize remainder")
	if len(fulls) != 1 || len(copys) != 1 {
		if len(fulls) > 1 || len(copys) > 1 {
			r.Undecided("frame-read", "readmsg: one body read, one discard", rm.Pos(), "more than one read of a kind: shape not recognised")
		}
		return
	}
	full, cp := fulls[0], copys[0]
	// the discard step: io.CopyN(Discard, rd, count) in readmsg itself, or a helper (rd, count) → (int(written), err)
	// wrapping exactly that call
	cpCount, cpRd, cpDiscardOK := discardStepArgs(cp)
	r.Ok("frame-read", "readmsg: the 4-byte little-endian length prefix is read completely", hdr.Pos(), "wire length = "+wireLin.String())
	body := wireLin.Sub(linConst(4)) // length counts itself

	// ReadFull reads from rd into p or a prefix of p, after a successful header read
	buf := full.Call.Args[1]
	okBuf := true
	for _, alt := range phiAlternatives(buf, 3) {
		if alt == pParam {
			continue
		}
		if sl, ok := alt.(*ssa.Slice); ok && sl.X == pParam && sl.Low == nil {
			// prefix p[:k]: k must be the body length
			k := fa.Lin(sl.High)
			if !k.Equal(body) {
				r.Bad("frame-read", "readmsg: body buffer is p[:length-4]", sl.Pos(), "the buffer is cut to "+k.String()+" instead of the body length "+body.String())
			} else {
				r.Ok("frame-read", "readmsg: body buffer is p[:length-4]", sl.Pos(), "k = "+k.String())
			}
			continue
		}
		okBuf = false
	}
	r.Check(okBuf && full.Call.Args[0] == rdParam, "frame-read", "readmsg: body is read from rd into (a prefix of) p", full.Pos(),
		"the body is not read into the start of the caller's buffer")
	r.Check(instrDominates(hdr, full) && callSucceededAt(hdr, full), "frame-read", "readmsg: body read only after a successful header read", full.Pos(), "body read reachable without a successful header read")
	bufLen := fa.linSym(lenOf(fa.Sym(buf)), 0)

	// when the buffer is the whole p (not cut), the edge must imply len(p) <= body... (reads at most the body):
	// the number of bytes requested, len(buf), never exceeds the body length
	fFull := fa.FactsAt(full, bufLen, body)
	r.Check(phiBoundedBy(fa, buf, body, full), "frame-read", "readmsg: never reads beyond the frame (len(buf) <= length-4)", full.Pos(),
		"the body read may consume bytes of the next frame: len(buf) <= length-4 is not established", factStrings(fFull)...)

	// discard
	cnt := fa.Lin(cpCount)
	want := body.Sub(bufLen)
	r.Check(cnt.Equal(want), "discard", "readmsg: discard count == (length-4) - len(buf)", cp.Pos(), "discards "+cnt.String()+" bytes, expected "+want.String(), "count = "+cnt.String())
	r.Check(cpRd == rdParam && cpDiscardOK, "discard", "readmsg: discard copies rd to io.Discard", cp.Pos(), "the remainder is not drained from rd into Discard")
	fcp := fa.FactsAt(cp, cnt)
	r.Check(Entails(fcp, linConst(1).Sub(cnt)) && callSucceededAt(full, cp), "discard", "readmsg: discard runs only when length-4 > len(buf), after the body read", cp.Pos(),
		"discard may run with a non-positive count or without a successful body read", factStrings(fcp)...)

	// success returns
	nSucc := 0
	for _, ret := range returnsOf(rm) {
		if len(ret.Results) != 2 {
			continue
		}
		if !isNilConst(ret.Results[1]) {
			// error return: must hand back a non-nil error value that comes from a failed step. A refusal that is not
			// an I/O failure and comes before the body was read leaves the claimed body in the stream; that is harmless
			// only for a length that does not even cover the size field itself (< 4: there is no body)
			ev := ret.Results[1]
			fromIO := false
			for _, c := range []*ssa.Call{hdr, full, cp} {
				if e := errResult(c); e != nil && derivesFrom(ev, e, 4) {
					fromIO = true
				}
			}
			if !fromIO && !instrDominates(full, ret) {
				facts := fa.FactsAt(ret, wireLin)
				r.Check(EntailsLE(facts, wireLin, linConst(3)), "frame-read", "readmsg: a frame is refused unread only when its length does not cover the size field (< 4)", ret.Pos(),
					"readmsg refuses a frame whose length is 4 or more without consuming its body: the bytes of that body are read as the next frame's header and the stream loses frame alignment", factStrings(facts)...)
			}
			continue
		}
		nSucc++
		// (i) consumed the whole frame: each way into the return either passed a successful discard or is on an edge implying body <= len(buf)
		okAll := true
		var whyFacts []string
		check := func(facts []Fact, afterCopy bool) {
			if afterCopy {
				return
			}
			if !EntailsLE(facts, body, bufLen) {
				okAll = false
				whyFacts = factStrings(facts)
			}
		}
		b := ret.Block()
		if len(b.Preds) <= 1 {
			after := instrDominates(cp, ret) && callSucceededAt(cp, ret)
			check(fa.FactsAt(ret, body, bufLen), after)
		} else {
			for _, pr := range b.Preds {
				last := pr.Instrs[len(pr.Instrs)-1]
				after := (cp.Block() == pr || cp.Block().Dominates(pr)) && edgeKnowsNil(pr, b, errResult(cp))
				_ = last
				check(fa.edgeFacts(pr, b, body, bufLen), after)
			}
		}
		r.Check(okAll && callSucceededAt(full, ret), "discard", "readmsg: success only after the whole frame was consumed", ret.Pos(),
			"readmsg can report success while bytes of an oversize frame remain unread (the stream loses synchronisation)", whyFacts...)
		// (ii) n == Size(header) + np (+ nn)
		np := resultN(full, 0)
		nn := resultN(cp, 0)
		okN := np != nil
		var alts []string
		for _, alt := range phiAlternatives(ret.Results[0], 3) {
			l := fa.Lin(alt)
			alts = append(alts, l.String())
			if !c03IsCount(fa, l, np, nn) {
				okN = false
			}
		}
		r.Check(okN, "count", "readmsg: n == header size + bytes read (+ bytes discarded)", ret.Pos(),
			"the reported count is not header + body read (+ discarded): "+strings.Join(alts, " | "), alts...)
	}
	r.Floor("count", nSucc, 1, "success return of readmsg")
	// errors of the three reads are returned
	for _, c := range []*ssa.Call{hdr, full, cp} {
		e := errResult(c)
		ok := false
		if e != nil {
			ok, _ = errPropagated(rm, e)
		}
		r.Check(ok, "error-propagation", "readmsg: error of "+calleeName(&c.Call)+" returned", c.Pos(), "read error dropped: a short frame would be reported as success")
	}
}

// phiBoundedBy: for each alternative of buf, len(alt) <= bound holds (structurally for p[:bound],
// by edge facts for the uncut alternative).
func phiBoundedBy(fa *FA, buf ssa.Value, bound *Lin, at ssa.Instruction) bool {
	phi, ok := buf.(*ssa.Phi)
	if !ok {
		l := fa.linSym(lenOf(fa.Sym(buf)), 0)
		return EntailsLE(fa.FactsAt(at, l, bound), l, bound)
	}
	for i, e := range phi.Edges {
		l := fa.linSym(lenOf(fa.Sym(e)), 0)
		facts := fa.edgeFacts(phi.Block().Preds[i], phi.Block(), l, bound)
		if !EntailsLE(facts, l, bound) {
			return false
		}
	}
	return true
}

// edgeKnowsNil: on the edge pred→succ the error e is known nil.
func edgeKnowsNil(pred, succ *ssa.BasicBlock, e ssa.Value) bool {
	if e == nil {
		return false
	}
	for _, c := range condsAt(pred) {
		if nilTestOf(c, e) == 1 {
			return true
		}
	}
	if ifi, ok := pred.Instrs[len(pred.Instrs)-1].(*ssa.If); ok && pred.Succs[0] != pred.Succs[1] {
		for si := 0; si < 2; si++ {
			if pred.Succs[si] == succ && nilTestOf(Cond{ifi.Cond, si == 0}, e) == 1 {
				return true
			}
		}
	}
	return false
}

func c03IsCount(fa *FA, l *Lin, np, nn ssa.Value) bool {
	// l = Size(uint32) + np  or  Size + np + nn ; the header size is the call binary.Size(<uint32>) or the constant 4
	rest := l.clone()
	hdr := false
	if rest.C == 4 {
		rest.C = 0
		hdr = true
	}
	for k, c := range rest.T {
		a := rest.Atoms[k]
		if a.Op == "call" && a.Aux == "encoding/binary.Size" && c == 1 && len(a.Args) == 1 {
			if b, s, ok := intBits(a.Args[0].T); ok && b == 32 && !s && !hdr {
				hdr = true
				delete(rest.T, k)
			}
		}
	}
	if !hdr || rest.C != 0 {
		return false
	}
	want := fa.Lin(np)
	if rest.Equal(want) {
		return true
	}
	if nn != nil && rest.Equal(want.Add(fa.Lin(nn))) {
		return true
	}
	return false
}

func isLittleEndianArg(v ssa.Value) bool {
	v = stripConv(v)
	if u, ok := v.(*ssa.UnOp); ok && u.Op == token.MUL {
		if g, ok := u.X.(*ssa.Global); ok {
			return g.Name() == "LittleEndian" && g.Pkg.Pkg.Path() == "encoding/binary"
		}
	}
	return false
}

func isDiscard(v ssa.Value) bool {
	v = stripConv(v)
	if u, ok := v.(*ssa.UnOp); ok && u.Op == token.MUL {
		if g, ok := u.X.(*ssa.Global); ok {
			return g.Name() == "Discard" && (g.Pkg.Pkg.Path() == "io/ioutil" || g.Pkg.Pkg.Path() == "io")
		}
	}
	return false
}

func c03ReadFcall(r *Run, rf, rm *ssa.Function) {
	fa := r.P.FA(rf)
	fcallParam := rf.Params[len(rf.Params)-1]
	rms := findCalls(rf, "p9p.readmsg")
	ums := findCalls(rf, "invoke p9p.Codec.Unmarshal")
	mts := findCalls(rf, "(*p9p.channel).maybeTruncate")
	r.Floor("decode-extent", len(rms), 1, "readmsg call in ReadFcall")
	r.Floor("decode-extent", len(ums), 1, "Codec.Unmarshal call in ReadFcall")
	r.Floor("inbound-clamp", len(mts), 1, "maybeTruncate call in ReadFcall")
	if len(rms) != 1 || len(ums) == 0 {
		return
	}
	rmc := rms[0]
	n := resultN(rmc, 0)
	bufArg := rmc.Call.Args[1]
	okBuf := isLoadOfField(bufArg, "channel", "rdbuf")
	r.Check(okBuf, "decode-extent", "ReadFcall: readmsg fills ch.rdbuf", rmc.Pos(), "readmsg does not read into the channel's msize-sized buffer")
	if n == nil {
		r.Bad("decode-extent", "ReadFcall: readmsg count used", rmc.Pos(), "the count returned by readmsg is discarded: overflow cannot be detected")
		return
	}
	ln := fa.Lin(n)
	bufLen := fa.linSym(lenOf(fa.Sym(bufArg)), 0)
	for _, um := range ums {
		r.CallSites++
		// (3) overflow test dominates decode: facts ⊨ n <= len(rdbuf)
		facts := fa.FactsAt(um, ln, bufLen)
		r.Check(callSucceededAt(rmc, um) && EntailsLE(facts, ln, bufLen), "overflow-guard", "ReadFcall: Unmarshal only when n <= len(rdbuf) and readmsg succeeded", um.Pos(),
			"an oversize (truncated) frame can be decoded as if complete", factStrings(facts)...)
		// (2) decode extent
		sl, ok := um.Call.Args[0].(*ssa.Slice)
		if !ok {
			r.Bad("decode-extent", "ReadFcall: Unmarshal gets exactly the bytes read by this call", um.Pos(), "Unmarshal is not given a bounded slice of the read buffer: stale bytes of earlier frames are decoded")
		} else {
			base := fa.Sym(sl.X)
			okBase := base.K == fa.Sym(bufArg).K && sl.Low == nil
			hi := (*Lin)(nil)
			if sl.High != nil {
				hi = fa.Lin(sl.High)
			}
			okHi := hi != nil && hi.Add(linConst(4)).Equal(ln)
			got := "<len>"
			if hi != nil {
				got = hi.String()
			}
			r.Check(okBase && okHi, "decode-extent", "ReadFcall: Unmarshal gets exactly the bytes read by this call (rdbuf[:n-4])", um.Pos(),
				"decoded extent is rdbuf[:"+got+"] but this call stored n-4 = "+ln.Sub(linConst(4)).String()+" body bytes: bytes left over from earlier frames take part in decoding (or the frame is cut short)",
				"n = "+ln.String(), "high = "+got)
		}
		// (5) clear before decode
		cleared := false
		eachInstr(rf, func(in ssa.Instruction) {
			if st, ok := in.(*ssa.Store); ok && st.Addr == fcallParam {
				if c, ok := st.Val.(*ssa.Const); ok && c.Value == nil && instrDominates(st, um) {
					cleared = true
				}
			}
		})
		r.Check(cleared, "clear", "ReadFcall: *fcall cleared before Unmarshal", um.Pos(), "fields of a previous message can survive into the decoded fcall")
		tgt := stripConv(um.Call.Args[1])
		r.Check(tgt == fcallParam, "clear", "ReadFcall: Unmarshal decodes into the caller's fcall", um.Pos(), "decodes into something else than the caller's fcall")
		e := errResult(um)
		okp := false
		if e != nil {
			okp, _ = errPropagated(rf, e)
		}
		r.Check(okp, "error-propagation", "ReadFcall: Unmarshal error returned", um.Pos(), "an undecodable body is reported as success")
	}
	e := errResult(rmc)
	okp := false
	if e != nil {
		okp, _ = errPropagated(rf, e)
	}
	r.Check(okp, "error-propagation", "ReadFcall: readmsg error returned", rmc.Pos(), "framing errors are dropped")

	// overflow error amount: every overflowErr literal returned reports n - len(rdbuf) on an edge implying n > len
	nOv := 0
	for _, ret := range returnsOf(rf) {
		if len(ret.Results) != 1 {
			continue
		}
		l, isOv, hasSize := overflowSize(r.P, fa, ret.Results[0], 0)
		if !isOv {
			continue
		}
		nOv++
		if !hasSize {
			r.Bad("overflow-amount", "ReadFcall: overflow error reports n - len(rdbuf)", ret.Pos(), "overflow error without size")
			continue
		}
		r.Check(l.Equal(ln.Sub(bufLen)), "overflow-amount", "ReadFcall: overflow error reports n - len(rdbuf)", ret.Pos(), "reports "+l.String()+", expected "+ln.Sub(bufLen).String())
		facts := fa.FactsAt(ret, ln, bufLen)
		r.Check(Entails(facts, bufLen.Sub(ln).Add(linConst(1))), "overflow-guard", "ReadFcall: overflow reported only when n > len(rdbuf)", ret.Pos(),
			"a frame of exactly msize bytes (or smaller) can be refused as overflow", factStrings(facts)...)
	}
	r.Floor("overflow-amount", nOv, 1, "overflow error return in ReadFcall")

	// (6) inbound clamp on the success path; nil return only after it succeeded
	for _, ret := range returnsOf(rf) {
		if len(ret.Results) == 1 && isNilConst(ret.Results[0]) {
			ok := false
			for _, mt := range mts {
				if mt.Call.Args[len(mt.Call.Args)-1] == fcallParam && instrDominates(mt, ret) && callSucceededAt(mt, ret) {
					ok = true
				}
			}
			okU := false
			for _, um := range ums {
				if instrDominates(um, ret) && callSucceededAt(um, ret) {
					okU = true
				}
			}
			r.Check(ok, "inbound-clamp", "ReadFcall: success only after maybeTruncate(fcall) (inbound Tread clamp)", ret.Pos(), "a received Tread's count is not lowered to fit the reply in msize")
			r.Check(okU, "decode-extent", "ReadFcall: success only after a successful Unmarshal", ret.Pos(), "success reported without decoding")
		}
	}
	for _, mt := range mts {
		e := errResult(mt)
		okp := false
		if e != nil {
			okp, _ = errPropagated(rf, e)
		}
		r.Check(okp, "error-propagation", "ReadFcall: maybeTruncate error returned", mt.Pos(), "error dropped")
	}
	_ = fmt.Sprint
}

// discardStepArgs: for io.CopyN(dst, rd, n) the three roles; for a helper h(…rd…, …count…) whose body is exactly
// `nn, err := io.CopyN(io.Discard, rd, int64(count)); return int(nn), err`, the call-site arguments in those roles.
func discardStepArgs(c *ssa.Call) (count ssa.Value, rd ssa.Value, discardOK bool) {
	if calleeName(&c.Call) == "io.CopyN" {
		return c.Call.Args[2], c.Call.Args[1], isDiscard(c.Call.Args[0])
	}
	g := staticCallee(&c.Call)
	if g == nil || g.Blocks == nil {
		return nil, nil, false
	}
	inner := findCalls(g, "io.CopyN")
	if len(inner) != 1 {
		return nil, nil, false
	}
	ic := inner[0]
	idx := func(v ssa.Value) int {
		v = stripConv(v)
		if cv, ok := v.(*ssa.Convert); ok {
			v = cv.X
		}
		for i, prm := range g.Params {
			if ssa.Value(prm) == v {
				return i
			}
		}
		return -1
	}
	ci, ri := idx(ic.Call.Args[2]), idx(ic.Call.Args[1])
	if ci < 0 || ri < 0 || ci >= len(c.Call.Args) || ri >= len(c.Call.Args) {
		return nil, nil, false
	}
	// the helper returns CopyN's own results
	okRet := true
	for _, ret := range returnsOf(g) {
		if len(ret.Results) != 2 {
			okRet = false
			continue
		}
		v0 := stripConv(ret.Results[0])
		if cv, ok := v0.(*ssa.Convert); ok {
			v0 = cv.X
		}
		if v0 != resultN(ic, 0) || ret.Results[1] != resultN(ic, 1) {
			okRet = false
		}
	}
	return c.Call.Args[ci], c.Call.Args[ri], okRet && isDiscard(ic.Call.Args[0])
}
