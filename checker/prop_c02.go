package main

import (
	"fmt"
	"go/token"
	"go/types"
	"strings"

	"golang.org/x/tools/go/ssa"
)

func init() { register("C02", checkC02) }

// fieldLoadSym: the symbol of a load of ch.<field> for the receiver parameter of fn — helper to
// recognise "channel.msize" operands independent of spelling.
func isChanFieldAtom(s *Sym, field string) bool {
	return s != nil && s.Op == "ld" && s.Aux == "F:p9p.channel."+field
}

// msizeTerms splits a Lin into (coefficient on loads of channel.msize, coefficient on calls of
// msgmsize(<arg key>), rest).
func isMsgmsizeCall(s *Sym) bool {
	return s != nil && s.Op == "call" && s.Aux == "(*p9p.channel).msgmsize"
}

func checkC02(r *Run) {
	p := r.P
	r.Decides = append(r.Decides,
		"WriteFcall orders maybeTruncate → Marshal → sendmsg → Flush on one fcall value, each later step only on the nil-error edge of the earlier one, so nothing reaches the connection when a step fails",
		"maybeTruncate partitions exactly on msgmsize(fcall) vs channel.msize: every nil return outside the Tread clause is on an edge implying size<=msize or follows the exact Twrite truncation; every overflow error is on an edge implying size>msize and reports exactly size-msize",
		"Twrite truncation re-slices Data to len(Data)-(size-msize) (affine identity), guarded by len(Data)>=overflow, and stores the shortened message back",
		"Tread clamp stores Count' with Count' ≡ msize - msgmsize(empty Rread with the request's tag) (mod 2^32); every exit of the Tread clause leaves with count + empty-Rread frame <= msize and count never raised, decided wrap-aware (case split over every wrapping/non-wrapping combination of the uint32 operations, msize in [24, 2^31))",
		"sendmsg writes a header ≡ len(p)+4 before the body; msgmsize ≡ 4 + codec.Size(fcall)",
		"no store/copy/append through memory reachable from the caller's fcall (caller's buffer never written)")
	r.NotDecided = append(r.NotDecided,
		"short/partial writes inside bufio and the connection",
		"that Codec.Size equals the marshalled length as a value statement (its layout half — size9p mirrors encode per type and per special case — is decided here by the codec-grammar rules)")
	r.Trusted = append(r.Trusted, "bufio.Writer, encoding/binary.Write")

	wf := p.Fn("p9p:(*channel).WriteFcall")
	mt := p.Fn("p9p:(*channel).maybeTruncate")
	sm := p.Fn("p9p:sendmsg")
	mm := p.Fn("p9p:(*channel).msgmsize")
	for name, f := range map[string]*ssa.Function{"(*channel).WriteFcall": wf, "(*channel).maybeTruncate": mt, "sendmsg": sm, "(*channel).msgmsize": mm} {
		if f == nil {
			r.Undecided("anchor", "p9p."+name, token.NoPos, "anchor function not found")
			return
		}
		r.SawFn("p9p." + name)
	}

	c02WriteOrder(r, wf)
	c02Truncate(r, mt)
	c02Sendmsg(r, sm)
	c02Msgmsize(r, mm)
	c02OverflowExposed(r)
	// the frame written carries the caller's message: the marshalled bytes are not shared with other calls
	c01MarshalFresh(r)
	// the fit test compares msize with 4 + Codec.Size(fcall) while the bytes written come from Marshal: the frame
	// bound holds only if size9p and encode agree for every type and every special case (codec-grammar rules)
	c01Grammar(r)
	cbScope := []*ssa.Function{}
	cbSeen := map[*ssa.Function]bool{}
	for _, f := range []*ssa.Function{wf, mt, sm, mm} {
		for _, g := range p.withHelpers(f, 1) {
			if !cbSeen[g] && (g == f || g.Pkg == f.Pkg && fnName(g) != "p9p.newFcall") {
				cbSeen[g] = true
				cbScope = append(cbScope, g)
			}
		}
	}
	c02CallerBuffer(r, cbScope)
}

// ---- (1) ordering in WriteFcall ------------------------------------------------

func c02WriteOrder(r *Run, wf *ssa.Function) {
	fcallParam := wf.Params[len(wf.Params)-1]
	mts := findCalls(wf, "(*p9p.channel).maybeTruncate")
	mar := findCalls(wf, "invoke p9p.Codec.Marshal")
	snd := findCalls(wf, "p9p.sendmsg")
	fl := findCalls(wf, "(*bufio.Writer).Flush")
	// the write step (sendmsg + Flush) may live in a helper of the channel handed the marshalled bytes
	// (`return ch.writeframe(p)`): the call is the write step of WriteFcall, the helper's body is checked as its tail
	var tailCall *ssa.Call
	var tailFn *ssa.Function
	var tailParam ssa.Value
	if len(snd) == 0 {
		eachInstr(wf, func(in ssa.Instruction) {
			c, ok := in.(*ssa.Call)
			if !ok {
				return
			}
			g := staticCallee(&c.Call)
			if g == nil || g.Blocks == nil || g.Pkg != wf.Pkg || len(findCalls(g, "p9p.sendmsg")) == 0 {
				return
			}
			for i, a := range c.Call.Args {
				for _, m := range mar {
					if a == resultN(m, 0) && i < len(g.Params) {
						tailCall, tailFn, tailParam = c, g, g.Params[i]
					}
				}
			}
		})
		if tailFn != nil {
			r.SawFn(fnName(tailFn))
			snd = findCalls(tailFn, "p9p.sendmsg")
			fl = findCalls(tailFn, "(*bufio.Writer).Flush")
		}
	}
	r.Floor("write-order", len(mts), 1, "maybeTruncate call in WriteFcall")
	r.Floor("write-order", len(mar), 1, "Codec.Marshal call in WriteFcall")
	r.Floor("write-order", len(snd), 1, "sendmsg call in WriteFcall")
	r.Floor("write-order", len(fl), 1, "Flush call in WriteFcall")
	if len(mts) == 0 || len(mar) == 0 || len(snd) == 0 {
		return
	}
	tf := wf // the function holding the write step
	if tailFn != nil {
		tf = tailFn
		okT := false
		for _, m := range mar {
			if instrDominates(m, tailCall) && callSucceededAt(m, tailCall) {
				okT = true
			}
		}
		r.Check(okT, "write-order", "WriteFcall: "+fnName(tailFn)+" only after successful Marshal", tailCall.Pos(),
			"bytes can reach the connection on a path where truncation/marshalling did not succeed")
		okp := false
		if e := errResult(tailCall); e != nil {
			okp, _ = errPropagated(wf, e)
		}
		r.Check(okp, "error-propagation", "WriteFcall: error of the write step returned", tailCall.Pos(), "a failed write is reported as success")
	}
	// every Marshal must follow a successful maybeTruncate of the same fcall
	for _, m := range mar {
		ok := false
		for _, t := range mts {
			if t.Call.Args[len(t.Call.Args)-1] == fcallParam && instrDominates(t, m) && callSucceededAt(t, m) {
				ok = true
			}
		}
		same := stripConv(m.Call.Args[0]) == fcallParam
		r.Check(ok && same, "write-order", "WriteFcall: Marshal after successful maybeTruncate(fcall), same fcall", m.Pos(),
			"Codec.Marshal is reachable without a successful maybeTruncate of the same fcall: an oversize message would be framed unchecked",
			fmt.Sprintf("marshal arg is fcall param: %v", same))
	}
	// every connection write (sendmsg, any bufio.Writer method, net.Conn.Write) must follow a successful Marshal
	eachInstr(tf, func(in ssa.Instruction) {
		c, ok := in.(ssa.CallInstruction)
		if !ok {
			return
		}
		n := calleeName(c.Common())
		isWrite := n == "p9p.sendmsg" || strings.HasPrefix(n, "(*bufio.Writer).") || n == "invoke net.Conn.Write" || n == "invoke io.Writer.Write"
		if !isWrite {
			return
		}
		r.CallSites++
		ok2 := tailFn != nil // in the tail helper: its call site was checked above
		for _, m := range mar {
			if tailFn == nil && instrDominates(m, in) && callSucceededAt(m, in) {
				ok2 = true
			}
		}
		// a deferred or go'ed write is never acceptable
		if _, isCall := in.(*ssa.Call); !isCall {
			ok2 = false
		}
		r.Check(ok2, "write-order", "WriteFcall: "+n+" only after successful Marshal", in.Pos(),
			"bytes can reach the connection on a path where truncation/marshalling did not succeed")
		if n == "p9p.sendmsg" {
			call := in.(*ssa.Call)
			// sendmsg's payload is exactly Marshal's result
			arg := call.Call.Args[1]
			fromMarshal := tailFn != nil && arg == tailParam
			for _, m := range mar {
				if resultN(m, 0) == arg {
					fromMarshal = true
				}
			}
			r.Check(fromMarshal, "write-order", "WriteFcall: sendmsg payload is Marshal's result", in.Pos(),
				"sendmsg is given something other than the marshalled bytes of the checked fcall")
			// its error is propagated and Flush only follows on success
			e := errResult(call)
			okp := false
			if e != nil {
				okp, _ = errPropagated(tf, e)
			}
			r.Check(okp, "error-propagation", "WriteFcall: sendmsg error returned", in.Pos(), "sendmsg's error is dropped")
		}
		if n == "(*bufio.Writer).Flush" {
			okf := false
			for _, s := range snd {
				if instrDominates(s, in) && callSucceededAt(s, in) {
					okf = true
				}
			}
			r.Check(okf, "write-order", "WriteFcall: Flush only after successful sendmsg", in.Pos(), "Flush is reachable without a successful sendmsg")
			okp := false
			if fc, isCall := in.(*ssa.Call); isCall { // a deferred or go'ed Flush has no result anybody can look at
				if e := errResult(fc); e != nil {
					okp, _ = errPropagated(tf, e)
				}
			}
			r.Check(okp, "error-propagation", "WriteFcall: Flush error returned", in.Pos(), "Flush's error is dropped (a write that fails while the frame leaves the buffer is reported as success)")
		}
	})
	// errors of maybeTruncate and Marshal are returned
	for _, t := range mts {
		e := errResult(t)
		okp := false
		if e != nil {
			okp, _ = errPropagated(wf, e)
		}
		r.Check(okp, "error-propagation", "WriteFcall: maybeTruncate error returned", t.Pos(), "overflow error is not reported to the caller")
	}
	for _, m := range mar {
		e := errResult(m)
		okp := false
		if e != nil {
			okp, _ = errPropagated(wf, e)
		}
		r.Check(okp, "error-propagation", "WriteFcall: Marshal error returned", m.Pos(), "Marshal error is dropped")
	}
	// nothing stays behind in the buffered writer: once sendmsg has put the frame into the buffer, every way out of
	// WriteFcall goes through Flush (a frame left in the buffer by a call that returned an error is emitted by the
	// next call: "nothing emitted on error" and "exactly one frame per call" both fail)
	for _, ret := range returnsOf(tf) {
		for _, sd := range snd {
			if !(instrDominates(sd, ret) && callSucceededAt(sd, ret)) {
				continue
			}
			ok := false
			for _, f := range fl {
				if instrDominates(f, ret) {
					ok = true
				}
			}
			r.Check(ok, "write-order", "WriteFcall: every exit after a successful sendmsg has flushed the frame", ret.Pos(),
				"WriteFcall can return after sendmsg without Flush: the frame stays in the buffer and goes out with a later call (an errored call emits its message after all; the next call emits two frames)")
		}
	}
	// a nil return of WriteFcall requires a successful flush: every `return nil` const is dominated by Flush success,
	// or the function returns Flush's result directly.
	for _, ret := range returnsOf(tf) {
		if len(ret.Results) != 1 {
			continue
		}
		if isNilConst(ret.Results[0]) {
			ok := false
			for _, f := range fl {
				if instrDominates(f, ret) {
					ok = true
				}
			}
			r.Check(ok, "write-order", "WriteFcall: success return only after Flush", ret.Pos(), "WriteFcall can report success without flushing the frame")
		}
	}
	if tailFn != nil {
		for _, ret := range returnsOf(wf) {
			if len(ret.Results) == 1 && isNilConst(ret.Results[0]) {
				r.Check(instrDominates(tailCall, ret) && callSucceededAt(tailCall, ret), "write-order", "WriteFcall: success return only after the write step succeeded", ret.Pos(),
					"WriteFcall can report success without having written (and flushed) the frame")
			}
		}
	}
}

// ---- (2,3,4) maybeTruncate -------------------------------------------------------

func c02Truncate(r *Run, mtTop *ssa.Function) {
	p := r.P
	nNil, nErr, nTrunc, nTread := 0, 0, 0, 0
	var classify func(mt *ssa.Function, fcallParam *ssa.Parameter, msgOK func(base *Sym) bool, depth int, treadCtx bool)
	classify = func(mt *ssa.Function, fcallParam *ssa.Parameter, msgOK func(base *Sym) bool, depth int, treadCtx bool) {
		fa := p.FA(mt)

		// size(fcall) calls on the fcall parameter itself, and the msize loads
		isSizeOfFcall := func(s *Sym) bool {
			return isMsgmsizeCall(s) && len(s.Args) == 2 && s.Args[1].K == "p:"+fcallParam.Name()
		}
		// sizeMinusMsize recognises a Lin of the exact shape  msgmsize(fcall) - channel.msize
		sizeMinusMsize := func(l *Lin) bool {
			if l.C != 0 || len(l.T) != 2 {
				return false
			}
			okS, okM := false, false
			for k, c := range l.T {
				a := l.Atoms[k]
				if c == 1 && isSizeOfFcall(a) {
					okS = true
				}
				if c == -1 && isChanFieldAtom(a, "msize") {
					okM = true
				}
			}
			return okS && okM
		}
		// goalFits: facts at instruction ⊨ size - msize <= 0 for some size/msize pair visible in the facts
		sizePairs := func(facts []Fact) []*Lin {
			var sizes, msizes []*Sym
			seen := map[string]bool{}
			for _, f := range facts {
				for k, a := range f.L.Atoms {
					if seen[k] {
						continue
					}
					seen[k] = true
					if isSizeOfFcall(a) {
						sizes = append(sizes, a)
					}
					if isChanFieldAtom(a, "msize") {
						msizes = append(msizes, a)
					}
				}
			}
			var out []*Lin
			for _, s := range sizes {
				for _, m := range msizes {
					out = append(out, linAtom(s).Sub(linAtom(m)))
				}
			}
			return out
		}

		// classify each return
		for _, ret := range returnSites(mt) {
			if len(ret.Results) != 1 {
				continue
			}
			conds := ret.Conds()
			inTread := treadCtx
			for _, c := range conds {
				if e, ok := normCond(c).V.(*ssa.Extract); ok && c.Truth && e.Index == 1 {
					if ta, ok := e.Tuple.(*ssa.TypeAssert); ok && isP9P(ta.AssertedType, "MessageTread") {
						inTread = true
					}
				}
			}
			// a clause moved into a helper: `return ch.helper(fcall, msg)` — the helper's exits are exits of the partition
			if c, ok := ret.Results[0].(*ssa.Call); ok && depth < 2 {
				if g := staticCallee(&c.Call); g != nil && g.Blocks != nil && p.InModule(g) && g != mt {
					var fp, mp *ssa.Parameter
					for i, a := range c.Call.Args {
						if i >= len(g.Params) {
							break
						}
						if a == ssa.Value(fcallParam) {
							fp = g.Params[i]
						} else if sa := fa.Sym(a); strings.Contains(sa.K, "ld(&p:"+fcallParam.Name()+".Message)") {
							mp = g.Params[i]
						}
					}
					if fp != nil {
						r.SawFn(fnName(g))
						classify(g, fp, func(base *Sym) bool {
							return mp != nil && strings.HasPrefix(base.K, "p:"+mp.Name()) && strings.HasSuffix(base.K, ".Data")
						}, depth+1, inTread)
						continue
					}
				}
			}
			facts := fa.FactsAtSite(ret)
			res := ret.Results[0]
			key := fmt.Sprintf("maybeTruncate return#%d", nNil+nErr+nTread)
			if inTread {
				nTread++
				continue // handled by the Tread rule below
			}
			if isNilConst(res) {
				nNil++
				// (a) fits
				fits := false
				for _, d := range sizePairs(facts) {
					if Entails(facts, d) {
						fits = true
					}
				}
				if fits {
					r.Ok("partition", "maybeTruncate: nil return on an edge implying msgmsize(fcall) <= msize ["+condStr(conds)+"]", ret.Pos(), factStrings(facts)...)
					continue
				}
				// (b) follows the exact truncation
				if ok, why := c02TwriteTruncation(fa, mt, ret, fcallParam, sizeMinusMsize, facts, msgOK); ok {
					nTrunc++
					r.Ok("twrite-truncation", "maybeTruncate: nil return after exact Twrite truncation", ret.Pos(), why)
					continue
				} else if why != "" {
					r.Bad("twrite-truncation", "maybeTruncate: nil return after exact Twrite truncation", ret.Pos(), why, factStrings(facts)...)
					continue
				}
				r.Bad("partition", "maybeTruncate: nil return ["+condStr(conds)+"]", ret.Pos(),
					"maybeTruncate returns nil (message will be sent) on a path where neither msgmsize(fcall) <= msize is implied nor the message was truncated to fit",
					factStrings(facts)...)
				_ = key
				continue
			}
			// error return: must be overflowErr{size: size-msize} on an edge implying size > msize
			nErr++
			l, isOv, hasSize := overflowSize(p, fa, res, 0)
			if !isOv {
				r.Undecided("partition", "maybeTruncate: error return", ret.Pos(), "error return is not an overflowErr literal (or a constructor of one): cannot relate it to the excess")
				continue
			}
			if !hasSize {
				r.Bad("overflow-amount", "maybeTruncate: overflowErr.size", ret.Pos(), "overflow error does not report a size")
				continue
			}
			r.Check(sizeMinusMsize(l), "overflow-amount", "maybeTruncate: overflowErr.size == msgmsize(fcall) - msize", ret.Pos(),
				"overflow error reports "+l.String()+" instead of msgmsize(fcall) - msize", "size = "+l.String())
			// on an edge implying size > msize: facts ⊨ msize - size + 1 <= 0
			over := false
			for _, d := range sizePairs(facts) {
				if Entails(facts, d.Scale(-1).Add(linConst(1))) {
					over = true
				}
			}
			r.Check(over, "partition", "maybeTruncate: overflow error only on an edge implying msgmsize(fcall) > msize ["+condStr(conds)+"]", ret.Pos(),
				"a message that fits exactly (size == msize) or smaller can be refused with an overflow error", factStrings(facts)...)
		}
	}
	fcallTop := mtTop.Params[1]
	classify(mtTop, fcallTop, func(base *Sym) bool {
		return strings.Contains(base.K, "ld(&p:"+fcallTop.Name()+".Message)") && strings.HasSuffix(base.K, ".Data")
	}, 0, false)
	r.Floor("partition", nNil, 3, "nil returns outside the Tread clause")
	r.Floor("partition", nErr, 2, "overflow error returns")
	r.Floor("twrite-truncation", nTrunc, 1, "truncating path")
	_ = nTread

	tc := findTreadClause(p, mtTop, fcallTop)
	if tc == nil {
		r.Undecided("tread-clamp", "maybeTruncate: Tread clause", mtTop.Pos(), "no comma-ok assertion to MessageTread found in maybeTruncate")
		return
	}
	if tc.fn != mtTop {
		r.SawFn(fnName(tc.fn))
	}
	c02Tread(r, p.FA(tc.fn), tc)
}

// treadClause: where the Tread clause of maybeTruncate lives — in maybeTruncate itself (msg is the asserted
// message, okv the assertion's ok flag), or in a helper the clause returns the result of
// (`return ch.clampTread(fcall, msg)`: msg is the helper's parameter, every exit of the helper is an exit of the clause).
type treadClause struct {
	fn    *ssa.Function
	fcall ssa.Value
	msg   ssa.Value
	okv   ssa.Value // nil: the whole function is the clause
}

func (tc *treadClause) inClause(ret retSite) bool {
	if tc.okv == nil {
		return true
	}
	for _, cd := range ret.Conds() {
		if nc := normCond(cd); nc.V == tc.okv && nc.Truth {
			return true
		}
	}
	return false
}

func findTreadClause(p *Prog, mt *ssa.Function, fcallParam ssa.Value) *treadClause {
	var ta *ssa.TypeAssert
	eachInstr(mt, func(in ssa.Instruction) {
		if x, ok := in.(*ssa.TypeAssert); ok && isP9P(x.AssertedType, "MessageTread") && x.CommaOk {
			ta = x
		}
	})
	if ta == nil {
		return nil
	}
	tc := &treadClause{fn: mt, fcall: fcallParam, msg: resultN(ta, 0), okv: resultN(ta, 1)}
	for _, st := range storesToField(mt, fcallParam, "Message") {
		if isP9P(p.FA(mt).Sym(st.Val).T, "MessageTread") {
			return tc
		}
	}
	// delegated: every exit of the clause returns the result of one helper call that receives fcall and the message —
	// or the clause calls a helper without result and returns nil (`ch.clampTread(fcall, msg); return nil`)
	var deleg *ssa.Call
	n, other := 0, 0
	for _, ret := range returnSites(mt) {
		if !tc.inClause(ret) || len(ret.Results) != 1 {
			continue
		}
		if c, ok := ret.Results[0].(*ssa.Call); ok {
			if g := staticCallee(&c.Call); g != nil && g.Blocks != nil && p.InModule(g) && g != mt {
				if deleg != c {
					n++
				}
				deleg = c
				continue
			}
		}
		if isNilConst(ret.Results[0]) {
			// the only thing the clause does before this return is one helper call handed fcall
			var hc *ssa.Call
			cnt := 0
			eachInstr(mt, func(in ssa.Instruction) {
				c, ok := in.(*ssa.Call)
				if !ok || !instrDominates(c, ret.At()) {
					return
				}
				okIn := false
				for _, cd := range condsAtInstr(c) {
					if nc := normCond(cd); nc.V == tc.okv && nc.Truth {
						okIn = true
					}
				}
				if !okIn {
					return
				}
				if g := staticCallee(&c.Call); g != nil && g.Blocks != nil && p.InModule(g) && g != mt && g.Signature.Results().Len() == 0 {
					hc = c
					cnt++
				}
			})
			if cnt == 1 {
				if deleg != hc {
					n++
				}
				deleg = hc
				continue
			}
		}
		other++
	}
	if deleg == nil || n != 1 || other != 0 {
		return tc
	}
	g := staticCallee(&deleg.Call)
	var fp, mp ssa.Value
	for i, a := range deleg.Call.Args {
		if i >= len(g.Params) {
			break
		}
		a = stripConv(a)
		if a == fcallParam {
			fp = g.Params[i]
		} else if a == tc.msg {
			mp = g.Params[i]
		} else if u, ok := a.(*ssa.UnOp); ok {
			// the message loaded from its local copy
			for _, rf := range referrers(tc.msg) {
				if st, ok := rf.(*ssa.Store); ok && st.Val == tc.msg && st.Addr == u.X {
					mp = g.Params[i]
				}
			}
		}
	}
	if fp == nil || mp == nil {
		return tc
	}
	return &treadClause{fn: g, fcall: fp, msg: mp}
}

func condStr(cs []Cond) string {
	parts := []string{}
	for _, c := range cs {
		parts = append(parts, c.String())
	}
	return strings.Join(parts, " && ")
}

// storesToMessage: the stores to fcall.Message in fn
func storesToField(fn *ssa.Function, base ssa.Value, field string) []*ssa.Store {
	var out []*ssa.Store
	eachInstr(fn, func(in ssa.Instruction) {
		st, ok := in.(*ssa.Store)
		if !ok {
			return
		}
		if f, ok := st.Addr.(*ssa.FieldAddr); ok && f.X == base && fieldName(f.X.Type(), f.Field) == field {
			out = append(out, st)
		}
	})
	return out
}

func c02TwriteTruncation(fa *FA, mt *ssa.Function, ret retSite, fcallParam ssa.Value, sizeMinusMsize func(*Lin) bool, facts []Fact, msgOK func(base *Sym) bool) (bool, string) {
	// a store fcall.Message = <MessageTwrite with Data re-sliced> dominating the return
	for _, st := range storesToField(mt, fcallParam, "Message") {
		if !ret.DominatedBy(st) {
			continue
		}
		s := fa.Sym(st.Val)
		if !isP9P(s.T, "MessageTwrite") {
			continue
		}
		data := fa.fieldOf(s, "Data", nil)
		if data.Op != "slice" {
			return false, "the stored MessageTwrite's Data is not a re-slice of the original data: " + data.K
		}
		base, lo, hi := data.Args[0], data.Args[1], data.Args[2]
		if lo != nil && !(lo.IsI && lo.Int == 0) {
			return false, "truncated Data does not start at offset 0 (not a prefix of the caller's data)"
		}
		if hi == nil {
			return false, "Data is not shortened"
		}
		// hi ≡ len(base) - (size - msize)
		lh := fa.linSym(hi, 0)
		d := fa.linSym(lenOf(base), 0).Sub(lh)
		if !sizeMinusMsize(d) {
			return false, "Data is cut by " + d.String() + " bytes instead of msgmsize(fcall) - msize"
		}
		// base must be the original Data of the message taken from fcall.Message
		if !msgOK(base) {
			return false, "re-sliced value is not the Data of the fcall's own message: " + base.K
		}
		// guard: facts ⊨ hi >= 0  (len(Data) >= overflow)
		if !Entails(facts, lh.Scale(-1)) {
			return false, "no dominating guard makes len(Data) - overflow non-negative (slice would panic or overflow error is skipped)"
		}
		// other fields (Fid, Offset) untouched: the stored struct is an update of the original on Data only
		if s.Op != "upd" || s.Aux != "Data" || s.Args[0].Op == "upd" {
			return false, "the stored message differs from the original in more than Data: " + s.K
		}
		return true, "Data' = Data[:len(Data)-(msgmsize(fcall)-msize)], stored to fcall.Message; guard entails len(Data) >= overflow"
	}
	return false, ""
}

func c02Tread(r *Run, fa *FA, tc *treadClause) {
	mt, fcallParam := tc.fn, tc.fcall
	n := 0
	for _, st := range storesToField(mt, fcallParam, "Message") {
		s := fa.Sym(st.Val)
		if !isP9P(s.T, "MessageTread") {
			continue
		}
		n++
		cnt := fa.fieldOf(s, "Count", nil)
		lm := fa.linSym(cnt, 32)
		// expected: msize - msgmsize(newFcall(fcall.Tag, MessageRread{}))
		var msz, rsz *Sym
		for k, c := range lm.T {
			a := lm.Atoms[k]
			_ = c
			if isChanFieldAtom(a, "msize") {
				msz = a
			}
			if isMsgmsizeCall(a) {
				rsz = a
			}
		}
		if msz == nil || rsz == nil {
			r.Bad("tread-clamp", "maybeTruncate: Tread Count' ≡ msize - msgmsize(empty Rread)", st.Pos(),
				"rewritten Count is "+lm.String()+" (mod 2^32): not of the form msize - msgmsize(Rread{})")
			continue
		}
		want := linAtom(msz).Sub(linAtom(rsz))
		okEq := lm.EqualMod(want, 32)
		r.Check(okEq, "tread-clamp", "maybeTruncate: Tread Count' ≡ msize - msgmsize(empty Rread)", st.Pos(),
			"rewritten Count is "+lm.String()+" (mod 2^32), expected "+want.String(), "Count' = "+lm.String())
		// the response whose size is measured: newFcall(fcall.Tag, MessageRread{})
		okShape := false
		why := "msgmsize argument is not newFcall(fcall.Tag, MessageRread{})"
		if len(rsz.Args) == 2 && rsz.Args[1].Op == "call" && rsz.Args[1].Aux == "p9p.newFcall" {
			nf := rsz.Args[1]
			call := nf.V.(*ssa.Call)
			msgArg := stripConv(call.Call.Args[1])
			if c, ok := msgArg.(*ssa.Const); ok && isP9P(c.Type(), "MessageRread") {
				okShape = true
			} else if flds, named, ok := compositeFields(msgArg); ok && named != nil && named.Obj().Name() == "MessageRread" {
				// Data must be empty
				if d, has := flds["Data"]; !has || d == nil || isNilConst(d) {
					okShape = true
				} else if ll := fa.Lin(d); ll != nil {
					why = "the measured Rread is not empty"
				}
			}
		}
		r.Check(okShape, "tread-clamp", "maybeTruncate: Tread overhead measured on an empty Rread", st.Pos(), why)
		// only Count changes
		r.Check(s.Op == "upd" && s.Aux == "Count" && s.Args[0].Op != "upd", "tread-clamp", "maybeTruncate: Tread rewrite changes only Count", st.Pos(),
			"the rewritten Tread differs from the original in more than Count: "+s.K)
	}
	r.Floor("tread-clamp", n, 1, "store of a rewritten MessageTread")
	c02TreadFit(r, fa, tc)
}

// c02TreadFit: on every exit of the Tread clause the count that goes out satisfies
// count + msgmsize(empty Rread) <= msize and is never raised — decided wrap-aware over the uint32 arithmetic
// (every combination of wrapping / not wrapping of the narrow unsigned operations is a case).
func c02TreadFit(r *Run, fa *FA, tc *treadClause) {
	mt, fcallParam := tc.fn, tc.fcall
	// anchors: the asserted Tread message, the measured reply size R, the channel msize M
	var rcall *ssa.Call
	var msizeLoad ssa.Value
	eachInstr(mt, func(in ssa.Instruction) {
		switch x := in.(type) {
		case *ssa.Call:
			if calleeName(&x.Call) == "(*p9p.channel).msgmsize" {
				if nf, ok := x.Call.Args[1].(*ssa.Call); ok && calleeName(&nf.Call) == "p9p.newFcall" {
					rcall = x
				}
			}
		case *ssa.UnOp:
			if isLoadOfField(x, "channel", "msize") && msizeLoad == nil {
				msizeLoad = x
			}
		}
	})
	if rcall == nil || msizeLoad == nil {
		r.Undecided("tread-fit", "maybeTruncate: Tread clause anchors", mt.Pos(), "cannot find the measured reply size or the msize load")
		return
	}
	msgVal := tc.msg
	// the local copy of the message and its Count field
	var msgAlloc *ssa.Alloc
	for _, rf := range referrers(msgVal) {
		if st, ok := rf.(*ssa.Store); ok && st.Val == msgVal {
			msgAlloc, _ = st.Addr.(*ssa.Alloc)
		}
	}
	origCount := func() *Lin {
		s := fa.Sym(msgVal)
		return fa.linSym(fa.fieldOf(s, "Count", nil), 0)
	}
	nRet := 0
	for _, ret := range returnSites(mt) {
		// (a helper without result: every return is an exit of the clause on which the message goes out)
		if !tc.inClause(ret) || !((len(ret.Results) == 0 && mt.Signature.Results().Len() == 0) || (len(ret.Results) == 1 && isNilConst(ret.Results[0]))) {
			continue
		}
		nRet++
		// outgoing count: the last store to msg.Count that is followed by fcall.Message = msg, both dominating the return
		var outVal ssa.Value
		if msgAlloc != nil {
			var msgStore *ssa.Store
			for _, st := range storesToField(mt, fcallParam, "Message") {
				if ret.DominatedBy(st) {
					msgStore = st
				}
			}
			if msgStore != nil {
				eachInstr(mt, func(in ssa.Instruction) {
					st, ok := in.(*ssa.Store)
					if !ok || !instrDominates(st, msgStore) {
						return
					}
					if f, ok := st.Addr.(*ssa.FieldAddr); ok && f.X == ssa.Value(msgAlloc) && fieldName(f.X.Type(), f.Field) == "Count" {
						outVal = st.Val
					}
				})
			}
		}
		vals := []ssa.Value{rcall, msizeLoad}
		if outVal != nil {
			vals = append(vals, outVal)
		}
		ok, why, nCases := fa.EntailsWrapAware(ret.Conds(), vals,
			func(ev func(ssa.Value) *Lin) []Fact {
				R, M := ev(rcall), ev(msizeLoad)
				return []Fact{
					le(linConst(24), M, "property domain: msize >= 24 (the 9P I/O header)"),
					le(M, linConst(1<<31-1), "msize fits in 31 bits"),
					le(linConst(0), R, "frame size of an empty Rread is non-negative"),
					le(R, linConst(24), "frame size of an empty Rread (11 bytes by the codec grammar) is at most the I/O header size"),
				}
			},
			func(ev func(ssa.Value) *Lin) []*Lin {
				R, M := ev(rcall), ev(msizeLoad)
				out := origCount()
				if outVal != nil {
					out = ev(outVal)
				}
				return []*Lin{out.Add(R).Sub(M), out.Sub(origCount())}
			})
		key := "maybeTruncate: Tread leaves with count + empty-Rread frame <= msize, count never raised"
		if outVal == nil {
			key = "maybeTruncate: Tread left unchanged only when count + empty-Rread frame <= msize"
		}
		if ok {
			r.Ok("tread-fit", key, ret.Pos(), fmt.Sprintf("%d feasible wrap cases, each entails the goal", nCases))
		} else {
			r.Bad("tread-fit", key, ret.Pos(), "a read request can leave with a count whose largest permitted reply exceeds msize: "+why)
		}
	}
	r.Floor("tread-fit", nRet, 2, "exits of the Tread clause")
}

// ---- (5) sendmsg ------------------------------------------------------------------

func c02Sendmsg(r *Run, sm *ssa.Function) {
	fa := r.P.FA(sm)
	pParam := sm.Params[1]
	hdr := findCalls(sm, "encoding/binary.Write")
	body := findCalls(sm, "invoke io.Writer.Write")
	// the header may be written by a helper handed the writer and the body length (`sendmsize(wr, len(p))`)
	var hdrHelper *ssa.Call
	hfa := fa
	var lenParam ssa.Value
	if len(hdr) == 0 {
		eachInstr(sm, func(in ssa.Instruction) {
			c, ok := in.(*ssa.Call)
			if !ok {
				return
			}
			g := staticCallee(&c.Call)
			if g == nil || g.Blocks == nil || g.Pkg != sm.Pkg || len(findCalls(g, "encoding/binary.Write")) != 1 {
				return
			}
			for i, a := range c.Call.Args {
				if _, _, isInt := intBits(a.Type()); isInt && i < len(g.Params) && fa.Lin(a).Equal(fa.linSym(lenOf(fa.Sym(pParam)), 0)) {
					hdrHelper, lenParam = c, g.Params[i]
				}
			}
		})
		if hdrHelper != nil {
			g := staticCallee(&hdrHelper.Call)
			r.SawFn(fnName(g))
			hdr = findCalls(g, "encoding/binary.Write")
			hfa = r.P.FA(g)
			// the helper hands back the write's own error
			okFwd := false
			if e := errResult(hdr[0]); e != nil {
				okFwd, _ = errPropagated(g, e)
			}
			r.Check(okFwd, "error-propagation", "sendmsg: the header helper returns the write's error", hdr[0].Pos(), "header write error dropped")
		}
	}
	r.Floor("sendmsg", len(hdr), 1, "binary.Write of the size header")
	r.Floor("sendmsg", len(body), 1, "Write of the body")
	if len(hdr) == 0 || len(body) == 0 {
		return
	}
	h := hdr[0]
	// header value ≡ len(p)+4 (mod 2^32), written little-endian as a uint32
	val := stripConv(h.Call.Args[2])
	lm := hfa.LinMod(val, 32)
	want := fa.linSym(lenOf(fa.Sym(pParam)), 0).Add(linConst(4))
	if hdrHelper != nil {
		want = hfa.Lin(lenParam).Add(linConst(4))
		h = hdrHelper // for ordering and error propagation, the helper call is the header step of sendmsg
	}
	hw := hdr[0]
	bits, signed, okT := intBits(val.Type())
	r.Check(okT && bits == 32 && !signed, "sendmsg", "sendmsg: size header is a uint32", h.Pos(), "size header is not written as 4 unsigned bytes: "+shortType(val.Type()))
	r.Check(lm.EqualMod(want, 32), "sendmsg", "sendmsg: header ≡ len(p)+4", h.Pos(), "size header is "+lm.String()+", expected "+want.String(), "header = "+lm.String())
	if g, ok := hw.Call.Args[1].(*ssa.MakeInterface); ok {
		gl, isG := g.X.(*ssa.UnOp)
		okLE := false
		if isG {
			if gv, ok := gl.X.(*ssa.Global); ok && gv.Name() == "LittleEndian" && gv.Pkg.Pkg.Path() == "encoding/binary" {
				okLE = true
			}
		}
		r.Check(okLE, "sendmsg", "sendmsg: header is little-endian", h.Pos(), "size header byte order is not binary.LittleEndian")
	} else {
		r.Undecided("sendmsg", "sendmsg: header is little-endian", h.Pos(), "byte-order argument not recognised")
	}
	for _, b := range body {
		okArg := b.Call.Args[0] == pParam
		r.Check(okArg, "sendmsg", "sendmsg: body written is p itself", b.Pos(), "the body written is not the payload parameter")
		r.Check(instrDominates(h, b) && callSucceededAt(h, b), "sendmsg", "sendmsg: header write succeeds before body write", b.Pos(),
			"body can be written without a successfully written header")
		// both the error and a short count are reported
		e := errResult(b)
		okp := false
		if e != nil {
			okp, _ = errPropagated(sm, e)
		}
		r.Check(okp, "error-propagation", "sendmsg: body write error returned", b.Pos(), "body write error dropped")
	}
	e := errResult(h)
	okp := false
	if e != nil {
		okp, _ = errPropagated(sm, e)
	}
	r.Check(okp, "error-propagation", "sendmsg: header write error returned", h.Pos(), "header write error dropped")
	// exactly one header and one body write, neither in a loop
	for _, c := range append(append([]*ssa.Call{}, hdr...), body...) {
		r.Check(!reachableFrom(c.Block())[c.Block()], "sendmsg", "sendmsg: "+calleeName(&c.Call)+" not in a loop", c.Pos(), "write inside a loop: more than one frame part may be emitted")
	}
	r.Check(len(hdr) == 1 && len(body) == 1, "sendmsg", "sendmsg: one header write and one body write", sm.Pos(), fmt.Sprintf("%d header writes, %d body writes", len(hdr), len(body)))
}

func c02Msgmsize(r *Run, mm *ssa.Function) {
	fa := r.P.FA(mm)
	for _, ret := range returnsOf(mm) {
		l := fa.Lin(ret.Results[0])
		// the sum may be formed by a helper handed the codec and the fcall (`framesize(ch.codec, fcall)`)
		if hc, isCall := ret.Results[0].(*ssa.Call); isCall {
			if g := staticCallee(&hc.Call); g != nil && g.Blocks != nil && r.P.InModule(g) && len(returnsOf(g)) == 1 {
				fi := -1
				for i, a := range hc.Call.Args {
					if a == ssa.Value(mm.Params[1]) {
						fi = i
					}
				}
				if fi >= 0 && fi < len(g.Params) {
					gfa := r.P.FA(g)
					gl := gfa.Lin(returnsOf(g)[0].Results[0])
					okG := gl.C == 4 && len(gl.T) == 1
					for k, c := range gl.T {
						a := gl.Atoms[k]
						if c != 1 || a.Op != "call" || a.Aux != "invoke p9p.Codec.Size" || len(a.Args) < 1 || a.Args[len(a.Args)-1].K != "p:"+g.Params[fi].Name() {
							okG = false
						}
					}
					// the codec handed over is the channel's own
					okCodec := false
					for _, a := range hc.Call.Args {
						if isLoadOfField(a, "channel", "codec") {
							okCodec = true
						}
					}
					r.SawFn(fnName(g))
					r.Check(okG && okCodec, "msgmsize", "msgmsize(fcall) == 4 + codec.Size(fcall)", ret.Pos(), "msgmsize returns "+fnName(g)+"(…) = "+gl.String(), "msgmsize = "+gl.String())
					continue
				}
			}
		}
		ok := l.C == 4 && len(l.T) == 1
		for k, c := range l.T {
			a := l.Atoms[k]
			if c != 1 || a.Op != "call" || a.Aux != "invoke p9p.Codec.Size" || len(a.Args) != 1 || a.Args[0].K != "p:"+mm.Params[1].Name() {
				ok = false
			}
		}
		r.Check(ok, "msgmsize", "msgmsize(fcall) == 4 + codec.Size(fcall)", ret.Pos(), "msgmsize returns "+l.String(), "msgmsize = "+l.String())
	}
	// … and the codec's Size is size9p of its argument on every path: the one size function whose agreement with encode
	// the grammar rules decide (a shortcut for some message kinds is a second size function nobody compares with encode)
	if sz := r.P.Fn("p9p:(codec9p).Size"); sz != nil {
		r.SawFn(fnName(sz))
		n := 0
		for _, ret := range returnsOf(sz) {
			n++
			ok := false
			v := stripConv(ret.Results[0])
			if cv, isCv := v.(*ssa.Convert); isCv {
				v = cv.X
			}
			if c, isC := v.(*ssa.Call); isC && calleeName(&c.Call) == "p9p.size9p" {
				el := varargsElems(c.Call.Args[len(c.Call.Args)-1])
				if len(el) == 1 && stripConv(el[0]) == ssa.Value(sz.Params[len(sz.Params)-1]) {
					ok = true
				}
			}
			r.Check(ok, "msgmsize", "codec9p.Size: every return is size9p of the argument", ret.Pos(),
				"Size returns something other than size9p(v) on some path: the size used to decide whether a frame fits is not the one that agrees with what encode writes")
		}
		r.Floor("msgmsize", n, 1, "returns of codec9p.Size")
	} else {
		r.Undecided("msgmsize", "(codec9p).Size", token.NoPos, "anchor not found")
	}
}

// ---- (6) the caller's buffer is never written ---------------------------------------

func c02CallerBuffer(r *Run, fns []*ssa.Function) {
	n := 0
	for _, fn := range fns {
		fa := r.P.FA(fn)
		tainted := func(v ssa.Value) bool {
			s := fa.Sym(v)
			for _, p := range fn.Params {
				if _, isPtr := p.Type().Underlying().(*types.Pointer); isPtr && isP9P(p.Type(), "Fcall") {
					if strings.Contains(s.K, "p:"+p.Name()) {
						return true
					}
				}
				if _, isSl := p.Type().Underlying().(*types.Slice); isSl && fn.Name() == "sendmsg" {
					if strings.Contains(s.K, "p:"+p.Name()) {
						return true
					}
				}
			}
			return false
		}
		eachInstr(fn, func(in ssa.Instruction) {
			switch x := in.(type) {
			case *ssa.Store:
				if ia, ok := x.Addr.(*ssa.IndexAddr); ok {
					n++
					r.Check(!tainted(ia.X), "caller-buffer", fnName(fn)+": element store does not target the caller's data", in.Pos(),
						"stores into memory reachable from the caller's message: "+fa.Sym(ia.X).K)
				}
			case *ssa.Call:
				if b, ok := x.Call.Value.(*ssa.Builtin); ok && (b.Name() == "copy" || b.Name() == "append") {
					n++
					r.Check(!tainted(x.Call.Args[0]), "caller-buffer", fnName(fn)+": "+b.Name()+" destination is not the caller's data", in.Pos(),
						b.Name()+" writes into memory reachable from the caller's message: "+fa.Sym(x.Call.Args[0]).K)
				}
			}
		})
	}
	// expected count is zero on the pinned tree: the self-test fixture guards the rule (see selftest)
	r.OkTrivial("caller-buffer", fmt.Sprintf("enumerated element stores / copy / append in WriteFcall, maybeTruncate, sendmsg, msgmsize: %d", n), token.NoPos)
}

// ---- Overflow(err) exposes the excess --------------------------------------------------------------------------
//
// "returns an error reporting by how many bytes the message is too long": the number travels from the overflowErr
// literal (checked by the partition/overflow-amount rules) through overflowErr.Size() and Overflow(err) to the caller.
func c02OverflowExposed(r *Run) {
	p := r.P
	sz := p.Fn("p9p:(overflowErr).Size")
	ov := p.Fn("p9p:Overflow")
	if sz == nil || ov == nil {
		r.Undecided("overflow-exposed", "Overflow / overflowErr.Size", token.NoPos, "anchor not found")
		return
	}
	r.SawFn(fnName(sz))
	r.SawFn(fnName(ov))
	// Size() returns the receiver's size field
	okSz, nSz := true, 0
	for _, ret := range returnsOf(sz) {
		nSz++
		v := stripConv(ret.Results[0])
		isField := false
		if f, ok := v.(*ssa.Field); ok && f.X == ssa.Value(sz.Params[0]) && fieldNameV(f.X.Type(), f.Field) == "size" {
			isField = true
		}
		if o, ok := fieldOfLocalCopy(v, "size"); ok && o == ssa.Value(sz.Params[0]) {
			isField = true
		}
		if !isField {
			okSz = false
		}
	}
	r.Check(okSz && nSz > 0, "overflow-exposed", "overflowErr.Size: returns the recorded excess", sz.Pos(), "Size() does not return the size field of the error")
	// Overflow: comma-ok assertion of the argument to the overflow interface; on the ok edge the result is that value's Size()
	var ta *ssa.TypeAssert
	eachInstr(ov, func(in ssa.Instruction) {
		if x, ok := in.(*ssa.TypeAssert); ok && x.X == ssa.Value(ov.Params[0]) && x.CommaOk {
			if it, ok := x.AssertedType.Underlying().(*types.Interface); ok && it.NumMethods() == 1 && it.Method(0).Name() == "Size" {
				ta = x
			}
		}
	})
	if ta == nil {
		r.Bad("overflow-exposed", "Overflow: recognises an error that carries an excess (Size() int)", ov.Pos(), "Overflow does not look for the overflow interface on its argument: the excess is never reported")
		return
	}
	okv, val := resultN(ta, 1), resultN(ta, 0)
	okRet := false
	for _, ret := range returnsOf(ov) {
		onOk := false
		for _, cd := range condsAtInstr(ret) {
			nc := normCond(cd)
			if nc.V == okv && nc.Truth {
				onOk = true
			}
		}
		if !onOk {
			continue
		}
		if c, ok := stripConv(ret.Results[0]).(*ssa.Call); ok && c.Call.IsInvoke() && c.Call.Method.Name() == "Size" && c.Call.Value == val {
			okRet = true
		} else {
			okRet = false
			break
		}
	}
	r.Check(okRet, "overflow-exposed", "Overflow: for an overflow error the result is exactly its Size()", ta.Pos(), "on the edge where the error carries an excess, Overflow returns something else than that excess")
}

// overflowSize: the excess an overflow error value reports, as an affine form in the caller's terms: the size field of
// an overflowErr literal, or of the literal a constructor helper (`newOverflowErr(size, msize)`) returns, with the
// helper's parameters replaced by the arguments. isOv=false: not an overflow error of a recognised shape.
func overflowSize(p *Prog, fa *FA, res ssa.Value, depth int) (l *Lin, isOv bool, hasSize bool) {
	if flds, named, ok := compositeFields(res); ok && named != nil && named.Obj().Name() == "overflowErr" {
		sz := flds["size"]
		if sz == nil {
			return nil, true, false
		}
		return fa.Lin(sz), true, true
	}
	v := stripConv(res)
	if mi, ok := v.(*ssa.MakeInterface); ok {
		v = stripConv(mi.X)
	}
	c, ok := v.(*ssa.Call)
	if !ok || depth > 1 {
		return nil, false, false
	}
	g := staticCallee(&c.Call)
	if g == nil || g.Blocks == nil || !p.InModule(g) || g.Signature.Results().Len() != 1 {
		return nil, false, false
	}
	gfa := p.FA(g)
	var out *Lin
	for _, ret := range returnsOf(g) {
		gl, ov, has := overflowSize(p, gfa, ret.Results[0], depth+1)
		if !ov {
			return nil, false, false
		}
		if !has {
			return nil, true, false
		}
		// express over the arguments
		sub := linConst(gl.C)
		for k, coef := range gl.T {
			a := gl.Atoms[k]
			idx := -1
			for i, prm := range g.Params {
				if gfa.Sym(prm).K == a.K {
					idx = i
				}
			}
			if idx < 0 || idx >= len(c.Call.Args) {
				return nil, false, false
			}
			sub = sub.Add(fa.Lin(c.Call.Args[idx]).Scale(coef))
		}
		if out != nil && !out.Equal(sub) {
			return nil, false, false
		}
		out = sub
	}
	if out == nil {
		return nil, false, false
	}
	return out, true, true
}
