package main

import (
	"fmt"
	"go/token"
	"go/types"
	"strings"

	"golang.org/x/tools/go/ssa"
)

func init() {
	register("C06", checkC06)
	register("C07", checkC07)
}

// serveParts resolves the pieces of conn.serve that C06/C07 talk about.
type serveParts struct {
	serve     *ssa.Function
	mainSel   *ssa.Select
	reqCase   int // index of the case receiving requests
	compCase  int // index of the case receiving completions
	reqVal    ssa.Value
	compVal   ssa.Value
	tags      func(v ssa.Value) bool
	handler   *ssa.Function // the go closure calling Handler.Handle
	goSite    *ssa.Go
	handle    *ssa.Call // the Handle call inside handler
	responses ssa.Value
}

func resolveServe(r *Run) *serveParts {
	p := r.P
	sp := &serveParts{serve: p.Fn("p9p:(*conn).serve"), reqCase: -1, compCase: -1}
	if sp.serve == nil {
		r.Undecided("anchor", "(*conn).serve", token.NoPos, "anchor not found")
		return nil
	}
	// the tag table
	var cell *ssa.Alloc
	var mk *ssa.MakeMap
	eachInstr(sp.serve, func(in ssa.Instruction) {
		switch x := in.(type) {
		case *ssa.Alloc:
			if strings.Contains(shortType(x.Type()), "reqMap") {
				cell = x
			}
		case *ssa.MakeMap:
			if strings.Contains(shortType(x.Type()), "reqMap") {
				mk = x
			}
		}
	})
	sp.tags = func(v ssa.Value) bool {
		if mk != nil && v == ssa.Value(mk) {
			return true
		}
		u, ok := v.(*ssa.UnOp)
		return ok && u.Op == token.MUL && cell != nil && u.X == ssa.Value(cell)
	}
	// the main select: the blocking select with the most receive cases
	best := -1
	for _, op := range chanOps(sp.serve) {
		s, ok := op.In.(*ssa.Select)
		if !ok || !op.Blocking {
			continue
		}
		n := 0
		for _, c := range op.Cases {
			if !c.Send {
				n++
			}
		}
		if n > best && n == len(op.Cases) {
			best, sp.mainSel = n, s
		}
	}
	if sp.mainSel == nil {
		r.Undecided("anchor", "serve: main select", sp.serve.Pos(), "no all-receive blocking select")
		return nil
	}
	// the handler goroutine
	eachInstr(sp.serve, func(in ssa.Instruction) {
		g, ok := in.(*ssa.Go)
		if !ok {
			return
		}
		var fn *ssa.Function
		if mc, ok := g.Call.Value.(*ssa.MakeClosure); ok {
			fn = mc.Fn.(*ssa.Function)
		} else if callee := staticCallee(&g.Call); callee != nil && callee.Blocks != nil {
			fn = callee // the goroutine body extracted into a named function or method
		} else {
			return
		}
		hs := findCalls(fn, "invoke p9p.Handler.Handle")
		if len(hs) > 0 {
			sp.handler, sp.goSite, sp.handle = fn, g, hs[0]
		}
	})
	if sp.handler == nil {
		r.Undecided("anchor", "serve: handler goroutine", sp.serve.Pos(), "no go closure calling Handler.Handle")
		return nil
	}
	// request case: the received value that is passed to the go closure
	for i := range sp.mainSel.States {
		v := selRecvValue(sp.mainSel, i)
		if v == nil {
			continue
		}
		for _, a := range sp.goSite.Call.Args {
			if a == v {
				sp.reqCase, sp.reqVal = i, v
			}
		}
		if strings.Contains(shortType(v.Type()), "completion") || (sp.reqCase != i && isP9P(v.Type(), "Fcall") && strings.HasPrefix(chanProv(sp.mainSel.States[i].Chan, 0), "local:completed")) {
			sp.compCase, sp.compVal = i, v
		}
	}
	if sp.reqCase < 0 || sp.compCase < 0 {
		r.Undecided("anchor", "serve: request/completion cases", sp.mainSel.Pos(), "cannot tell the request and completion cases of the main select apart")
		return nil
	}
	// responses: the channel handed to the writer goroutine
	eachInstr(sp.serve, func(in ssa.Instruction) {
		if g, ok := in.(*ssa.Go); ok && calleeName(&g.Call) == "(*p9p.conn).write" {
			sp.responses = g.Call.Args[len(g.Call.Args)-1]
		}
	})
	return sp
}

// tagOf: v is (a load of) X.Tag → X
func tagOwner(v ssa.Value) ssa.Value {
	o, ok := fieldOfLocalCopy(v, "Tag")
	if !ok {
		return nil
	}
	return o
}

func checkC06(r *Run) {
	p := r.P
	r.Decides = append(r.Decides,
		"the handler goroutine builds both its success and its error reply with the Tag of the very request whose Message it passed to Handler.Handle, from Handle's own result / error; Handle is called once per goroutine, outside any loop, and the goroutine is started with the request just received",
		"dispatch (table store and go) happens only on the not-found edge of the tag lookup; the found edge sends Rerror(duplicate tag) carrying the request's tag and dispatches nothing",
		"newErrorFcall passes a MessageRerror through, otherwise uses err.Error(), always typed Rerror with the given tag; newFcall derives Type from the message",
		"a completion is forwarded to the writer at most once per receive, then its table entry is deleted; the tag table is confined to the serve goroutine",
		"the dispatcher maps every T-message to exactly one Session call and returns the R-message with code T+1; unknown messages yield an error",
		"one writer and one reader goroutine per connection")
	r.NotDecided = append(r.NotDecided, "handler completion orders / exactly-once as a dynamic statement", "replies too large for msize")

	sp := resolveServe(r)
	if sp == nil {
		return
	}
	r.SawFn(fnName(sp.serve))
	r.SawFn(fnName(sp.handler))
	h := sp.handler
	// (1) identity inside the handler goroutine
	var reqParam *ssa.Parameter
	for _, prm := range h.Params {
		if isP9P(prm.Type(), "Fcall") {
			reqParam = prm
		}
	}
	if reqParam == nil {
		r.Undecided("reply-identity", "handler goroutine: request parameter", h.Pos(), "the goroutine does not take the request as a parameter")
		return
	}
	msgOwner, okm := fieldOfLocalCopy(stripConv(sp.handle.Call.Args[len(sp.handle.Call.Args)-1]), "Message")
	r.Check(okm && msgOwner == ssa.Value(reqParam), "reply-identity", "handler: Handle receives the request's own message", sp.handle.Pos(), "the handler is invoked with a message other than the one that was sent")
	r.Check(!inLoop(sp.handle) && len(findCalls(h, "invoke p9p.Handler.Handle")) == 1, "reply-identity", "handler: Handle is called exactly once per request", sp.handle.Pos(), "the handler can be invoked more than once for one request")
	handlerRunsUnderRequestContext(r, sp, "handler-ctx")
	nResp := 0
	for _, c := range findCalls(h, "p9p.newFcall", "p9p.newErrorFcall") {
		nResp++
		okTag := tagOwner(c.Call.Args[0]) == ssa.Value(reqParam)
		r.Check(okTag, "reply-identity", "handler: "+calleeName(&c.Call)+" uses the request's tag", c.Pos(), "the reply carries a tag that is not the request's")
		if calleeName(&c.Call) == "p9p.newFcall" {
			r.Check(c.Call.Args[1] == resultN(sp.handle, 0) && callSucceededAt(sp.handle, c), "reply-identity", "handler: success reply carries Handle's result", c.Pos(), "the reply message is not what the handler returned")
		} else {
			e := errResult(sp.handle)
			r.Check(e != nil && c.Call.Args[1] == e && knownNonNilAt(e, c), "reply-identity", "handler: error reply carries Handle's error", c.Pos(), "the error reply is not built from the handler's error")
		}
	}
	r.Floor("reply-identity", nResp, 2, "reply constructors in the handler goroutine")
	// what is sent on completed is one of those replies (plus the request identity)
	nSend := 0
	for _, op := range chanOps(h) {
		sel, ok := op.In.(*ssa.Select)
		if !ok {
			continue
		}
		for _, st := range sel.States {
			if st.Dir != types.SendOnly {
				continue
			}
			nSend++
			okVal := false
			var respVal ssa.Value = st.Send
			var respVals []ssa.Value // a record filled in step by step: every value ever stored into resp
			if flds, _, ok := compositeFields(st.Send); ok {
				if v, has := flds["resp"]; has && v != nil {
					respVal = v
				} else if has {
					if u, isLoad := stripConv(st.Send).(*ssa.UnOp); isLoad {
						if a, isA := u.X.(*ssa.Alloc); isA {
							respVals = allFieldStores(a, "resp")
						}
					}
				}
				r.Check(flds["request"] == ssa.Value(reqParam), "reply-identity", "handler: completion names its own request", sel.Pos(), "the completion does not identify the request it belongs to")
			}
			alts := phiAlternatives(respVal, 3)
			if len(respVals) > 0 {
				alts = nil
				for _, v := range respVals {
					alts = append(alts, phiAlternatives(v, 3)...)
				}
			}
			for _, alt := range alts {
				if c, ok := alt.(*ssa.Call); ok && (calleeName(&c.Call) == "p9p.newFcall" || calleeName(&c.Call) == "p9p.newErrorFcall") {
					okVal = true
				} else {
					okVal = false
					break
				}
			}
			r.Check(okVal, "reply-identity", "handler: what completes is the reply built above", sel.Pos(), "the completion carries something else than the constructed reply")
		}
	}
	r.Check(nSend == 1, "reply-identity", "handler: exactly one completion send", h.Pos(), fmt.Sprintf("%d sends in the handler goroutine", nSend))
	// the goroutine is started with the request just received
	okArgs := false
	for _, a := range sp.goSite.Call.Args {
		if a == sp.reqVal {
			okArgs = true
		}
	}
	r.Check(okArgs, "reply-identity", "serve: handler goroutine is started with the request just received", sp.goSite.Pos(), "the goroutine is given a different request")

	// (3) duplicate tag
	var lk *ssa.Lookup
	eachInstr(sp.serve, func(in ssa.Instruction) {
		if l, ok := in.(*ssa.Lookup); ok && sp.tags(l.X) && l.CommaOk && tagOwner(l.Index) == sp.reqVal {
			lk = l
		}
	})
	if lk == nil {
		r.Bad("duplicate-tag", "serve: outstanding-tag lookup for the received request", sp.mainSel.Pos(), "no lookup of the request's tag in the table: duplicate tags are dispatched and overwrite the original's entry")
	} else {
		found := resultN(lk, 1)
		onEdge := func(in ssa.Instruction, truth bool) bool {
			for _, cd := range condsAtInstr(in) {
				nc := normCond(cd)
				if nc.V == found && nc.Truth == truth {
					return true
				}
			}
			return false
		}
		r.Check(onEdge(sp.goSite, false), "duplicate-tag", "serve: dispatch only when the tag is not outstanding", sp.goSite.Pos(), "a request reusing an outstanding tag is dispatched")
		nStore := 0
		eachInstr(sp.serve, func(in ssa.Instruction) {
			if mu, ok := in.(*ssa.MapUpdate); ok && sp.tags(mu.Map) {
				nStore++
				r.Check(onEdge(mu, false) && tagOwner(mu.Key) == sp.reqVal, "duplicate-tag", "serve: table entry written only for a new tag, keyed by the request's tag", mu.Pos(), "the original request's entry can be overwritten")
			}
		})
		r.Floor("duplicate-tag", nStore, 1, "table store")
		// found edge: Rerror(ErrDuptag) with req.Tag
		okDup := false
		eachInstr(sp.serve, func(in ssa.Instruction) {
			c, ok := in.(*ssa.Call)
			if !ok || calleeName(&c.Call) != "p9p.newErrorFcall" || !onEdge(c, true) {
				return
			}
			isDup := false
			if u, ok := c.Call.Args[1].(*ssa.UnOp); ok {
				if g, ok := u.X.(*ssa.Global); ok && g.Name() == "ErrDuptag" {
					isDup = true
				}
			}
			if isDup && tagOwner(c.Call.Args[0]) == sp.reqVal {
				// and it is sent to the writer (directly or through a send helper)
				for _, ss := range p.sendSites(sp.serve) {
					if ss.Val == ssa.Value(c) && ss.Chan == sp.responses {
						okDup = true
					}
				}
			}
		})
		r.Check(okDup, "duplicate-tag", "serve: a duplicate tag is answered with Rerror(duplicate tag) carrying the request's tag", lk.Pos(), "no duplicate-tag error reply on the found edge")
		// nothing else is done for a request whose tag is outstanding: every other reply built for the received
		// request, and the flush helper, sit on the not-found edge (a Tflush reusing an outstanding tag is a duplicate too)
		nOther := 0
		eachInstr(sp.serve, func(in ssa.Instruction) {
			c, ok := in.(*ssa.Call)
			if !ok {
				return
			}
			n := calleeName(&c.Call)
			isReply := (n == "p9p.newFcall" || n == "p9p.newErrorFcall") && tagOwner(c.Call.Args[0]) == sp.reqVal
			isFlush := n == "(p9p.reqMap).remove"
			if !isReply && !isFlush {
				return
			}
			if n == "p9p.newErrorFcall" && onEdge(c, true) {
				return // the duplicate-tag reply itself
			}
			nOther++
			r.Check(onEdge(c, false), "duplicate-tag", "serve: "+n+" for the received request only when its tag is not outstanding", c.Pos(),
				"a request (e.g. Tflush) that reuses an outstanding tag is acted upon and answered instead of being refused as duplicate: the original request is disturbed / two replies share a tag")
		})
		r.Floor("duplicate-tag", nOther, 3, "replies/flush handling on the not-found edge")
	}

	c06ErrorFcall(r)
	checkReplyBufferFresh(r, "fresh-reply-buffer")

	// (5) completed branch: one forward per receive
	csc := completionScope(p, sp)
	nFwd := 0
	if csc.body != nil || csc.call != nil {
		if csc.call != nil {
			r.SawFn(fnName(csc.fn))
			r.Check(!reachAvoiding(csc.call.Block(), csc.call.Block(), sp.mainSel.Block()), "forward-once", "serve: the completion arm is run once per receive", csc.call.Pos(), "the completion helper is called in an inner loop")
		}
		eachInstr(csc.fn, func(in ssa.Instruction) {
			sel, ok := in.(*ssa.Select)
			if !ok || !csc.in(sel.Block()) {
				return
			}
			for _, st := range sel.States {
				if st.Dir == types.SendOnly && st.Chan == csc.responses {
					nFwd++
					if csc.call == nil {
						r.Check(!reachAvoiding(sel.Block(), sel.Block(), sp.mainSel.Block()), "forward-once", "serve: completion forwarded at most once per receive", sel.Pos(), "the forward is in an inner loop")
					} else {
						r.Check(!inLoop(sel), "forward-once", "serve: completion forwarded at most once per receive", sel.Pos(), "the forward is in a loop")
					}
				}
			}
		})
	}
	// … then its table entry is deleted: a completed request's tag becomes reusable (otherwise every reuse — after the
	// client's tags wrap — is refused as a duplicate and never dispatched)
	if nFwd == 1 {
		okDel := false
		var fwdSel *ssa.Select
		eachInstr(csc.fn, func(in ssa.Instruction) {
			if sel, ok := in.(*ssa.Select); ok && csc.in(sel.Block()) {
				for _, st := range sel.States {
					if st.Dir == types.SendOnly && st.Chan == csc.responses {
						fwdSel = sel
					}
				}
			}
		})
		eachInstr(csc.fn, func(in ssa.Instruction) {
			c, ok := in.(*ssa.Call)
			if !ok || fwdSel == nil {
				return
			}
			if b, isB := c.Call.Value.(*ssa.Builtin); isB && b.Name() == "delete" && csc.tags(c.Call.Args[0]) && instrDominates(fwdSel, c) {
				okDel = true
			}
		})
		pos := sp.mainSel.Pos()
		if fwdSel != nil {
			pos = fwdSel.Pos()
		}
		r.Check(okDel, "forward-once", "serve: after the forward the completed request's entry is deleted from the tag table", pos,
			"a completed request stays in the tag table: its tag can never be used again (the next request carrying it is answered 'duplicate tag' and never dispatched)")
	}
	r.Check(nFwd == 1, "forward-once", "serve: exactly one forward site in the completion branch", sp.mainSel.Pos(), fmt.Sprintf("%d forward sites", nFwd))
	// (7) confinement
	leak := ""
	eachInstr(sp.serve, func(in ssa.Instruction) {
		if m, ok := in.(*ssa.MakeMap); ok && strings.Contains(shortType(m.Type()), "reqMap") {
			leak = mapLeak(m, 0)
		}
	})
	r.Check(leak == "", "confinement", "serve: the tag table is confined to the serve goroutine", sp.serve.Pos(), "the tag table is "+leak)
	// single writer/reader
	for _, fn := range componentFuncs(p, "conn") {
		eachInstr(fn, func(in ssa.Instruction) {
			c, ok := in.(ssa.CallInstruction)
			if !ok {
				return
			}
			switch calleeName(c.Common()) {
			case "invoke p9p.Channel.WriteFcall":
				wl := p.Fn("p9p:(*conn).write")
				r.Check(fnName(fn) == "(*p9p.conn).write" || (wl != nil && runsOnlyOn(p, fn, wl, 0)), "single-writer", fnName(fn)+": frames are written only by the writer loop", in.Pos(), "a second writer: frames interleave")
			case "invoke p9p.Channel.ReadFcall":
				rl := p.Fn("p9p:(*conn).read")
				r.Check(fnName(fn) == "(*p9p.conn).read" || (rl != nil && runsOnlyOn(p, fn, rl, 0)), "single-writer", fnName(fn)+": frames are read only by the reader loop", in.Pos(), "a second reader")
			}
		})
	}
	nW, nR := 0, 0
	eachInstr(sp.serve, func(in ssa.Instruction) {
		if g, ok := in.(*ssa.Go); ok {
			switch calleeName(&g.Call) {
			case "(*p9p.conn).write":
				nW++
				r.Check(!inLoop(g), "single-writer", "serve: writer loop started once", g.Pos(), "several writer goroutines")
			case "(*p9p.conn).read":
				nR++
				r.Check(!inLoop(g), "single-writer", "serve: reader loop started once", g.Pos(), "several reader goroutines")
			}
		}
	})
	r.Check(nW == 1 && nR == 1, "single-writer", "serve: one reader and one writer goroutine", sp.serve.Pos(), fmt.Sprintf("%d writers, %d readers", nW, nR))

	// each request frame is a fresh object handed to exactly one handler
	checkFreshFrame(r, p.Fn("p9p:(*conn).read"), "fresh-frame")
	c06OnlyServeSendsResponses(r, p, sp, "responses-owner")
	c06HandlerAlwaysCompletes(r, sp, "always-completes")
	// a flushed tag must leave the table, or every later request reusing it is refused as a duplicate
	c07FlushClause(r, p, sp)

	// (6) dispatch table
	checkDispatchTable(r, "dispatch")
}

// (4) newErrorFcall / newFcall shape
func c06ErrorFcall(r *Run) {
	p := r.P
	ne := p.Fn("p9p:newErrorFcall")
	nf := p.Fn("p9p:newFcall")
	if ne == nil || nf == nil {
		r.Undecided("constructors", "newFcall/newErrorFcall", token.NoPos, "anchors not found")
		return
	}
	for _, fn := range []*ssa.Function{ne, nf} {
		for _, ret := range returnsOf(fn) {
			var flds map[string]ssa.Value
			typedRerror := false
			if a, ok := ret.Results[0].(*ssa.Alloc); ok {
				flds, _, _ = allocFields(a)
			} else if c, ok := ret.Results[0].(*ssa.Call); ok && fn == ne && staticCallee(&c.Call) == nf && len(c.Call.Args) == 2 {
				// newErrorFcall delegating to newFcall(tag, msg) with msg statically a MessageRerror: typed Rerror by msg.Type()
				flds = map[string]ssa.Value{"Tag": c.Call.Args[0], "Message": c.Call.Args[1]}
				if mi, ok := c.Call.Args[1].(*ssa.MakeInterface); ok && isP9P(mi.X.Type(), "MessageRerror") {
					typedRerror = true
					flds["Message"] = mi.X
				}
			} else {
				r.Undecided("constructors", fnName(fn)+": returns a fresh Fcall", ret.Pos(), "result is neither a composite literal nor newFcall(tag, msg)")
				continue
			}
			r.Check(flds["Tag"] == ssa.Value(fn.Params[0]), "constructors", fnName(fn)+": Tag is the tag argument", ret.Pos(), "the constructed fcall does not carry the given tag")
			if fn == nf {
				msg := fn.Params[1]
				okT := false
				if c, ok := flds["Type"].(*ssa.Call); ok && c.Call.IsInvoke() && c.Call.Value == ssa.Value(msg) && c.Call.Method.Name() == "Type" {
					okT = true
				}
				r.Check(okT && flds["Message"] == ssa.Value(msg), "constructors", "newFcall: Type = msg.Type(), Message = msg", ret.Pos(), "type byte and message body can disagree")
			} else {
				tv, okc := constInt(flds["Type"])
				r.Check(typedRerror || (okc && tv == 107), "constructors", "newErrorFcall: Type = Rerror", ret.Pos(), "error replies are not typed Rerror")
				// Message alternatives: the error itself when it is a MessageRerror — value or pointer, both implement
				// error — else MessageRerror{Ename: err.Error()}
				okAll, kinds := errMessageAlternatives(r.P, flds["Message"], fn.Params[1], 0)
				r.Check(okAll && kinds == 7, "constructors", "newErrorFcall: message is the Rerror itself (value or pointer) or MessageRerror{Ename: err.Error()}", ret.Pos(),
					"the error text sent is not the handler's error text (an error that is a MessageRerror, by value or by pointer, must be passed through; rendering it with Error() prefixes its text)")
			}
		}
	}
}

// checkDispatchTable (E12): sessionHandler.Handle
func checkDispatchTable(r *Run, rule string) {
	p := r.P
	h := p.Fn("p9p:(sessionHandler).Handle")
	if h == nil {
		r.Undecided(rule, "(sessionHandler).Handle", token.NoPos, "anchor not found")
		return
	}
	codes := fcallCodes(p)
	want := map[string]string{"Tauth": "Auth", "Tattach": "Attach", "Twalk": "Walk", "Topen": "Open", "Tcreate": "Create", "Tread": "Read", "Twrite": "Write",
		"Tclunk": "Clunk", "Tremove": "Remove", "Tstat": "Stat", "Twstat": "WStat"}
	seen := map[string]bool{}
	eachInstr(h, func(in ssa.Instruction) {
		ta, ok := in.(*ssa.TypeAssert)
		if !ok || !ta.CommaOk {
			return
		}
		n, ok := ta.AssertedType.(*types.Named)
		if !ok || !strings.HasPrefix(n.Obj().Name(), "MessageT") {
			return
		}
		kind := strings.TrimPrefix(n.Obj().Name(), "Message")
		okv := resultN(ta, 1)
		var body *ssa.BasicBlock
		for _, rf := range referrers(okv) {
			if ifi, ok := rf.(*ssa.If); ok {
				body = ifi.Block().Succs[0]
			}
		}
		if body == nil {
			return
		}
		seen[kind] = true
		// calls of Session methods dominated by the clause body
		h := h
		var calls []*ssa.Call
		eachInstr(h, func(in2 ssa.Instruction) {
			if c, ok := in2.(*ssa.Call); ok && c.Call.IsInvoke() && isP9P(c.Call.Value.Type(), "Session") && (body == c.Block() || body.Dominates(c.Block())) {
				calls = append(calls, c)
			}
		})
		key := fmt.Sprintf("Handle: %s → Session.%s → R%s", kind, want[kind], kind[1:])
		if len(calls) == 0 {
			if g, _ := delegatedClause(p, h, body, want[kind]); g != nil {
				r.SawFn(fnName(g))
				h = g
				body = g.Blocks[0]
				calls = findCallsInvoke(g, want[kind], "Session")
			}
		}
		if len(calls) != 1 || calls[0].Call.Method.Name() != want[kind] {
			got := []string{}
			for _, c := range calls {
				got = append(got, c.Call.Method.Name())
			}
			r.Bad(rule, key, ta.Pos(), "the "+kind+" clause calls ["+strings.Join(got, ",")+"] instead of exactly Session."+want[kind])
			return
		}
		// success returns in the clause return the R-kind with code T+1
		okRet := true
		nRet := 0
		for _, ret := range returnsOf(h) {
			if !(body == ret.Block() || body.Dominates(ret.Block())) || len(ret.Results) != 2 || !isNilConst(ret.Results[1]) {
				continue
			}
			nRet++
			rt := stripConv(ret.Results[0]).Type()
			rn, ok := rt.(*types.Named)
			if !ok {
				okRet = false
				continue
			}
			rk := strings.TrimPrefix(rn.Obj().Name(), "Message")
			if codes[rk] != codes[kind]+1 || codes[kind] == 0 {
				okRet = false
			}
			if !callSucceededAt(calls[0], ret) {
				okRet = false
			}
		}
		// a clause that hands the call's error and the acknowledgement to a helper returning (ack, nil) exactly when the
		// error is nil (`return ackOrError(session.Clunk(ctx, msg.Fid), MessageRclunk{})`)
		for _, ret := range returnsOf(h) {
			if !(body == ret.Block() || body.Dominates(ret.Block())) || len(ret.Results) != 2 {
				continue
			}
			ex0, ok0 := ret.Results[0].(*ssa.Extract)
			ex1, ok1 := ret.Results[1].(*ssa.Extract)
			if !ok0 || !ok1 || ex0.Tuple != ex1.Tuple || ex0.Index != 0 || ex1.Index != 1 {
				continue
			}
			hc, isCall := ex0.Tuple.(*ssa.Call)
			if !isCall {
				continue
			}
			g := staticCallee(&hc.Call)
			if g == nil || g.Blocks == nil || !p.InModule(g) || len(g.Params) != len(hc.Call.Args) {
				continue
			}
			ei, ai := -1, -1
			for i, a := range hc.Call.Args {
				if a == errResult(calls[0]) {
					ei = i
				} else if isP9P(a.Type(), "Message") {
					ai = i
				}
			}
			if ei < 0 || ai < 0 {
				continue
			}
			okHelper, nS := true, 0
			for _, rs := range returnSites(g) {
				if len(rs.Results) != 2 {
					okHelper = false
					continue
				}
				if isNilConst(rs.Results[1]) {
					nS++
					onNil := false
					for _, cd := range rs.Conds() {
						if nilTestOf(cd, g.Params[ei]) == 1 {
							onNil = true
						}
					}
					if !onNil || rs.Results[0] != ssa.Value(g.Params[ai]) {
						okHelper = false
					}
				} else if !derivesFrom(rs.Results[1], g.Params[ei], 3) {
					okHelper = false
				}
			}
			if !okHelper || nS == 0 {
				continue
			}
			nRet++
			rt := stripConv(hc.Call.Args[ai]).Type()
			if mi, isMI := hc.Call.Args[ai].(*ssa.MakeInterface); isMI {
				rt = mi.X.Type()
			}
			rn, ok := rt.(*types.Named)
			if !ok {
				okRet = false
				continue
			}
			rk := strings.TrimPrefix(rn.Obj().Name(), "Message")
			if codes[rk] != codes[kind]+1 || codes[kind] == 0 {
				okRet = false
			}
		}
		// the request is always handed to the session: no return of the clause comes before the Session call
		// (the dispatcher does not pre-filter requests — limits are the session's, and the client's, business)
		for _, ret := range returnsOf(h) {
			if !(body == ret.Block() || body.Dominates(ret.Block())) {
				continue
			}
			if !instrDominates(calls[0], ret) {
				okRet = false
				r.Bad(rule, key+": dispatched unconditionally", ret.Pos(), "the clause can return without calling Session."+want[kind]+": a legal request is refused by the dispatcher and never reaches the session")
			}
		}
		if okRet && nRet >= 1 {
			r.Ok(rule, key, ta.Pos())
		} else {
			r.Bad(rule, key, ta.Pos(), "the clause does not return the R-message paired with "+kind+" (code+1) on the success edge of the Session call")
		}
	})
	for k := range want {
		if !seen[k] {
			r.Bad(rule, "Handle: clause for "+k, h.Pos(), "no dispatch clause for "+k+": the request is answered with 'unknown message'")
		}
	}
	// default: error
	okDef := false
	for _, ret := range returnsOf(h) {
		if len(ret.Results) == 2 && isNilConst(ret.Results[0]) && !isNilConst(ret.Results[1]) {
			if u, ok := ret.Results[1].(*ssa.UnOp); ok {
				if g, ok := u.X.(*ssa.Global); ok && g.Name() == "ErrUnknownMsg" {
					okDef = true
				}
			}
		}
	}
	r.Check(okDef, rule, "Handle: unknown messages yield ErrUnknownMsg", h.Pos(), "no error for messages without a clause")
}

// fcallCodes: constant name (without package) → value for the FcallType constants, keyed "Tversion", "Rversion", …
func fcallCodes(p *Prog) map[string]int64 {
	out := map[string]int64{}
	sc := p.Pkgs["p9p"].Types.Scope()
	for _, n := range sc.Names() {
		c, ok := sc.Lookup(n).(*types.Const)
		if !ok || !isP9P(c.Type(), "FcallType") {
			continue
		}
		if v, ok := constantInt64(c); ok {
			out[n] = v
		}
	}
	return out
}

// ---------------------------------------------------------------- C07 --

func checkC07(r *Run) {
	r.Decides = append(r.Decides,
		"in the Tflush clause the outstanding entry is cancelled and then deleted (order checked inside the helper) before the Rflush is constructed and sent; an unknown oldtag yields Rerror(unknown tag); both edges reach exactly one send carrying the flush request's own tag",
		"a completion is forwarded only when its tag is still in the table and the table entry belongs to the very request that produced the completion (identity test on something bound when the goroutine was started, not the tag): a late completion of a flushed request can neither be sent nor consume the entry of a newer request reusing the tag",
		"the flushed tag's entry is removed, so a later request may reuse it and is dispatched normally")
	r.NotDecided = append(r.NotDecided, "'no reply after the acknowledgement' as a timing statement", "handlers that ignore cancellation (their late completion is dropped by the identity test, which is decided)")
	p := r.P
	sp := resolveServe(r)
	if sp == nil {
		return
	}
	r.SawFn(fnName(sp.serve))
	handlerRunsUnderRequestContext(r, sp, "handler-ctx")
	// "no reply to the flushed request is ever sent after the acknowledgement": replies reach the writer only through
	// the serve loop's table-guarded forward
	c06OnlyServeSendsResponses(r, p, sp, "responses-owner")
	// a Tflush frame is a frame like any other: it is the serve loop's alone once handed over
	checkFreshFrame(r, p.Fn("p9p:(*conn).read"), "fresh-frame")
	if !c07FlushClause(r, p, sp) {
		return
	}
	// (2)+(3) late completions
	var fwd *ssa.Select
	sc := completionScope(p, sp)
	if sc.call != nil {
		r.SawFn(fnName(sc.fn))
	}
	eachInstr(sc.fn, func(in ssa.Instruction) {
		sel, ok := in.(*ssa.Select)
		if !ok || (sc.body == nil && sc.call == nil) || !sc.in(sel.Block()) {
			return
		}
		for _, st := range sel.States {
			if st.Dir == types.SendOnly && st.Chan == sc.responses {
				fwd = sel
			}
		}
	})
	if fwd == nil {
		r.Undecided("late-completion", "serve: completion forward", sp.mainSel.Pos(), "no forward of completions to the writer found")
		return
	}
	var lk *ssa.Lookup
	okFound, okIdent := false, false
	for _, cd := range condsAtInstr(fwd) {
		nc := normCond(cd)
		if ex, ok := nc.V.(*ssa.Extract); ok && ex.Index == 1 && nc.Truth {
			if l, ok := ex.Tuple.(*ssa.Lookup); ok && sc.tags(l.X) {
				lk = l
				okFound = true
			}
		}
	}
	r.Check(okFound, "late-completion", "serve: a completion whose tag is no longer in the table is dropped", fwd.Pos(), "completions of flushed requests are forwarded")
	if lk != nil {
		// the lookup key is the completion's reply tag
		ko := tagOwner(lk.Index)
		okKey := false
		if ko != nil {
			if ko == sc.comp {
				okKey = true
			} else if o, ok := fieldOfLocalCopy(ko, "resp"); ok && o == sc.comp {
				okKey = true
			}
		}
		r.Check(okKey, "late-completion", "serve: the table is consulted with the completion's own tag", lk.Pos(), "the lookup uses another tag")
		active := resultN(lk, 0)
		for _, cd := range condsAtInstr(fwd) {
			nc := normCond(cd)
			b, ok := nc.V.(*ssa.BinOp)
			if !ok || !((b.Op == token.EQL && nc.Truth) || (b.Op == token.NEQ && !nc.Truth)) {
				continue
			}
			for _, pair := range [][2]ssa.Value{{b.X, b.Y}, {b.Y, b.X}} {
				fromEntry := derivesFrom(pair[0], active, 4) && !isTagLoad(pair[0])
				fromComp := derivesFromCompletion(pair[1], sc.comp) && !isTagLoad(pair[1])
				// identity means the request object itself: a counter of any fixed width comes round again
				_, isPtr := pair[0].Type().Underlying().(*types.Pointer)
				if fromEntry && fromComp && isPtr {
					okIdent = true
				}
			}
		}
	}
	// the entry is deleted only for the request that completed: every delete in the completion branch is
	// dominated by the same found+identity test as the forward
	if sc.body != nil || sc.call != nil {
		nDel := 0
		eachInstr(sc.fn, func(in ssa.Instruction) {
			c, ok := in.(*ssa.Call)
			if !ok {
				return
			}
			b, ok := c.Call.Value.(*ssa.Builtin)
			if !ok || b.Name() != "delete" || !sc.tags(c.Call.Args[0]) || !sc.in(c.Block()) {
				return
			}
			nDel++
			okF, okI := false, false
			for _, cd := range condsAtInstr(c) {
				nc := normCond(cd)
				if ex, ok := nc.V.(*ssa.Extract); ok && ex.Index == 1 && nc.Truth {
					if l, ok := ex.Tuple.(*ssa.Lookup); ok && sc.tags(l.X) {
						okF = true
					}
				}
				if bo, ok := nc.V.(*ssa.BinOp); ok && ((bo.Op == token.EQL && nc.Truth) || (bo.Op == token.NEQ && !nc.Truth)) && lk != nil {
					active := resultN(lk, 0)
					for _, pair := range [][2]ssa.Value{{bo.X, bo.Y}, {bo.Y, bo.X}} {
						if derivesFrom(pair[0], active, 4) && !isTagLoad(pair[0]) && derivesFromCompletion(pair[1], sc.comp) && !isTagLoad(pair[1]) {
							okI = true
						}
					}
				}
			}
			r.Check(okF && okI, "late-completion", "serve: a completion removes only the table entry of the request that produced it", c.Pos(),
				"the late completion of a flushed request deletes the entry of a newer request reusing the tag: that request's reply is then dropped and it can no longer be flushed or cancelled")
		})
		r.Floor("late-completion", nDel, 1, "table deletion in the completion branch")
	}
	r.Check(okIdent, "late-completion", "serve: a completion is forwarded only if the table entry belongs to the request that produced it (identity, not tag)", fwd.Pos(),
		"completions are matched by tag only: after Tflush + reuse of the tag, the flushed request's late reply is sent as the new request's reply and the new request's entry is consumed (ABA)")
	// the identity carried by the completion is bound when the goroutine starts: handler sends completion{request: <its req parameter>}
	// and the table entry's request field is the received request (checked here)
	okBind := false
	eachInstr(sp.serve, func(in ssa.Instruction) {
		if mu, ok := in.(*ssa.MapUpdate); ok && sp.tags(mu.Map) {
			if a, ok := mu.Value.(*ssa.Alloc); ok {
				flds, _, _ := allocFields(a)
				for _, v := range flds {
					if v == sp.reqVal {
						okBind = true
					}
				}
			}
		}
	})
	r.Check(okBind, "late-completion", "serve: the table entry records the request it was created for", sp.serve.Pos(), "the table entry does not identify its request")
}

func isTagLoad(v ssa.Value) bool {
	_, ok := fieldOfLocalCopy(v, "Tag")
	if !ok {
		return false
	}
	u, isU := v.(*ssa.UnOp)
	if !isU {
		return false
	}
	fa, isF := u.X.(*ssa.FieldAddr)
	return isF && fieldName(fa.X.Type(), fa.Field) == "Tag"
}

// derivesFromCompletion: v is computed from the received completion value (possibly through a local copy).
func derivesFromCompletion(v, comp ssa.Value) bool {
	if derivesFrom(v, comp, 4) {
		return true
	}
	if u, ok := v.(*ssa.UnOp); ok && u.Op == token.MUL {
		if fa, ok := u.X.(*ssa.FieldAddr); ok {
			if a, ok := fa.X.(*ssa.Alloc); ok {
				for _, r := range referrers(a) {
					if st, ok := r.(*ssa.Store); ok && st.Addr == ssa.Value(a) && st.Val == comp {
						return true
					}
				}
			}
		}
	}
	return false
}

func c07Remove(r *Run, rem *ssa.Function) {
	var cancel, del *ssa.Call
	var lk *ssa.Lookup
	eachInstr(rem, func(in ssa.Instruction) {
		switch x := in.(type) {
		case *ssa.Lookup:
			if x.CommaOk {
				lk = x
			}
		case *ssa.Call:
			if b, ok := x.Call.Value.(*ssa.Builtin); ok && b.Name() == "delete" {
				del = x
			}
			if u, ok := x.Call.Value.(*ssa.UnOp); ok && u.Op == token.MUL {
				if fa, ok := u.X.(*ssa.FieldAddr); ok && fieldName(fa.X.Type(), fa.Field) == "cancel" {
					cancel = x
				}
			}
		}
	})
	if cancel == nil || del == nil || lk == nil {
		r.Bad("flush", "reqMap.remove: cancel then delete on the found edge", rem.Pos(), "the helper does not both cancel the handler's context and delete the entry")
		return
	}
	okOrder := instrDominates(cancel, del)
	found := resultN(lk, 1)
	onFound := func(in ssa.Instruction) bool {
		for _, cd := range condsAtInstr(in) {
			if nc := normCond(cd); nc.V == found && nc.Truth {
				return true
			}
		}
		return false
	}
	// the cancelled entry is the looked-up one and the deleted key is the looked-up key
	sameEntry := false
	if u, ok := cancel.Call.Value.(*ssa.UnOp); ok {
		if fa, ok := u.X.(*ssa.FieldAddr); ok && fa.X == resultN(lk, 0) {
			sameEntry = true
		}
	}
	r.Check(okOrder && onFound(cancel) && onFound(del) && sameEntry && del.Call.Args[1] == lk.Index, "flush", "reqMap.remove: cancel then delete on the found edge", rem.Pos(),
		"the entry is deleted without (or before) cancelling its handler, or a different entry is cancelled")
	for _, ret := range returnSites(rem) {
		// the result is the lookup's `found` flag itself, or the constant that equals it on this exit
		okRes := ret.Results[0] == found
		if c, isC := ret.Results[0].(*ssa.Const); isC && c.Value != nil {
			want := c.Value.String() == "true"
			for _, cd := range ret.Conds() {
				if nc := normCond(cd); nc.V == found && nc.Truth == want {
					okRes = true
				}
			}
		}
		r.Check(okRes, "flush", "reqMap.remove: reports whether the tag was outstanding", ret.Pos(), "the result does not say whether an entry was found")
	}
}

// errMessageAlternatives: every alternative of v is the error errv itself when it is a MessageRerror (value or
// pointer), or MessageRerror{Ename: errv.Error()}; helper functions that compute the message from the error are
// followed through their return values.
func errMessageAlternatives(p *Prog, v ssa.Value, errv ssa.Value, depth int) (bool, int) {
	okAll, nAlt := true, 0 // nAlt: bit 1 the MessageRerror value passed through, bit 2 the pointer's pointee, bit 4 the error text
	for _, alt := range phiAlternatives(v, 3) {
		v := stripConv(alt)
		if ex, ok := v.(*ssa.Extract); ok {
			if ta, ok := ex.Tuple.(*ssa.TypeAssert); ok && ta.X == errv && isP9P(ta.AssertedType, "MessageRerror") {
				nAlt |= 1
				continue
			}
		}
		if ta, ok := v.(*ssa.TypeAssert); ok && !ta.CommaOk && ta.X == errv && isP9P(ta.AssertedType, "MessageRerror") {
			nAlt |= 1
			continue
		}
		if u, ok := v.(*ssa.UnOp); ok && u.Op == token.MUL {
			if ex, ok := u.X.(*ssa.Extract); ok {
				if ta, ok := ex.Tuple.(*ssa.TypeAssert); ok && ta.X == errv {
					nAlt |= 2
					continue
				}
			}
			if ta, ok := u.X.(*ssa.TypeAssert); ok && !ta.CommaOk && ta.X == errv {
				nAlt |= 2
				continue
			}
			if al, ok := u.X.(*ssa.Alloc); ok {
				f2, named, _ := allocFields(al)
				if named != nil && named.Obj().Name() == "MessageRerror" {
					if c, ok := f2["Ename"].(*ssa.Call); ok && c.Call.IsInvoke() && c.Call.Method.Name() == "Error" && derivesFrom(c.Call.Value, errv, 3) {
						nAlt |= 4
						continue
					}
				}
			}
		}
		if c, ok := v.(*ssa.Call); ok && depth < 2 {
			if g := staticCallee(&c.Call); g != nil && p.InModule(g) && g.Blocks != nil {
				idx := -1
				for i, a := range c.Call.Args {
					if a == errv {
						idx = i
					}
				}
				if idx >= 0 && g.Signature.Results().Len() == 1 {
					sub := true
					for _, ret := range returnsOf(g) {
						ok2, n2 := errMessageAlternatives(p, ret.Results[0], g.Params[idx], depth+1)
						if !ok2 {
							sub = false
						}
						nAlt |= n2
					}
					if sub {
						continue
					}
				}
			}
		}
		okAll = false
	}
	return okAll, nAlt
}

// checkReplyBufferFresh: the bytes of a read reply belong to that reply alone. Replies wait, un-encoded, for the single
// writer while other handler goroutines run; a buffer shared between requests (a field of the handler, a pool, a
// package variable) lets a later Tread overwrite the data of a reply that has not been written yet. The rule: the
// slice placed in MessageRread.Data is (a re-slice of) a buffer made in this activation of the dispatcher.
func checkReplyBufferFresh(r *Run, rule string) {
	p := r.P
	h := p.Fn("p9p:(sessionHandler).Handle")
	if h == nil {
		r.Undecided(rule, "(sessionHandler).Handle", token.NoPos, "anchor not found")
		return
	}
	n := 0
	for _, fn := range p.withHelpers(h, 1) {
		eachInstr(fn, func(in ssa.Instruction) {
			a, ok := in.(*ssa.Alloc)
			if !ok || !isP9P(a.Type(), "MessageRread") {
				return
			}
			flds, _, _ := allocFields(a)
			v := flds["Data"]
			if v == nil {
				return
			}
			n++
			base := v
			for depth := 0; depth < 6; depth++ {
				if sl, ok := base.(*ssa.Slice); ok {
					base = sl.X
					continue
				}
				break
			}
			fresh := false
			switch b := base.(type) {
			case *ssa.MakeSlice:
				fresh = true
			case *ssa.Call:
				// a helper that returns a buffer it makes itself
				if g := staticCallee(&b.Call); g != nil && g.Blocks != nil && p.InModule(g) {
					all := true
					for _, ret := range returnsOf(g) {
						if len(ret.Results) != 1 {
							all = false
							continue
						}
						if _, ok := ret.Results[0].(*ssa.MakeSlice); !ok {
							all = false
						}
					}
					fresh = all
				}
			}
			r.Check(fresh, rule, fnName(fn)+": the data of an Rread is a buffer made for this request", in.Pos(),
				"the read reply's data lives in storage shared between requests: a reply waiting for the writer is overwritten by the next Tread's handler (right tag, another request's bytes)")
		})
	}
	r.Floor(rule, n, 1, "Rread literals in the dispatcher")
}

// handlerRunsUnderRequestContext: the context handed to Handler.Handle is the per-request context — the one whose
// cancel function is recorded in the tag table — so that a flush (and the shutdown) actually interrupts this
// request's handler. Structurally: Handle's context argument is a parameter (or captured variable) of the handler
// goroutine that the go statement binds to the result of the request's own context.WithCancel.
func handlerRunsUnderRequestContext(r *Run, sp *serveParts, rule string) {
	h := sp.handler
	ctxArg := sp.handle.Call.Args[0]
	// the WithCancel results in serve
	var ctxVals []ssa.Value
	for _, wc := range findCalls(sp.serve, "context.WithCancel") {
		if v := resultN(wc, 0); v != nil {
			ctxVals = append(ctxVals, v)
		}
	}
	isReqCtx := func(v ssa.Value) bool {
		for _, cv := range ctxVals {
			if v == cv {
				return true
			}
		}
		return false
	}
	ok := false
	switch x := ctxArg.(type) {
	case *ssa.Parameter:
		for i, prm := range h.Params {
			if prm == x && i < len(sp.goSite.Call.Args) && isReqCtx(sp.goSite.Call.Args[i]) {
				ok = true
			}
		}
	case *ssa.FreeVar:
		if mc, isMC := sp.goSite.Call.Value.(*ssa.MakeClosure); isMC {
			for i, fv := range h.FreeVars {
				if fv == x && i < len(mc.Bindings) && isReqCtx(mc.Bindings[i]) {
					ok = true
				}
			}
		}
	case *ssa.UnOp:
		// a captured cell holding the request context
		if fv, isFV := x.X.(*ssa.FreeVar); isFV {
			if mc, isMC := sp.goSite.Call.Value.(*ssa.MakeClosure); isMC {
				for i, f2 := range h.FreeVars {
					if f2 == fv && i < len(mc.Bindings) {
						if a, isA := mc.Bindings[i].(*ssa.Alloc); isA {
							for _, rf := range referrers(a) {
								if st, isSt := rf.(*ssa.Store); isSt && st.Addr == ssa.Value(a) && isReqCtx(st.Val) {
									ok = true
								}
							}
						}
					}
				}
			}
		}
	}
	r.Check(ok, rule, "handler: Handle runs under the request's own cancellable context", sp.handle.Pos(),
		"the handler is invoked with a context other than the per-request one whose cancel func is in the tag table: a flush (or the shutdown) cancels a context the handler is not listening to")
	r.Floor(rule, len(ctxVals), 1, "per-request context.WithCancel in serve")
	// the request contexts are siblings — children of the connection's context — not a chain: cancelling one
	// request (a flush) must not cancel the requests that come after it
	for _, wc := range findCalls(sp.serve, "context.WithCancel", "context.WithTimeout", "context.WithDeadline") {
		r.Check(ctxProv(wc.Call.Args[0], 0) == "field:conn.ctx", rule, "serve: each request context is a child of the connection's context", wc.Pos(),
			"a request context is derived from something other than the connection's context (e.g. the previous request's): flushing one request cancels every later one, whose replies are then dropped")
	}
}

// delegatedClause: a dispatcher clause that hands the request to a helper of the package
// (`return sess.handleRead(ctx, msg)`). The helper's body is the clause provided it makes exactly one call of a
// Session method (the one named, or any when method is "") and every return of the clause hands back the helper's
// results unchanged. Returns the helper and the delegating call, or nil.
func delegatedClause(p *Prog, h *ssa.Function, body *ssa.BasicBlock, method string) (*ssa.Function, *ssa.Call) {
	inClause := func(b *ssa.BasicBlock) bool { return body == b || body.Dominates(b) }
	sessionCalls := func(g *ssa.Function) []*ssa.Call {
		var out []*ssa.Call
		eachInstr(g, func(in ssa.Instruction) {
			if c, ok := in.(*ssa.Call); ok && c.Call.IsInvoke() && isP9P(c.Call.Value.Type(), "Session") && (method == "" || c.Call.Method.Name() == method) {
				out = append(out, c)
			}
		})
		return out
	}
	var deleg *ssa.Call
	n := 0
	eachInstr(h, func(in2 ssa.Instruction) {
		if c, ok := in2.(*ssa.Call); ok && inClause(c.Block()) {
			if g := staticCallee(&c.Call); g != nil && g.Blocks != nil && p.InModule(g) && len(sessionCalls(g)) == 1 {
				deleg = c
				n++
			}
		}
	})
	if deleg == nil || n != 1 {
		return nil, nil
	}
	for _, ret := range returnsOf(h) {
		if !inClause(ret.Block()) {
			continue
		}
		if len(ret.Results) != 2 || ret.Results[0] != resultN(deleg, 0) || ret.Results[1] != resultN(deleg, 1) {
			return nil, nil
		}
	}
	return staticCallee(&deleg.Call), deleg
}

// c07FlushClause: the Tflush clause of the serve loop (shared by C06: a flushed tag whose entry stays in the table
// makes every later request reusing it a "duplicate" that is never dispatched).
func c07FlushClause(r *Run, p *Prog, sp *serveParts) bool {
	// (1) the flush clause
	var ta *ssa.TypeAssert
	eachInstr(sp.serve, func(in ssa.Instruction) {
		if x, ok := in.(*ssa.TypeAssert); ok && isP9P(x.AssertedType, "MessageTflush") {
			ta = x
		}
	})
	if ta == nil {
		r.Bad("flush", "serve: Tflush is handled by the serve loop", sp.serve.Pos(), "no Tflush clause: flush requests are dispatched to the handler and never cancel anything")
		return false
	}
	msgOwner, _ := fieldOfLocalCopy(ta.X, "Message")
	r.Check(msgOwner == sp.reqVal, "flush", "serve: Tflush clause inspects the received request", ta.Pos(), "the clause looks at another message")
	rem := p.Fn("p9p:(reqMap).remove")
	var remCalls []*ssa.Call
	if rem != nil {
		remCalls = findCalls(sp.serve, "(p9p.reqMap).remove")
	}
	if rem == nil || len(remCalls) == 0 {
		r.Bad("flush", "serve: flush removes the outstanding entry through the cancel-and-delete helper", ta.Pos(), "the flush clause does not call the cancel+delete helper")
		return false
	}
	rc := remCalls[0]
	r.Check(len(remCalls) == 1 && sp.tags(rc.Call.Args[0]), "flush", "serve: one cancel-and-delete call on the tag table", rc.Pos(), "remove is not applied to the tag table exactly once")
	// argument is msg.Oldtag of the asserted flush message
	old, okOld := fieldOfLocalCopy(rc.Call.Args[1], "Oldtag")
	okArg := false
	if okOld {
		if ex, ok := old.(*ssa.Extract); ok && ex.Tuple == ssa.Value(ta) {
			okArg = true
		}
	}
	r.Check(okArg, "flush", "serve: the entry removed is the one named by Oldtag", rc.Pos(), "the flush cancels a tag other than oldtag")
	// inside remove: cancel dominates delete, both on the found edge, result = found
	c07Remove(r, rem)
	// replies: on the true edge Rflush with req.Tag; on the false edge Rerror(ErrUnknownTag) with req.Tag; both after remove
	okFlush, okUnknown := false, false
	var replies []*ssa.Call
	eachInstr(sp.serve, func(in ssa.Instruction) {
		c, ok := in.(*ssa.Call)
		if !ok || !instrDominates(rc, c) {
			return
		}
		edge := 0
		for _, cd := range condsAtInstr(c) {
			nc := normCond(cd)
			if nc.V == ssa.Value(rc) {
				if nc.Truth {
					edge = 1
				} else {
					edge = -1
				}
			}
		}
		switch calleeName(&c.Call) {
		case "p9p.newFcall":
			if edge == 1 && tagOwner(c.Call.Args[0]) == sp.reqVal {
				if k, ok := stripConv(c.Call.Args[1]).(*ssa.Const); ok && isP9P(k.Type(), "MessageRflush") {
					okFlush = true
					replies = append(replies, c)
				}
			}
		case "p9p.newErrorFcall":
			if edge == -1 && tagOwner(c.Call.Args[0]) == sp.reqVal {
				if u, ok := c.Call.Args[1].(*ssa.UnOp); ok {
					if g, ok := u.X.(*ssa.Global); ok && g.Name() == "ErrUnknownTag" {
						okUnknown = true
						replies = append(replies, c)
					}
				}
			}
		}
	})
	r.Check(okFlush, "flush", "serve: Rflush (with the flush request's tag) is built only after the entry was cancelled and removed", rc.Pos(),
		"the acknowledgement is constructed before/without cancel+delete: a reply to the flushed request can follow the Rflush")
	r.Check(okUnknown, "flush", "serve: a flush of a tag that is not outstanding is answered with Rerror(unknown tag)", rc.Pos(), "a flush naming an unknown tag gets no (or a wrong) reply")
	// exactly one send of the phi of those replies, post-dominating
	nSend := 0
	for _, ss := range p.sendSites(sp.serve) {
		if ss.Chan != sp.responses {
			continue
		}
		alts := phiAlternatives(ss.Val, 3)
		match := 0
		for _, a := range alts {
			for _, rp := range replies {
				if a == ssa.Value(rp) {
					match++
				}
			}
		}
		if match == len(alts) && match == 2 {
			nSend++
			r.Check(instrDominates(rc, ss.In) && !reachAvoiding(ss.In.Block(), ss.In.Block(), sp.mainSel.Block()), "flush", "serve: the flush reply is sent once, after cancel+delete", ss.In.Pos(), "the flush reply can be sent more than once or before the entry is removed")
		}
	}
	r.Check(nSend == 1, "flush", "serve: both flush outcomes reach exactly one send", rc.Pos(), fmt.Sprintf("%d sends carry the flush replies", nSend))

	return true
}

// chanOrigin: the MakeChan a channel-typed value denotes, followed through parameters (every call/go/defer site of
// the function must pass the same channel), closure free variables and single-assignment local cells; nil if unknown.
func chanOrigin(p *Prog, v ssa.Value, depth int) ssa.Value {
	if depth > 6 || v == nil {
		return nil
	}
	switch x := v.(type) {
	case *ssa.MakeChan:
		return x
	case *ssa.ChangeType:
		return chanOrigin(p, x.X, depth+1)
	case *ssa.UnOp:
		if x.Op != token.MUL {
			return nil
		}
		var cell *ssa.Alloc
		switch a := x.X.(type) {
		case *ssa.Alloc:
			cell = a
		case *ssa.FreeVar:
			if b := freeVarBinding(a); b != nil {
				cell, _ = b.(*ssa.Alloc)
			}
		}
		if cell == nil {
			return nil
		}
		var val ssa.Value
		n := 0
		for _, rf := range referrers(cell) {
			if st, ok := rf.(*ssa.Store); ok && st.Addr == ssa.Value(cell) {
				val = st.Val
				n++
			}
		}
		if n != 1 {
			return nil
		}
		return chanOrigin(p, val, depth+1)
	case *ssa.FreeVar:
		if b := freeVarBinding(x); b != nil {
			return chanOrigin(p, b, depth+1)
		}
	case *ssa.Parameter:
		fn := x.Parent()
		idx := -1
		for i, q := range fn.Params {
			if q == x {
				idx = i
			}
		}
		if idx < 0 {
			return nil
		}
		var origin ssa.Value
		n := 0
		for _, f := range p.allFns {
			bad := false
			eachInstr(f, func(in ssa.Instruction) {
				ci, ok := in.(ssa.CallInstruction)
				if !ok || staticCallee(ci.Common()) != fn {
					return
				}
				n++
				if idx >= len(ci.Common().Args) {
					bad = true
					return
				}
				o := chanOrigin(p, ci.Common().Args[idx], depth+1)
				if o == nil || (origin != nil && o != origin) {
					bad = true
				}
				origin = o
			})
			if bad {
				return nil
			}
		}
		if n == 0 {
			return nil
		}
		return origin
	}
	return nil
}

// freeVarBinding: what the closure's free variable is bound to where the closure is made (unique MakeClosure).
func freeVarBinding(fv *ssa.FreeVar) ssa.Value {
	fn := fv.Parent()
	par := fn.Parent()
	if par == nil {
		return nil
	}
	idx := -1
	for i, q := range fn.FreeVars {
		if q == fv {
			idx = i
		}
	}
	var out ssa.Value
	n := 0
	eachInstr(par, func(in ssa.Instruction) {
		if mc, ok := in.(*ssa.MakeClosure); ok && mc.Fn == ssa.Value(fn) && idx >= 0 && idx < len(mc.Bindings) {
			out = mc.Bindings[idx]
			n++
		}
	})
	if n != 1 {
		return nil
	}
	return out
}

// c06OnlyServeSendsResponses: the channel the writer loop drains is fed by the serve loop alone. A reply put there
// from anywhere else (a handler goroutine, the writer re-queueing a frame it failed to write) bypasses the tag
// table: it can be written after the tag was flushed and acknowledged, or after the tag was reused.
func c06OnlyServeSendsResponses(r *Run, p *Prog, sp *serveParts, rule string) {
	want := chanOrigin(p, sp.responses, 0)
	if want == nil {
		r.Undecided(rule, "serve: the responses channel", sp.serve.Pos(), "cannot resolve the channel handed to the writer loop to its make")
		return
	}
	n := 0
	for _, fn := range componentFuncs(p, "conn") {
		for _, ss := range p.sendSites(fn) {
			ch, ok := ss.Chan.Type().Underlying().(*types.Chan)
			if !ok || !strings.HasSuffix(shortType(ch.Elem()), "Fcall") {
				continue
			}
			o := chanOrigin(p, ss.Chan, 0)
			if o == nil {
				r.Undecided(rule, fnName(fn)+": send on a channel of frames", ss.In.Pos(), "cannot tell which channel this send feeds")
				continue
			}
			if o != want {
				continue
			}
			n++
			// … in the serve loop itself, or in a helper that only ever runs on the serve goroutine (plain calls from it)
			r.Check(fn == sp.serve || runsOnlyOn(p, fn, sp.serve, 0), rule, fnName(fn)+": replies reach the writer only through the serve loop", ss.In.Pos(),
				"a reply is queued for writing from outside the serve loop: it bypasses the tag table (it can be written after its tag was flushed and acknowledged, or reused)")
		}
	}
	r.Floor(rule, n, 3, "sends on the responses channel")
}

// c06HandlerAlwaysCompletes: every way out of the handler goroutine passes the select that offers the completion
// (whose other arms are the request's cancellation and the connection's end): no request is left without a reply —
// and with its tag in the table for ever — because of what the handler returned.
func c06HandlerAlwaysCompletes(r *Run, sp *serveParts, rule string) {
	h := sp.handler
	via := map[*ssa.BasicBlock]bool{}
	for _, op := range chanOps(h) {
		if sel, ok := op.In.(*ssa.Select); ok {
			for _, st := range sel.States {
				if st.Dir == types.SendOnly {
					via[sel.Block()] = true
				}
			}
		}
		if sd, ok := op.In.(*ssa.Send); ok {
			via[sd.Block()] = true
		}
	}
	n := 0
	for _, ret := range returnsOf(h) {
		n++
		r.Check(allPathsThrough(h, via, ret.Block()), rule, "handler: every exit of the goroutine has offered its completion", ret.Pos(),
			"the goroutine can end without reporting a completion although the request was not cancelled: the request is never answered and its tag stays outstanding (every reuse is refused as a duplicate)")
	}
	r.Floor(rule, n, 1, "exits of the handler goroutine")
}

// allFieldStores: every value stored into the named field of a struct local (a record filled in step by step).
func allFieldStores(a *ssa.Alloc, field string) []ssa.Value {
	var out []ssa.Value
	for _, r := range referrers(a) {
		if fa, ok := r.(*ssa.FieldAddr); ok && fieldName(a.Type(), fa.Field) == field {
			for _, rr := range referrers(fa) {
				if st, ok := rr.(*ssa.Store); ok && st.Addr == ssa.Value(fa) {
					out = append(out, st.Val)
				}
			}
		}
	}
	return out
}

// compScope: where the completion arm of the serve loop lives — in serve itself (the region of the select case that
// receives completions) or in a helper of the serve goroutine the arm hands the completion, the tag table and the
// responses channel to (`c.complete(tags, responses, done)`): the helper's parameters stand for them.
type compScope struct {
	fn        *ssa.Function
	body      *ssa.BasicBlock // nil: the whole function
	comp      ssa.Value
	responses ssa.Value
	tags      func(v ssa.Value) bool
	call      *ssa.Call // the delegating call in serve (nil when the arm is in serve)
}

func (sc *compScope) in(b *ssa.BasicBlock) bool {
	return sc.body == nil || sc.body == b || sc.body.Dominates(b)
}

func completionScope(p *Prog, sp *serveParts) *compScope {
	cb := selectCaseBlock(sp.mainSel, sp.compCase)
	base := &compScope{fn: sp.serve, body: cb, comp: sp.compVal, responses: sp.responses, tags: sp.tags}
	if cb == nil {
		return base
	}
	direct := false
	var deleg *ssa.Call
	eachInstr(sp.serve, func(in ssa.Instruction) {
		if !base.in(in.Block()) {
			return
		}
		switch x := in.(type) {
		case *ssa.Select:
			for _, st := range x.States {
				if st.Dir == types.SendOnly && st.Chan == sp.responses {
					direct = true
				}
			}
		case *ssa.Call:
			g := staticCallee(&x.Call)
			if g == nil || g.Blocks == nil || !p.InModule(g) || !runsOnlyOn(p, g, sp.serve, 0) {
				return
			}
			for _, a := range x.Call.Args {
				if stripConv(a) == stripConv(sp.responses) {
					deleg = x
				}
			}
		}
	})
	if direct || deleg == nil {
		return base
	}
	g := staticCallee(&deleg.Call)
	sc := &compScope{fn: g, call: deleg}
	var tagsPrm ssa.Value
	for i, a := range deleg.Call.Args {
		if i >= len(g.Params) {
			break
		}
		switch {
		case stripConv(a) == stripConv(sp.responses):
			sc.responses = g.Params[i]
		case sp.tags(a):
			tagsPrm = g.Params[i]
		case a == sp.compVal:
			sc.comp = g.Params[i]
		default:
			// the completion handed over as a load of its local copy
			if u, ok := a.(*ssa.UnOp); ok && u.Op == token.MUL {
				for _, rf := range referrers(sp.compVal) {
					if st, ok := rf.(*ssa.Store); ok && st.Val == sp.compVal && st.Addr == u.X {
						sc.comp = g.Params[i]
					}
				}
			}
		}
	}
	if sc.responses == nil || sc.comp == nil || tagsPrm == nil {
		return base
	}
	sc.tags = func(v ssa.Value) bool { return v == tagsPrm }
	return sc
}

// ackHelperReturn: the return hands back both results of a helper g(err, ack) that yields (ack, nil) exactly when err —
// the error of the given session call — is nil, and (nil, err) otherwise. Returns the acknowledgement argument.
func ackHelperReturn(p *Prog, ret *ssa.Return, sessionCall *ssa.Call) (ssa.Value, bool) {
	if len(ret.Results) != 2 {
		return nil, false
	}
	ex0, ok0 := ret.Results[0].(*ssa.Extract)
	ex1, ok1 := ret.Results[1].(*ssa.Extract)
	if !ok0 || !ok1 || ex0.Tuple != ex1.Tuple || ex0.Index != 0 || ex1.Index != 1 {
		return nil, false
	}
	hc, isCall := ex0.Tuple.(*ssa.Call)
	if !isCall {
		return nil, false
	}
	g := staticCallee(&hc.Call)
	if g == nil || g.Blocks == nil || !p.InModule(g) || len(g.Params) != len(hc.Call.Args) {
		return nil, false
	}
	ei, ai := -1, -1
	for i, a := range hc.Call.Args {
		if a == errResult(sessionCall) {
			ei = i
		} else if isP9P(a.Type(), "Message") {
			ai = i
		}
	}
	if ei < 0 || ai < 0 {
		return nil, false
	}
	nS := 0
	for _, rs := range returnSites(g) {
		if len(rs.Results) != 2 {
			return nil, false
		}
		if isNilConst(rs.Results[1]) {
			nS++
			onNil := false
			for _, cd := range rs.Conds() {
				if nilTestOf(cd, g.Params[ei]) == 1 {
					onNil = true
				}
			}
			if !onNil || rs.Results[0] != ssa.Value(g.Params[ai]) {
				return nil, false
			}
		} else if !derivesFrom(rs.Results[1], g.Params[ei], 3) {
			return nil, false
		}
	}
	if nS == 0 {
		return nil, false
	}
	return hc.Call.Args[ai], true
}
