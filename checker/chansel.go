package main

// Engine E8: enumeration and classification of blocking channel operations.

import (
	"fmt"
	"go/token"
	"go/types"
	"strings"

	"golang.org/x/tools/go/ssa"
)

// chanProv names where a channel value comes from:
//
//	"field:conn.closed"        load of a struct field
//	"done:field:conn.ctx"      Done() of a context loaded from a field
//	"done:param:ctx"           Done() of a context parameter
//	"done:derived"             Done() of a context returned by context.WithCancel/WithTimeout or loaded from activeRequest.ctx
//	"local:<comment>"          a channel made in the enclosing function (possibly through a captured cell)
//	"param:<name>"             a channel parameter
func chanProv(v ssa.Value, depth int) string {
	if depth > 6 {
		return "?"
	}
	v = stripConv(v)
	switch x := v.(type) {
	case *ssa.UnOp:
		if x.Op != token.MUL {
			return "?"
		}
		switch a := x.X.(type) {
		case *ssa.FieldAddr:
			return "field:" + structName(a.X.Type()) + "." + fieldName(a.X.Type(), a.Field)
		case *ssa.Alloc:
			// a cell: find the (single) stored value
			var stored ssa.Value
			n := 0
			for _, r := range referrers(a) {
				if st, ok := r.(*ssa.Store); ok && st.Addr == a {
					stored = st.Val
					n++
				}
			}
			if n == 1 {
				if _, ok := stored.(*ssa.MakeChan); ok {
					return "local:" + a.Comment
				}
				return chanProv(stored, depth+1)
			}
			return "cell:" + a.Comment
		case *ssa.FreeVar:
			// captured cell: resolve through the enclosing function's binding
			fn := a.Parent()
			if fn != nil && fn.Parent() != nil {
				idx := -1
				for i, fv := range fn.FreeVars {
					if fv == a {
						idx = i
					}
				}
				res := "?"
				eachInstr(fn.Parent(), func(in ssa.Instruction) {
					if mc, ok := in.(*ssa.MakeClosure); ok && mc.Fn == fn && idx >= 0 && idx < len(mc.Bindings) {
						if al, ok := mc.Bindings[idx].(*ssa.Alloc); ok {
							res = chanProv(&ssa.UnOp{Op: token.MUL, X: al}, depth+1)
						}
					}
				})
				if res != "?" {
					return res
				}
			}
			return "captured:" + a.Name()
		}
	case *ssa.MakeChan:
		return "local:" + x.Name()
	case *ssa.Parameter:
		return "param:" + x.Name()
	case *ssa.FreeVar:
		return "captured:" + x.Name()
	case *ssa.Call:
		if x.Call.IsInvoke() && x.Call.Method.Name() == "Done" {
			return "done:" + ctxProv(x.Call.Value, depth+1)
		}
		if f := staticCallee(&x.Call); f != nil && f.Name() == "Done" {
			return "done:" + ctxProv(x.Call.Args[0], depth+1)
		}
	case *ssa.Phi:
		first := ""
		for _, e := range x.Edges {
			p := chanProv(e, depth+1)
			if first == "" {
				first = p
			} else if first != p {
				return "?"
			}
		}
		return first
	}
	return "?"
}

func ctxProv(v ssa.Value, depth int) string {
	v = stripConv(v)
	switch x := v.(type) {
	case *ssa.Parameter:
		return "param:" + x.Name()
	case *ssa.UnOp:
		if x.Op == token.MUL {
			if fa, ok := x.X.(*ssa.FieldAddr); ok {
				return "field:" + structName(fa.X.Type()) + "." + fieldName(fa.X.Type(), fa.Field)
			}
		}
	case *ssa.Extract:
		if c, ok := x.Tuple.(*ssa.Call); ok {
			n := calleeName(&c.Call)
			if strings.HasPrefix(n, "context.With") {
				return "derived(" + ctxProv(c.Call.Args[0], depth+1) + ")"
			}
		}
	case *ssa.FreeVar:
		return "captured:" + x.Name()
	}
	return "?"
}

func structName(t types.Type) string {
	if p, ok := t.Underlying().(*types.Pointer); ok {
		t = p.Elem()
	}
	if n, ok := t.(*types.Named); ok {
		return n.Obj().Name()
	}
	return shortType(t)
}

// ChanOp is one blocking-capable channel operation.
type ChanOp struct {
	Fn       *ssa.Function
	In       ssa.Instruction
	Kind     string // select, send, recv
	Blocking bool
	Cases    []ChanCase
}

type ChanCase struct {
	Send bool
	Prov string
	Chan ssa.Value
}

func (o ChanOp) String() string {
	parts := []string{}
	for _, c := range o.Cases {
		if c.Send {
			parts = append(parts, c.Prov+"<-")
		} else {
			parts = append(parts, "<-"+c.Prov)
		}
	}
	b := "blocking"
	if !o.Blocking {
		b = "non-blocking"
	}
	return fmt.Sprintf("%s %s [%s]", b, o.Kind, strings.Join(parts, ", "))
}

func (o ChanOp) hasRecv(prov string) bool {
	for _, c := range o.Cases {
		if !c.Send && c.Prov == prov {
			return true
		}
	}
	return false
}

func (o ChanOp) hasRecvPrefix(prefix string) bool {
	for _, c := range o.Cases {
		if !c.Send && strings.HasPrefix(c.Prov, prefix) {
			return true
		}
	}
	return false
}

// chanOps enumerates the channel operations of fn (not its closures).
func chanOps(fn *ssa.Function) []ChanOp {
	var out []ChanOp
	eachInstr(fn, func(in ssa.Instruction) {
		switch x := in.(type) {
		case *ssa.Select:
			op := ChanOp{Fn: fn, In: in, Kind: "select", Blocking: x.Blocking}
			for _, st := range x.States {
				op.Cases = append(op.Cases, ChanCase{Send: st.Dir == types.SendOnly, Prov: chanProv(st.Chan, 0), Chan: st.Chan})
			}
			out = append(out, op)
		case *ssa.Send:
			out = append(out, ChanOp{Fn: fn, In: in, Kind: "send", Blocking: true, Cases: []ChanCase{{Send: true, Prov: chanProv(x.Chan, 0), Chan: x.Chan}}})
		case *ssa.UnOp:
			if x.Op == token.ARROW {
				out = append(out, ChanOp{Fn: fn, In: in, Kind: "recv", Blocking: true, Cases: []ChanCase{{Send: false, Prov: chanProv(x.X, 0), Chan: x.X}}})
			}
		}
	})
	return out
}

// closeSites lists close(ch) calls of fn with the channel's provenance.
func closeSites(fn *ssa.Function) []ChanCase {
	var out []ChanCase
	eachInstr(fn, func(in ssa.Instruction) {
		if c, ok := in.(ssa.CallInstruction); ok {
			if b, ok := c.Common().Value.(*ssa.Builtin); ok && b.Name() == "close" {
				out = append(out, ChanCase{Prov: chanProv(c.Common().Args[0], 0), Chan: c.Common().Args[0]})
			}
		}
	})
	return out
}

// selectCaseBlocks: for a Select instruction, the block entered when case i is chosen.
// go/ssa lowers the dispatch to a chain `idx == k ? body_k : next`.
func selectCaseBlock(sel *ssa.Select, i int) *ssa.BasicBlock {
	var idx ssa.Value
	for _, r := range referrers(sel) {
		if e, ok := r.(*ssa.Extract); ok && e.Index == 0 {
			idx = e
		}
	}
	if idx == nil {
		return nil
	}
	for _, r := range referrers(idx) {
		b, ok := r.(*ssa.BinOp)
		if !ok || b.Op != token.EQL {
			continue
		}
		if k, ok := constInt(b.Y); ok && int(k) == i {
			for _, rr := range referrers(b) {
				if ifi, ok := rr.(*ssa.If); ok {
					return ifi.Block().Succs[0]
				}
			}
		}
	}
	return nil
}

// inLoop: the instruction can execute more than once per activation.
func inLoop(in ssa.Instruction) bool { return reachableFrom(in.Block())[in.Block()] }

// sendSite: a point of fn at which value Val is offered on channel Chan: a send case of a select, a plain send, or
// a call of a send helper (a module function that offers one of its parameters on another of its parameters).
type sendSite struct {
	In     ssa.Instruction
	Val    ssa.Value
	Chan   ssa.Value
	Helper *ssa.Function // non-nil when the send happens inside a helper
}

var sendHelperCache = map[*ssa.Function][][2]int{}

// sendHelper: pairs (i, j) such that g offers its parameter i on its parameter j.
func (p *Prog) sendHelper(g *ssa.Function) [][2]int {
	if r, ok := sendHelperCache[g]; ok {
		return r
	}
	sendHelperCache[g] = nil
	var out [][2]int
	idx := func(v ssa.Value) int {
		for i, prm := range g.Params {
			if ssa.Value(prm) == v {
				return i
			}
		}
		return -1
	}
	eachInstr(g, func(in ssa.Instruction) {
		switch x := in.(type) {
		case *ssa.Select:
			for _, st := range x.States {
				if st.Dir == types.SendOnly {
					if i, j := idx(st.Send), idx(st.Chan); i >= 0 && j >= 0 {
						out = append(out, [2]int{i, j})
					}
				}
			}
		case *ssa.Send:
			if i, j := idx(x.X), idx(x.Chan); i >= 0 && j >= 0 {
				out = append(out, [2]int{i, j})
			}
		}
	})
	sendHelperCache[g] = out
	return out
}

func (p *Prog) sendSites(fn *ssa.Function) []sendSite {
	var out []sendSite
	eachInstr(fn, func(in ssa.Instruction) {
		switch x := in.(type) {
		case *ssa.Select:
			for _, st := range x.States {
				if st.Dir == types.SendOnly {
					out = append(out, sendSite{In: in, Val: st.Send, Chan: st.Chan})
				}
			}
		case *ssa.Send:
			out = append(out, sendSite{In: in, Val: x.X, Chan: x.Chan})
		case *ssa.Call:
			g := staticCallee(&x.Call)
			if g == nil || g.Blocks == nil || !p.InModule(g) || g == fn {
				return
			}
			for _, ij := range p.sendHelper(g) {
				if ij[0] < len(x.Call.Args) && ij[1] < len(x.Call.Args) {
					out = append(out, sendSite{In: in, Val: x.Call.Args[ij[0]], Chan: x.Call.Args[ij[1]], Helper: g})
				}
			}
		}
	})
	return out
}
