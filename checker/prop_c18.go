package main

import (
	"fmt"
	"go/token"
	"sort"
	"strings"

	"golang.org/x/tools/go/ssa"
)

func init() { register("C18", checkC18) }

var fileEntSpec = LockSpec{PkgPath: modPath + "/ramfs", Type: "FileEnt", Guarded: map[string]bool{"nref": true, "children": true, "Info": true, "Data": true}}

// checkReadWriteContract: fn (a Read/Write(ctx, p, offset) implementation) guarantees 0 <= n <= len(p) on success.
func checkReadWriteContract(r *Run, fn *ssa.Function, rule string) {
	if fn == nil {
		return
	}
	pi := -1
	for i, prm := range fn.Params {
		if shortType(prm.Type()) == "[]byte" {
			pi = i
		}
	}
	ge, le := false, false
	for _, sf := range r.P.retSummary(fn) {
		if sf.result == 0 && sf.kind == "ge-const" && sf.c >= 0 {
			ge = true
		}
		if sf.result == 0 && sf.kind == "le-len-param" && sf.param == pi && sf.c <= 0 {
			le = true
		}
	}
	r.Check(ge && le, rule, fnName(fn)+": returns 0 <= n <= len(p) on success (io.ReaderAt/WriterAt contract the dispatcher relies on)", fn.Pos(),
		fmt.Sprintf("cannot prove the return-range guarantee (n >= 0: %v, n <= len(p): %v): the dispatcher's p[:n] can panic", ge, le))
}

func checkC18(r *Run) {
	p := r.P
	r.Decides = append(r.Decides,
		"every slice/index/make obligation in package ramfs is entailed by dominating guards, loop invariants and make-length equalities (arbitrary 64-bit offsets included: negative int64 offsets are refused before any slice expression)",
		"FileEnt.Read/Write honour the return-range contract 0 <= n <= len(p)",
		"lock pairing on the FileEnt mutex on every path",
		"lockset discipline: every access to FileEnt.nref/children/Info/Data happens under that node's lock — violated at the sites listed as known findings (data races between sessions sharing the tree), every other site is checked",
		"no explicit panic in package ramfs",
		"no append extends a shortened view of another object's slice field (handles never write into each other's parent chains)")
	r.NotDecided = append(r.NotDecided, "bytes read = bytes most recently written; listing contents; walk resolution; nref = number of links (model equivalence)", "race freedom beyond the lockset discipline")
	// bounds
	n := 0
	for _, fn := range p.FuncsOfPkg("ramfs") {
		r.SawFn(fnName(fn))
		n += dischargeBounds(r, fn, "bounds", nil)
	}
	r.Floor("bounds", n, 18, "bounds obligations in ramfs")
	checkReadWriteContract(r, p.Fn("ramfs:(*FileEnt).Read"), "return-range")
	checkReadWriteContract(r, p.Fn("ramfs:(*FileEnt).Write"), "return-range")
	// explicit panics
	var roots []*ssa.Function
	for _, fn := range p.FuncsOfPkg("ramfs") {
		if fn.Parent() == nil {
			roots = append(roots, fn)
		}
	}
	sites, _ := explicitPanics(p, roots)
	for _, s := range sites {
		if strings.HasPrefix(fnName(s.Fn), "ramfs.") || strings.Contains(fnName(s.Fn), "ramfs.") {
			r.Bad("panic-reach", fnName(s.Fn)+": explicit panic", s.In.Pos(), "explicit panic in the in-memory file server")
		}
	}
	r.OkTrivial("panic-reach", fmt.Sprintf("ramfs: %d entry functions examined for explicit panics", len(roots)), token.NoPos)

	// typestate: lock pairing + lockset
	var fns []*ssa.Function
	for _, fn := range p.FuncsOfPkg("ramfs") {
		if fn.Blocks == nil || fn.Name() == "init" {
			continue
		}
		fns = append(fns, fn)
	}
	spec := fileEntSpec
	spec.Written = writtenPaths(spec, fns)
	wp := []string{}
	for w := range spec.Written {
		wp = append(wp, w)
	}
	sort.Strings(wp)
	r.Notes = append(r.Notes, "FileEnt paths written after construction: "+strings.Join(wp, ", "))
	ts := newTS(p, spec)
	inl := deferredClosures(fns)
	for _, fn := range fns {
		if inl[fn] {
			continue
		}
		sum := ts.summary(fn)
		ts.Analyze(fn, sum.requiresHeld)
	}
	nRet := 0
	for _, fn := range fns {
		sum := ts.summary(fn)
		leak := false
		for _, ret := range ts.rets[fn] {
			nRet++
			for k := range ret.held {
				isEntry := false
				for i := range sum.requiresHeld {
					if i < len(fn.Params) && strings.HasSuffix(k, "sym:p:"+fn.Params[i].Name()) {
						isEntry = true
					}
				}
				if !isEntry {
					leak = true
				}
			}
		}
		if len(ts.rets[fn]) > 0 {
			r.Check(!leak, "lock-pairing", fnName(fn)+": no node lock held at return", fn.Pos(), "a path returns with a FileEnt lock held: every later operation on that node blocks")
		}
	}
	keys := []string{}
	for k := range ts.viol {
		keys = append(keys, k)
	}
	sort.Strings(keys)
	for _, k := range keys {
		v := ts.viol[k]
		if strings.HasPrefix(v.rule, "typestate/") {
			r.Undecided(v.rule, v.key, v.pos, v.reason)
		} else {
			r.Bad(v.rule, v.key, v.pos, v.reason)
		}
	}
	akeys := []string{}
	for k := range ts.acc {
		akeys = append(akeys, k)
	}
	sort.Strings(akeys)
	nAcc := 0
	for _, k := range akeys {
		a := ts.acc[k]
		nAcc++
		if a.ok {
			r.Ok("lockset", a.key, a.pos)
		} else {
			r.Bad("lockset", a.key, a.pos, a.why)
		}
	}
	r.Floor("lockset", nAcc, 20, "guarded field accesses / helper calls in ramfs")
	// the server-global counter
	c18GlobalCounter(r)
	c18AliasingAppend(r)
}

// append(x[:k], …) on a sub-slice of a slice that belongs to another handle/node writes into the
// shared backing array whenever cap allows: the source's elements are overwritten.
func c18AliasingAppend(r *Run) {
	p := r.P
	n := 0
	for _, fn := range p.FuncsOfPkg("ramfs") {
		fa := p.FA(fn)
		eachInstr(fn, func(in ssa.Instruction) {
			c, ok := in.(*ssa.Call)
			if !ok || calleeName(&c.Call) != "builtin append" {
				return
			}
			n++
			bad := ""
			for _, alt := range phiAlternatives(c.Call.Args[0], 3) {
				sl, ok := alt.(*ssa.Slice)
				if !ok || sl.Max != nil {
					continue
				}
				base := fa.Sym(sl.X)
				if isFieldSlice(base) && sl.High != nil {
					bad = base.K
				}
				// an append onto a sub-slice of a previous append onto a field sub-slice
				if inner, ok := sl.X.(*ssa.Call); ok && calleeName(&inner.Call) == "builtin append" {
					continue
				}
			}
			if nested, ok := c.Call.Args[0].(*ssa.Call); ok && calleeName(&nested.Call) == "builtin append" {
				for _, alt := range phiAlternatives(nested.Call.Args[0], 3) {
					if sl, ok := alt.(*ssa.Slice); ok && sl.Max == nil && sl.High != nil {
						if base := fa.Sym(sl.X); isFieldSlice(base) {
							bad = base.K
						}
					}
				}
			}
			r.Check(bad == "", "no-aliasing-append", fnName(fn)+": append does not extend a sub-slice of another object's slice field", c.Pos(),
				"append onto a shortened view of "+bad+" writes into that field's backing array when capacity allows: the source handle's elements are overwritten (use a copy or a full slice expression x[:k:k])")
		})
	}
	r.OkTrivial("no-aliasing-append", fmt.Sprintf("ramfs: %d append sites examined", n), token.NoPos)
}

// fServer.lastpath is written by next() from every session: it must be updated atomically or under a lock.
func c18GlobalCounter(r *Run) {
	p := r.P
	for _, fn := range p.FuncsOfPkg("ramfs") {
		eachInstr(fn, func(in ssa.Instruction) {
			st, ok := in.(*ssa.Store)
			if !ok {
				return
			}
			fa, ok := st.Addr.(*ssa.FieldAddr)
			if !ok || !isNamed(fa.X.Type(), modPath+"/ramfs", "fServer") || fieldName(fa.X.Type(), fa.Field) != "lastpath" {
				return
			}
			// any Lock call dominating the store in the same function?
			locked := false
			eachInstr(fn, func(in2 ssa.Instruction) {
				if c, ok := in2.(*ssa.Call); ok && strings.HasSuffix(calleeName(&c.Call), ".Lock") && instrDominates(c, st) {
					locked = true
				}
			})
			r.Check(locked, "lockset", fnName(fn)+": write of fServer.lastpath under a lock", st.Pos(),
				"the server-wide qid-path counter is incremented without synchronisation by concurrent sessions (data race; duplicate qid paths)")
		})
	}
}

// isFieldSlice: the symbol denotes a slice stored in a struct field (of a heap object or of a by-value receiver/parameter).
func isFieldSlice(s *Sym) bool {
	return (s.Op == "ld" && strings.HasPrefix(s.Aux, "F:")) || s.Op == "fld"
}
