package main

import (
	"fmt"
	"go/token"
	"go/types"
	"sort"
	"strings"

	"golang.org/x/tools/go/ssa"
)

func init() { register("C18", checkC18) }

var fileEntSpec = LockSpec{PkgPath: modPath + "/ramfs", Type: "FileEnt", Guarded: map[string]bool{"nref": true, "children": true, "Info": true, "Data": true}}

// checkReadWriteContract: fn (a Read/Write(ctx, p, offset) implementation) guarantees 0 <= n <= len(p) on success.
func checkReadWriteContract(r *Run, fn *ssa.Function, rule string) {
	if fn == nil {
		return
	}
	pi := -1
	for i, prm := range fn.Params {
		if shortType(prm.Type()) == "[]byte" {
			pi = i
		}
	}
	ge, le := false, false
	for _, sf := range r.P.retSummary(fn) {
		if sf.result == 0 && sf.kind == "ge-const" && sf.c >= 0 {
			ge = true
		}
		if sf.result == 0 && sf.kind == "le-len-param" && sf.param == pi && sf.c <= 0 {
			le = true
		}
	}
	r.Check(ge && le, rule, fnName(fn)+": returns 0 <= n <= len(p) on success (io.ReaderAt/WriterAt contract the dispatcher relies on)", fn.Pos(),
		fmt.Sprintf("cannot prove the return-range guarantee (n >= 0: %v, n <= len(p): %v): the dispatcher's p[:n] can panic", ge, le))
}

func checkC18(r *Run) {
	p := r.P
	r.Decides = append(r.Decides,
		"every slice/index/make obligation in package ramfs is entailed by dominating guards, loop invariants and make-length equalities (arbitrary 64-bit offsets included: negative int64 offsets are refused before any slice expression)",
		"FileEnt.Read/Write honour the return-range contract 0 <= n <= len(p)",
		"lock pairing on the FileEnt mutex on every path",
		"lockset discipline: every access to FileEnt.nref/children/Info/Data happens under that node's lock — violated at the sites listed as known findings (data races between sessions sharing the tree), every other site is checked",
		"no explicit panic in package ramfs",
		"no append extends a shortened view of another object's slice field (handles never write into each other's parent chains)",
		"child table: links are inserted only on the not-found edge and deleted only on the found edge of a lookup of the same name, and the helpers report success only after the change (their callers pair them with incref/decref through that result)",
		"data placement: Read copies Data[offset:offset+k] to p[:k] and returns k; Write copies p[0:…] to Data[offset:…], appends exactly p[len(Data)-offset:] when it extends the file, stores the result back and returns len(p)")
	r.NotDecided = append(r.NotDecided, "bytes read = bytes most recently written as a statement over histories (its structural core — where Read takes bytes from and where Write puts them, as affine slice bounds — is decided by the data-placement rule); listing contents; walk resolution; nref = number of links (model equivalence)", "race freedom beyond the lockset discipline")
	// bounds
	n := 0
	for _, fn := range p.FuncsOfPkg("ramfs") {
		r.SawFn(fnName(fn))
		n += dischargeBounds(r, fn, "bounds", nil)
	}
	r.Floor("bounds", n, 18, "bounds obligations in ramfs")
	checkReadWriteContract(r, p.Fn("ramfs:(*FileEnt).Read"), "return-range")
	checkReadWriteContract(r, p.Fn("ramfs:(*FileEnt).Write"), "return-range")
	c18DataPlacement(r)
	c18ChildTable(r)
	c18Cascade(r)
	c18WalkChain(r)
	c18RemoveReleases(r)
	c18HandlePath(r)
	c18DataOwnStorage(r)
	// explicit panics
	var roots []*ssa.Function
	for _, fn := range p.FuncsOfPkg("ramfs") {
		if fn.Parent() == nil {
			roots = append(roots, fn)
		}
	}
	sites, _ := explicitPanics(p, roots)
	for _, s := range sites {
		if strings.HasPrefix(fnName(s.Fn), "ramfs.") || strings.Contains(fnName(s.Fn), "ramfs.") {
			r.Bad("panic-reach", fnName(s.Fn)+": explicit panic", s.In.Pos(), "explicit panic in the in-memory file server")
		}
	}
	r.OkTrivial("panic-reach", fmt.Sprintf("ramfs: %d entry functions examined for explicit panics", len(roots)), token.NoPos)

	// typestate: lock pairing + lockset
	var fns []*ssa.Function
	for _, fn := range p.FuncsOfPkg("ramfs") {
		if fn.Blocks == nil || fn.Name() == "init" {
			continue
		}
		fns = append(fns, fn)
	}
	spec := fileEntSpec
	spec.Written = writtenPaths(spec, fns)
	wp := []string{}
	for w := range spec.Written {
		wp = append(wp, w)
	}
	sort.Strings(wp)
	r.Notes = append(r.Notes, "FileEnt paths written after construction: "+strings.Join(wp, ", "))
	ts := newTS(p, spec)
	inl := deferredClosures(fns)
	for _, fn := range fns {
		if inl[fn] {
			continue
		}
		sum := ts.summary(fn)
		ts.Analyze(fn, sum.requiresHeld)
	}
	nRet := 0
	for _, fn := range fns {
		sum := ts.summary(fn)
		leak := false
		for _, ret := range ts.rets[fn] {
			nRet++
			for k := range ret.held {
				isEntry := false
				for i := range sum.requiresHeld {
					if i < len(fn.Params) && strings.HasSuffix(k, "sym:p:"+fn.Params[i].Name()) {
						isEntry = true
					}
				}
				if !isEntry {
					leak = true
				}
			}
		}
		if len(ts.rets[fn]) > 0 {
			r.Check(!leak, "lock-pairing", fnName(fn)+": no node lock held at return", fn.Pos(), "a path returns with a FileEnt lock held: every later operation on that node blocks")
		}
	}
	keys := []string{}
	for k := range ts.viol {
		keys = append(keys, k)
	}
	sort.Strings(keys)
	for _, k := range keys {
		v := ts.viol[k]
		if strings.HasPrefix(v.rule, "typestate/") {
			r.Undecided(v.rule, v.key, v.pos, v.reason)
		} else {
			r.Bad(v.rule, v.key, v.pos, v.reason)
		}
	}
	akeys := []string{}
	for k := range ts.acc {
		akeys = append(akeys, k)
	}
	sort.Strings(akeys)
	nAcc := 0
	for _, k := range akeys {
		a := ts.acc[k]
		nAcc++
		if a.ok {
			r.Ok("lockset", a.key, a.pos)
		} else {
			r.Bad("lockset", a.key, a.pos, a.why)
		}
	}
	r.Floor("lockset", nAcc, 20, "guarded field accesses / helper calls in ramfs")
	// the server-global counter
	c18GlobalCounter(r)
	c18AliasingAppend(r)
}

// append(x[:k], …) on a sub-slice of a slice that belongs to another handle/node writes into the
// shared backing array whenever cap allows: the source's elements are overwritten.
func c18AliasingAppend(r *Run) {
	p := r.P
	n := 0
	for _, fn := range p.FuncsOfPkg("ramfs") {
		fa := p.FA(fn)
		eachInstr(fn, func(in ssa.Instruction) {
			c, ok := in.(*ssa.Call)
			if !ok || calleeName(&c.Call) != "builtin append" {
				return
			}
			n++
			bad := ""
			for _, alt := range phiAlternatives(c.Call.Args[0], 3) {
				sl, ok := alt.(*ssa.Slice)
				if !ok || sl.Max != nil {
					continue
				}
				base := fa.Sym(sl.X)
				if isFieldSlice(base) && sl.High != nil {
					bad = base.K
				}
				// an append onto a sub-slice of a previous append onto a field sub-slice
				if inner, ok := sl.X.(*ssa.Call); ok && calleeName(&inner.Call) == "builtin append" {
					continue
				}
			}
			if nested, ok := c.Call.Args[0].(*ssa.Call); ok && calleeName(&nested.Call) == "builtin append" {
				for _, alt := range phiAlternatives(nested.Call.Args[0], 3) {
					if sl, ok := alt.(*ssa.Slice); ok && sl.Max == nil && sl.High != nil {
						if base := fa.Sym(sl.X); isFieldSlice(base) {
							bad = base.K
						}
					}
				}
			}
			r.Check(bad == "", "no-aliasing-append", fnName(fn)+": append does not extend a sub-slice of another object's slice field", c.Pos(),
				"append onto a shortened view of "+bad+" writes into that field's backing array when capacity allows: the source handle's elements are overwritten (use a copy or a full slice expression x[:k:k])")
		})
	}
	r.OkTrivial("no-aliasing-append", fmt.Sprintf("ramfs: %d append sites examined", n), token.NoPos)
}

// fServer.lastpath is written by next() from every session: it must be updated atomically or under a lock.
func c18GlobalCounter(r *Run) {
	p := r.P
	for _, fn := range p.FuncsOfPkg("ramfs") {
		eachInstr(fn, func(in ssa.Instruction) {
			st, ok := in.(*ssa.Store)
			if !ok {
				return
			}
			fa, ok := st.Addr.(*ssa.FieldAddr)
			if !ok || !isNamed(fa.X.Type(), modPath+"/ramfs", "fServer") || fieldName(fa.X.Type(), fa.Field) != "lastpath" {
				return
			}
			// any Lock call dominating the store in the same function?
			locked := false
			eachInstr(fn, func(in2 ssa.Instruction) {
				if c, ok := in2.(*ssa.Call); ok && strings.HasSuffix(calleeName(&c.Call), ".Lock") && instrDominates(c, st) {
					locked = true
				}
			})
			r.Check(locked, "lockset", fnName(fn)+": write of fServer.lastpath under a lock", st.Pos(),
				"the server-wide qid-path counter is incremented without synchronisation by concurrent sessions (data race; duplicate qid paths)")
		})
	}
}

// isFieldSlice: the symbol denotes a slice stored in a struct field (of a heap object or of a by-value receiver/parameter).
func isFieldSlice(s *Sym) bool {
	return (s.Op == "ld" && strings.HasPrefix(s.Aux, "F:")) || s.Op == "fld"
}

// ---- data placement in FileEnt.Read / FileEnt.Write ----------------------------------------------------------------
//
// "reads return exactly the bytes most recently written at those positions" has a structural core that is visible in
// the two functions' slice expressions:
//
//	Read : one copy, from Data[offset : offset+k] into p[:k]; the count returned is k.
//	Write: bytes are placed by copy into Data[offset : …] from p[0:…] and, when the write extends the file, the rest
//	       p[j:] is appended where j = len(Data) - offset (so that it lands at position len(Data) = offset + j);
//	       the count returned is len(p) and Info.Length is refreshed from len(Data) afterwards.
//
// The rule compares affine forms of the slice bounds (overflow-sound), not values.
func c18DataPlacement(r *Run) {
	p := r.P
	rd, wr := p.Fn("ramfs:(*FileEnt).Read"), p.Fn("ramfs:(*FileEnt).Write")
	if rd == nil || wr == nil {
		r.Undecided("data-placement", "FileEnt.Read/Write", token.NoPos, "anchor not found")
		return
	}
	type parts struct {
		base         ssa.Value
		low, high    *Lin
		hasLo, hasHi bool
	}
	sliceParts := func(fa *FA, v ssa.Value) (parts, bool) {
		if sl, ok := v.(*ssa.Slice); ok {
			ps := parts{base: sl.X, low: linConst(0)}
			if sl.Low != nil {
				ps.low, ps.hasLo = fa.Lin(sl.Low), true
			}
			if sl.High != nil {
				ps.high, ps.hasHi = fa.Lin(sl.High), true
			} else {
				ps.high = fa.linSym(lenOf(fa.Sym(sl.X)), 0)
			}
			return ps, true
		}
		return parts{base: v, low: linConst(0), high: fa.linSym(lenOf(fa.Sym(v)), 0)}, true
	}
	isData := func(fn *ssa.Function, v ssa.Value) bool {
		return loadsField(v, fn.Params[0], "Data")
	}
	paramsOf := func(fn *ssa.Function) (buf, off *ssa.Parameter) {
		for _, prm := range fn.Params {
			if sl, ok := prm.Type().Underlying().(*types.Slice); ok {
				if b, ok := sl.Elem().Underlying().(*types.Basic); ok && b.Kind() == types.Uint8 {
					buf = prm
				}
			}
			if b, ok := prm.Type().Underlying().(*types.Basic); ok && b.Kind() == types.Int64 {
				off = prm
			}
		}
		return
	}
	// Read
	{
		fa := p.FA(rd)
		buf, off := paramsOf(rd)
		copies := findCalls(rd, "builtin copy")
		r.Check(len(copies) == 1 && buf != nil && off != nil, "data-placement", "FileEnt.Read: exactly one copy out of the file's data", rd.Pos(), fmt.Sprintf("%d copy calls", len(copies)))
		if len(copies) == 1 && buf != nil && off != nil {
			c := copies[0]
			dst, _ := sliceParts(fa, c.Call.Args[0])
			src, _ := sliceParts(fa, c.Call.Args[1])
			lo := fa.Lin(off)
			okSrc := isData(rd, src.base) && src.low.Equal(lo)
			r.Check(okSrc, "data-placement", "FileEnt.Read: the bytes come from Data starting at the requested offset", c.Pos(),
				"the copy does not start at Data[offset]: the bytes returned are not those stored at the requested position", "source low = "+src.low.String())
			okDst := dst.base == ssa.Value(buf) && dst.low.Equal(linConst(0))
			r.Check(okDst, "data-placement", "FileEnt.Read: the bytes go to the start of the caller's buffer", c.Pos(), "the copy does not fill p from its start")
			k := src.high.Sub(src.low)
			r.Check(fa.EqualJointPhi(dst.high.Sub(dst.low), k, 2), "data-placement", "FileEnt.Read: source and destination ranges have the same length", c.Pos(),
				"the copy's source and destination differ in length: "+k.String()+" vs "+dst.high.Sub(dst.low).String())
			for _, ret := range returnsOf(rd) {
				if len(ret.Results) == 2 && isNilConst(ret.Results[1]) {
					got := fa.Lin(ret.Results[0])
					r.Check(fa.EqualJointPhi(got, k, 2), "data-placement", "FileEnt.Read: the count returned is the number of bytes copied", ret.Pos(),
						"Read reports "+got.String()+" bytes but copied "+k.String())
				}
			}
		}
	}
	// Write
	{
		fa := p.FA(wr)
		buf, off := paramsOf(wr)
		if buf == nil || off == nil {
			r.Undecided("data-placement", "FileEnt.Write: parameters", wr.Pos(), "buffer/offset parameters not found")
			return
		}
		lo := fa.Lin(off)
		lp := fa.linSym(lenOf(fa.Sym(buf)), 0)
		nPlace := 0
		for _, c := range findCalls(wr, "builtin copy") {
			nPlace++
			dst, _ := sliceParts(fa, c.Call.Args[0])
			src, _ := sliceParts(fa, c.Call.Args[1])
			r.Check(isData(wr, dst.base) && dst.low.Equal(lo), "data-placement", "FileEnt.Write: bytes are copied into Data starting at the requested offset", c.Pos(),
				"the copy does not start at Data[offset]: bytes are stored at the wrong position", "destination low = "+dst.low.String())
			r.Check(src.base == ssa.Value(buf) && src.low.Equal(linConst(0)), "data-placement", "FileEnt.Write: the overwritten part comes from the start of the caller's data", c.Pos(), "the copy does not read p from its start")
		}
		for _, c := range findCalls(wr, "builtin append") {
			if !isData(wr, c.Call.Args[0]) {
				continue
			}
			nPlace++
			src, _ := sliceParts(fa, c.Call.Args[1])
			// appended bytes land at position len(Data): they must be p[len(Data)-offset:]
			want := fa.linSym(lenOf(fa.Sym(c.Call.Args[0])), 0).Sub(lo)
			r.Check(src.base == ssa.Value(buf) && src.low.Equal(want) && !src.hasHi, "data-placement", "FileEnt.Write: the appended tail is p[len(Data)-offset:]", c.Pos(),
				"the bytes appended are not the part of p that lies beyond the current end of the file (p["+src.low.String()+":], expected p["+want.String()+":])")
			// and the result is stored back into Data
			stored := false
			for _, rf := range referrers(c) {
				if st, ok := rf.(*ssa.Store); ok {
					if f, ok := st.Addr.(*ssa.FieldAddr); ok && f.X == ssa.Value(wr.Params[0]) && fieldName(f.X.Type(), f.Field) == "Data" {
						stored = true
					}
				}
			}
			r.Check(stored, "data-placement", "FileEnt.Write: the extended slice is stored back into Data", c.Pos(), "the extension is lost")
		}
		r.Floor("data-placement", nPlace, 3, "copy/append sites in FileEnt.Write")
		for _, ret := range returnsOf(wr) {
			if len(ret.Results) == 2 && isNilConst(ret.Results[1]) {
				got := fa.Lin(ret.Results[0])
				r.Check(got.Equal(lp), "data-placement", "FileEnt.Write: the count returned is len(p)", ret.Pos(), "Write reports "+got.String()+" instead of len(p)")
			}
		}
	}
}

// ---- the child table: links are added and removed exactly when reported ---------------------------------------------
//
// Callers pair link_child/unlink_child with incref/decref through the helpers' error result ("If this call returns an
// error, c.decref should be called" / "calling c.decref after this routine returns successfully"). The reference
// counts equal the number of links only if
//   - an insertion into FileEnt.children happens only on the not-found edge of a lookup of the same key (no silent
//     overwrite of an existing link) and a nil error is returned only after the insertion,
//   - a deletion happens only on the found edge of a lookup of the same key, and a nil error is returned only after
//     a deletion on that edge (a second unlink of the same name must report failure, or the caller drops the
//     link's reference twice).
func c18ChildTable(r *Run) {
	p := r.P
	nIns, nDel := 0, 0
	isChildren := func(v ssa.Value) bool {
		u, ok := v.(*ssa.UnOp)
		if !ok || u.Op != token.MUL {
			return false
		}
		f, ok := u.X.(*ssa.FieldAddr)
		return ok && strings.HasSuffix(shortType(f.X.Type()), "ramfs.FileEnt") && fieldName(f.X.Type(), f.Field) == "children"
	}
	edgeOf := func(fn *ssa.Function, at ssa.Instruction, key ssa.Value) (found, notFound bool) {
		eachInstr(fn, func(in ssa.Instruction) {
			lk, ok := in.(*ssa.Lookup)
			if !ok || !lk.CommaOk || !isChildren(lk.X) || lk.Index != key {
				return
			}
			okv := resultN(lk, 1)
			for _, cd := range condsAtInstr(at) {
				nc := normCond(cd)
				if nc.V == okv {
					if nc.Truth {
						found = true
					} else {
						notFound = true
					}
				}
			}
		})
		// the presence test made by a predicate helper (`f.hasChild(name)`: returns the ok of a lookup of its
		// parameter in the receiver's child table)
		for _, cd := range condsAtInstr(at) {
			nc := normCond(cd)
			c, ok := nc.V.(*ssa.Call)
			if !ok {
				continue
			}
			g := staticCallee(&c.Call)
			if g == nil || g.Blocks == nil || g.Pkg != fn.Pkg || g.Signature.Results().Len() != 1 {
				continue
			}
			ki := -1
			for i, a := range c.Call.Args {
				if a == key {
					ki = i
				}
			}
			if ki < 0 || ki >= len(g.Params) {
				continue
			}
			isPred := true
			nRet := 0
			for _, ret := range returnsOf(g) {
				nRet++
				ex, ok := ret.Results[0].(*ssa.Extract)
				if !ok || ex.Index != 1 {
					isPred = false
					continue
				}
				lk, ok := ex.Tuple.(*ssa.Lookup)
				if !ok || !lk.CommaOk || !isChildren(lk.X) || lk.Index != ssa.Value(g.Params[ki]) {
					isPred = false
				}
			}
			if isPred && nRet > 0 {
				if nc.Truth {
					found = true
				} else {
					notFound = true
				}
			}
		}
		return
	}
	for _, fn := range p.FuncsOfPkg("ramfs") {
		fn := fn
		var ins, dels []ssa.Instruction
		eachInstr(fn, func(in ssa.Instruction) {
			switch x := in.(type) {
			case *ssa.MapUpdate:
				if isChildren(x.Map) {
					nIns++
					ins = append(ins, in)
					_, nf := edgeOf(fn, in, x.Key)
					r.Check(nf, "child-table", fnName(fn)+": a link is inserted only when the name is not present", in.Pos(),
						"an existing link can be overwritten silently: the displaced child keeps a reference nobody will drop")
				}
			case *ssa.Call:
				if b, ok := x.Call.Value.(*ssa.Builtin); ok && b.Name() == "delete" && isChildren(x.Call.Args[0]) {
					nDel++
					dels = append(dels, in)
					f, _ := edgeOf(fn, in, x.Call.Args[1])
					r.Check(f, "child-table", fnName(fn)+": a link is deleted only when it is present", in.Pos(),
						"the helper cannot tell its caller whether a link was actually removed: a repeated unlink reports success and the caller drops the link's reference twice (nref falls below the number of links; live subtrees are torn down)")
				}
			}
		})
		if len(ins)+len(dels) == 0 || fn.Signature.Results().Len() != 1 || !isErrorType(fn.Signature.Results().At(0).Type()) {
			continue
		}
		// nil is returned only after the table operation
		for _, ret := range returnsOf(fn) {
			if !isNilConst(ret.Results[0]) {
				continue
			}
			after := false
			for _, op := range append(ins, dels...) {
				if instrDominates(op, ret) {
					after = true
				}
			}
			r.Check(after, "child-table", fnName(fn)+": success is reported only after the table was changed", ret.Pos(),
				"the helper reports success on a path that did not change the child table")
		}
	}
	r.Floor("child-table", nIns, 1, "insertions into FileEnt.children")
	r.Floor("child-table", nDel, 1, "deletions from FileEnt.children")
}

// c18Cascade: a directory's child table is cleared only after its children were released: every store of nil to
// FileEnt.children (outside constructors) is dominated by a range over that table whose body calls decref. Clearing
// it first (or without the loop) leaves the subtree with references nobody will ever drop.
func c18Cascade(r *Run) {
	p := r.P
	n := 0
	for _, fn := range p.FuncsOfPkg("ramfs") {
		fn := fn
		eachInstr(fn, func(in ssa.Instruction) {
			st, ok := in.(*ssa.Store)
			if !ok || !isNilConst(st.Val) {
				return
			}
			f, ok := st.Addr.(*ssa.FieldAddr)
			if !ok || !strings.HasSuffix(shortType(f.X.Type()), "ramfs.FileEnt") || fieldName(f.X.Type(), f.Field) != "children" {
				return
			}
			if a, isA := f.X.(*ssa.Alloc); isA {
				if _, _, lit := allocFields(a); lit {
					return // constructor literal
				}
			}
			n++
			okLoop := false
			eachInstr(fn, func(in2 ssa.Instruction) {
				rg, ok := in2.(*ssa.Range)
				if !ok || !instrDominates(rg, st) {
					return
				}
				// the range is over this node's children …
				u, ok := rg.X.(*ssa.UnOp)
				if !ok {
					return
				}
				f2, ok := u.X.(*ssa.FieldAddr)
				if !ok || f2.X != f.X || fieldName(f2.X.Type(), f2.Field) != "children" {
					return
				}
				// … and its body releases each child
				for _, c := range findCalls(fn, "(*ramfs.FileEnt).decref") {
					if rg.Block().Dominates(c.Block()) || rg.Block() == c.Block() {
						okLoop = true
					}
				}
			})
			r.Check(okLoop, "cascade", fnName(fn)+": the child table is cleared only after every child was released", st.Pos(),
				"children is set to nil before (or without) the loop that decrefs the children: the children of a dying directory keep a reference with no parent link")
		})
	}
	r.Floor("cascade", n, 1, "clearing of a child table")
}

// c18WalkChain: in FileHandle.Walk the first ndel entries of the walk result stand for the '..' steps; the new
// handle's parent chain is kept-parents ++ [pivot] ++ ans[ndel:]. Whatever the code shape (index loop, copy, append),
// an entry of ans placed into the new chain is taken at an offset of at least ndel.
func c18WalkChain(r *Run) {
	p := r.P
	fn := p.Fn("ramfs:(FileHandle).Walk")
	if fn == nil {
		r.Undecided("walk-chain", "(FileHandle).Walk", token.NoPos, "anchor not found")
		return
	}
	fa := p.FA(fn)
	// ans: the []*FileEnt made with length ndel and then extended by append
	var ansMake *ssa.MakeSlice
	var ans ssa.Value
	eachInstr(fn, func(in ssa.Instruction) {
		c, ok := in.(*ssa.Call)
		if !ok {
			return
		}
		if b, isB := c.Call.Value.(*ssa.Builtin); isB && b.Name() == "append" {
			if ms, isM := c.Call.Args[0].(*ssa.MakeSlice); isM && strings.HasSuffix(shortType(ms.Type()), "[]*ramfs.FileEnt") {
				ansMake, ans = ms, c
			}
		}
	})
	if ans == nil {
		r.Undecided("walk-chain", "FileHandle.Walk: walk result", fn.Pos(), "cannot find the slice of walked entries (make + append)")
		return
	}
	// the new chain: a []*FileEnt MakeSlice other than ans. The construction may sit in Walk or in a helper of the
	// package handed ans and ndel (`h.walkedChain(ndel, ref, ans)`): the helper's parameters stand for them.
	n := 0
	var scan func(fn *ssa.Function, fa *FA, ans ssa.Value, ndel *Lin, depth int)
	scan = func(fn *ssa.Function, fa *FA, ans ssa.Value, ndel *Lin, depth int) {
		derivesFromAns := func(v ssa.Value) (low *Lin, ok bool) {
			if v == ans {
				return linConst(0), true
			}
			if sl, isS := v.(*ssa.Slice); isS && sl.X == ans {
				if sl.Low == nil {
					return linConst(0), true
				}
				return fa.Lin(sl.Low), true
			}
			return nil, false
		}
		eachInstr(fn, func(in ssa.Instruction) {
			switch x := in.(type) {
			case *ssa.UnOp:
				// p = ans[j] flowing into the chain
				if x.Op != token.MUL {
					return
				}
				ia, ok := x.X.(*ssa.IndexAddr)
				if !ok || ia.X != ans {
					return
				}
				// only reads that feed the new chain (stored into a []*FileEnt element), not the qid loop
				feeds := false
				var walk func(v ssa.Value, d int)
				walk = func(v ssa.Value, d int) {
					if d > 3 {
						return
					}
					for _, rf := range referrers(v) {
						switch y := rf.(type) {
						case *ssa.Store:
							if _, isIA := y.Addr.(*ssa.IndexAddr); isIA && y.Val == v {
								feeds = true
							}
						case *ssa.Phi:
							walk(y, d+1)
						}
					}
				}
				walk(x, 0)
				if !feeds {
					return
				}
				n++
				j := fa.Lin(ia.Index)
				facts := fa.FactsAt(x, j, ndel)
				r.Check(EntailsLE(facts, ndel, j) || fa.entailsPhiSplit(x, facts, ndel, j, 2), "walk-chain", "FileHandle.Walk: entries copied into the new chain are taken from ans[ndel:]", x.Pos(),
					"an entry standing for a '..' step is placed into the new handle's chain: the handle's entry/parents do not match the walked path", factStrings(facts)...)
			case *ssa.Call:
				b, ok := x.Call.Value.(*ssa.Builtin)
				if !ok || (b.Name() != "copy" && b.Name() != "append") {
					return
				}
				if x == ans {
					return
				}
				src := x.Call.Args[1]
				low, isAns := derivesFromAns(src)
				if !isAns {
					return
				}
				n++
				facts := fa.FactsAt(x, low, ndel)
				r.Check(EntailsLE(facts, ndel, low), "walk-chain", "FileHandle.Walk: entries copied into the new chain are taken from ans[ndel:]", x.Pos(),
					"the walked entries are copied into the new chain from the start of ans, including those that stand for '..' steps: the new handle refers to the wrong node", factStrings(facts)...)
			}
		})

		if depth >= 1 {
			return
		}
		eachInstr(fn, func(in ssa.Instruction) {
			c, ok := in.(*ssa.Call)
			if !ok {
				return
			}
			g := staticCallee(&c.Call)
			if g == nil || g.Blocks == nil || g.Pkg != fn.Pkg || g == fn {
				return
			}
			ai, ni := -1, -1
			for i, a := range c.Call.Args {
				if a == ans {
					ai = i
				} else if _, _, isInt := intBits(a.Type()); isInt && fa.Lin(a).Equal(ndel) {
					ni = i
				}
			}
			if ai < 0 || ni < 0 || ai >= len(g.Params) || ni >= len(g.Params) {
				return
			}
			r.SawFn(fnName(g))
			gfa := p.FA(g)
			scan(g, gfa, g.Params[ai], gfa.Lin(g.Params[ni]), depth+1)
		})
	}
	scan(fn, fa, ans, fa.Lin(ansMake.Len), 0)
	r.Floor("walk-chain", n, 1, "transfers from the walk result into the new handle's chain")
}

// c18RemoveReleases: FileHandle.Remove gives up the handle's references on every exit — the session forgets the fid
// after a remove whatever its outcome and never clunks it — so the release (Clunk) must be on the way to every return.
func c18RemoveReleases(r *Run) {
	fn := r.P.Fn("ramfs:(FileHandle).Remove")
	if fn == nil {
		r.Undecided("refcount", "(FileHandle).Remove", token.NoPos, "anchor not found")
		return
	}
	r.SawFn(fnName(fn))
	var rel []ssa.Instruction
	eachInstr(fn, func(in ssa.Instruction) {
		if ci, ok := in.(ssa.CallInstruction); ok {
			if g := staticCallee(ci.Common()); g != nil && g.Name() == "Clunk" && g.Pkg == fn.Pkg {
				if _, isGo := in.(*ssa.Go); !isGo {
					rel = append(rel, in)
				}
			}
		}
	})
	n := 0
	for _, ret := range returnsOf(fn) {
		n++
		ok := false
		for _, x := range rel {
			if instrDominates(x, ret) {
				ok = true
			}
		}
		r.Check(ok, "refcount", "FileHandle.Remove: the handle's references are released on every exit", ret.Pos(),
			"an exit of Remove is not preceded by the (deferred) Clunk: the fid is gone after a remove, so the references this handle holds on its entry and its parents are never dropped")
	}
	r.Floor("refcount", n, 2, "exits of FileHandle.Remove")
}

// c18DataOwnStorage: the bytes of a file live in storage of its own: Data is only ever nil, made, appended to, or a
// re-slice of itself. A slice of shared storage (a package-level array used as initial capacity) makes every append
// write into the other files' bytes.
func c18DataOwnStorage(r *Run) {
	p := r.P
	n := 0
	var own func(v ssa.Value, d int) bool
	own = func(v ssa.Value, d int) bool {
		if d > 4 {
			return false
		}
		switch x := v.(type) {
		case *ssa.Const:
			return x.Value == nil
		case *ssa.MakeSlice:
			return true
		case *ssa.Slice:
			return own(x.X, d+1)
		case *ssa.Phi:
			for _, e := range x.Edges {
				if !own(e, d+1) {
					return false
				}
			}
			return true
		case *ssa.UnOp:
			if f, ok := x.X.(*ssa.FieldAddr); ok && x.Op == token.MUL && fieldName(f.X.Type(), f.Field) == "Data" {
				return true
			}
		case *ssa.Call:
			if b, ok := x.Call.Value.(*ssa.Builtin); ok && b.Name() == "append" {
				return own(x.Call.Args[0], d+1)
			}
		}
		return false
	}
	for _, fn := range p.FuncsOfPkg("ramfs") {
		eachInstr(fn, func(in ssa.Instruction) {
			st, ok := in.(*ssa.Store)
			if !ok {
				return
			}
			f, ok := st.Addr.(*ssa.FieldAddr)
			if !ok || fieldName(f.X.Type(), f.Field) != "Data" || !strings.HasSuffix(shortType(f.X.Type()), "ramfs.FileEnt") {
				return
			}
			n++
			r.Check(own(st.Val, 0), "data-placement", fnName(fn)+": a file's Data is storage of its own (nil, made, appended to, or a re-slice of itself)", st.Pos(),
				"Data is set to a slice of storage that is not this file's ("+valStr(st.Val)+"): appends write into bytes other files (or other sessions) see")
		})
	}
	r.Floor("data-placement", n, 1, "stores to FileEnt.Data")
}

// c18HandlePath: the handle handed out for a created or walked-to entry carries that entry's own path — the result of
// CreateName / WalkName for this request. Walks containing '..' are validated against the depth of the handle's Path:
// a handle that keeps its parent's (or source's) path refuses legitimate upward walks, or admits walks above the root.
func c18HandlePath(r *Run) {
	p := r.P
	n := 0
	for _, spec := range []struct{ fn, namer string }{{"ramfs:(FileHandle).createImpl", "p9p.CreateName"}, {"ramfs:(FileHandle).Walk", "p9p.WalkName"}} {
		fn := p.Fn(spec.fn)
		if fn == nil {
			continue
		}
		for _, f := range p.withHelpers(fn, 1) {
			if f != fn && !strings.HasPrefix(fnName(f), "(ramfs.FileHandle)") {
				continue
			}
			fa := p.FA(f)
			namers := findCalls(f, spec.namer)
			for _, lit := range allocsOfType(f, "ramfs.FileHandle") {
				flds, _, ok := allocFields(lit)
				if !ok || len(flds) == 0 {
					continue
				}
				pv, has := flds["Path"]
				if !has {
					continue // not a construction (a copy being updated is caught by the return rule below)
				}
				n++
				okP := false
				for _, nc := range namers {
					if pv != nil && stripConv(pv) == resultN(nc, 0) {
						okP = true
					}
				}
				// a helper handed the new path as a parameter: bound at the call site to the namer's result
				if prm, isP := pv.(*ssa.Parameter); isP && f != fn {
					for _, c := range findCalls(fn, fnName(f)) {
						for i, q := range f.Params {
							if q == prm && i < len(c.Call.Args) {
								for _, nc := range findCalls(fn, spec.namer) {
									if stripConv(c.Call.Args[i]) == resultN(nc, 0) {
										okP = true
									}
								}
							}
						}
					}
				}
				r.Check(okP, "handle-path", fnName(f)+": the new handle's Path is the path "+spec.namer+" computed for this request", lit.Pos(),
					"the handle handed out carries a path other than the one computed for the entry it designates: '..' walks from it are validated against the wrong depth")
			}
			// a success return must not hand back (a modified copy of) the receiver: its Path is the old one
			if f == fn && spec.namer == "p9p.CreateName" {
				for _, ret := range returnsOf(f) {
					if len(ret.Results) != 2 || !isNilConst(ret.Results[1]) {
						continue
					}
					s := fa.Sym(ret.Results[0])
					base := s
					for base.Op == "upd" {
						base = base.Args[0]
					}
					r.Check(!strings.HasPrefix(base.K, "p:"+f.Params[0].Name()), "handle-path", fnName(f)+": the handle returned is constructed for the new entry", ret.Pos(),
						"the receiver's own handle is re-pointed and returned: it keeps the parent directory's Path")
				}
			}
		}
	}
	r.Floor("handle-path", n, 2, "FileHandle constructions in createImpl/Walk")
}

func allocsOfType(fn *ssa.Function, typ string) []*ssa.Alloc {
	var out []*ssa.Alloc
	eachInstr(fn, func(in ssa.Instruction) {
		if a, ok := in.(*ssa.Alloc); ok {
			if pt, ok := a.Type().Underlying().(*types.Pointer); ok && strings.HasSuffix(shortType(pt.Elem()), typ) {
				out = append(out, a)
			}
		}
	})
	return out
}
