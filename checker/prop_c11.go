package main

import (
	"fmt"
	"go/token"
	"go/types"
	"sort"
	"strings"

	"golang.org/x/tools/go/ssa"
)

func init() { register("C11", checkC11) }

// componentFuncs: methods whose receiver is *<typ> (package p9p) and all closures nested in them.
func componentFuncs(p *Prog, typ string) []*ssa.Function {
	var out []*ssa.Function
	for _, fn := range p.FuncsOfPkg("p9p") {
		root := fn
		for root.Parent() != nil {
			root = root.Parent()
		}
		if root.Signature.Recv() != nil && isP9P(root.Signature.Recv().Type(), typ) {
			out = append(out, fn)
		}
	}
	// plain helper functions that are only ever called from the component (code extracted from its methods)
	in := map[*ssa.Function]bool{}
	for _, f := range out {
		in[f] = true
	}
	for changed := true; changed; {
		changed = false
		for _, fn := range p.FuncsOfPkg("p9p") {
			if in[fn] || fn.Parent() != nil || fn.Signature.Recv() != nil {
				continue
			}
			sites, exact := p.staticCallSites(fn)
			if !exact || len(sites) == 0 {
				continue
			}
			all := true
			for _, c := range sites {
				if !in[c.Parent()] {
					all = false
				}
			}
			if all {
				in[fn] = true
				out = append(out, fn)
				changed = true
			}
		}
	}
	return out
}

func isTermProv(prov string) bool {
	return strings.HasPrefix(prov, "done:") || prov == "field:conn.closed" || prov == "field:transport.closed" || prov == "field:transport.shutdown" || prov == "field:channel.closed"
}

func hasDataCase(op ChanOp) bool {
	for _, c := range op.Cases {
		if !isTermProv(c.Prov) {
			return true
		}
	}
	return false
}

func checkC11(r *Run) {
	p := r.P
	r.Decides = append(r.Decides,
		"every blocking channel operation of the server connection (serve loop, reader, writer, per-request goroutine) that involves a data channel is a select containing the receive on conn.closed, so it wakes up when either I/O loop records a fatal error",
		"conn.closed is closed only inside the sync.Once closure of CloseWithError and never sent on; every exit of the reader and the writer loop is preceded by CloseWithError or is the <-closed case",
		"every per-request context derives from the connection context, its cancel func is stored in the tag table before the handler goroutine starts, serve defers (before its loop) a closure that cancels every entry of the table, and table entries are deleted only after cancel or when the completion has been received",
		"ServeConn calls handler.Stop exactly once, outside any loop, with serve's result, and every return after serve passes through it",
		"no explicit panic is CHA-reachable from serve/read/write, the message dispatcher and the session (the two panics in size9p are machine-checked dead); slice/make obligations of the dispatcher hold under the Session.Read contract",
		"session.Stop visits every fid and releases it through the unbind-lock-release helper (shared with C13/C14)")
	r.NotDecided = append(r.NotDecided, "'within bounded time' and fault timing as dynamic statements", "handlers that ignore cancellation", "that handler goroutines have finished when Stop runs (reported as known finding: join-or-refuse)")
	r.Trusted = append(r.Trusted, "context, sync.Once semantics")

	connFns := componentFuncs(p, "conn")
	r.Floor("anchor", len(connFns), 6, "functions of the conn component")
	for _, f := range connFns {
		r.SawFn(fnName(f))
	}

	// A. wake-up case in every blocking op
	nSel := 0
	for _, fn := range connFns {
		for _, op := range chanOps(fn) {
			if !op.Blocking {
				continue
			}
			nSel++
			key := fmt.Sprintf("%s: %s", fnName(fn), op.String())
			if !hasDataCase(op) {
				r.OkTrivial("select-wakeup", key, op.In.Pos())
				continue
			}
			if op.Kind != "select" {
				r.Bad("select-wakeup", key, op.In.Pos(), "a plain blocking "+op.Kind+" on a data channel in the server connection cannot be woken by shutdown")
				continue
			}
			r.Check(op.hasRecv("field:conn.closed"), "select-wakeup", key, op.In.Pos(),
				"blocking select without the <-conn.closed case: after an I/O error closes the connection this operation can block for ever (ServeConn never returns, Stop never runs)")
		}
	}
	r.Floor("select-wakeup", nSel, 5, "blocking channel operations in the conn component")

	// B. close discipline
	nClose := 0
	for _, fn := range p.FuncsOfPkg("p9p") {
		for _, cs := range closeSites(fn) {
			if cs.Prov != "field:conn.closed" {
				continue
			}
			nClose++
			inOnce := runsOnlyUnderOnce(p, fn)
			r.Check(inOnce, "close-once", fnName(fn)+": close(conn.closed) under sync.Once", fn.Pos(), "conn.closed can be closed twice (panic: close of closed channel)")
		}
		for _, op := range chanOps(fn) {
			for _, c := range op.Cases {
				if c.Send && c.Prov == "field:conn.closed" {
					r.Bad("close-once", fnName(fn)+": send on conn.closed", op.In.Pos(), "the termination channel is used as a data channel")
				}
			}
		}
	}
	r.Floor("close-once", nClose, 1, "close(conn.closed) site")

	// C. exit discipline of the I/O loops
	for _, name := range []string{"read", "write"} {
		fn := p.Fn("p9p:(*conn)." + name)
		if fn == nil {
			r.Undecided("io-exit", "(*conn)."+name, token.NoPos, "anchor not found")
			continue
		}
		closes := findCalls(fn, "(*p9p.conn).CloseWithError")
		nRet := 0
		for _, ret := range returnsOf(fn) {
			nRet++
			ok := false
			for _, c := range closes {
				if instrDominates(c, ret) {
					ok = true
				}
			}
			if !ok {
				// the <-closed case of a select
				for _, op := range chanOps(fn) {
					sel, isSel := op.In.(*ssa.Select)
					if !isSel {
						continue
					}
					for i, cs := range op.Cases {
						if !cs.Send && cs.Prov == "field:conn.closed" {
							if b := selectCaseBlock(sel, i); b != nil && (b == ret.Block() || b.Dominates(ret.Block())) {
								ok = true
							}
						}
					}
				}
			}
			if !ok {
				// the loop leaves because a helper of its own reported failure — and that helper records the failure
				// (CloseWithError) before every return carrying that result (`if !c.writeResponse(resp) { return }`)
				for _, cd := range condsAtInstr(ret) {
					nc := normCond(cd)
					hc, isCall := nc.V.(*ssa.Call)
					if !isCall {
						continue
					}
					g := staticCallee(&hc.Call)
					if g == nil || g.Blocks == nil || !p.InModule(g) || g.Signature.Results().Len() != 1 {
						continue
					}
					gcl := findCalls(g, "(*p9p.conn).CloseWithError")
					all, nr := true, 0
					for _, rs := range returnSites(g) {
						k, isK := rs.Results[0].(*ssa.Const)
						if !isK || k.Value == nil {
							all = false
							continue
						}
						if (k.Value.ExactString() == "true") != nc.Truth {
							continue
						}
						nr++
						dom := false
						for _, c := range gcl {
							if rs.DominatedBy(c) {
								dom = true
							}
						}
						if !dom {
							all = false
						}
					}
					if all && nr > 0 {
						ok = true
					}
				}
			}
			r.Check(ok, "io-exit", fmt.Sprintf("(*conn).%s: exit #%d closes the connection (or is the <-closed case)", name, nRet), ret.Pos(),
				"the "+name+" loop can exit without recording the failure: the serve loop keeps waiting on a dead connection")
		}
		r.Floor("io-exit", nRet, 2, "exits of conn."+name)
		// I/O errors: every ReadFcall/WriteFcall failure path either continues (temporary) or closes
		var ioCalls []*ssa.Call
		for _, f := range p.withHelpers(fn, 1) {
			ioCalls = append(ioCalls, findCalls(f, "invoke p9p.Channel.ReadFcall", "invoke p9p.Channel.WriteFcall")...)
		}
		for _, c := range ioCalls {
			e := errResult(c)
			r.Check(e != nil && len(referrers(e)) > 0, "io-exit", fmt.Sprintf("(*conn).%s: I/O error is examined", name), c.Pos(), "I/O errors are ignored")
		}
	}

	onlyTerminationChannelsClosed(r, connFns, "close-once")
	ioDeadlineArmed(r, "io-deadline")
	c11RetryOnlyTransient(r, p, "io-retry", connFns, "a failed read/write is treated as temporary although the error is not a transient net.Error: the loop spins or drops replies for ever, the connection is never closed, serve never returns and Stop never runs")
	c11CancelAll(r, p)
	c11StopOnce(r, p)

	// F. panic reach
	roots := []*ssa.Function{p.Fn("p9p:ServeConn"), p.Fn("p9p:(*conn).serve"), p.Fn("p9p:(*conn).read"), p.Fn("p9p:(*conn).write"), p.Fn("p9p:(sessionHandler).Handle"), p.Fn("p9p:(sessionHandler).Stop")}
	roots = append(roots, sessionMethods(p)...)
	for _, rt := range roots {
		if rt == nil {
			r.Undecided("panic-reach", "server entry points", token.NoPos, "an entry point was not found")
		}
	}
	sites, nReach := explicitPanics(p, roots)
	for _, s := range sites {
		key := fmt.Sprintf("%s: explicit panic", fnName(s.Fn))
		if ok, why := reviewedDeadPanic(p, s); ok {
			r.Ok("panic-reach", key+" (dead: "+why+")", s.In.Pos(), pathString(s.Path))
		} else {
			r.Bad("panic-reach", key, s.In.Pos(), "explicit panic reachable from the server: "+pathString(s.Path)+" "+why)
		}
	}
	r.OkTrivial("panic-reach", fmt.Sprintf("server scope: %d module functions reachable (CHA), %d explicit panic sites examined", nReach, len(sites)), token.NoPos)
	r.Floor("panic-reach", nReach, 40, "functions reachable from the server entry points")

	// G. dispatcher bounds
	if h := p.Fn("p9p:(sessionHandler).Handle"); h != nil {
		n := 0
		for _, f := range p.withHelpers(h, 1) {
			n += dischargeBounds(r, f, "bounds", nil)
		}
		r.Floor("bounds", n, 2, "slice/make obligations in the dispatcher")
	}

	// H. session.Stop (shared engines)
	ts, _ := runSessionTypestate(p, true)
	c13Stop(r, ts)
	// "every entry the session held has been released exactly once": Stop releases what the fid table holds — an entry
	// that an operation left bound in a fid it removed from the table, or released but left stored, is released twice or
	// never. The ownership rules of C13 are necessary conditions here too.
	{
		keys := []string{}
		for k := range ts.viol {
			keys = append(keys, k)
		}
		sort.Strings(keys)
		nBad := 0
		for _, k := range keys {
			if v := ts.viol[k]; strings.HasPrefix(v.rule, "own/") && v.rule != "own/stop" {
				nBad++
				r.Bad("own/paths", v.key+" ["+v.rule+"]", v.pos, v.reason)
			}
		}
		if nBad == 0 {
			r.Ok("own/paths", "session operations: ownership rules hold on every explored path (shared with C13)", token.NoPos, fmt.Sprintf("%d release events, %d create sites interpreted", ts.releaseSites, ts.createSites))
		}
		r.Floor("own/paths", ts.releaseSites, 3, "release events interpreted")
	}
	// Stop takes the lock of every fid it releases: an operation that returns with a fid lock still held makes
	// Stop — and with it ServeConn — wait for ever
	{
		tsL, fnsL := runSessionTypestate(p, false)
		lockPairingInto(r, tsL, fnsL, "stop-can-lock")
	}
	akeys := []string{}
	for k := range ts.acc {
		akeys = append(akeys, k)
	}
	sort.Strings(akeys)
	for _, k := range akeys {
		a := ts.acc[k]
		if strings.HasPrefix(k, "p9p.Stop$") || strings.HasPrefix(k, "(*p9p.session).Stop") || strings.HasPrefix(k, "(*p9p.session).delRef") {
			if a.ok {
				r.Ok("stop-under-lock", a.key, a.pos)
			} else {
				r.Bad("stop-under-lock", a.key, a.pos, a.why)
			}
		}
	}
	for k, v := range ts.viol {
		if strings.Contains(v.key, "Stop") {
			r.Bad("stop-under-lock", v.key+" ["+v.rule+"]", v.pos, v.reason)
			_ = k
		}
	}

	c11JoinOrRefuse(r, p)
}

// D. cancellation of every in-flight handler
func c11CancelAll(r *Run, p *Prog) {
	serve := p.Fn("p9p:(*conn).serve")
	if serve == nil {
		r.Undecided("cancel-all", "(*conn).serve", token.NoPos, "anchor not found")
		return
	}
	// the tag table: the local map of *activeRequest
	var tags *ssa.Alloc
	eachInstr(serve, func(in ssa.Instruction) {
		if a, ok := in.(*ssa.Alloc); ok && strings.Contains(shortType(a.Type()), "reqMap") {
			tags = a
		}
	})
	var tagsMap *ssa.MakeMap
	eachInstr(serve, func(in ssa.Instruction) {
		if m, ok := in.(*ssa.MakeMap); ok && strings.Contains(shortType(m.Type()), "reqMap") {
			tagsMap = m
		}
	})
	if tags == nil && tagsMap == nil {
		r.Undecided("cancel-all", "serve: tag table", serve.Pos(), "no local reqMap found")
		return
	}
	isTags := func(v ssa.Value) bool {
		if tagsMap != nil && v == ssa.Value(tagsMap) {
			return true
		}
		u, ok := v.(*ssa.UnOp)
		return ok && u.Op == token.MUL && tags != nil && u.X == tags
	}
	// every WithCancel derives from c.ctx and its cancel func reaches the table before `go`
	wcs := findCalls(serve, "context.WithCancel", "context.WithTimeout", "context.WithDeadline")
	r.Floor("cancel-all", len(wcs), 1, "context.WithCancel in serve")
	for _, wc := range wcs {
		r.Check(ctxProv(wc.Call.Args[0], 0) == "field:conn.ctx", "cancel-all", "serve: request context derives from the connection context", wc.Pos(),
			"the handler's context is not a child of the connection's context: cancelling the server does not cancel the handler")
		cancel := resultN(wc, 1)
		ctxv := resultN(wc, 0)
		stored := false
		var update *ssa.MapUpdate
		if cancel != nil {
			for _, ref := range referrers(cancel) {
				st, ok := ref.(*ssa.Store)
				if !ok {
					continue
				}
				fa, ok := st.Addr.(*ssa.FieldAddr)
				if !ok || !isP9P(fa.X.Type(), "activeRequest") {
					continue
				}
				// the literal is put into the table
				for _, r2 := range referrers(fa.X) {
					if mu, ok := r2.(*ssa.MapUpdate); ok && isTags(mu.Map) && mu.Value == fa.X {
						stored = true
						update = mu
					}
				}
			}
		}
		r.Check(stored, "cancel-all", "serve: cancel func recorded in the tag table", wc.Pos(), "the cancel function is not stored in the table: shutdown and flush cannot cancel this handler")
		// the goroutine started with this ctx starts after the table update
		nGo := 0
		eachInstr(serve, func(in ssa.Instruction) {
			g, ok := in.(*ssa.Go)
			if !ok {
				return
			}
			uses := false
			for _, a := range g.Call.Args {
				if a == ctxv {
					uses = true
				}
			}
			if !uses {
				return
			}
			nGo++
			r.Check(update != nil && instrDominates(update, g), "cancel-all", "serve: handler goroutine starts after its table entry exists", g.Pos(),
				"the handler is started before its cancel func is recorded: a shutdown in between leaves it uncancelled")
		})
		r.Floor("cancel-all", nGo, 1, "handler goroutine using the request context")
	}
	// deferred cancel loop, registered before the loop starts
	okDefer := false
	eachInstr(serve, func(in ssa.Instruction) {
		d, ok := in.(*ssa.Defer)
		if !ok {
			return
		}
		var cl *ssa.Function
		captures := false
		if mc, ok := d.Call.Value.(*ssa.MakeClosure); ok {
			for _, b := range mc.Bindings {
				if tags != nil && b == ssa.Value(tags) {
					captures = true
				}
			}
			cl = mc.Fn.(*ssa.Function)
		} else if g := staticCallee(&d.Call); g != nil && g.Blocks != nil {
			// the loop moved into a helper that is handed the table (defer tags.cancelAll())
			for _, a := range d.Call.Args {
				if strings.Contains(shortType(a.Type()), "reqMap") {
					captures = true
				}
			}
			cl = g
		}
		if cl == nil || !captures || d.Block().Index != 0 {
			return
		}
		hasRange, hasCancel := false, false
		eachInstr(cl, func(in2 ssa.Instruction) {
			switch x := in2.(type) {
			case *ssa.Range:
				hasRange = true
			case *ssa.Call:
				if u, ok := x.Call.Value.(*ssa.UnOp); ok && u.Op == token.MUL {
					if fa, ok := u.X.(*ssa.FieldAddr); ok && fieldName(fa.X.Type(), fa.Field) == "cancel" {
						if inLoop(x) {
							hasCancel = true
						}
					}
				}
			}
		})
		if hasRange && hasCancel {
			okDefer = true
		}
	})
	r.Check(okDefer, "cancel-all", "serve: deferred closure cancels every entry of the tag table on exit", serve.Pos(),
		"serve can return without cancelling the contexts of in-flight handlers")
	// deletions from the table
	nDel := 0
	for _, fn := range p.FuncsOfPkg("p9p") {
		eachInstr(fn, func(in ssa.Instruction) {
			c, ok := in.(*ssa.Call)
			if !ok {
				return
			}
			b, ok := c.Call.Value.(*ssa.Builtin)
			if !ok || b.Name() != "delete" || !strings.Contains(shortType(c.Call.Args[0].Type()), "reqMap") {
				return
			}
			nDel++
			ok2 := false
			why := ""
			// (a) after cancel of the same entry
			eachInstr(fn, func(in2 ssa.Instruction) {
				if c2, ok := in2.(*ssa.Call); ok {
					if u, ok := c2.Call.Value.(*ssa.UnOp); ok && u.Op == token.MUL {
						if fa, ok := u.X.(*ssa.FieldAddr); ok && fieldName(fa.X.Type(), fa.Field) == "cancel" && instrDominates(c2, c) {
							ok2 = true
						}
					}
				}
			})
			// (b) in the branch that received the completion
			if !ok2 && fn == serve {
				for _, op := range chanOps(serve) {
					sel, isSel := op.In.(*ssa.Select)
					if !isSel {
						continue
					}
					for i, cs := range op.Cases {
						isCompl := strings.HasPrefix(cs.Prov, "local:completed")
						if ct, okc := cs.Chan.Type().Underlying().(*types.Chan); okc && strings.Contains(shortType(ct.Elem()), "completion") {
							isCompl = true // the channel of handler completions, whatever its binding form
						}
						if !cs.Send && isCompl {
							if blk := selectCaseBlock(sel, i); blk != nil && (blk == c.Block() || blk.Dominates(c.Block())) {
								ok2 = true
							}
						}
					}
				}
				why = "a table entry is deleted while its handler may still run and was not cancelled"
			}
			// (b') in the helper the completion arm hands the completion, the table and the responses channel to
			if !ok2 && fn != serve {
				if sp := resolveServe(&Run{P: p, Prop: r.Prop, FnsSeen: map[string]bool{}}); sp != nil {
					if sc := completionScope(p, sp); sc.call != nil && sc.fn == fn {
						ok2 = true
					}
				}
			}
			r.Check(ok2, "cancel-all", fnName(fn)+": table entry deleted only after cancel or on completion", c.Pos(), why)
		})
	}
	r.Floor("cancel-all", nDel, 2, "deletions from the tag table")
}

// E. Stop exactly once after serve
func c11StopOnce(r *Run, p *Prog) {
	sc := p.Fn("p9p:ServeConn")
	if sc == nil {
		r.Undecided("stop-once", "ServeConn", token.NoPos, "anchor not found")
		return
	}
	serves := findCalls(sc, "(*p9p.conn).serve")
	stops := findCalls(sc, "invoke p9p.Handler.Stop")
	r.Check(len(stops) == 1, "stop-once", "ServeConn: exactly one handler.Stop call site", sc.Pos(), fmt.Sprintf("%d call sites of handler.Stop", len(stops)))
	r.Check(len(serves) == 1, "stop-once", "ServeConn: exactly one serve call", sc.Pos(), fmt.Sprintf("%d calls of serve", len(serves)))
	if len(stops) != 1 || len(serves) != 1 {
		return
	}
	stop, serve := stops[0], serves[0]
	r.Check(!inLoop(stop), "stop-once", "ServeConn: Stop is not in a loop", stop.Pos(), "Stop can run more than once")
	r.Check(instrDominates(serve, stop), "stop-once", "ServeConn: Stop runs after serve returned", stop.Pos(), "Stop can run before/without serving")
	for _, ret := range returnsOf(sc) {
		if canReach(serve, ret) {
			r.Check(instrDominates(stop, ret), "stop-once", "ServeConn: every return after serve passes through Stop", ret.Pos(),
				"ServeConn can return after serving without running the stop callback (fids are never released)")
		}
	}
	r.Check(stop.Call.Args[0] == ssa.Value(serve), "stop-once", "ServeConn: Stop receives serve's result", stop.Pos(), "Stop is not given the terminal error of serve")
	// no deferred/go'ed Stop elsewhere
	n := 0
	for _, fn := range p.FuncsOfPkg("p9p") {
		eachInstr(fn, func(in ssa.Instruction) {
			if c, ok := in.(ssa.CallInstruction); ok && calleeName(c.Common()) == "invoke p9p.Handler.Stop" {
				n++
			}
		})
	}
	r.Check(n == 1, "stop-once", "package p9p: a single call site of Handler.Stop", sc.Pos(), fmt.Sprintf("%d call sites", n))
}

// I. join-or-refuse
func c11JoinOrRefuse(r *Run, p *Prog) {
	serve := p.Fn("p9p:(*conn).serve")
	sc := p.Fn("p9p:ServeConn")
	joined := false
	for _, fn := range []*ssa.Function{serve, sc} {
		if fn == nil {
			continue
		}
		for _, f2 := range withClosures(fn) {
			if len(findCalls(f2, "(*sync.WaitGroup).Wait")) > 0 {
				joined = true
			}
		}
	}
	// or: the placeholder constructor consults a flag that Stop sets
	refused := false
	stop := p.Fn("p9p:(*session).Stop")
	newRef := p.Fn("p9p:(*session).newRef")
	if stop != nil && newRef != nil {
		stored := map[string]bool{}
		for _, f2 := range withClosures(stop) {
			eachInstr(f2, func(in ssa.Instruction) {
				if st, ok := in.(*ssa.Store); ok {
					if fa, ok := st.Addr.(*ssa.FieldAddr); ok && isP9P(fa.X.Type(), "session") {
						stored[fieldName(fa.X.Type(), fa.Field)] = true
					}
				}
				if c, ok := in.(*ssa.Call); ok && strings.HasPrefix(calleeName(&c.Call), "(*sync/atomic.") {
					if fa, ok := c.Call.Args[0].(*ssa.FieldAddr); ok && isP9P(fa.X.Type(), "session") {
						stored[fieldName(fa.X.Type(), fa.Field)] = true
					}
				}
			})
		}
		eachInstr(newRef, func(in ssa.Instruction) {
			if fa, ok := in.(*ssa.FieldAddr); ok && isP9P(fa.X.Type(), "session") && stored[fieldName(fa.X.Type(), fa.Field)] {
				refused = true
			}
		})
	}
	pos := token.NoPos
	if serve != nil {
		pos = serve.Pos()
	}
	r.Check(joined || refused, "join-or-refuse", "serve/Stop: handler goroutines are joined before Stop, or binding is refused after Stop", pos,
		"handler goroutines are cancelled but not awaited, and newRef does not consult a stopped flag: a handler that starts (or is still running) after Stop can bind a fid that is never released")
}

// ---- only transient network errors are retried -------------------------------------------------------------------
//
// After a failed ReadFcall/WriteFcall the I/O loop either records the failure (CloseWithError) or goes round again.
// Going round again is only right for an error that is a net.Error reporting Timeout() or Temporary(): any other
// error (a closed pipe, a codec error, a wrapped transport's plain error) will not go away, and a loop that treats
// it as temporary never closes the connection — serve never returns and Stop never runs.
// The rule enumerates the CFG paths from the error edge back to the loop and requires each to carry both literals.

// transientConds: the branch literals say `e` is a net.Error (assertion ok) with Timeout() or Temporary() true.
func transientConds(p *Prog, conds []Cond, e ssa.Value, depth int) bool {
	var asserted ssa.Value
	okAssert := false
	for _, cd := range conds {
		nc := normCond(cd)
		if ex, ok := nc.V.(*ssa.Extract); ok && ex.Index == 1 && nc.Truth {
			if ta, ok := ex.Tuple.(*ssa.TypeAssert); ok && ta.X == e && strings.HasSuffix(shortType(ta.AssertedType), "net.Error") {
				okAssert = true
				asserted = resultN(ta, 0)
			}
		}
		// a predicate helper that is true only for transient network errors
		if c, ok := nc.V.(*ssa.Call); ok && nc.Truth && depth < 2 {
			if g := staticCallee(&c.Call); g != nil && g.Blocks != nil && p.InModule(g) {
				for k, a := range c.Call.Args {
					if a == e && transientPred(p, g, k, depth+1) {
						return true
					}
				}
			}
		}
	}
	if !okAssert {
		return false
	}
	for _, cd := range conds {
		nc := normCond(cd)
		if c, ok := nc.V.(*ssa.Call); ok && nc.Truth && c.Call.IsInvoke() && (c.Call.Method.Name() == "Timeout" || c.Call.Method.Name() == "Temporary") {
			if asserted == nil || c.Call.Value == asserted {
				return true
			}
		}
	}
	return false
}

// transientPred: g returns bool and every way of returning true carries the transient-error literals for parameter k.
func transientPred(p *Prog, g *ssa.Function, k int, depth int) bool {
	if k >= len(g.Params) || g.Signature.Results().Len() != 1 {
		return false
	}
	prm := g.Params[k]
	n := 0
	var check func(val ssa.Value, conds []Cond, d int) bool
	check = func(val ssa.Value, conds []Cond, d int) bool {
		if d > 5 {
			return false
		}
		if c, ok := val.(*ssa.Const); ok {
			if c.Value != nil && c.Value.String() == "false" {
				return true
			}
			n++
			return transientConds(p, conds, prm, depth)
		}
		if ph, ok := val.(*ssa.Phi); ok {
			for i, e := range ph.Edges {
				pred := ph.Block().Preds[i]
				cs := append(append([]Cond{}, conds...), condsAt(pred)...)
				if ifi, ok := pred.Instrs[len(pred.Instrs)-1].(*ssa.If); ok && pred.Succs[0] != pred.Succs[1] {
					for si := 0; si < 2; si++ {
						if pred.Succs[si] == ph.Block() {
							cs = append(cs, normCond(Cond{ifi.Cond, si == 0}))
						}
					}
				}
				if !check(e, cs, d+1) {
					return false
				}
			}
			return true
		}
		n++
		return transientConds(p, append(append([]Cond{}, conds...), Cond{val, true}), prm, depth)
	}
	for _, ret := range returnsOf(g) {
		if !check(ret.Results[0], condsAtInstr(ret), 0) {
			return false
		}
	}
	return n > 0
}

func c11RetryOnlyTransient(r *Run, p *Prog, rule string, fns []*ssa.Function, what string) {
	n := 0
	for _, fn := range fns {
		for _, c := range findCalls(fn, "invoke p9p.Channel.ReadFcall", "invoke p9p.Channel.WriteFcall") {
			e := errResult(c)
			if e == nil {
				continue
			}
			n++
			// the loop this call sits in
			var header *ssa.BasicBlock
			for _, b := range fn.Blocks {
				if isLoopHeader(b) && naturalLoop(b)[c.Block()] {
					if header == nil || naturalLoop(header)[b] {
						header = b // innermost
					}
				}
			}
			key := fmt.Sprintf("%s: a failed %s is retried only for a transient network error", fnName(fn), c.Call.Method.Name())
			if header == nil {
				r.OkTrivial(rule, key+" (no retry loop)", c.Pos())
				continue
			}
			body := naturalLoop(header)
			// walk the paths from the call's block on which the error is non-nil
			bad := ""
			paths := 0
			var walk func(b *ssa.BasicBlock, conds []Cond, seen map[*ssa.BasicBlock]bool, first bool)
			walk = func(b *ssa.BasicBlock, conds []Cond, seen map[*ssa.BasicBlock]bool, first bool) {
				if bad != "" || paths > 200 {
					return
				}
				if !first {
					if b == header || !body[b] {
						if b == header {
							paths++
							// a retry: the error must be known non-nil on this path for it to matter
							nonNil := false
							for _, cd := range conds {
								if nilTestOf(cd, e) == -1 {
									nonNil = true
								}
							}
							if nonNil && !transientConds(p, conds, e, 0) {
								bad = condStr(conds)
							}
						}
						return
					}
					if seen[b] {
						return
					}
				}
				seen[b] = true
				defer delete(seen, b)
				// a path that records the failure is fine wherever it goes next
				for _, in := range b.Instrs {
					if cc, ok := in.(*ssa.Call); ok && strings.HasSuffix(calleeName(&cc.Call), ".CloseWithError") || isCloseCall(in) {
						if !first || in.Pos() > c.Pos() {
							return
						}
					}
				}
				if len(b.Instrs) == 0 {
					return
				}
				switch t := b.Instrs[len(b.Instrs)-1].(type) {
				case *ssa.If:
					walk(b.Succs[0], append(append([]Cond{}, conds...), normCond(Cond{t.Cond, true})), seen, false)
					walk(b.Succs[1], append(append([]Cond{}, conds...), normCond(Cond{t.Cond, false})), seen, false)
				case *ssa.Return, *ssa.Panic:
				default:
					for _, sc := range b.Succs {
						walk(sc, conds, seen, false)
					}
				}
			}
			walk(c.Block(), nil, map[*ssa.BasicBlock]bool{}, true)
			r.Check(bad == "", rule, key, c.Pos(),
				what+" ["+bad+"]")
		}
	}
	r.Floor(rule, n, 1, "I/O calls in the loops")
}

func isCloseCall(in ssa.Instruction) bool {
	c, ok := in.(*ssa.Call)
	if !ok {
		return false
	}
	n := calleeName(&c.Call)
	return n == "(*p9p.transport).close" || n == "(*p9p.conn).Close"
}

// onlyTerminationChannelsClosed: in the component, close() is applied only to the termination channels (closed,
// shutdown, done): data channels have senders in other goroutines, and a send on a closed channel panics.
func onlyTerminationChannelsClosed(r *Run, fns []*ssa.Function, rule string) {
	n := 0
	for _, fn := range fns {
		for _, cs := range closeSites(fn) {
			n++
			r.Check(isTermProv(cs.Prov), rule, fnName(fn)+": close() only on a termination channel ("+cs.Prov+")", fn.Pos(),
				"a data channel is closed while other goroutines may still send on it: send on closed channel panics the process")
		}
	}
	_ = n
}

// runsOnlyUnderOnce: fn is executed only as the function handed to (*sync.Once).Do — a closure literal passed to it,
// or a method whose only use in the package is as a bound method value passed to it.
func runsOnlyUnderOnce(p *Prog, fn *ssa.Function) bool {
	if fn.Parent() != nil {
		ok := false
		eachInstr(fn.Parent(), func(in ssa.Instruction) {
			if c, isC := in.(*ssa.Call); isC && calleeName(&c.Call) == "(*sync.Once).Do" {
				if mc, isMC := c.Call.Args[1].(*ssa.MakeClosure); isMC && mc.Fn == fn {
					ok = true
				}
			}
		})
		return ok
	}
	// a named function: every use is a plain static call from a function that itself runs only under the Once …
	if sites, exact := p.staticCallSites(fn); exact && len(sites) > 0 {
		all := true
		for _, c := range sites {
			if c.Parent() == fn || !runsOnlyUnderOnce(p, c.Parent()) {
				all = false
			}
		}
		if all {
			return true
		}
	}
	// … or every reference is a bound-method closure handed to once.Do
	nRef, ok := 0, true
	for _, f := range p.FuncsOfPkg("p9p") {
		eachInstr(f, func(in ssa.Instruction) {
			// direct uses of fn
			for _, op := range in.Operands(nil) {
				if op != nil && *op == ssa.Value(fn) {
					nRef++
					ok = false // called or referenced directly
				}
			}
			// bound method wrappers
			mc, isMC := in.(*ssa.MakeClosure)
			if !isMC {
				return
			}
			w, isF := mc.Fn.(*ssa.Function)
			if !isF || w.Synthetic == "" || w.Object() == nil || w.Object() != fn.Object() {
				return
			}
			nRef++
			passed := false
			for _, rf := range referrers(mc) {
				if c, isC := rf.(*ssa.Call); isC && calleeName(&c.Call) == "(*sync.Once).Do" && len(c.Call.Args) == 2 && c.Call.Args[1] == ssa.Value(mc) {
					passed = true
				} else {
					ok = false
				}
			}
			if !passed {
				ok = false
			}
		})
	}
	return ok && nRef > 0
}
