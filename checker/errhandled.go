package main

// errors-handled: in the files a property is anchored in, no error produced by the library's own functions, by a
// method of one of its interfaces (Session, Dirent, File, FileSys, Channel, Codec, Handler) or by the framing I/O
// (io, bufio, encoding/binary) is dropped: the error result is bound and used (returned, tested, wrapped, sent,
// logged). The sites where today's tree drops one on purpose are listed below with the reason; anything else —
// `_ = f()`, a result assigned and overwritten, a new `defer x.Clunk()` — is reported. A dropped error on these paths
// turns a failed step into a silent success, which each of the properties rules out in its own terms.

import (
	"fmt"
	"go/token"
	"go/types"
	"sort"
	"strings"

	"golang.org/x/tools/go/ssa"
)

var anchorFiles = map[string][]string{
	"C01": {"encoding.go", "messages.go", "fcall.go", "types.go", "errors.go"},
	"C02": {"channel.go", "overflow.go", "encoding.go"},
	"C03": {"channel.go", "encoding.go"},
	"C04": {"encoding.go", "messages.go"},
	"C05": {"transport.go", "csession.go"},
	"C06": {"serveconn.go", "ssesssion.go", "fcall.go"},
	"C07": {"serveconn.go"},
	"C08": {"sfilesys.go", "path.go", "filesys.go"},
	"C09": {"csession.go", "ssesssion.go", "transport.go", "serveconn.go", "channel.go", "encoding.go"},
	"C10": {"version.go", "channel.go", "serveconn.go", "csession.go", "ssesssion.go"},
	"C11": {"serveconn.go", "sfilesys.go", "ssesssion.go"},
	"C12": {"transport.go", "csession.go", "channel.go"},
	"C13": {"sfilesys.go", "filesys.go"},
	"C14": {"sfilesys.go"},
	"C15": {"ufs/filesys.go", "ufs/dirent.go", "path.go", "sfilesys.go"},
	"C16": {"path.go"},
	"C17": {"readdir.go", "cfilesys.go", "sfilesys.go", "encoding.go"},
	"C18": {"ramfs/dirent.go", "ramfs/inode.go", "ramfs/filesys.go"},
	"C19": {"ufs/dirent.go", "ufs/util.go", "ufs/filesys.go"},
	"C20": {"cfilesys.go", "path.go", "csession.go"},
}

// reviewed drops: "<function>|<callee>" → why the error is deliberately not used there
var reviewedDrops = map[string]string{
	"(ramfs.FileHandle).Remove|(ramfs.FileHandle).Clunk": "Remove implies clunk (deferred); ramfs Clunk cannot fail",
	"(*p9p.conn).read|(*p9p.conn).CloseWithError":        "CloseWithError returns the first recorded error, informational",
	"(*p9p.conn).write|(*p9p.conn).CloseWithError":       "CloseWithError returns the first recorded error, informational",
	"(*p9p.session).Walk|invoke p9p.Dirent.Clunk":        "in-place walk: the replaced entry's clunk error has nobody to go to (the walk itself succeeded)",
	"(*p9p.session).Create|p9p.delRefAction":             "rollback after a failed open of a created directory: the open's error is the one reported",
	"p9p.Stop$1|(*p9p.session).delRef":                   "Stop releases every fid; individual clunk errors cannot be reported to anyone",
	"(*ufs.FileRef).Remove|(*ufs.FileRef).Clunk":         "Remove implies clunk; the remove's own error is the one reported",
}

func errorsHandled(r *Run) {
	p := r.P
	files := map[string]bool{}
	for _, f := range anchorFiles[r.Prop] {
		files[f] = true
	}
	if len(files) == 0 {
		return
	}
	inScope := func(c *ssa.CallCommon) bool {
		if c.IsInvoke() {
			t := shortType(c.Value.Type())
			return strings.HasPrefix(t, "p9p.") || strings.HasPrefix(t, "ufs.") || strings.HasPrefix(t, "ramfs.") || t == "io.Reader" || t == "io.Writer"
		}
		if f := staticCallee(c); f != nil {
			if p.InModule(f) {
				return true
			}
			if f.Pkg != nil {
				switch f.Pkg.Pkg.Path() {
				case "io", "bufio", "encoding/binary":
					return true
				}
			}
		}
		return false
	}
	nCalls := 0
	type drop struct {
		key, what string
		pos       token.Pos
	}
	var drops []drop
	seenOK := map[string]bool{}
	for _, pk := range []string{"p9p", "ufs", "ramfs"} {
		for _, fn := range p.FuncsOfPkg(pk) {
			if !files[p.FileOf(fn.Pos())] {
				continue
			}
			fn := fn
			eachInstr(fn, func(in ssa.Instruction) {
				c, ok := in.(ssa.CallInstruction)
				if !ok {
					return
				}
				sig := c.Common().Signature()
				if sig == nil || sig.Results().Len() == 0 || !isErrorType(sig.Results().At(sig.Results().Len()-1).Type()) || !inScope(c.Common()) {
					return
				}
				nCalls++
				kind := ""
				switch x := in.(type) {
				case *ssa.Defer:
					kind = "deferred, result lost"
				case *ssa.Go:
					kind = "started with go, result lost"
				case *ssa.Call:
					e := errResult(x)
					if e == nil {
						kind = "error result discarded"
					} else if len(referrers(e)) == 0 {
						kind = "error result never used"
					}
				}
				if kind == "" {
					return
				}
				calleeKey := calleeName(c.Common())
				if g := staticCallee(c.Common()); g != nil && isReleaseHelper(g) {
					calleeKey = "p9p.delRefAction" // the release helper, whatever it is called
				}
				k := fnName(fn) + "|" + calleeKey
				why, ok := reviewedDrops[k]
				if !ok {
					// the same drop moved into an unexported helper that only the reviewed function calls
					root := fn
					for root.Parent() != nil {
						root = root.Parent()
					}
					if sites, exact := p.staticCallSites(root); exact && len(sites) > 0 {
						all := true
						w := ""
						for _, cs := range sites {
							caller := cs.Parent()
							for caller.Parent() != nil {
								caller = caller.Parent()
							}
							w2, ok2 := reviewedDrops[fnName(caller)+"|"+calleeKey]
							if !ok2 {
								all = false
							}
							w = w2
						}
						if all {
							why, ok = w+" (in a helper only that function calls)", true
						}
					}
				}
				if ok {
					if !seenOK[k] {
						seenOK[k] = true
						r.Ok("errors-handled", k+" (reviewed drop)", in.Pos(), why)
					}
					return
				}
				drops = append(drops, drop{k, kind, in.Pos()})
			})
		}
	}
	sort.Slice(drops, func(i, j int) bool { return drops[i].key < drops[j].key })
	for _, d := range drops {
		r.Bad("errors-handled", d.key, d.pos, "the error of this call is dropped ("+d.what+"): a failed step is treated as success")
	}
	if len(drops) == 0 {
		r.Ok("errors-handled", fmt.Sprintf("all %d error-returning calls (module functions, module interfaces, framing I/O) in %s use their error", nCalls, strings.Join(anchorFiles[r.Prop], ", ")), token.NoPos)
	}
}

// errorGatesSuccess: in fn, no path leads from a step that returned an error to a success return (nil error) without
// passing the e == nil edge of a test of that error. A test such as `err != nil && err != io.EOF` lets the listed
// sentinel through: the step failed, its output is incomplete, and the function goes on to report success.
// Calls whose error is never looked at are left to the errors-handled rule (which has a reviewed list).
// Returns the number of steps examined.
func errorGatesSuccess(r *Run, fn *ssa.Function, rule string) int {
	n := 0
	ord := map[string]int{}
	isSuccess := func(ret *ssa.Return) bool {
		if len(ret.Results) == 0 {
			return false
		}
		last := ret.Results[len(ret.Results)-1]
		return isErrorType(last.Type()) && isNilConst(last)
	}
	eachInstr(fn, func(in ssa.Instruction) {
		c, ok := in.(*ssa.Call)
		if !ok {
			return
		}
		e := errResult(c)
		if e == nil || len(referrers(e)) == 0 {
			return
		}
		// a call that also returns a flag (`stop, err := ch.interrupted(ctx)`) reports through the flag: its error is
		// the value to hand back when the flag is set, not the indicator of failure
		if tup, ok := c.Type().(*types.Tuple); ok {
			hasFlag := false
			for i := 0; i < tup.Len(); i++ {
				if b, ok := tup.At(i).Type().Underlying().(*types.Basic); ok && b.Kind() == types.Bool {
					hasFlag = true
				}
			}
			if hasFlag {
				return
			}
		}
		// reviewed: arming an I/O deadline is best effort — the failure is logged and the transfer proceeds without one
		switch calleeName(&c.Call) {
		case "invoke net.Conn.SetReadDeadline", "invoke net.Conn.SetWriteDeadline":
			return
		}
		n++
		ord[calleeName(&c.Call)]++
		// does the condition test e (or a phi merging e) against nil? +1: this edge knows nil, -1: knows non-nil
		testOf := func(cd Cond) int {
			nc := normCond(cd)
			b, ok := nc.V.(*ssa.BinOp)
			if !ok {
				return 0
			}
			for _, side := range []ssa.Value{b.X, b.Y} {
				if side == e {
					return nilTestOf(cd, e)
				}
				if ph, isPhi := side.(*ssa.Phi); isPhi && derivesFrom(ph, e, 3) {
					return nilTestOf(cd, ph)
				}
			}
			return 0
		}
		// a step that decodes into locals of this function only (`element := Dir{}; d.decode(&element)`) may end a
		// sequence on a sentinel error: the partial local is dropped, provided nothing else happens before the return
		localDest := true
		nDest := 0
		for _, a := range c.Call.Args {
			if _, isPtr := a.Type().Underlying().(*types.Pointer); isPtr && a == c.Call.Args[0] && c.Call.Signature().Recv() != nil {
				continue // receiver
			}
			elems := []ssa.Value{a}
			if sl, ok := a.(*ssa.Slice); ok {
				if arr, ok := sl.X.(*ssa.Alloc); ok && arr.Comment == "varargs" {
					elems = varargsElems(a)
				}
			}
			for _, el := range elems {
				el = stripConv(el)
				if mi, ok := el.(*ssa.MakeInterface); ok {
					el = mi.X
				}
				switch el.Type().Underlying().(type) {
				case *types.Pointer, *types.Slice, *types.Interface:
					nDest++
					if _, isAlloc := el.(*ssa.Alloc); !isAlloc {
						localDest = false
					}
				}
			}
		}
		if nDest == 0 {
			localDest = false
		}
		type item struct {
			b     *ssa.BasicBlock
			start int
			dirty bool // something with an effect ran since the step
		}
		seen := map[[2]interface{}]bool{}
		var bad *ssa.Return
		idx := 0
		for i, x := range c.Block().Instrs {
			if x == ssa.Instruction(c) {
				idx = i + 1
			}
		}
		work := []item{{c.Block(), idx, false}}
		for len(work) > 0 && bad == nil {
			it := work[len(work)-1]
			work = work[:len(work)-1]
			if it.start == 0 {
				k := [2]interface{}{it.b, it.dirty}
				if seen[k] {
					continue
				}
				seen[k] = true
			}
			stop := false
			dirty := it.dirty
			for _, x := range it.b.Instrs[it.start:] {
				if x == ssa.Instruction(c) {
					stop = true // the step runs again: a new error value
					break
				}
				switch y := x.(type) {
				case *ssa.Store, *ssa.Send, *ssa.MapUpdate, *ssa.Go, *ssa.Defer:
					dirty = true
				case *ssa.Call:
					dirty = true
				case *ssa.Return:
					if isSuccess(y) && (dirty || !localDest) {
						bad = y
					}
					stop = true
				}
			}
			if stop || bad != nil {
				continue
			}
			if ifi, ok := it.b.Instrs[len(it.b.Instrs)-1].(*ssa.If); ok && it.b.Succs[0] != it.b.Succs[1] {
				for si := 0; si < 2; si++ {
					if testOf(Cond{ifi.Cond, si == 0}) == 1 {
						continue // the e == nil edge: the step succeeded, whatever follows is fine
					}
					work = append(work, item{it.b.Succs[si], 0, dirty})
				}
				continue
			}
			for _, sc := range it.b.Succs {
				work = append(work, item{sc, 0, dirty})
			}
		}
		key := fmt.Sprintf("%s: success only after %s#%d succeeded", fnName(fn), calleeName(&c.Call), ord[calleeName(&c.Call)])
		if bad != nil {
			r.Bad(rule, key, c.Pos(), "a path leads from this step to a success return at "+r.P.Pos(bad.Pos())+
				" without passing the nil edge of a test of its error: a failed (partial) step is reported as success")
		} else {
			r.Ok(rule, key, c.Pos())
		}
	})
	return n
}

// isReleaseHelper: the session's release helper by what it does, not by name: it releases the entry stored in a fid
// (Dirent.Clunk or Dirent.Remove on X.Ent) and then clears it (X.Ent = nil).
func isReleaseHelper(g *ssa.Function) bool {
	if g.Blocks == nil || g.Pkg == nil || g.Pkg.Pkg.Name() != "p9p" {
		return false
	}
	clunk, remove, clears := false, false, false
	eachInstr(g, func(in ssa.Instruction) {
		switch x := in.(type) {
		case *ssa.Call:
			if x.Call.IsInvoke() && isP9P(x.Call.Value.Type(), "Dirent") {
				switch x.Call.Method.Name() {
				case "Clunk":
					clunk = true
				case "Remove":
					remove = true
				}
			}
		case *ssa.Store:
			if f, ok := x.Addr.(*ssa.FieldAddr); ok && fieldName(f.X.Type(), f.Field) == "Ent" && isNilConst(x.Val) {
				clears = true
			}
		}
	})
	return clunk && remove && clears
}

// onlyForwardedErrors: fn refuses its input only because one of its steps failed: every non-nil error it returns is
// (derived from) the error of a call it made. A refusal of its own making (`if n < K { return fmt.Errorf(…) }`) narrows
// what the function accepts below what its steps accept.
func onlyForwardedErrors(r *Run, fn *ssa.Function, rule, what string) int {
	var errs []ssa.Value
	eachInstr(fn, func(in ssa.Instruction) {
		if c, ok := in.(*ssa.Call); ok {
			if e := errResult(c); e != nil {
				if g := staticCallee(&c.Call); g != nil && (fnName(g) == "fmt.Errorf" || fnName(g) == "errors.New") {
					return
				}
				errs = append(errs, e)
			}
		}
	})
	n := 0
	for _, ret := range returnsOf(fn) {
		if len(ret.Results) == 0 {
			continue
		}
		ev := ret.Results[len(ret.Results)-1]
		if !isErrorType(ev.Type()) || isNilConst(ev) {
			continue
		}
		n++
		ok := false
		for _, alt := range phiAlternatives(ev, 3) {
			ok = false
			for _, e := range errs {
				if derivesFrom(alt, e, 4) {
					ok = true
				}
			}
			if !ok {
				break
			}
		}
		r.Check(ok, rule, fnName(fn)+": an error is returned only when a step failed", ret.Pos(),
			what+": the function refuses input with an error of its own making, not because a read or decode step failed")
	}
	return n
}
