package main

// Engine E10: abstract interpretation of path strings in package ufs.
//
//	pTop    anything
//	pEmpty  the empty string
//	pRC     rooted-clean internal path: absolute and equal to its own path.Clean (no ".", "..", "" elements, no backslash when validated)
//	pBase   the export root (load of fServer.Base)
//	pHC     host-confined: filepath.Join(Base, FromSlash(RC or "")) — lexically inside the export root

import (
	"go/constant"
	"go/token"
	"go/types"
	"path"
	"strings"

	"golang.org/x/tools/go/ssa"
)

type pclass int

const (
	pTop pclass = iota
	pEmpty
	pRC
	pBase
	pHC
)

func (c pclass) String() string {
	return [...]string{"unconstrained", "empty", "rooted-clean", "export-root", "host-confined"}[c]
}

func joinClass(a, b pclass) pclass {
	if a == b {
		return a
	}
	return pTop
}

type PT struct {
	p        *Prog
	busy     map[string]bool
	valMemo  map[*ssa.Function]map[int]bool
	notes    []string
	pathType string // struct holding the internal path field ("FileRef")
}

func newPT(p *Prog) *PT {
	return &PT{p: p, busy: map[string]bool{}, valMemo: map[*ssa.Function]map[int]bool{}, pathType: "FileRef"}
}

func isUfsType(t types.Type, name string) bool { return isNamed(t, modPath+"/ufs", name) }

// varargsElems returns the elements stored into a variadic argument array.
func varargsElems(v ssa.Value) []ssa.Value {
	sl, ok := v.(*ssa.Slice)
	if !ok {
		return nil
	}
	arr, ok := sl.X.(*ssa.Alloc)
	if !ok {
		return nil
	}
	n := 0
	if pt, ok := arr.Type().Underlying().(*types.Pointer); ok {
		if at, ok := pt.Elem().Underlying().(*types.Array); ok {
			n = int(at.Len())
		}
	}
	out := make([]ssa.Value, n)
	for _, r := range referrers(arr) {
		ia, ok := r.(*ssa.IndexAddr)
		if !ok {
			continue
		}
		idx, ok := constInt(ia.Index)
		if !ok || int(idx) >= n {
			continue
		}
		for _, rr := range referrers(ia) {
			if st, ok := rr.(*ssa.Store); ok && st.Addr == ssa.Value(ia) {
				out[idx] = st.Val
			}
		}
	}
	return out
}

// validatedAt: v is known rooted-clean at `at` because a validator succeeded on it or the two tests dominate.
func (pt *PT) validatedAt(fn *ssa.Function, v ssa.Value, at ssa.Instruction) bool {
	// (a) a validating call
	ok := false
	eachInstr(fn, func(in ssa.Instruction) {
		c, isCall := in.(*ssa.Call)
		if !isCall || ok {
			return
		}
		g := staticCallee(&c.Call)
		if g == nil || !pt.p.InModule(g) {
			return
		}
		for k, a := range c.Call.Args {
			if a == v && pt.validates(g, k) && instrDominates(c, at) && callSucceededAt(c, at) {
				ok = true
			}
		}
	})
	if ok {
		return true
	}
	// (b) IsAbs(v) && Clean(v) == v dominate — directly or through a predicate helper
	return pt.condsValidate(condsAtInstr(at), v, 0)
}

// condsValidate: the branch literals imply that v is absolute and equal to its own path.Clean.
func (pt *PT) condsValidate(conds []Cond, v ssa.Value, depth int) bool {
	abs, clean := false, false
	for _, cd := range conds {
		nc := normCond(cd)
		// a predicate helper of the module that is true only for validated arguments
		if c, isCall := nc.V.(*ssa.Call); isCall && nc.Truth && depth < 2 {
			if g := staticCallee(&c.Call); g != nil && pt.p.InModule(g) && g.Blocks != nil {
				for k, a := range c.Call.Args {
					if a == v && pt.predValidates(g, k, depth+1) {
						return true
					}
				}
			}
		}
		if c, isCall := nc.V.(*ssa.Call); isCall && calleeName(&c.Call) == "path.IsAbs" && c.Call.Args[0] == v && nc.Truth {
			abs = true
		}
		if b, isB := nc.V.(*ssa.BinOp); isB && (b.Op == token.EQL || b.Op == token.NEQ) {
			for _, pair := range [][2]ssa.Value{{b.X, b.Y}, {b.Y, b.X}} {
				if c, isCall := pair[0].(*ssa.Call); isCall && calleeName(&c.Call) == "path.Clean" && c.Call.Args[0] == v && pair[1] == v {
					if (b.Op == token.EQL) == nc.Truth {
						clean = true
					}
				}
			}
		}
	}
	return abs && clean
}

// validates: on every success return of g its k-th parameter has been validated as rooted-clean.
func (pt *PT) validates(g *ssa.Function, k int) bool {
	if m, ok := pt.valMemo[g]; ok {
		if v, ok := m[k]; ok {
			return v
		}
	} else {
		pt.valMemo[g] = map[int]bool{}
	}
	pt.valMemo[g][k] = false // recursion guard
	if k >= len(g.Params) || g.Blocks == nil {
		return false
	}
	if b, ok := g.Params[k].Type().Underlying().(*types.Basic); !ok || b.Kind() != types.String {
		return false
	}
	res := g.Signature.Results()
	if res.Len() == 0 || !isErrorType(res.At(res.Len()-1).Type()) {
		return false
	}
	n := 0
	all := true
	for _, ret := range returnsOf(g) {
		if len(ret.Results) != res.Len() || !isNilConst(ret.Results[res.Len()-1]) {
			continue
		}
		n++
		if !pt.validatedAt(g, g.Params[k], ret) {
			all = false
		}
	}
	v := n > 0 && all
	pt.valMemo[g][k] = v
	return v
}

// classAt evaluates the abstract class of a string value at a program point.
func (pt *PT) classAt(fn *ssa.Function, v ssa.Value, at ssa.Instruction, env map[*ssa.Parameter]pclass, depth int) pclass {
	if depth > 10 {
		return pTop
	}
	v = stripConv(v)
	if b, ok := v.Type().Underlying().(*types.Basic); !ok || b.Info()&types.IsString == 0 {
		return pTop
	}
	if pt.validatedAt(fn, v, at) {
		return pRC
	}
	switch x := v.(type) {
	case *ssa.Const:
		if x.Value == nil || x.Value.Kind() != constant.String {
			return pTop
		}
		s := constant.StringVal(x.Value)
		if s == "" {
			return pEmpty
		}
		if path.IsAbs(s) && path.Clean(s) == s && !strings.Contains(s, "\\") {
			return pRC
		}
		return pTop
	case *ssa.Parameter:
		if c, ok := env[x]; ok {
			return c
		}
		return pTop
	case *ssa.Phi:
		first := true
		var c pclass
		for _, e := range x.Edges {
			ec := pt.classAt(fn, e, at, env, depth+1)
			if first {
				c, first = ec, false
			} else {
				c = joinClass(c, ec)
			}
		}
		return c
	case *ssa.UnOp:
		if x.Op != token.MUL {
			return pTop
		}
		if fa, ok := x.X.(*ssa.FieldAddr); ok {
			fname := fieldName(fa.X.Type(), fa.Field)
			switch {
			case isUfsType(fa.X.Type(), "fServer") && fname == "Base":
				return pBase
			case isUfsType(fa.X.Type(), pt.pathType) && fname == "Path":
				return pRC // field invariant (every store is checked)
			}
		}
		return pTop
	case *ssa.Field:
		if isUfsType(x.X.Type(), pt.pathType) && fieldNameV(x.X.Type(), x.Field) == "Path" {
			return pRC
		}
		return pTop
	case *ssa.Extract:
		if c, ok := x.Tuple.(*ssa.Call); ok && x.Index == 0 {
			return pt.callClass(fn, c, at, env, depth)
		}
		return pTop
	case *ssa.Call:
		return pt.callClass(fn, x, at, env, depth)
	}
	return pTop
}

func (pt *PT) callClass(fn *ssa.Function, c *ssa.Call, at ssa.Instruction, env map[*ssa.Parameter]pclass, depth int) pclass {
	name := calleeName(&c.Call)
	arg := func(i int) pclass { return pt.classAt(fn, c.Call.Args[i], at, env, depth+1) }
	switch name {
	case "path.Join":
		el := varargsElems(c.Call.Args[0])
		if len(el) > 0 && el[0] != nil && pt.classAt(fn, el[0], at, env, depth+1) == pRC {
			return pRC // Join cleans; a rooted first element keeps the result rooted and clean
		}
		return pTop
	case "path.Clean":
		if arg(0) == pRC {
			return pRC
		}
		// Clean of an absolute path is rooted-clean
		for _, cd := range condsAtInstr(c) {
			nc := normCond(cd)
			if ic, ok := nc.V.(*ssa.Call); ok && calleeName(&ic.Call) == "path.IsAbs" && ic.Call.Args[0] == c.Call.Args[0] && nc.Truth {
				return pRC
			}
		}
		return pTop
	case "path.Dir":
		if arg(0) == pRC {
			return pRC
		}
		return pTop
	case "path/filepath.FromSlash":
		return arg(0)
	case "path/filepath.Join":
		el := varargsElems(c.Call.Args[0])
		if len(el) == 2 && el[0] != nil && el[1] != nil {
			a, b := pt.classAt(fn, el[0], at, env, depth+1), pt.classAt(fn, el[1], at, env, depth+1)
			if a == pBase && (b == pRC || b == pEmpty) {
				return pHC
			}
		}
		return pTop
	}
	g := staticCallee(&c.Call)
	if g == nil || !pt.p.InModule(g) || g.Blocks == nil {
		return pTop
	}
	res := g.Signature.Results()
	hasErr := res.Len() > 0 && isErrorType(res.At(res.Len()-1).Type())
	if hasErr && !(instrDominates(c, at) && callSucceededAt(c, at)) {
		return pTop
	}
	key := fnName(g)
	if pt.busy[key] {
		return pTop
	}
	pt.busy[key] = true
	defer delete(pt.busy, key)
	genv := map[*ssa.Parameter]pclass{}
	for i, prm := range g.Params {
		if i < len(c.Call.Args) {
			if b, ok := prm.Type().Underlying().(*types.Basic); ok && b.Info()&types.IsString != 0 {
				genv[prm] = pt.classAt(fn, c.Call.Args[i], c, env, depth+1)
			}
		}
	}
	first := true
	var out pclass
	for _, ret := range returnsOf(g) {
		if len(ret.Results) != res.Len() || len(ret.Results) == 0 {
			continue
		}
		if hasErr && !isNilConst(ret.Results[res.Len()-1]) {
			continue
		}
		rc := pt.classAt(g, ret.Results[0], ret, genv, depth+1)
		if first {
			out, first = rc, false
		} else {
			out = joinClass(out, rc)
		}
	}
	if first {
		return pTop
	}
	return out
}

// predValidates: g returns bool, and on every way of returning true its k-th parameter has passed the two tests.
func (pt *PT) predValidates(g *ssa.Function, k int, depth int) bool {
	if k >= len(g.Params) || g.Signature.Results().Len() != 1 {
		return false
	}
	if b, ok := g.Signature.Results().At(0).Type().Underlying().(*types.Basic); !ok || b.Kind() != types.Bool {
		return false
	}
	prm := g.Params[k]
	n := 0
	var check func(val ssa.Value, conds []Cond, d int) bool
	check = func(val ssa.Value, conds []Cond, d int) bool {
		if d > 4 {
			return false
		}
		if c, ok := val.(*ssa.Const); ok {
			if c.Value != nil && c.Value.String() == "false" {
				return true // never the true result
			}
			n++
			return pt.condsValidate(conds, prm, depth)
		}
		if ph, ok := val.(*ssa.Phi); ok {
			for i, e := range ph.Edges {
				pred := ph.Block().Preds[i]
				cs := append(append([]Cond{}, conds...), condsAt(pred)...)
				if ifi, ok := pred.Instrs[len(pred.Instrs)-1].(*ssa.If); ok && pred.Succs[0] != pred.Succs[1] {
					for si := 0; si < 2; si++ {
						if pred.Succs[si] == ph.Block() {
							cs = append(cs, normCond(Cond{ifi.Cond, si == 0}))
						}
					}
				}
				if !check(e, cs, d+1) {
					return false
				}
			}
			return true
		}
		// a computed condition: the result is true exactly when it is
		n++
		return pt.condsValidate(append(append([]Cond{}, conds...), Cond{val, true}), prm, depth)
	}
	for _, ret := range returnsOf(g) {
		if !check(ret.Results[0], condsAtInstr(ret), 0) {
			return false
		}
	}
	return n > 0
}

// paramEnv: the classes of g's string parameters, joined over all of its call sites — only when g is an unexported
// function whose every use is a plain static call (so the call sites describe every execution).
func (pt *PT) paramEnv(g *ssa.Function, depth int) map[*ssa.Parameter]pclass {
	if depth > 2 || g.Parent() != nil {
		return nil
	}
	sites, exact := pt.p.staticCallSites(g)
	if !exact || len(sites) == 0 {
		return nil
	}
	env := map[*ssa.Parameter]pclass{}
	for i, prm := range g.Params {
		if b, ok := prm.Type().Underlying().(*types.Basic); !ok || b.Info()&types.IsString == 0 {
			continue
		}
		first := true
		var c pclass
		for _, cs := range sites {
			if i >= len(cs.Call.Args) {
				c = pTop
				break
			}
			ac := pt.classAt(cs.Parent(), cs.Call.Args[i], cs, pt.paramEnv(cs.Parent(), depth+1), 0)
			if first {
				c, first = ac, false
			} else {
				c = joinClass(c, ac)
			}
		}
		env[prm] = c
	}
	return env
}
