package main

import (
	"fmt"
	"go/constant"
	"go/token"
	"sort"
	"strings"

	"golang.org/x/tools/go/ssa"
)

func init() { register("C16", checkC16) }

// ---- conditional constant propagation over string predicates -------------------------
//
// Branch conditions that depend only on one bound string value and constants are folded
// (==, !=, len, strings.Contains/ContainsAny, integer comparisons of folded values);
// every other branch is followed both ways. No repository code is executed: the folder
// interprets the handful of pure predicates itself.

type ccpVal struct {
	kind string // "s", "i", "b"
	s    string
	i    int64
	b    bool
}

// ccpCtx carries the walk position (for phi resolution) and optional pattern bindings.
type ccpCtx struct {
	cur, prev *ssa.BasicBlock
	ints      map[ssa.Value]int64             // integer bindings (parameters)
	loadHook  func(u *ssa.UnOp) (int64, bool) // value of a field load, e.g. every load of SFid.Mode
	depth     int
}

var ccpCur = &ccpCtx{}

func ccpEval(v ssa.Value, bind map[ssa.Value]string, depth int) (ccpVal, bool) {
	if depth > 10 {
		return ccpVal{}, false
	}
	if s, ok := bind[v]; ok {
		return ccpVal{kind: "s", s: s}, true
	}
	if ccpCur.ints != nil {
		if i, ok := ccpCur.ints[v]; ok {
			return ccpVal{kind: "i", i: i}, true
		}
	}
	switch x := v.(type) {
	case *ssa.Phi:
		if ccpCur.cur == x.Block() && ccpCur.prev != nil {
			for i, p := range x.Block().Preds {
				if p == ccpCur.prev {
					return ccpEval(x.Edges[i], bind, depth+1)
				}
			}
		}
		// all edges fold to the same value
		var first ccpVal
		for i, e := range x.Edges {
			ev, ok := ccpEval(e, bind, depth+1)
			if !ok {
				return ccpVal{}, false
			}
			if i == 0 {
				first = ev
			} else if ev != first {
				return ccpVal{}, false
			}
		}
		return first, len(x.Edges) > 0
	case *ssa.ChangeType:
		return ccpEval(x.X, bind, depth+1)
	case *ssa.Const:
		if x.Value == nil {
			return ccpVal{}, false
		}
		switch x.Value.Kind() {
		case constant.String:
			return ccpVal{kind: "s", s: constant.StringVal(x.Value)}, true
		case constant.Int:
			if i, ok := constant.Int64Val(x.Value); ok {
				return ccpVal{kind: "i", i: i}, true
			}
		case constant.Bool:
			return ccpVal{kind: "b", b: constant.BoolVal(x.Value)}, true
		}
	case *ssa.UnOp:
		if x.Op == token.NOT {
			if a, ok := ccpEval(x.X, bind, depth+1); ok && a.kind == "b" {
				return ccpVal{kind: "b", b: !a.b}, true
			}
		}
		if x.Op == token.MUL && ccpCur.loadHook != nil {
			if i, ok := ccpCur.loadHook(x); ok {
				return ccpVal{kind: "i", i: i}, true
			}
		}
	case *ssa.Slice:
		a, ok := ccpEval(x.X, bind, depth+1)
		if !ok || a.kind != "s" {
			return ccpVal{}, false
		}
		lo, hi := int64(0), int64(len(a.s))
		if x.Low != nil {
			l, ok := ccpEval(x.Low, bind, depth+1)
			if !ok || l.kind != "i" {
				return ccpVal{}, false
			}
			lo = l.i
		}
		if x.High != nil {
			h, ok := ccpEval(x.High, bind, depth+1)
			if !ok || h.kind != "i" {
				return ccpVal{}, false
			}
			hi = h.i
		}
		if lo < 0 || hi > int64(len(a.s)) || lo > hi {
			return ccpVal{}, false // would panic: not foldable
		}
		return ccpVal{kind: "s", s: a.s[lo:hi]}, true
	case *ssa.Convert:
		return ccpEval(x.X, bind, depth+1)
	case *ssa.Call:
		two := func(f func(a, b string) ccpVal) (ccpVal, bool) {
			a, ok1 := ccpEval(x.Call.Args[0], bind, depth+1)
			b, ok2 := ccpEval(x.Call.Args[1], bind, depth+1)
			if ok1 && ok2 && a.kind == "s" && b.kind == "s" {
				return f(a.s, b.s), true
			}
			return ccpVal{}, false
		}
		switch calleeName(&x.Call) {
		case "strings.Count":
			return two(func(a, b string) ccpVal { return ccpVal{kind: "i", i: int64(strings.Count(a, b))} })
		case "strings.TrimSuffix":
			return two(func(a, b string) ccpVal { return ccpVal{kind: "s", s: strings.TrimSuffix(a, b)} })
		case "strings.TrimPrefix":
			return two(func(a, b string) ccpVal { return ccpVal{kind: "s", s: strings.TrimPrefix(a, b)} })
		case "strings.TrimRight":
			return two(func(a, b string) ccpVal { return ccpVal{kind: "s", s: strings.TrimRight(a, b)} })
		case "strings.TrimLeft":
			return two(func(a, b string) ccpVal { return ccpVal{kind: "s", s: strings.TrimLeft(a, b)} })
		case "strings.Trim":
			return two(func(a, b string) ccpVal { return ccpVal{kind: "s", s: strings.Trim(a, b)} })
		case "strings.Index":
			return two(func(a, b string) ccpVal { return ccpVal{kind: "i", i: int64(strings.Index(a, b))} })
		case "strings.LastIndex":
			return two(func(a, b string) ccpVal { return ccpVal{kind: "i", i: int64(strings.LastIndex(a, b))} })
		case "builtin len":
			if a, ok := ccpEval(x.Call.Args[0], bind, depth+1); ok && a.kind == "s" {
				return ccpVal{kind: "i", i: int64(len(a.s))}, true
			}
		default:
			if f := staticCallee(&x.Call); f != nil && f.Blocks != nil && f.Pkg != nil && strings.HasPrefix(f.Pkg.Pkg.Path(), modPath) && ccpCur.depth < 3 {
				var args []ccpVal
				for _, a := range x.Call.Args {
					av, ok := ccpEval(a, bind, depth+1)
					if !ok {
						return ccpVal{}, false
					}
					args = append(args, av)
				}
				return ccpCall(f, args)
			}
		case "strings.ContainsAny":
			a, ok1 := ccpEval(x.Call.Args[0], bind, depth+1)
			b, ok2 := ccpEval(x.Call.Args[1], bind, depth+1)
			if ok1 && ok2 && a.kind == "s" && b.kind == "s" {
				return ccpVal{kind: "b", b: strings.ContainsAny(a.s, b.s)}, true
			}
		case "strings.Contains":
			a, ok1 := ccpEval(x.Call.Args[0], bind, depth+1)
			b, ok2 := ccpEval(x.Call.Args[1], bind, depth+1)
			if ok1 && ok2 && a.kind == "s" && b.kind == "s" {
				return ccpVal{kind: "b", b: strings.Contains(a.s, b.s)}, true
			}
		case "strings.HasPrefix":
			a, ok1 := ccpEval(x.Call.Args[0], bind, depth+1)
			b, ok2 := ccpEval(x.Call.Args[1], bind, depth+1)
			if ok1 && ok2 && a.kind == "s" && b.kind == "s" {
				return ccpVal{kind: "b", b: strings.HasPrefix(a.s, b.s)}, true
			}
		}
	case *ssa.BinOp:
		a, ok1 := ccpEval(x.X, bind, depth+1)
		b, ok2 := ccpEval(x.Y, bind, depth+1)
		if !ok1 || !ok2 || a.kind != b.kind {
			return ccpVal{}, false
		}
		bo := func(c bool) (ccpVal, bool) { return ccpVal{kind: "b", b: c}, true }
		switch a.kind {
		case "b":
			switch x.Op {
			case token.EQL:
				return bo(a.b == b.b)
			case token.NEQ:
				return bo(a.b != b.b)
			}
		case "s":
			switch x.Op {
			case token.EQL:
				return bo(a.s == b.s)
			case token.NEQ:
				return bo(a.s != b.s)
			}
		case "i":
			switch x.Op {
			case token.ADD:
				return ccpVal{kind: "i", i: a.i + b.i}, true
			case token.SUB:
				return ccpVal{kind: "i", i: a.i - b.i}, true
			case token.AND:
				return ccpVal{kind: "i", i: a.i & b.i}, true
			case token.OR:
				return ccpVal{kind: "i", i: a.i | b.i}, true
			case token.XOR:
				return ccpVal{kind: "i", i: a.i ^ b.i}, true
			case token.AND_NOT:
				return ccpVal{kind: "i", i: a.i &^ b.i}, true
			case token.EQL:
				return bo(a.i == b.i)
			case token.NEQ:
				return bo(a.i != b.i)
			case token.LSS:
				return bo(a.i < b.i)
			case token.LEQ:
				return bo(a.i <= b.i)
			case token.GTR:
				return bo(a.i > b.i)
			case token.GEQ:
				return bo(a.i >= b.i)
			}
		}
	}
	return ccpVal{}, false
}

// ccpReach: blocks reachable from start with the binding, not continuing past blocks in stop.
func ccpReach(start *ssa.BasicBlock, bind map[ssa.Value]string, stop map[*ssa.BasicBlock]bool) map[*ssa.BasicBlock]bool {
	seen := map[*ssa.BasicBlock]bool{}
	type edge struct{ b, prev *ssa.BasicBlock }
	visited := map[edge]bool{}
	saved := *ccpCur
	defer func() { *ccpCur = saved }()
	var walk func(b, prev *ssa.BasicBlock)
	walk = func(b, prev *ssa.BasicBlock) {
		if visited[edge{b, prev}] {
			return
		}
		visited[edge{b, prev}] = true
		seen[b] = true
		if stop[b] {
			return
		}
		if len(b.Instrs) > 0 {
			if ifi, ok := b.Instrs[len(b.Instrs)-1].(*ssa.If); ok {
				ccpCur.cur, ccpCur.prev = b, prev
				if v, ok := ccpEval(ifi.Cond, bind, 0); ok && v.kind == "b" {
					if v.b {
						walk(b.Succs[0], b)
					} else {
						walk(b.Succs[1], b)
					}
					return
				}
			}
		}
		for _, s := range b.Succs {
			walk(s, b)
		}
	}
	walk(start, nil)
	return seen
}

// ccpCall folds a call of a pure module function on constant arguments: the function's CFG is walked with the
// parameters bound, decided branches followed; the call folds iff every reachable return folds to one value.
func ccpCall(f *ssa.Function, args []ccpVal) (ccpVal, bool) {
	// purity: no stores to non-local memory, no calls except foldable ones (checked lazily by evaluation), no channel ops
	pure := true
	eachInstr(f, func(in ssa.Instruction) {
		switch x := in.(type) {
		case *ssa.Store:
			if a, _ := rootAlloc(x.Addr); a == nil {
				pure = false
			}
		case *ssa.Send, *ssa.Go, *ssa.Defer, *ssa.MapUpdate, *ssa.Select, *ssa.Panic:
			pure = false
		}
	})
	if !pure {
		return ccpVal{}, false
	}
	saved := *ccpCur
	defer func() { *ccpCur = saved }()
	bindS := map[ssa.Value]string{}
	ints := map[ssa.Value]int64{}
	for i, p := range f.Params {
		if i >= len(args) {
			return ccpVal{}, false
		}
		switch args[i].kind {
		case "s":
			bindS[p] = args[i].s
		case "i":
			ints[p] = args[i].i
		case "b":
			if args[i].b {
				ints[p] = 1
			} else {
				ints[p] = 0
			}
		}
	}
	depth := saved.depth + 1
	var results []ccpVal
	okAll := true
	type edge struct{ b, prev *ssa.BasicBlock }
	visited := map[edge]bool{}
	var walk func(b, prev *ssa.BasicBlock)
	walk = func(b, prev *ssa.BasicBlock) {
		if visited[edge{b, prev}] || !okAll {
			return
		}
		visited[edge{b, prev}] = true
		*ccpCur = ccpCtx{cur: b, prev: prev, ints: ints, loadHook: saved.loadHook, depth: depth}
		// bind this block's phis for the edge taken (later uses in dominated blocks see the value)
		if prev != nil {
			type pv struct {
				phi *ssa.Phi
				v   ccpVal
			}
			var vals []pv
			for _, in := range b.Instrs {
				ph, ok := in.(*ssa.Phi)
				if !ok {
					break
				}
				for i, pr := range b.Preds {
					if pr == prev {
						if v, ok := ccpEval(ph.Edges[i], bindS, 0); ok {
							vals = append(vals, pv{ph, v})
						}
					}
				}
			}
			for _, x := range vals {
				switch x.v.kind {
				case "i":
					ints[x.phi] = x.v.i
				case "s":
					bindS[x.phi] = x.v.s
				}
			}
		}
		switch t := b.Instrs[len(b.Instrs)-1].(type) {
		case *ssa.Return:
			if len(t.Results) != 1 {
				okAll = false
				return
			}
			v, ok := ccpEval(t.Results[0], bindS, 0)
			if !ok {
				okAll = false
				return
			}
			results = append(results, v)
		case *ssa.If:
			v, ok := ccpEval(t.Cond, bindS, 0)
			if ok && v.kind == "b" {
				if v.b {
					walk(b.Succs[0], b)
				} else {
					walk(b.Succs[1], b)
				}
				return
			}
			for _, s := range b.Succs {
				walk(s, b)
			}
		default:
			for _, s := range b.Succs {
				walk(s, b)
			}
		}
	}
	if len(f.Blocks) == 0 {
		return ccpVal{}, false
	}
	walk(f.Blocks[0], nil)
	if !okAll || len(results) == 0 {
		return ccpVal{}, false
	}
	for _, r := range results[1:] {
		if r != results[0] {
			return ccpVal{}, false
		}
	}
	return results[0], true
}

// the alphabet of name classes
var nameAlphabet = []struct{ s, class string }{
	{"", "empty"}, {".", "dot"}, {"..", "dotdot"},
	{"a/b", "sep"}, {"/", "sep"}, {"a\\b", "sep"}, {"\\", "sep"}, {"../x", "sep"}, {"..\\x", "sep"},
	{"a", "plain"}, {"a.b", "plain"}, {"..x", "plain"}, {"...", "plain"}, {".x", "plain"}, {"x..", "plain"},
}

func checkC16(r *Run) {
	p := r.P
	r.Decides = append(r.Decides,
		"ValidPath, NormalizePath and CreateName decide each name by its class exactly as specified, for an alphabet covering every special form (empty, '.', '..', names containing '/' or '\\\\', ordinary names with dots): separators always reject; empty and '.' reject (ValidPath, CreateName) or are skipped (NormalizePath); '..' is rejected by CreateName, counted by ValidPath only while it is still a leading run (edge n == i), popped or kept by NormalizePath; ordinary names are accepted — by folding the functions' own branch predicates over the alphabet (conditional constant propagation)",
		"ValidPath returns the counter that is incremented exactly on the accepted-'..' edge; WalkName succeeds only on an edge implying 0 <= ValidPath(names) <= depth(dir) with depth = strings.Count(dir[:len(dir)-1], \"/\") and returns path.Join(dir, path.Join(names...)) (canonical, absolute, never above root); CreateName returns path.Join(dir, name); failures return an error",
		"slice/index obligations of the helpers")
	r.NotDecided = append(r.NotDecided, "equality of the result with stepwise resolution and idempotence of normalisation as functional statements over all strings", "names outside the alphabet's classes behave like their class (argued from the predicates being class-invariant, not checked)")
	r.Trusted = append(r.Trusted, "path.Join / strings.Count semantics")

	c16ValidPath(r, p.Fn("p9p:ValidPath"))
	c16Normalize(r, p.Fn("p9p:NormalizePath"))
	c16NormalizeFresh(r, p.Fn("p9p:NormalizePath"), "result")
	c16ToWalk(r)
	c16CreateName(r, p.Fn("p9p:CreateName"))
	c16WalkName(r, p.Fn("p9p:WalkName"))
	n := 0
	for _, k := range []string{"p9p:ValidPath", "p9p:NormalizePath", "p9p:CreateName", "p9p:ToWalk"} {
		if fn := p.Fn(k); fn != nil {
			n += dischargeBounds(r, fn, "bounds", nil)
		}
	}
	if fn := p.Fn("p9p:WalkName"); fn != nil {
		n += dischargeBounds(r, fn, "bounds", []reviewedBound{{"p9p.WalkName", "slice dir[", "precondition documented on WalkName: dir is a valid internal path, hence non-empty (every caller passes FileRef.Path / FileHandle.Path, which C15's invariant and ramfs construction keep rooted)"}})
	}
	r.Floor("bounds", n, 3, "bounds obligations in path.go")
}

// rangeElement: the per-iteration element value of `for i, s := range <slice param>`; returns (element load, index value, loop body entry).
func rangeElement(fn *ssa.Function) (ssa.Value, ssa.Value, *ssa.BasicBlock) {
	var elem, idx ssa.Value
	var blk *ssa.BasicBlock
	eachInstr(fn, func(in ssa.Instruction) {
		u, ok := in.(*ssa.UnOp)
		if !ok || u.Op != token.MUL || elem != nil {
			return
		}
		if ia, ok := u.X.(*ssa.IndexAddr); ok {
			if _, isParam := ia.X.(*ssa.Parameter); isParam && inLoop(u) {
				elem, idx, blk = u, ia.Index, u.Block()
			}
		}
	})
	return elem, idx, blk
}

func outcomeString(m map[string]bool) string {
	ks := []string{}
	for k, v := range m {
		if v {
			ks = append(ks, k)
		}
	}
	sort.Strings(ks)
	return "{" + strings.Join(ks, ",") + "}"
}

func c16ValidPath(r *Run, fn *ssa.Function) {
	if fn == nil {
		r.Undecided("classes", "ValidPath", token.NoPos, "anchor not found")
		return
	}
	r.SawFn(fnName(fn))
	elem, idx, body := rangeElement(fn)
	if elem == nil {
		r.Undecided("classes", "ValidPath: loop over the names", fn.Pos(), "range loop not recognised")
		return
	}
	// the counter: the phi returned on the success path
	var counter *ssa.Phi
	var incBlock *ssa.BasicBlock
	var rejects []*ssa.BasicBlock
	var succRet *ssa.Return
	for _, ret := range returnsOf(fn) {
		if c, ok := constInt(ret.Results[0]); ok && c < 0 {
			rejects = append(rejects, ret.Block())
		} else {
			succRet = ret
			if ph, ok := ret.Results[0].(*ssa.Phi); ok {
				counter = ph
			}
		}
	}
	if counter == nil || succRet == nil {
		r.Undecided("classes", "ValidPath: counter of leading '..'", fn.Pos(), "the success return does not return a loop-carried counter")
		return
	}
	eachInstr(fn, func(in ssa.Instruction) {
		if b, ok := in.(*ssa.BinOp); ok && b.Op == token.ADD && b.X == ssa.Value(counter) {
			if c, ok := constInt(b.Y); ok && c == 1 {
				incBlock = b.Block()
			}
		}
	})
	if incBlock == nil {
		r.Bad("classes", "ValidPath: counts accepted '..' elements", fn.Pos(), "the returned counter is never incremented")
		return
	}
	header := counter.Block()
	stop := map[*ssa.BasicBlock]bool{header: true}
	for _, a := range nameAlphabet {
		reach := ccpReach(body, map[ssa.Value]string{elem: a.s}, stop)
		out := map[string]bool{}
		for _, rb := range rejects {
			if reach[rb] {
				out["reject"] = true
			}
		}
		if reach[incBlock] {
			out["count"] = true
		}
		if reach[header] {
			out["next"] = true
		}
		want := map[string]string{"empty": "{reject}", "dot": "{reject}", "sep": "{reject}", "dotdot": "{count,next,reject}", "plain": "{next}"}[a.class]
		key := fmt.Sprintf("ValidPath: element %q (%s) → %s", a.s, a.class, want)
		r.Check(outcomeString(out) == want, "classes", key, fn.Pos(), "for this element the function can "+outcomeString(out)+", the specification demands "+want)
	}
	// '..' is counted only on the edge n == i
	okEdge := false
	for _, cd := range condsAt(incBlock) {
		nc := normCond(cd)
		if b, ok := nc.V.(*ssa.BinOp); ok && (b.Op == token.EQL || b.Op == token.NEQ) {
			if (b.X == ssa.Value(counter) && b.Y == idx) || (b.Y == ssa.Value(counter) && b.X == idx) {
				if (b.Op == token.EQL) == nc.Truth {
					okEdge = true
				}
			}
		}
	}
	r.Check(okEdge, "classes", "ValidPath: '..' is accepted only while it is a leading run (n == i)", incBlock.Instrs[0].Pos(), "a '..' after an ordinary name is accepted: 'a/..' style names pass validation")
}

func c16Normalize(r *Run, fn *ssa.Function) {
	if fn == nil {
		r.Undecided("classes", "NormalizePath", token.NoPos, "anchor not found")
		return
	}
	r.SawFn(fnName(fn))
	elem, _, body := rangeElement(fn)
	if elem == nil {
		r.Undecided("classes", "NormalizePath: loop over the names", fn.Pos(), "range loop not recognised")
		return
	}
	var storeBlk, popBlk *ssa.BasicBlock
	var rejects []*ssa.BasicBlock
	eachInstr(fn, func(in ssa.Instruction) {
		switch x := in.(type) {
		case *ssa.Store:
			if _, ok := x.Addr.(*ssa.IndexAddr); ok && x.Val == elem {
				storeBlk = x.Block()
			}
		case *ssa.BinOp:
			if x.Op == token.SUB {
				if c, ok := constInt(x.Y); ok && c == 1 {
					if _, isPhi := x.X.(*ssa.Phi); isPhi {
						popBlk = x.Block()
					}
				}
			}
		}
	})
	for _, ret := range returnsOf(fn) {
		if len(ret.Results) == 2 {
			if c, ok := constInt(ret.Results[1]); ok && c < 0 {
				rejects = append(rejects, ret.Block())
			}
		}
	}
	if storeBlk == nil || popBlk == nil {
		r.Undecided("classes", "NormalizePath: keep / pop sites", fn.Pos(), "cannot find the store of a kept element or the cursor decrement")
		return
	}
	// loop header: the block with phis that dominates body
	header := body
	for header != nil {
		if len(header.Instrs) > 0 {
			if _, ok := header.Instrs[0].(*ssa.Phi); ok {
				break
			}
		}
		header = header.Idom()
	}
	stop := map[*ssa.BasicBlock]bool{}
	if header != nil {
		stop[header] = true
	}
	// a '..' cancels only an ordinary element that was kept before it: the cursor is decremented only on an edge
	// implying cursor > lo, where lo — the count returned on success — is the number of leading '..' already kept
	// (popping one of those instead makes "../.." lose an element and the count disagree with the result)
	{
		fa := r.P.FA(fn)
		var loVal ssa.Value
		for _, ret := range returnsOf(fn) {
			if len(ret.Results) == 2 {
				if _, isC := ret.Results[1].(*ssa.Const); !isC {
					loVal = ret.Results[1]
				}
			}
		}
		var pop *ssa.BinOp
		eachInstr(fn, func(in ssa.Instruction) {
			if x, ok := in.(*ssa.BinOp); ok && x.Op == token.SUB && x.Block() == popBlk {
				if c, ok := constInt(x.Y); ok && c == 1 {
					pop = x
				}
			}
		})
		if loVal == nil || pop == nil {
			r.Undecided("classes", "NormalizePath: pop guard", fn.Pos(), "cannot find the returned count or the cursor decrement")
		} else {
			// the count that is live in the loop: the header phi the returned value comes from
			lo := loVal
			if ph, ok := loVal.(*ssa.Phi); ok && ph.Block() != pop.X.(*ssa.Phi).Block() {
				for _, e := range ph.Edges {
					if p2, ok := e.(*ssa.Phi); ok {
						lo = p2
					}
				}
			}
			goal := fa.Lin(lo).Add(linConst(1)).Sub(fa.Lin(pop.X)) // lo + 1 - cursor <= 0
			facts := fa.FactsAt(pop, goal)
			r.Check(Entails(facts, goal), "classes", "NormalizePath: '..' pops only an ordinary element (cursor > number of kept leading '..')", pop.Pos(),
				"a '..' can pop a kept leading '..' instead of an ordinary element: \"../..\" loses an element and the returned count no longer matches the result", factStrings(facts)...)
		}
	}
	for _, a := range nameAlphabet {
		reach := ccpReach(body, map[ssa.Value]string{elem: a.s}, stop)
		out := map[string]bool{}
		for _, rb := range rejects {
			if reach[rb] {
				out["reject"] = true
			}
		}
		if reach[storeBlk] {
			out["keep"] = true
		}
		if reach[popBlk] {
			out["pop"] = true
		}
		if header != nil && reach[header] && !reach[storeBlk] && !reach[popBlk] {
			out["skip"] = true
		}
		want := map[string]string{"empty": "{skip}", "dot": "{skip}", "sep": "{reject}", "dotdot": "{keep,pop}", "plain": "{keep}"}[a.class]
		key := fmt.Sprintf("NormalizePath: element %q (%s) → %s", a.s, a.class, want)
		r.Check(outcomeString(out) == want, "classes", key, fn.Pos(), "for this element the function can "+outcomeString(out)+", the specification demands "+want)
	}
}

func c16CreateName(r *Run, fn *ssa.Function) {
	if fn == nil {
		r.Undecided("classes", "CreateName", token.NoPos, "anchor not found")
		return
	}
	r.SawFn(fnName(fn))
	name := fn.Params[1]
	var succ, fail []*ssa.Return
	for _, ret := range returnsOf(fn) {
		if isNilConst(ret.Results[1]) {
			succ = append(succ, ret)
		} else {
			fail = append(fail, ret)
		}
	}
	for _, a := range nameAlphabet {
		reach := ccpReach(fn.Blocks[0], map[ssa.Value]string{name: a.s}, nil)
		out := map[string]bool{}
		for _, s := range succ {
			if reach[s.Block()] {
				out["accept"] = true
			}
		}
		for _, f := range fail {
			if reach[f.Block()] {
				out["reject"] = true
			}
		}
		want := "{reject}"
		if a.class == "plain" {
			want = "{accept}"
		}
		key := fmt.Sprintf("CreateName: name %q (%s) → %s", a.s, a.class, want)
		r.Check(outcomeString(out) == want, "classes", key, fn.Pos(), "for this name the function can "+outcomeString(out)+", the specification demands "+want)
	}
	// result is path.Join(dir, name)
	for _, s := range succ {
		ok := false
		if c, isCall := s.Results[0].(*ssa.Call); isCall && calleeName(&c.Call) == "path.Join" {
			el := varargsElems(c.Call.Args[0])
			if len(el) == 2 && el[0] == ssa.Value(fn.Params[0]) && el[1] == ssa.Value(name) {
				ok = true
			}
		}
		r.Check(ok, "result", "CreateName: result is path.Join(dir, name)", s.Pos(), "the created path is not the canonical join of the directory and the name")
	}
	r.Floor("result", len(succ), 1, "success return of CreateName")
}

func c16WalkName(r *Run, fn *ssa.Function) {
	if fn == nil {
		r.Undecided("result", "WalkName", token.NoPos, "anchor not found")
		return
	}
	r.SawFn(fnName(fn))
	fa := r.P.FA(fn)
	dir := fn.Params[0]
	names := fn.Params[1]
	vps := findCalls(fn, "p9p.ValidPath")
	if len(vps) != 1 {
		r.Bad("result", "WalkName: validates with ValidPath and bounds '..' by the depth", fn.Pos(), fmt.Sprintf("%d ValidPath calls", len(vps)))
		return
	}
	vp := vps[0]
	r.Check(vp.Call.Args[0] == ssa.Value(names), "result", "WalkName: validates the names it was given", vp.Pos(), "ValidPath is applied to something else")
	// the bound the leading-'..' count is compared with: the other side of the comparisons with ValidPath's result
	var depthVal ssa.Value
	eachInstr(fn, func(in ssa.Instruction) {
		b, ok := in.(*ssa.BinOp)
		if !ok {
			return
		}
		switch b.Op {
		case token.GTR, token.LSS, token.GEQ, token.LEQ:
			if b.X == ssa.Value(vp) {
				if _, isC := b.Y.(*ssa.Const); !isC {
					depthVal = b.Y
				}
			} else if b.Y == ssa.Value(vp) {
				if _, isC := b.X.(*ssa.Const); !isC {
					depthVal = b.X
				}
			}
		}
	})
	if depthVal == nil {
		r.Bad("result", "WalkName: bounds the leading '..' run by the depth of dir", fn.Pos(), "the number of leading '..' is not compared with the depth of the directory")
		return
	}
	// depth(dir) folded over canonical directories: "/"→0, "/a"→1, "/a/b"→2, …
	okDepth := true
	gotD := []string{}
	for d, want := range map[string]int64{"/": 0, "/a": 1, "/a/b": 2, "/a/b/c": 3, "/abc/d.e": 2, "/x/y/z/w": 4} {
		v, ok := ccpEval(depthVal, map[ssa.Value]string{dir: d}, 0)
		if !ok || v.kind != "i" {
			okDepth = false
			gotD = append(gotD, fmt.Sprintf("depth(%q) not foldable", d))
			continue
		}
		if v.i != want {
			okDepth = false
			gotD = append(gotD, fmt.Sprintf("depth(%q)=%d, want %d", d, v.i, want))
		}
	}
	sort.Strings(gotD)
	r.Check(okDepth, "result", "WalkName: depth(dir) is the number of path elements of dir (0 for the root)", vp.Pos(),
		"the bound on leading '..' is not the depth of the canonical directory: "+strings.Join(gotD, "; ")+" — '..' can climb above the root or a legal '..' is refused")
	cnt := depthVal
	nS := 0
	for _, ret := range returnsOf(fn) {
		if !isNilConst(ret.Results[1]) {
			continue
		}
		nS++
		facts := fa.FactsAt(ret)
		lb, ld := fa.Lin(vp), fa.Lin(cnt)
		r.Check(Entails(facts, lb.Scale(-1)) && EntailsLE(facts, lb, ld), "result", "WalkName: success only when 0 <= ValidPath(names) <= depth(dir)", ret.Pos(),
			"a walk with invalid names or with more leading '..' than the directory is deep is accepted (climbs above the root / resolves wrongly)", factStrings(facts)...)
		ok := false
		if c, isCall := ret.Results[0].(*ssa.Call); isCall && calleeName(&c.Call) == "path.Join" {
			el := varargsElems(c.Call.Args[0])
			if len(el) == 2 && el[0] == ssa.Value(dir) {
				if c2, ok2 := el[1].(*ssa.Call); ok2 && calleeName(&c2.Call) == "path.Join" && c2.Call.Args[0] == ssa.Value(names) {
					ok = true
				}
			}
		}
		r.Check(ok, "result", "WalkName: result is path.Join(dir, path.Join(names...))", ret.Pos(), "the resolved path is not the canonical join")
	}
	r.Floor("result", nS, 1, "success return of WalkName")
	for _, ret := range returnsOf(fn) {
		if isNilConst(ret.Results[1]) {
			continue
		}
		// failure: non-nil error
		r.Ok("result", "WalkName: rejection returns an error", ret.Pos())
	}
}

// ToWalk: steps are handed out (nil error) only when NormalizePath accepted the names (its count of leading '..' is
// not negative), and for an absolute path only when that count is zero (nothing may climb above the root).
func c16ToWalk(r *Run) {
	p := r.P
	fn := p.Fn("p9p:ToWalk")
	if fn == nil {
		r.Undecided("result", "ToWalk", token.NoPos, "anchor not found")
		return
	}
	fa := p.FA(fn)
	nps := findCalls(fn, "p9p.NormalizePath")
	abs := findCalls(fn, "path.IsAbs")
	if len(nps) != 1 {
		r.Bad("result", "ToWalk: normalises with NormalizePath", fn.Pos(), fmt.Sprintf("%d NormalizePath calls", len(nps)))
		return
	}
	bsp := resultN(nps[0], 1)
	steps := resultN(nps[0], 0)
	if bsp == nil || steps == nil {
		r.Bad("result", "ToWalk: uses both results of NormalizePath", fn.Pos(), "the validity result of NormalizePath is ignored: invalid names are accepted")
		return
	}
	lb := fa.Lin(bsp)
	// what is normalised is the path as given, split at '/': only leading/trailing separators may be trimmed first.
	// Cleaning it beforehand (path.Clean) folds `/..` into `/` and hides the climb above the root that ToWalk must refuse.
	{
		okIn := false
		why := "the argument of NormalizePath is not strings.Split(<the path parameter, trimmed of '/'>, \"/\")"
		if sp, ok := nps[0].Call.Args[0].(*ssa.Call); ok && calleeName(&sp.Call) == "strings.Split" && constStringIs(sp.Call.Args[1], "/") {
			v := sp.Call.Args[0]
			for d := 0; d < 4; d++ {
				c, ok := v.(*ssa.Call)
				if !ok {
					break
				}
				switch calleeName(&c.Call) {
				case "strings.Trim", "strings.TrimLeft", "strings.TrimRight", "strings.TrimPrefix", "strings.TrimSuffix":
					if !constStringIs(c.Call.Args[1], "/") {
						why = "the path is trimmed of something other than '/' before it is split"
						v = nil
					} else {
						v = c.Call.Args[0]
					}
				default:
					why = "the path is rewritten by " + calleeName(&c.Call) + " before it is split into names: the names NormalizePath sees are not those of the path given"
					v = nil
				}
				if v == nil {
					break
				}
			}
			if prm, ok := v.(*ssa.Parameter); ok && prm.Parent() == fn {
				okIn = true
			}
		}
		r.Check(okIn, "result", "ToWalk: NormalizePath receives the names of the path as given", nps[0].Pos(), why)
	}
	n := 0
	for _, ret := range returnsOf(fn) {
		if len(ret.Results) != 3 || !isNilConst(ret.Results[2]) {
			continue
		}
		n++
		facts := fa.FactsAt(ret, lb)
		okValid := fa.EntailsOnEdges(ret, lb.Scale(-1), 6) // 0 <= bsp on every feasible path to the return
		r.Check(okValid, "result", "ToWalk: success only when NormalizePath accepted the names (leading-'..' count >= 0)", ret.Pos(),
			"ToWalk succeeds although NormalizePath reported invalid names (-1): a name containing a separator is accepted and the walk silently resolves elsewhere", factStrings(facts)...)
		// absolute paths: on the isAbs edge the count must be zero
		// absolute paths: on every feasible path on which IsAbs(p) is true, the count is zero — proved with the
		// IsAbs test assumed (paths taking its false edge become infeasible)
		for _, a := range abs {
			r.Check(fa.entailsOnEdgesAssuming(ret, lb, 6, Cond{a, true}), "result", "ToWalk: an absolute path succeeds only with no leading '..' left", ret.Pos(), "an absolute path may climb above the root")
		}
		r.Check(derivesFrom(ret.Results[1], steps, 2), "result", "ToWalk: the steps returned are NormalizePath's", ret.Pos(), "the steps returned are not the normalised names")
	}
	r.Floor("result", n, 1, "success returns of ToWalk")
}

// c16NormalizeFresh: NormalizePath is functional ("effectively copies the path"): the slice it returns lives in storage
// made by this call, never in the caller's argument — callers (cEnt.Walk) hand it the application's own name list.
func c16NormalizeFresh(r *Run, fn *ssa.Function, rule string) {
	if fn == nil {
		r.Undecided(rule, "NormalizePath", token.NoPos, "anchor not found")
		return
	}
	n := 0
	for _, ret := range returnsOf(fn) {
		if len(ret.Results) != 2 || isNilConst(ret.Results[0]) {
			continue
		}
		n++
		// the storage the result lives in: through re-slicing, appends that stay within a made slice's capacity are not
		// distinguished here (an append either stays in that storage or allocates anew — fresh either way), and merges
		var freshBase func(v ssa.Value, seen map[ssa.Value]bool, d int) bool
		freshBase = func(v ssa.Value, seen map[ssa.Value]bool, d int) bool {
			if d > 12 || seen[v] {
				return d <= 12 // a loop-carried value already being examined
			}
			seen[v] = true
			switch x := v.(type) {
			case *ssa.MakeSlice:
				return true
			case *ssa.Slice:
				return freshBase(x.X, seen, d+1)
			case *ssa.Phi:
				for _, e := range x.Edges {
					if !freshBase(e, seen, d+1) {
						return false
					}
				}
				return true
			case *ssa.Call:
				if b, ok := x.Call.Value.(*ssa.Builtin); ok && b.Name() == "append" {
					return freshBase(x.Call.Args[0], seen, d+1)
				}
			case *ssa.Const:
				return x.Value == nil
			}
			return false
		}
		fresh := freshBase(ret.Results[0], map[ssa.Value]bool{}, 0)
		r.Check(fresh, rule, "NormalizePath: the result is built in storage made by this call", ret.Pos(),
			"the normalised list is a view of the caller's argument: normalising rewrites the caller's name list (a second walk with the same list sends different names)")
	}
	r.Floor(rule, n, 1, "success return of NormalizePath")
}

func constStringIs(v ssa.Value, want string) bool {
	c, ok := v.(*ssa.Const)
	return ok && c.Value != nil && c.Value.Kind() == constant.String && constant.StringVal(c.Value) == want
}
