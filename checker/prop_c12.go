package main

import (
	"fmt"
	"go/token"
	"strings"

	"golang.org/x/tools/go/ssa"
)

func init() { register("C12", checkC12) }

// transportRoles finds the owner loop (the function that defers the close of transport.closed)
// and the reader goroutine (the closure it starts with `go`).
func transportRoles(p *Prog) (owner, reader *ssa.Function) {
	for _, fn := range componentFuncs(p, "transport") {
		if fn.Parent() != nil {
			continue
		}
		eachInstr(fn, func(in ssa.Instruction) {
			d, ok := in.(*ssa.Defer)
			if !ok {
				return
			}
			if mc, ok := d.Call.Value.(*ssa.MakeClosure); ok {
				for _, cs := range closeSites(mc.Fn.(*ssa.Function)) {
					if cs.Prov == "field:transport.closed" {
						owner = fn
					}
				}
			}
			// `defer close(t.closed)` without a closure
			if b, ok := d.Call.Value.(*ssa.Builtin); ok && b.Name() == "close" && len(d.Call.Args) == 1 && chanProv(d.Call.Args[0], 0) == "field:transport.closed" {
				owner = fn
			}
		})
	}
	if owner != nil {
		eachInstr(owner, func(in ssa.Instruction) {
			if g, ok := in.(*ssa.Go); ok {
				if mc, ok := g.Call.Value.(*ssa.MakeClosure); ok {
					reader = mc.Fn.(*ssa.Function)
				} else if callee := staticCallee(&g.Call); callee != nil && callee.Blocks != nil && len(findCalls(callee, "invoke p9p.Channel.ReadFcall")) > 0 {
					reader = callee // the reader goroutine body extracted into a method
				}
			}
		})
	}
	return
}

func checkC12(r *Run) {
	p := r.P
	r.Decides = append(r.Decides,
		"every blocking channel operation of the client transport that involves a data channel is a select with the right wake-up cases: callers (send) wait on transport.closed and their own ctx.Done; the owner loop on transport.shutdown and the session ctx.Done; the reader goroutine on transport.closed",
		"the owner loop closes transport.closed on every exit (deferred in its entry block); the reader starts the shutdown on every exit (deferred close()); shutdown is closed under sync.Once; termination channels are never sent on",
		"plain sends go only to per-request channels created with capacity >= 1, at most one per request per loop iteration, and a reply is delivered only on the found edge of the tag lookup",
		"no explicit panic is CHA-reachable from the transport, the client session methods, negotiation or the decode path (the size9p panics are machine-checked dead); every type assertion in the client is comma-ok and its failure edge returns an error",
		"a failed request write removes the tag and reports the error on the request's buffered error channel",
		"slice/index/assertion obligations of the inbound path (readmsg, ReadFcall, decode) are discharged (shared with C03/C04)")
	r.NotDecided = append(r.NotDecided, "time bounds", "partial frames left on the wire by a write deadline", "fairness of select")
	r.Trusted = append(r.Trusted, "context, sync.Once")

	owner, reader := transportRoles(p)
	send := p.Fn("p9p:(*transport).send")
	if owner == nil || reader == nil || send == nil {
		r.Undecided("anchor", "transport owner loop / reader / send", token.NoPos, fmt.Sprintf("roles not resolved: owner=%v reader=%v send=%v", owner != nil, reader != nil, send != nil))
		return
	}
	tfns := componentFuncs(p, "transport")
	for _, f := range tfns {
		r.SawFn(fnName(f))
	}

	// (1) wake-up cases
	nSel := 0
	for _, fn := range tfns {
		for _, op := range chanOps(fn) {
			if !op.Blocking || op.Kind != "select" {
				continue
			}
			nSel++
			key := fmt.Sprintf("%s: %s", fnName(fn), op.String())
			if !hasDataCase(op) {
				r.OkTrivial("select-wakeup", key, op.In.Pos())
				continue
			}
			switch {
			case fn == owner:
				r.Check(op.hasRecv("field:transport.shutdown") && op.hasRecv("done:field:transport.ctx"), "select-wakeup", key, op.In.Pos(),
					"the owner loop cannot be stopped: its select lacks <-shutdown or <-ctx.Done()")
			case fn == send:
				r.Check(op.hasRecv("field:transport.closed"), "select-wakeup", key+" (closed)", op.In.Pos(),
					"a call can block for ever after the transport's loop has exited: select lacks <-transport.closed")
				r.Check(op.hasRecv("done:param:ctx"), "select-wakeup", key+" (ctx)", op.In.Pos(),
					"a call does not return when its own context ends: select lacks <-ctx.Done()")
			default:
				r.Check(op.hasRecv("field:transport.closed") || op.hasRecv("field:transport.shutdown"), "select-wakeup", key, op.In.Pos(),
					"a transport goroutine can block for ever after shutdown: select lacks a termination case")
			}
		}
	}
	r.Floor("select-wakeup", nSel, 4, "blocking selects in the transport")
	nSendSel := 0
	for _, op := range chanOps(send) {
		if op.Kind == "select" && op.Blocking {
			nSendSel++
		}
	}
	r.Floor("select-wakeup", nSendSel, 2, "selects in send (dispatch, wait)")

	// (2) plain sends / receives
	nPlain := 0
	mainSel := (*ssa.Select)(nil)
	for _, op := range chanOps(owner) {
		if s, ok := op.In.(*ssa.Select); ok && op.Blocking {
			mainSel = s
		}
	}
	var plain []ChanOp
	for _, fn := range tfns {
		for _, op := range chanOps(fn) {
			if op.Kind == "select" {
				continue
			}
			nPlain++
			key := fmt.Sprintf("%s: plain %s on %s", fnName(fn), op.Kind, op.Cases[0].Prov)
			if op.Kind == "recv" {
				r.Bad("buffered-reply", key, op.In.Pos(), "a plain blocking receive in the transport cannot be woken by shutdown")
				continue
			}
			prov := op.Cases[0].Prov
			okBuf, why := chanFieldAlwaysBuffered(p, prov)
			r.Check(okBuf, "buffered-reply", key+" is to a buffered per-request channel", op.In.Pos(), why)
			plain = append(plain, op)
		}
	}
	r.Floor("buffered-reply", nPlain, 3, "plain sends in the transport (err, err, response)")
	// at most one plain send per iteration
	if mainSel != nil {
		for i, a := range plain {
			for j, b := range plain {
				if i == j || a.Fn != owner || b.Fn != owner {
					continue
				}
				if reachAvoiding(a.In.Block(), b.In.Block(), mainSel.Block()) || (a.In.Block() == b.In.Block() && i < j) {
					r.Bad("buffered-reply", fmt.Sprintf("%s: two plain sends in one iteration", fnName(owner)), b.In.Pos(), "two sends to per-request channels of capacity 1 on one path: the second can block the owner loop for ever")
				}
			}
		}
		r.Ok("buffered-reply", fnName(owner)+": at most one plain send per loop iteration", mainSel.Pos())
	}

	// reply delivered only on the found edge of the tag lookup
	nDeliver := 0
	for _, dfn := range tfns {
		eachInstr(dfn, func(in ssa.Instruction) {
			sd, ok := in.(*ssa.Send)
			if !ok || chanProv(sd.Chan, 0) != "field:fcallRequest.response" {
				return
			}
			nDeliver++
			okFound := false
			for _, cd := range condsAtInstr(sd) {
				nc := normCond(cd)
				if ex, ok := nc.V.(*ssa.Extract); ok && ex.Index == 1 && nc.Truth {
					if _, ok := ex.Tuple.(*ssa.Lookup); ok {
						okFound = true
					}
				}
			}
			r.Check(okFound, "unknown-tag", "handle: reply delivered only when the tag lookup found a request", sd.Pos(),
				"a reply with an unknown tag reaches the delivery code (nil request dereference)")
		})
	}
	r.Floor("unknown-tag", nDeliver, 1, "reply delivery site")

	// (3) exit discipline
	okOwnerDefer := false
	eachInstr(owner, func(in ssa.Instruction) {
		d, ok := in.(*ssa.Defer)
		if !ok || d.Block().Index != 0 {
			return
		}
		var dcs []ChanCase
		if mc, ok := d.Call.Value.(*ssa.MakeClosure); ok {
			dcs = closeSites(mc.Fn.(*ssa.Function))
		} else if b, ok := d.Call.Value.(*ssa.Builtin); ok && b.Name() == "close" && len(d.Call.Args) == 1 {
			dcs = []ChanCase{{Prov: chanProv(d.Call.Args[0], 0), Chan: d.Call.Args[0]}}
		}
		{
			for _, cs := range dcs {
				if cs.Prov == "field:transport.closed" {
					// nothing that can exit precedes the defer
					okOwnerDefer = true
					for _, x := range d.Block().Instrs {
						if x == in {
							break
						}
						switch x.(type) {
						case *ssa.Call, *ssa.Go, *ssa.Select, *ssa.Send:
							okOwnerDefer = false
						}
					}
				}
			}
		}
	})
	r.Check(okOwnerDefer, "exit-closes", "handle: close(transport.closed) deferred before anything else", owner.Pos(),
		"the owner loop can exit without closing transport.closed: pending and later calls hang")
	okReaderDefer := false
	eachInstr(reader, func(in ssa.Instruction) {
		d, ok := in.(*ssa.Defer)
		if !ok || d.Block().Index != 0 {
			return
		}
		calls := func(f *ssa.Function) bool {
			return len(findCalls(f, "(*p9p.transport).close")) > 0
		}
		if mc, ok := d.Call.Value.(*ssa.MakeClosure); ok && calls(mc.Fn.(*ssa.Function)) {
			okReaderDefer = true
		}
		if calleeName(&d.Call) == "(*p9p.transport).close" {
			okReaderDefer = true
		}
	})
	r.Check(okReaderDefer, "exit-closes", "reader goroutine: transport.close() deferred at entry", reader.Pos(),
		"the reader can exit (fatal read error, peer disconnect) without starting the shutdown: the owner loop and all callers keep waiting")
	// close(shutdown) under once; no sends on termination channels
	nCl := 0
	for _, fn := range tfns {
		for _, cs := range closeSites(fn) {
			switch cs.Prov {
			case "field:transport.shutdown":
				nCl++
				inOnce := runsOnlyUnderOnce(p, fn)
				r.Check(inOnce, "close-once", fnName(fn)+": close(transport.shutdown) under sync.Once", fn.Pos(), "shutdown can be closed twice (panic)")
			case "field:transport.closed":
				nCl++
				// only in the deferred closure of the owner (runs once: handle is started once by newTransport)
				okSite := fn.Parent() == owner
				if fn == owner {
					// the owner's own `defer close(t.closed)`: a deferred call, not a plain one
					okSite = true
					eachInstr(fn, func(in ssa.Instruction) {
						if c, isCall := in.(*ssa.Call); isCall {
							if b, isB := c.Call.Value.(*ssa.Builtin); isB && b.Name() == "close" && chanProv(c.Call.Args[0], 0) == "field:transport.closed" {
								okSite = false
							}
						}
					})
				}
				r.Check(okSite, "close-once", fnName(fn)+": close(transport.closed) only in the owner's deferred closure", fn.Pos(), "transport.closed closed outside the owner loop's exit")
			}
		}
		for _, op := range chanOps(fn) {
			for _, c := range op.Cases {
				if c.Send && isTermProv(c.Prov) {
					r.Bad("close-once", fnName(fn)+": send on a termination channel", op.In.Pos(), "termination channel used as data channel")
				}
			}
		}
	}
	r.Floor("close-once", nCl, 2, "close sites of transport.closed/shutdown")
	// handle is started exactly once per transport
	nGo := 0
	for _, fn := range p.FuncsOfPkg("p9p") {
		eachInstr(fn, func(in ssa.Instruction) {
			if g, ok := in.(*ssa.Go); ok && staticCallee(&g.Call) == owner {
				nGo++
				r.Check(!inLoop(g), "close-once", fnName(fn)+": owner loop started once", g.Pos(), "owner loop started in a loop: transport.closed would be closed twice")
			}
		})
	}
	r.Check(nGo == 1, "close-once", "owner loop has a single start site", owner.Pos(), fmt.Sprintf("%d go statements start the owner loop", nGo))

	// a failed read is retried only for a transient network error; everything else ends the reader (which shuts the
	// transport down and wakes every caller)
	c11RetryOnlyTransient(r, p, "io-retry", []*ssa.Function{reader}, "the reader treats a non-transient read error as temporary: it spins on a dead connection and never starts the shutdown, so pending and later calls hang")

	onlyTerminationChannelsClosed(r, tfns, "close-once")
	ioDeadlineArmed(r, "io-deadline")
	clientReplyTyped(r, "reply-typed")
	// a reply must find and release exactly its own request, or some other call never returns and the owner loop can
	// block on a full reply channel: the tag-multiplexing rules of C05 are necessary conditions here too
	checkC05(r)
	// "no byte sequence from the peer crashes the client": the msize the peer answers steers the truncation arithmetic of
	// every request written afterwards (slice bounds in maybeTruncate)
	if mt := p.Fn("p9p:(*channel).maybeTruncate"); mt != nil {
		c02Truncate(r, mt)
	}
	// … and the size of the read buffer (SetMSize with whatever msize the peer answered must not panic, and must keep
	// len(rdbuf) == msize)
	if sm, nc := p.Fn("p9p:(*channel).SetMSize"), p.Fn("p9p:newChannel"); sm != nil && nc != nil {
		c10BufferInvariant(r, sm, nc)
	}

	c12WriteFailure(r, p, owner)

	// (4) assertions in the client + panic reach
	cfile := map[string]bool{"csession.go": true, "transport.go": true, "version.go": true}
	nTA := 0
	for _, fn := range p.FuncsOfPkg("p9p") {
		if !cfile[p.FileOf(fn.Pos())] {
			continue
		}
		eachInstr(fn, func(in ssa.Instruction) {
			ta, ok := in.(*ssa.TypeAssert)
			if !ok {
				return
			}
			nTA++
			key := fmt.Sprintf("%s: %s.(%s)", fnName(fn), valStr(ta.X), shortType(ta.AssertedType))
			if !ta.CommaOk {
				r.Bad("checked-assert", key, ta.Pos(), "unchecked type assertion on data received from the peer: a reply of the wrong type panics the client")
				return
			}
			// type switches and `v, _ :=` forms are fine; for two-result assertions used in an if, the !ok edge must return an error
			okv := resultN(ta, 1)
			if okv == nil {
				r.Ok("checked-assert", key, ta.Pos())
				return
			}
			bad := false
			for _, ret := range returnsOf(fn) {
				for _, cd := range condsAtInstr(ret) {
					nc := normCond(cd)
					if nc.V == okv && !nc.Truth {
						// on the failure edge: must return a non-nil error if the function returns one
						hasErr := false
						for _, res := range ret.Results {
							if isErrorType(res.Type()) && !isNilConst(res) {
								hasErr = true
							}
						}
						sig := fn.Signature.Results()
						if sig.Len() > 0 && isErrorType(sig.At(sig.Len()-1).Type()) && !hasErr {
							// type-switch fallthrough chains reach other clauses; only direct `if !ok { return }` shapes matter
							if ret.Block().Idom() == okv.(*ssa.Extract).Block() || ret.Block() == okv.(*ssa.Extract).Block() {
								bad = true
							}
						}
					}
				}
			}
			r.Check(!bad, "checked-assert", key, ta.Pos(), "the failure edge of the assertion does not report an error: a wrong-typed reply is taken for success")
		})
	}
	r.Floor("checked-assert", nTA, 12, "type assertions in the client")

	roots := []*ssa.Function{owner, reader, send, p.Fn("p9p:CSession"), p.Fn("p9p:clientnegotiate"), p.Fn("p9p:newTransport"), p.Fn("p9p:(*transport).Close")}
	for _, fn := range componentFuncs(p, "client") {
		roots = append(roots, fn)
	}
	sites, nReach := explicitPanics(p, roots)
	for _, s := range sites {
		key := fmt.Sprintf("%s: explicit panic", fnName(s.Fn))
		if ok, why := reviewedDeadPanic(p, s); ok {
			r.Ok("panic-reach", key+" (dead: "+why+")", s.In.Pos(), pathString(s.Path))
		} else {
			r.Bad("panic-reach", key, s.In.Pos(), "explicit panic reachable from the client: "+pathString(s.Path)+" "+why)
		}
	}
	r.OkTrivial("panic-reach", fmt.Sprintf("client scope: %d module functions reachable (CHA), %d explicit panic sites examined", nReach, len(sites)), token.NoPos)
	r.Floor("panic-reach", nReach, 30, "functions reachable from the client entry points")

	checkFreshFrame(r, reader, "fresh-frame")
	// (6) inbound path obligations
	n := 0
	for _, k := range []string{"p9p:readmsg", "p9p:(*channel).ReadFcall", "p9p:(*client).Read", "p9p:(*client).Write"} {
		if fn := p.Fn(k); fn != nil {
			n += dischargeBounds(r, fn, "bounds", nil)
		}
	}
	n += decodeScopeBounds(r, "bounds")
	r.Floor("bounds", n, 6, "bounds obligations on the inbound path")
}

// chanFieldAlwaysBuffered: every value ever stored in the struct field named by prov ("field:S.f")
// is a make(chan, c) with constant c >= 1.
func chanFieldAlwaysBuffered(p *Prog, prov string) (bool, string) {
	if !strings.HasPrefix(prov, "field:") {
		return false, "the channel is not a per-request field: " + prov
	}
	parts := strings.SplitN(strings.TrimPrefix(prov, "field:"), ".", 2)
	n := 0
	ok := true
	why := ""
	for _, fn := range p.FuncsOfPkg("p9p") {
		eachInstr(fn, func(in ssa.Instruction) {
			st, isSt := in.(*ssa.Store)
			if !isSt {
				return
			}
			fa, isFa := st.Addr.(*ssa.FieldAddr)
			if !isFa || structName(fa.X.Type()) != parts[0] || fieldName(fa.X.Type(), fa.Field) != parts[1] {
				return
			}
			n++
			mc, isMk := st.Val.(*ssa.MakeChan)
			if !isMk {
				ok, why = false, "the field is assigned something other than a fresh make(chan)"
				return
			}
			if c, isC := constInt(mc.Size); !isC || c < 1 {
				ok, why = false, "the per-request channel is unbuffered: the owner loop blocks for ever when the caller has gone away (abandoned call)"
			}
		})
	}
	if n == 0 {
		return false, "no assignment of the channel field found"
	}
	return ok, why
}

// reachAvoiding: a path from block a to block b exists that does not pass through block avoid.
func reachAvoiding(a, b, avoid *ssa.BasicBlock) bool {
	seen := map[*ssa.BasicBlock]bool{}
	var walk func(x *ssa.BasicBlock) bool
	walk = func(x *ssa.BasicBlock) bool {
		for _, s := range x.Succs {
			if s == avoid || seen[s] {
				continue
			}
			if s == b {
				return true
			}
			seen[s] = true
			if walk(s) {
				return true
			}
		}
		return false
	}
	return walk(a)
}

// isOwnerLoop: fn is the transport's owner loop itself (it closes transport.closed on exit), not a helper of it.
func isOwnerLoop(fn *ssa.Function) bool {
	ok := false
	eachInstr(fn, func(in ssa.Instruction) {
		if d, isD := in.(*ssa.Defer); isD {
			if mc, isMC := d.Call.Value.(*ssa.MakeClosure); isMC {
				for _, cs := range closeSites(mc.Fn.(*ssa.Function)) {
					if cs.Prov == "field:transport.closed" {
						ok = true
					}
				}
			}
		}
	})
	return ok
}

// ioDeadlineArmed: every read/write of the connection is preceded, on every path, by (re-)arming the connection's
// deadline — the deadline belongs to the shared connection, so a call that does not re-arm it inherits whatever an
// earlier call left (possibly already expired), or none at all (a stalled peer then blocks the loop for ever).
// This is the structural half of "within bounded time".
func ioDeadlineArmed(r *Run, rule string) {
	p := r.P
	arms := func(fn *ssa.Function, kind string) []ssa.Instruction { // instructions of fn after which the deadline is armed
		var out []ssa.Instruction
		eachInstr(fn, func(in ssa.Instruction) {
			c, ok := in.(*ssa.Call)
			if !ok {
				return
			}
			if c.Call.IsInvoke() && c.Call.Method.Name() == "Set"+kind+"Deadline" {
				out = append(out, in)
				return
			}
			// a helper that arms it on every path
			if g := staticCallee(&c.Call); g != nil && g.Blocks != nil && p.InModule(g) && g != fn {
				var inner []ssa.Instruction
				eachInstr(g, func(in2 ssa.Instruction) {
					if c2, ok := in2.(*ssa.Call); ok && c2.Call.IsInvoke() && c2.Call.Method.Name() == "Set"+kind+"Deadline" {
						inner = append(inner, in2)
					}
				})
				all := len(inner) > 0
				for _, ret := range returnsOf(g) {
					dom := false
					for _, a := range inner {
						if instrDominates(a, ret) {
							dom = true
						}
					}
					if !dom {
						all = false
					}
				}
				if all {
					out = append(out, in)
				}
			}
		})
		return out
	}
	n := 0
	for _, spec := range []struct {
		fn, kind string
		io       []string
	}{
		{"p9p:(*channel).ReadFcall", "Read", []string{"p9p.readmsg"}},
		{"p9p:(*channel).WriteFcall", "Write", []string{"p9p.sendmsg", "(*bufio.Writer).Flush"}},
	} {
		fn := p.Fn(spec.fn)
		if fn == nil {
			r.Undecided(rule, spec.fn, token.NoPos, "anchor not found")
			continue
		}
		as := arms(fn, spec.kind)
		ios := findCalls(fn, spec.io...)
		// the I/O may sit in a helper of the channel (`ch.writeframe(p)`): the helper call is the I/O step, counted
		// once per I/O call inside it
		eachInstr(fn, func(in ssa.Instruction) {
			c, ok := in.(*ssa.Call)
			if !ok {
				return
			}
			if g := staticCallee(&c.Call); g != nil && g.Blocks != nil && g.Pkg == fn.Pkg && g != fn {
				for range findCalls(g, spec.io...) {
					ios = append(ios, c)
				}
			}
		})
		for _, io := range ios {
			n++
			ok := false
			for _, a := range as {
				if instrDominates(a, io) {
					ok = true
				}
			}
			r.Check(ok, rule, fmt.Sprintf("%s: Set%sDeadline precedes %s on every path", fnName(fn), spec.kind, calleeName(&io.Call)), io.Pos(),
				"the connection's "+strings.ToLower(spec.kind)+" deadline is not re-armed on some path before the I/O: the call inherits an earlier call's (possibly expired) deadline or none — other calls fail spuriously, or a stalled peer blocks the loop for ever")
		}
	}
	r.Floor(rule, n, 3, "I/O steps in ReadFcall/WriteFcall")
}

// clientReplyTyped: every client Session method checks the type of the reply it got before reporting success: a
// comma-ok assertion of the reply to an R-message type, with every nil-error return on its ok edge. A reply of the
// wrong type (correct tag, other message) must surface as an error, not as success.
func clientReplyTyped(r *Run, rule string) {
	p := r.P
	n := 0
	for _, fn := range p.FuncsOfPkg("p9p") {
		if fn.Parent() != nil || fn.Signature.Recv() == nil || !isP9P(fn.Signature.Recv().Type(), "client") {
			continue
		}
		sends := findCalls(fn, "invoke p9p.roundTripper.send")
		if len(sends) == 0 {
			continue
		}
		n++
		// the round trip runs under the caller's own context: it ends when that context ends
		var ctxParam ssa.Value
		for _, prm := range fn.Params {
			if prm.Type().String() == "context.Context" {
				ctxParam = prm
				break
			}
		}
		for _, snd := range sends {
			r.Check(ctxParam != nil && len(snd.Call.Args) > 0 && stripConv(snd.Call.Args[0]) == ctxParam, rule, fnName(fn)+": the round trip runs under the caller's context", snd.Pos(),
				"the request is sent under a context other than the one the caller passed: the call does not end when the caller's context ends")
		}
		reply := resultN(sends[0], 0)
		var oks []ssa.Value
		eachInstr(fn, func(in ssa.Instruction) {
			ta, ok := in.(*ssa.TypeAssert)
			if !ok || !ta.CommaOk || ta.X != reply {
				return
			}
			if strings.HasPrefix(strings.TrimPrefix(shortType(ta.AssertedType), "p9p."), "MessageR") {
				if okv := resultN(ta, 1); okv != nil {
					oks = append(oks, okv)
				}
			}
		})
		good := len(oks) > 0
		for _, ret := range returnsOf(fn) {
			if len(ret.Results) == 0 {
				continue
			}
			ev := ret.Results[len(ret.Results)-1]
			// an error that cannot be nil here is no success; any return whose error may be nil must lie on the ok
			// edge, or hand back the result of a helper given the ok flag that returns nil only when the flag is true
			if !isNilConst(ev) && (errNeverNilAt(ev, ret) || okGatedError(p, ev, oks)) {
				continue
			}
			onOk := false
			for _, cd := range condsAtInstr(ret) {
				nc := normCond(cd)
				for _, okv := range oks {
					if nc.V == okv && nc.Truth {
						onOk = true
					}
				}
			}
			if !onOk {
				good = false
			}
		}
		r.Check(good, rule, fnName(fn)+": success only on the ok edge of a checked assertion of the reply to its R-message type", fn.Pos(),
			"the method reports success without checking what kind of reply it received: a wrong-typed reply is taken for success")
	}
	r.Floor(rule, n, 11, "client Session methods with a round trip")
}

// c12WriteFailure: a failed request write frees the tag, is reported to the caller, and does not end the owner loop.
func c12WriteFailure(r *Run, p *Prog, owner *ssa.Function) {
	// (5) write failure path
	var ownerWrites []*ssa.Call
	for _, f := range p.withHelpers(owner, 1) {
		ownerWrites = append(ownerWrites, findCalls(f, "invoke p9p.Channel.WriteFcall")...)
	}
	r.Floor("write-failure", len(ownerWrites), 1, "request writes in the owner loop")
	for _, w := range ownerWrites {
		owner := w.Parent()
		e := errResult(w)
		if e == nil {
			r.Bad("write-failure", "handle: WriteFcall error examined", w.Pos(), "request write errors are ignored: the caller waits for a reply that never comes")
			continue
		}
		okDel, okSend := false, false
		eachInstr(owner, func(in ssa.Instruction) {
			if !knownNonNilAt(e, in) {
				return
			}
			if c, ok := in.(*ssa.Call); ok {
				if b, ok := c.Call.Value.(*ssa.Builtin); ok && b.Name() == "delete" {
					okDel = true
				}
			}
			if sd, ok := in.(*ssa.Send); ok && chanProv(sd.Chan, 0) == "field:fcallRequest.err" && sd.X == e {
				okSend = true
			}
		})
		r.Check(okDel, "write-failure", "handle: failed request write frees the tag", w.Pos(), "the tag of a request that was never sent stays outstanding for ever")
		r.Check(okSend, "write-failure", "handle: failed request write is reported to the caller", w.Pos(), "the caller of a request that could not be written is never told")
		// a failed write (the request's own context may simply have ended: WriteFcall(req.ctx, …) returns ctx.Err()
		// before touching the wire) concerns that one call: the owner loop must go on serving the others
		if owner.Parent() == nil && len(findCalls(owner, "invoke p9p.Channel.WriteFcall")) > 0 {
			okGoOn := true
			var where ssa.Instruction = w
			for _, ret := range returnsOf(owner) {
				if knownNonNilAt(e, ret) && isOwnerLoop(owner) {
					okGoOn = false
					where = ret
				}
			}
			r.Check(okGoOn, "write-failure", "handle: a failed request write does not end the owner loop", where.Pos(),
				"the owner loop returns on a request-write error: one call whose context has ended shuts the whole session down for every other caller")
		}
	}

}

// errNeverNilAt: the error value cannot be nil where it is returned: tested non-nil on the way, freshly built, or a
// package-level error variable.
func errNeverNilAt(ev ssa.Value, at ssa.Instruction) bool {
	if knownNonNilAt(ev, at) {
		return true
	}
	switch x := ev.(type) {
	case *ssa.MakeInterface:
		return true
	case *ssa.UnOp:
		if _, isG := x.X.(*ssa.Global); isG && x.Op == token.MUL {
			return true
		}
	case *ssa.Phi:
		for _, e := range x.Edges {
			if isNilConst(e) {
				return false
			}
			switch y := e.(type) {
			case *ssa.MakeInterface:
			case *ssa.UnOp:
				if _, isG := y.X.(*ssa.Global); !isG {
					return false
				}
			default:
				return false
			}
		}
		return true
	}
	return false
}

// okGatedError: ev is the result of a module helper handed one of the ok flags (`return ackResult(ok)`) that
// returns nil only when that flag is true.
func okGatedError(p *Prog, ev ssa.Value, oks []ssa.Value) bool {
	c, ok := ev.(*ssa.Call)
	if !ok {
		return false
	}
	g := staticCallee(&c.Call)
	if g == nil || g.Blocks == nil || !p.InModule(g) || g.Signature.Results().Len() != 1 {
		return false
	}
	for i, a := range c.Call.Args {
		if i >= len(g.Params) {
			break
		}
		for _, okv := range oks {
			if a == okv && nilOnlyWhenTrue(g, g.Params[i]) {
				return true
			}
		}
	}
	return false
}

// nilOnlyWhenTrue: every exit of g whose (single, error) result may be nil lies on an edge where the flag is true.
func nilOnlyWhenTrue(g *ssa.Function, flag *ssa.Parameter) bool {
	n := 0
	for _, rs := range returnSites(g) {
		if len(rs.Results) != 1 {
			return false
		}
		n++
		if errNeverNilAt(rs.Results[0], rs.At()) {
			continue
		}
		on := false
		for _, cd := range rs.Conds() {
			if nc := normCond(cd); nc.V == ssa.Value(flag) && nc.Truth {
				on = true
			}
		}
		if !on {
			return false
		}
	}
	return n > 0
}
