package main

import (
	"fmt"
	"go/ast"
	"go/token"
	"go/types"
	"sort"
	"strings"

	"golang.org/x/tools/go/ssa"
)

func init() { register("C01", checkC01) }

// ---- the oracle: 9P2000 message table, transcribed from intro(5) / stat(5) ----------

type wireField struct {
	name string // manual's field name
	kind string // u1 u2 u4 u8 s data4 list2(s) list2(qid) qid stat
}

var spec9p = map[string]struct {
	code   int64
	fields []wireField
}{
	"Tversion": {100, []wireField{{"msize", "u4"}, {"version", "s"}}},
	"Rversion": {101, []wireField{{"msize", "u4"}, {"version", "s"}}},
	"Tauth":    {102, []wireField{{"afid", "u4"}, {"uname", "s"}, {"aname", "s"}}},
	"Rauth":    {103, []wireField{{"aqid", "qid"}}},
	"Tattach":  {104, []wireField{{"fid", "u4"}, {"afid", "u4"}, {"uname", "s"}, {"aname", "s"}}},
	"Rattach":  {105, []wireField{{"qid", "qid"}}},
	"Rerror":   {107, []wireField{{"ename", "s"}}},
	"Tflush":   {108, []wireField{{"oldtag", "u2"}}},
	"Rflush":   {109, nil},
	"Twalk":    {110, []wireField{{"fid", "u4"}, {"newfid", "u4"}, {"wname", "list2(s)"}}},
	"Rwalk":    {111, []wireField{{"wqid", "list2(qid)"}}},
	"Topen":    {112, []wireField{{"fid", "u4"}, {"mode", "u1"}}},
	"Ropen":    {113, []wireField{{"qid", "qid"}, {"iounit", "u4"}}},
	"Tcreate":  {114, []wireField{{"fid", "u4"}, {"name", "s"}, {"perm", "u4"}, {"mode", "u1"}}},
	"Rcreate":  {115, []wireField{{"qid", "qid"}, {"iounit", "u4"}}},
	"Tread":    {116, []wireField{{"fid", "u4"}, {"offset", "u8"}, {"count", "u4"}}},
	"Rread":    {117, []wireField{{"data", "data4"}}},
	"Twrite":   {118, []wireField{{"fid", "u4"}, {"offset", "u8"}, {"data", "data4"}}},
	"Rwrite":   {119, []wireField{{"count", "u4"}}},
	"Tclunk":   {120, []wireField{{"fid", "u4"}}},
	"Rclunk":   {121, nil},
	"Tremove":  {122, []wireField{{"fid", "u4"}}},
	"Rremove":  {123, nil},
	"Tstat":    {124, []wireField{{"fid", "u4"}}},
	"Rstat":    {125, []wireField{{"stat", "stat"}}},
	"Twstat":   {126, []wireField{{"fid", "u4"}, {"stat", "stat"}}},
	"Rwstat":   {127, nil},
}

var specQid = []wireField{{"type", "u1"}, {"vers", "u4"}, {"path", "u8"}}
var specDir = []wireField{{"type", "u2"}, {"dev", "u4"}, {"qid", "qid"}, {"mode", "u4"}, {"atime", "u4"}, {"mtime", "u4"}, {"length", "u8"},
	{"name", "s"}, {"uid", "s"}, {"gid", "s"}, {"muid", "s"}}

// Go field name → accepted manual names (lower-case). Anything not listed must match case-insensitively.
var fieldAliases = map[string][]string{
	"wnames": {"wname"}, "qids": {"wqid"}, "qid": {"qid", "aqid"}, "accesstime": {"atime"}, "modtime": {"mtime"}, "version": {"version", "vers"},
}

// goKind maps a Go field type to its wire kind.
func goKind(t types.Type) string {
	if isNamed(t, "time", "Time") {
		return "u4" // whole seconds since the epoch
	}
	if isP9P(t, "Qid") {
		if _, ok := t.(*types.Named); ok {
			return "qid"
		}
	}
	if n, ok := t.(*types.Named); ok && n.Obj().Pkg() != nil && n.Obj().Pkg().Path() == modPath && n.Obj().Name() == "Dir" {
		return "stat"
	}
	switch u := t.Underlying().(type) {
	case *types.Basic:
		switch u.Kind() {
		case types.Uint8:
			return "u1"
		case types.Uint16:
			return "u2"
		case types.Uint32:
			return "u4"
		case types.Uint64:
			return "u8"
		case types.String:
			return "s"
		}
	case *types.Slice:
		if b, ok := u.Elem().Underlying().(*types.Basic); ok {
			switch b.Kind() {
			case types.Uint8:
				return "data4"
			case types.String:
				return "list2(s)"
			}
		}
		if isP9P(u.Elem(), "Qid") {
			return "list2(qid)"
		}
	}
	return "?" + shortType(t)
}

func nameMatches(goName, wire string) bool {
	g := strings.ToLower(goName)
	if g == wire {
		return true
	}
	for _, a := range fieldAliases[g] {
		if a == wire {
			return true
		}
	}
	return false
}

func checkLayout(r *Run, tname string, st *types.Struct, want []wireField, pos token.Pos) {
	key := "layout of " + tname
	var got []string
	bad := ""
	n := 0
	for i := 0; i < st.NumFields(); i++ {
		f := st.Field(i)
		if !f.Exported() {
			bad += fmt.Sprintf("unexported field %s is skipped by the reflection walk; ", f.Name())
			continue
		}
		k := goKind(f.Type())
		got = append(got, fmt.Sprintf("%s[%s]", f.Name(), k))
		if n >= len(want) {
			bad += fmt.Sprintf("extra field %s; ", f.Name())
			n++
			continue
		}
		w := want[n]
		if k != w.kind {
			bad += fmt.Sprintf("field %d is %s(%s), 9P2000 has %s[%s]; ", n, f.Name(), k, w.name, w.kind)
		} else if !nameMatches(f.Name(), w.name) {
			bad += fmt.Sprintf("field %d is %s but 9P2000 has %s[%s] at that position (fields swapped?); ", n, f.Name(), w.name, w.kind)
		}
		n++
	}
	if n < len(want) {
		bad += fmt.Sprintf("%d fields, 9P2000 has %d; ", n, len(want))
	}
	if bad == "" {
		r.Ok("layout", key, pos, strings.Join(got, " "))
	} else {
		r.Bad("layout", key, pos, strings.TrimSpace(bad), strings.Join(got, " "))
	}
}

func checkC01(r *Run) {
	p := r.P
	r.Decides = append(r.Decides,
		"the type-code constants equal the 9P2000 codes (Tversion 100 … Rwstat 127, R = T+1); newMessage maps every code to the struct whose Type() method returns that code, for all 27 kinds and nothing else",
		"every message struct, Qid and Dir declares exactly the manual's fields, in the manual's order, with the manual's widths (field order IS wire order because fields9p walks fields by ascending index and appends) — name-checked so that a swap of two same-width fields is seen",
		"every Go type that occurs as a field has a clause in encode, decode (pointer form) and size9p; each clause's emission sequence equals the manual's layout for that type (little-endian everywhere, 2-byte string/list counts, 4-byte data count, qid field order, the doubled stat size for Rstat/Twstat) and the three functions agree type by type (Size == len(Marshal), decode is the mirror of encode)",
		"every Message implementer is a struct (the reflection walk cannot fail; the size9p panics are dead)")
	r.NotDecided = append(r.NotDecided, "value equality after a round trip ([]byte{} vs nil, sub-second time, strings > 65535 bytes — excluded by the property)", "correctness of encoding/binary and reflect (trusted)")
	r.Trusted = append(r.Trusted, "encoding/binary, reflect", "the 9P2000 table transcribed in the checker (spec9p)")
	pk := p.Pkgs["p9p"]

	// (a) codes
	codes := fcallCodes(p)
	nCodes := 0
	kinds := []string{}
	for k := range spec9p {
		kinds = append(kinds, k)
	}
	sort.Strings(kinds)
	for _, k := range kinds {
		nCodes++
		v, ok := codes[k]
		pos := token.NoPos
		if o := pk.Types.Scope().Lookup(k); o != nil {
			pos = o.Pos()
		}
		r.Check(ok && v == spec9p[k].code, "codes", "FcallType "+k+" == "+fmt.Sprint(spec9p[k].code), pos, fmt.Sprintf("constant %s is %d (defined: %v), 9P2000 says %d", k, v, ok, spec9p[k].code))
	}
	for k, v := range codes {
		if _, ok := spec9p[k]; !ok && k != "Terror" && k != "Tmax" {
			r.Bad("codes", "FcallType "+k+" is a 9P2000 kind", pk.Types.Scope().Lookup(k).Pos(), fmt.Sprintf("constant %s=%d is not a 9P2000 message kind", k, v))
		}
	}
	// (f) R = T+1
	for _, k := range kinds {
		if strings.HasPrefix(k, "T") {
			rk := "R" + k[1:]
			r.Check(codes[rk] == codes[k]+1, "codes", rk+" == "+k+"+1", token.NoPos, fmt.Sprintf("%s=%d, %s=%d", k, codes[k], rk, codes[rk]))
		}
	}

	// (c,d) layouts
	for _, k := range kinds {
		n := p.Named("p9p", "Message"+k)
		if n == nil {
			r.Bad("layout", "layout of Message"+k, token.NoPos, "message struct not declared")
			continue
		}
		st, ok := n.Underlying().(*types.Struct)
		if !ok {
			r.Bad("layout", "layout of Message"+k, n.Obj().Pos(), "not a struct")
			continue
		}
		checkLayout(r, "Message"+k, st, spec9p[k].fields, n.Obj().Pos())
		// Type() returns the kind's constant
		c01TypeMethod(r, n, k, codes)
	}
	for name, want := range map[string][]wireField{"Qid": specQid, "Dir": specDir} {
		n := p.Named("p9p", name)
		if n == nil {
			r.Bad("layout", "layout of "+name, token.NoPos, "type not declared")
			continue
		}
		if st, ok := n.Underlying().(*types.Struct); ok {
			checkLayout(r, name, st, want, n.Obj().Pos())
		}
	}
	// Fcall: Type Tag Message
	if n := p.Named("p9p", "Fcall"); n != nil {
		if st, ok := n.Underlying().(*types.Struct); ok {
			okF := st.NumFields() == 3 && goKind(st.Field(0).Type()) == "u1" && isP9P(st.Field(0).Type(), "FcallType") && goKind(st.Field(1).Type()) == "u2" && isP9P(st.Field(2).Type(), "Message")
			r.Check(okF, "layout", "layout of Fcall: type[1] tag[2] message", n.Obj().Pos(), "Fcall is not {Type FcallType(u1); Tag(u2); Message}")
		}
	}

	// (b) newMessage
	c01NewMessage(r, codes)

	// (e)
	bad, nImpl := messageImplementersAreStructs(p)
	r.Check(len(bad) == 0 && nImpl >= 27, "reflection-walk", "every Message implementer is a struct", token.NoPos, "non-struct implementers: "+strings.Join(bad, ","), fmt.Sprintf("%d implementers", nImpl))
	// (j) fields9p walks fields in ascending index order and appends
	c01Fields9p(r)

	// E1b
	c01Grammar(r)
	c01EncodeTotal(r)
	c01MarshalFresh(r)
	// a failed encode/decode step never continues to a success return; the stat-record helpers size their buffers
	// without wrapping (a record of any representable size decodes)
	ng := 0
	for _, name := range []string{"p9p:(*encoder).encode", "p9p:(*decoder).decode", "p9p:(codec9p).Marshal", "p9p:(codec9p).Unmarshal", "p9p:DecodeDir", "p9p:EncodeDir"} {
		if fn := r.P.Fn(name); fn != nil {
			for _, f := range r.P.withHelpers(fn, 1) {
				if f == fn || f.Parent() == nil && !strings.Contains(name, fnName(f)) {
					ng += errorGatesSuccess(r, f, "error-gates-success")
				}
			}
		}
	}
	r.Floor("error-gates-success", ng, 30, "error-returning steps in the codec")
	nb := 0
	for _, name := range []string{"p9p:DecodeDir", "p9p:EncodeDir"} {
		if fn := r.P.Fn(name); fn != nil {
			for _, f := range r.P.withHelpers(fn, 1) { // the record may be read by a helper (`readDirRecord(rd)`)
				nb += dischargeBounds(r, f, "dir-record-bounds", nil)
				nb += putPreconditions(r, f, "dir-record-bounds")
			}
		}
	}
	r.Floor("dir-record-bounds", nb, 2, "slice/make obligations in DecodeDir/EncodeDir")
	if dd := r.P.Fn("p9p:DecodeDir"); dd != nil {
		for _, f := range r.P.withHelpers(dd, 1) {
			onlyForwardedErrors(r, f, "dir-record-bounds", "a representable stat record can be refused")
		}
	}
	r.Exhaustive = true
	_ = ast.Inspect
}

func c01TypeMethod(r *Run, n *types.Named, kind string, codes map[string]int64) {
	p := r.P
	var fn *ssa.Function
	for _, key := range []string{"p9p:(Message" + kind + ").Type", "p9p:(*Message" + kind + ").Type"} {
		if f := p.Fn(key); f != nil {
			fn = f
		}
	}
	if fn == nil {
		r.Bad("type-method", "Message"+kind+".Type() == "+kind, n.Obj().Pos(), "no Type method")
		return
	}
	ok := true
	got := ""
	for _, ret := range returnsOf(fn) {
		v, isC := constInt(ret.Results[0])
		got = fmt.Sprint(v)
		if !isC || v != codes[kind] || codes[kind] == 0 {
			ok = false
		}
	}
	r.Check(ok, "type-method", "Message"+kind+".Type() == "+kind, fn.Pos(), "Type() returns "+got+" but "+kind+" is "+fmt.Sprint(codes[kind]))
}

// newMessage: case K → T{} with T.Type() == K, all 27 kinds
func c01NewMessage(r *Run, codes map[string]int64) {
	p := r.P
	nm := p.Fn("p9p:newMessage")
	if nm == nil {
		r.Undecided("newMessage", "newMessage", token.NoPos, "anchor not found")
		return
	}
	seen := map[string]bool{}
	// the table type byte → message struct, read off the returns: a struct value returned under `typ == K`, directly
	// or through a lookup helper handed typ whose non-nil result is returned (`if m := newRequestMessage(typ); m != nil`)
	var table func(fn *ssa.Function, prm ssa.Value, errIdx int, depth int)
	table = func(fn *ssa.Function, prm ssa.Value, errIdx int, depth int) {
		for _, ret := range returnsOf(fn) {
			if errIdx >= 0 && (len(ret.Results) <= errIdx || !isNilConst(ret.Results[errIdx])) {
				continue
			}
			if len(ret.Results) == 0 || isNilConst(ret.Results[0]) {
				continue // "not mine" result of a lookup helper
			}
			v := stripConv(ret.Results[0])
			// a value obtained from a lookup helper (or the first non-nil of several: a phi of such calls) and known
			// non-nil here
			if depth < 2 && knownNonNilAt(v, ret) {
				viaHelpers := true
				var calls []*ssa.Call
				for _, alt := range phiAlternatives(v, 3) {
					c, ok := stripConv(alt).(*ssa.Call)
					if !ok {
						viaHelpers = false
						break
					}
					g := staticCallee(&c.Call)
					if g == nil || g.Blocks == nil || g.Pkg != fn.Pkg {
						viaHelpers = false
						break
					}
					calls = append(calls, c)
				}
				if viaHelpers && len(calls) > 0 {
					for _, c := range calls {
						g := staticCallee(&c.Call)
						for i, a := range c.Call.Args {
							if a == prm && i < len(g.Params) {
								r.SawFn(fnName(g))
								table(g, g.Params[i], -1, depth+1)
							}
						}
					}
					continue
				}
			}
			var code int64 = -1
			for _, cd := range condsAtInstr(ret) {
				nc := normCond(cd)
				if b, ok := nc.V.(*ssa.BinOp); ok && b.Op == token.EQL && nc.Truth {
					if v, ok := constInt(b.Y); ok && b.X == prm {
						code = v
					}
				}
			}
			t := v.Type()
			if mi, ok := v.(*ssa.MakeInterface); ok {
				t = mi.X.Type()
			}
			tn, _ := t.(*types.Named)
			if tn == nil || code < 0 {
				r.Undecided("newMessage", "newMessage: return of "+shortType(t), ret.Pos(), "cannot relate the returned struct to a type code")
				continue
			}
			kind := strings.TrimPrefix(tn.Obj().Name(), "Message")
			seen[kind] = true
			r.Check(codes[kind] == code && spec9p[kind].code == code, "newMessage", fmt.Sprintf("newMessage(%d) → Message%s", code, kind), ret.Pos(),
				fmt.Sprintf("type byte %d decodes into Message%s whose code is %d", code, kind, codes[kind]))
		}
	}
	table(nm, nm.Params[0], 1, 0)
	for k := range spec9p {
		if !seen[k] {
			r.Bad("newMessage", "newMessage handles "+k, nm.Pos(), "no case for "+k+": such messages cannot be decoded")
		}
	}
}

func c01Fields9p(r *Run) {
	fn := r.P.Fn("p9p:fields9p")
	if fn == nil {
		r.Undecided("reflection-walk", "fields9p", token.NoPos, "anchor not found")
		return
	}
	fa := r.P.FA(fn)
	// Field(i) with i the canonical counting loop variable starting at 0 with step 1 and bound NumField(); append in the loop
	okField, okAppend := false, false
	eachInstr(fn, func(in ssa.Instruction) {
		c, ok := in.(*ssa.Call)
		if !ok {
			return
		}
		switch calleeName(&c.Call) {
		case "(reflect.Value).Field":
			if phi, ok := c.Call.Args[1].(*ssa.Phi); ok && inLoop(c) {
				init, step := false, false
				for _, e := range phi.Edges {
					if v, ok := constInt(e); ok && v == 0 {
						init = true
					} else if fa.Lin(e).Sub(fa.Lin(phi)).Equal(linConst(1)) {
						step = true
					} else {
						init, step = false, false
					}
				}
				// bound: i < NumField()
				bound := false
				for _, cd := range condsAtInstr(c) {
					nc := normCond(cd)
					b, ok := nc.V.(*ssa.BinOp)
					if !ok {
						continue
					}
					// the condition as lo < hi, whichever way it is written (i < n, n > i, !(i >= n), !(n <= i))
					var lo, hi ssa.Value
					switch {
					case b.Op == token.LSS && nc.Truth, b.Op == token.GEQ && !nc.Truth:
						lo, hi = b.X, b.Y
					case b.Op == token.GTR && nc.Truth, b.Op == token.LEQ && !nc.Truth:
						lo, hi = b.Y, b.X
					}
					if lo == ssa.Value(phi) {
						if bc, ok := hi.(*ssa.Call); ok && calleeName(&bc.Call) == "(reflect.Value).NumField" {
							bound = true
						}
					}
				}
				okField = init && step && bound
			}
		case "builtin append":
			if inLoop(c) {
				okAppend = true
			}
		}
	})
	r.Check(okField && okAppend, "reflection-walk", "fields9p: walks fields 0..NumField()-1 in order and appends each", fn.Pos(),
		"the reflection walk does not visit the struct fields in ascending declaration order: wire order no longer equals declaration order")
	// no sort/reverse
	eachInstr(fn, func(in ssa.Instruction) {
		if c, ok := in.(*ssa.Call); ok && strings.HasPrefix(calleeName(&c.Call), "sort.") {
			r.Bad("reflection-walk", "fields9p: no reordering", c.Pos(), "fields are reordered")
		}
	})
}

// encode is total on the wire types: the only errors it returns are those of its write steps. A freshly made error
// inside a typed clause refuses to encode a value of a wire type; that is acceptable only for values the format
// cannot represent (more than 65535 bytes/elements under a count[2]), i.e. on an edge implying len(x) >= 65536.
func c01EncodeTotal(r *Run) {
	p := r.P
	enc := p.Fn("p9p:(*encoder).encode")
	if enc == nil {
		r.Undecided("encode-total", "(*encoder).encode", token.NoPos, "anchor not found")
		return
	}
	n := 0
	for _, fn := range p.withHelpers(enc, 1) {
		if fn != enc && (fn.Signature.Recv() == nil || !strings.Contains(shortType(fn.Signature.Recv().Type()), "encoder")) {
			continue
		}
		fa := p.FA(fn)
		res := fn.Signature.Results()
		if res.Len() == 0 || !isErrorType(res.At(res.Len()-1).Type()) {
			continue
		}
		for _, ret := range returnsOf(fn) {
			e := ret.Results[len(ret.Results)-1]
			if isNilConst(e) {
				continue
			}
			n++
			key := fmt.Sprintf("%s: error return is a write step's error", fnName(fn))
			fresh := false
			for _, alt := range phiAlternatives(e, 3) {
				switch x := alt.(type) {
				case *ssa.Extract:
					if _, ok := x.Tuple.(*ssa.Call); !ok {
						fresh = true
					}
				case *ssa.Call:
					cn := calleeName(&x.Call)
					if cn == "fmt.Errorf" || cn == "errors.New" {
						fresh = true
					}
				case *ssa.Const:
				default:
					fresh = true // a made-up error value
				}
			}
			if !fresh {
				r.Ok("encode-total", key, ret.Pos())
				continue
			}
			// a refusal: only for unrepresentable lengths
			facts := fa.FactsAt(ret)
			okLen := false
			for _, f := range facts {
				for _, a := range f.L.Atoms {
					if a.Op == "len" && Entails(facts, linConst(65536).Sub(linAtom(a))) {
						okLen = true
					}
				}
			}
			r.Check(okLen, "encode-total", fnName(fn)+": a value of a wire type is refused only when the format cannot represent it", ret.Pos(),
				"encode returns a made-up error for a value the wire format can carry (e.g. a string of exactly 65535 bytes): Marshal fails although Size() counts the message, and the message cannot round-trip")
		}
	}
	r.Floor("encode-total", n, 10, "error returns of the encoder")
}

// c01MarshalFresh: the bytes Marshal returns belong to the caller: they come from a buffer created in that call
// (a local bytes.Buffer), not from a pool, a field or a package variable that a later Marshal will overwrite.
func c01MarshalFresh(r *Run) {
	p := r.P
	m := p.Fn("p9p:(codec9p).Marshal")
	if m == nil {
		r.Undecided("marshal-fresh", "(codec9p).Marshal", token.NoPos, "anchor not found")
		return
	}
	n := 0
	for _, ret := range returnsOf(m) {
		if len(ret.Results) != 2 || isNilConst(ret.Results[0]) {
			continue
		}
		n++
		ok := true
		why := "the returned slice is not the contents of a buffer created in this call"
		// every value the result can be (a named result assigned on one branch only merges with nil)
		for _, alt := range phiAlternatives(ret.Results[0], 3) {
			okAlt := false
			if isNilConst(alt) {
				okAlt = true
			}
			if c, isC := alt.(*ssa.Call); isC && calleeName(&c.Call) == "(*bytes.Buffer).Bytes" {
				if a, isA := c.Call.Args[0].(*ssa.Alloc); isA && a.Parent() == m { // `var b bytes.Buffer` or new(bytes.Buffer)
					okAlt = true
				} else {
					why = "the buffer whose bytes are returned is not a local of this call (pooled/shared): a later Marshal overwrites bytes the caller still holds"
				}
			}
			if ms, isM := alt.(*ssa.MakeSlice); isM && ms.Parent() == m {
				okAlt = true
			}
			if !okAlt {
				ok = false
			}
		}
		r.Check(ok, "marshal-fresh", "Marshal: the encoded bytes live in a buffer created by this call", ret.Pos(), why)
	}
	r.Floor("marshal-fresh", n, 1, "success return of Marshal")
}
