package main

import (
	"fmt"
	"go/token"
	"sort"
	"strings"

	"golang.org/x/tools/go/ssa"
)

func init() { register("C14", checkC14) }

var sfidSpec = LockSpec{PkgPath: modPath, Type: "SFid", Guarded: map[string]bool{"Ent": true, "File": true, "Mode": true}}

// sessionFuncs: the functions (and closures) declared in sfilesys.go.
func sessionFuncs(p *Prog) []*ssa.Function {
	var out []*ssa.Function
	for _, fn := range p.FuncsOfPkg("p9p") {
		if p.FileOf(fn.Pos()) == "sfilesys.go" {
			out = append(out, fn)
		}
	}
	return out
}

// deferredClosures: closures that are run through a defer of their parent (analysed inline).
func deferredClosures(fns []*ssa.Function) map[*ssa.Function]bool {
	out := map[*ssa.Function]bool{}
	for _, fn := range fns {
		eachInstr(fn, func(in ssa.Instruction) {
			if d, ok := in.(*ssa.Defer); ok {
				if mc, ok := d.Call.Value.(*ssa.MakeClosure); ok {
					out[mc.Fn.(*ssa.Function)] = true
				}
			}
		})
	}
	return out
}

// runSessionTypestate runs E6/E7a over sfilesys.go and returns the engine (shared by C08/C11/C13/C14).
func runSessionTypestate(p *Prog, own bool) (*TS, []*ssa.Function) {
	ts := newTS(p, sfidSpec)
	ts.own = own
	fns := sessionFuncs(p)
	inl := deferredClosures(fns)
	var analysed []*ssa.Function
	for _, fn := range fns {
		if inl[fn] || fn.Blocks == nil {
			continue
		}
		sum := ts.summary(fn)
		if sum.returnsLocked {
			analysed = append(analysed, fn) // analysed while computing the summary
			continue
		}
		if sum.inline {
			continue // interpreted inline at each of its (statically known) call sites
		}
		ts.Analyze(fn, sum.requiresHeld)
		analysed = append(analysed, fn)
	}
	return ts, analysed
}

func checkC14(r *Run) {
	p := r.P
	r.Decides = append(r.Decides,
		"lock pairing on every path of every function of sfilesys.go, including deferred unlocks and the deferred closure of Walk with its captured cells: no return leaves a fid locked (except the inferred returns-locked helpers on success), no Unlock of a lock not held",
		"no blocking acquisition of a shared fid lock (direct Lock of a table object, getRef, delRef or anything calling them) while a fid lock is held — the structural no-deadlock condition",
		"every access to SFid.Ent/File/Mode and every file-system call on the entry/file bound to a fid happens while that fid's lock is held (or on an object not yet published): the file system never sees overlapping calls on one fid",
		"a lock dropped while held is only ever that of an object LoadOrStore refused to publish (newRef duplicate-fid path)")
	r.NotDecided = append(r.NotDecided, "linearizability of results", "data races outside the SFid lock discipline (e.g. inside a FileSys implementation)", "termination of FileSys calls")
	r.Trusted = append(r.Trusted, "sync.Mutex, sync.Map semantics")

	ts, fns := runSessionTypestate(p, false)
	for _, fn := range fns {
		r.SawFn(fnName(fn))
	}
	// L1: lock state at returns
	nRet := 0
	for _, fn := range fns {
		sum := ts.summary(fn)
		if sum.returnsLocked {
			r.Ok("lock-pairing/returns-locked", fnName(fn)+": returns its result locked exactly on success", fn.Pos(), fmt.Sprintf("%d returns analysed", len(ts.rets[fn])))
			continue
		}
		entry := map[string]bool{}
		leak := map[string]token.Pos{}
		for _, ret := range ts.rets[fn] {
			nRet++
			for k := range ret.held {
				isEntry := false
				for i := range sum.requiresHeld {
					if i < len(fn.Params) && strings.HasSuffix(k, "sym:p:"+fn.Params[i].Name()) {
						isEntry = true
					}
				}
				if !isEntry {
					leak[k] = ret.pos
				}
			}
		}
		_ = entry
		if len(leak) == 0 {
			r.Ok("lock-pairing/leak", fnName(fn)+": no fid lock held at any return", fn.Pos(), fmt.Sprintf("%d return states", len(ts.rets[fn])))
		} else {
			ks := []string{}
			var pos token.Pos
			for k, ps := range leak {
				ks = append(ks, shortTok(k))
				pos = ps
			}
			sort.Strings(ks)
			r.Bad("lock-pairing/leak", fnName(fn)+": no fid lock held at any return", pos,
				"a path returns with the lock of "+strings.Join(ks, ", ")+" still held: every later operation on that fid blocks for ever")
		}
	}
	r.Floor("lock-pairing/leak", nRet, 30, "return states over sfilesys.go")
	// violations found during interpretation
	keys := []string{}
	for k := range ts.viol {
		keys = append(keys, k)
	}
	sort.Strings(keys)
	for _, k := range keys {
		v := ts.viol[k]
		if strings.HasPrefix(v.rule, "typestate/") {
			r.Undecided(v.rule, v.key, v.pos, v.reason)
		} else {
			r.Bad(v.rule, v.key, v.pos, v.reason)
		}
	}
	// a fid that was unbound must read as unbound (Ent == nil) to operations already queued on its lock: the unbind
	// helper removes the fid from the table *before* taking the lock, so Ent == nil is the only signal such an
	// operation gets. (Ownership interpretation shared with C13; only the rules about the released entry are used.)
	tsOwn, _ := runSessionTypestate(p, true)
	okeys := []string{}
	for k := range tsOwn.viol {
		okeys = append(okeys, k)
	}
	sort.Strings(okeys)
	nStale := 0
	for _, k := range okeys {
		v := tsOwn.viol[k]
		if v.rule == "own/released-stays-bound" || v.rule == "own/use-after-release" {
			nStale++
			r.Bad("unbound-reads-nil", v.key, v.pos, v.reason+" — an operation queued on the fid's lock passes the Ent != nil guard and runs on the released entry after the remove/clunk returned (no sequential order explains that)")
		}
	}
	if nStale == 0 {
		r.Ok("unbound-reads-nil", "release helper and its callers: the released entry is cleared (Ent = nil) before the fid lock is dropped, on every path", token.NoPos, fmt.Sprintf("%d release events interpreted", tsOwn.releaseSites))
	}
	r.Floor("unbound-reads-nil", tsOwn.releaseSites, 3, "release events interpreted")
	publishLocked(r, fns, "publish-locked")
	// results match a sequential order only if a fid is looked up and unbound in one atomic step
	c08TableAccess(r, p, tsOwn)
	// … and a failed operation leaves the table as it found it: a reservation that stays behind (or a deletion of some
	// other fid) makes later operations answer duplicate/unknown fid in a way no sequential order of the requests explains
	{
		ks := []string{}
		for k := range tsOwn.viol {
			ks = append(ks, k)
		}
		sort.Strings(ks)
		nLeft := 0
		for _, k := range ks {
			v := tsOwn.viol[k]
			if v.rule == "own/placeholder-left" || v.rule == "own/nil-left-bound" || v.rule == "table/delete-unheld" {
				nLeft++
				r.Bad("table/rollback", v.key, v.pos, v.reason)
			}
		}
		if nLeft == 0 {
			r.Ok("table/rollback", "session operations: every reservation is bound or removed, and only fids held by the operation are deleted, on every explored path", token.NoPos, fmt.Sprintf("%d table deletions interpreted", tsOwn.deleteSites))
		}
		r.Floor("table/rollback", tsOwn.deleteSites, 3, "table deletions interpreted")
	}
	// E7a obligations
	akeys := []string{}
	for k := range ts.acc {
		akeys = append(akeys, k)
	}
	sort.Strings(akeys)
	nAcc := 0
	for _, k := range akeys {
		a := ts.acc[k]
		nAcc++
		if a.ok {
			r.Ok("field-under-lock", a.key, a.pos)
		} else {
			r.Bad("field-under-lock", a.key, a.pos, a.why)
		}
	}
	r.Floor("field-under-lock", nAcc, 25, "guarded accesses / file-system calls / helper calls")
	// acquisition sites and summaries found (vacuity guards)
	nLocked, nReq, nAcq := 0, 0, 0
	for _, fn := range fns {
		s := ts.summary(fn)
		if s.returnsLocked {
			nLocked++
		}
		if len(s.requiresHeld) > 0 {
			nReq++
		}
		if s.acquiresTable {
			nAcq++
		}
	}
	r.Floor("summaries", nLocked, 2, "returns-locked helpers (getRef, newRef)")
	r.Floor("summaries", nReq, 3, "requires-held helpers (link, delRefAction, openLocked)")
	r.Floor("summaries", nAcq, 10, "functions that block on a shared fid lock")
	r.Exhaustive = true
}

// publishLocked: an SFid is locked by its creator before it becomes reachable through the fid table. A placeholder
// that is visible but unlocked can be taken by a concurrent clunk/remove (which finds Ent == nil and reports
// success) before the reserving Attach/Walk binds its entry: both operations succeed — no sequential order does that.
func publishLocked(r *Run, fns []*ssa.Function, rule string) {
	n := 0
	for _, fn := range fns {
		for _, c := range findCalls(fn, "(*sync.Map).LoadOrStore", "(*sync.Map).Store", "(*sync.Map).Swap") {
			if len(c.Call.Args) < 3 {
				continue
			}
			if fa, ok := c.Call.Args[0].(*ssa.FieldAddr); !ok || fieldName(fa.X.Type(), fa.Field) != "refs" {
				continue
			}
			n++
			obj := stripConv(c.Call.Args[2])
			locked := false
			eachInstr(fn, func(in ssa.Instruction) {
				lc, ok := in.(*ssa.Call)
				if !ok || calleeName(&lc.Call) != "(*sync.Mutex).Lock" || len(lc.Call.Args) == 0 {
					return
				}
				recv := lc.Call.Args[0]
				if f, ok := recv.(*ssa.FieldAddr); ok {
					recv = f.X
				}
				if recv == obj && instrDominates(lc, c) {
					// and not unlocked again in between
					unlocked := false
					eachInstr(fn, func(in2 ssa.Instruction) {
						uc, ok := in2.(*ssa.Call)
						if !ok || calleeName(&uc.Call) != "(*sync.Mutex).Unlock" || len(uc.Call.Args) == 0 {
							return
						}
						ur := uc.Call.Args[0]
						if f, ok := ur.(*ssa.FieldAddr); ok {
							ur = f.X
						}
						if ur == obj && instrDominates(lc, uc) && instrDominates(uc, c) {
							unlocked = true
						}
					})
					if !unlocked {
						locked = true
					}
				}
			})
			r.Check(locked, rule, fnName(fn)+": the SFid is locked before it is published in the fid table", c.Pos(),
				"the new fid becomes visible in the table before its creator holds its lock: a concurrent clunk/remove can take the placeholder while the reserving operation is still going to bind an entry to it (both succeed, the entry is never released)")
		}
	}
	r.Floor(rule, n, 1, "publications into the fid table")
}

// lockPairingInto reports, under the given rule name, the lock-pairing violations of the session functions (a fid
// lock still held at a return, an unlock of a lock not held, a nested blocking acquisition): a fid whose lock leaks
// can never be used, unbound or released again, and Stop blocks on it for ever.
func lockPairingInto(r *Run, ts *TS, fns []*ssa.Function, rule string) {
	nRet := 0
	for _, fn := range fns {
		sum := ts.summary(fn)
		if sum.returnsLocked {
			continue
		}
		leak := map[string]token.Pos{}
		for _, ret := range ts.rets[fn] {
			nRet++
			for k := range ret.held {
				isEntry := false
				for i := range sum.requiresHeld {
					if i < len(fn.Params) && strings.HasSuffix(k, "sym:p:"+fn.Params[i].Name()) {
						isEntry = true
					}
				}
				if !isEntry {
					leak[k] = ret.pos
				}
			}
		}
		if len(leak) > 0 {
			ks := []string{}
			var pos token.Pos
			for k, ps := range leak {
				ks = append(ks, shortTok(k))
				pos = ps
			}
			sort.Strings(ks)
			r.Bad(rule, fnName(fn)+": no fid lock held at any return", pos, "a path returns with the lock of "+strings.Join(ks, ", ")+" still held: the fid can never be used, clunked or reused again, and Stop blocks on it for ever")
		}
	}
	keys := []string{}
	for k := range ts.viol {
		keys = append(keys, k)
	}
	sort.Strings(keys)
	for _, k := range keys {
		v := ts.viol[k]
		if strings.HasPrefix(v.rule, "lock-pairing/") || strings.HasPrefix(v.rule, "deadlock/") {
			r.Bad(rule, v.key+" ["+v.rule+"]", v.pos, v.reason)
		}
	}
	r.Ok(rule, fmt.Sprintf("session functions: %d return states examined for leaked fid locks", nRet), token.NoPos)
	r.Floor(rule, nRet, 30, "return states over sfilesys.go")
}
