package main

import (
	"fmt"
	"go/token"
	"go/types"
	"strings"

	"golang.org/x/tools/go/ssa"
)

func init() { register("C04", checkC04) }

// decodeScope: module functions CHA-reachable from the decoding entry points.
func decodeScope(p *Prog) ([]*ssa.Function, []*ssa.Function) {
	roots := []*ssa.Function{p.Fn("p9p:(codec9p).Unmarshal"), p.Fn("p9p:DecodeDir")}
	var ok []*ssa.Function
	for _, r := range roots {
		if r != nil {
			ok = append(ok, r)
		}
	}
	_, order := reachableModuleFns(p, ok)
	return ok, order
}

// clauseOnlyFor: every edge into block b (transitively through single-predecessor chains) is the ok-edge of a
// type assertion of the same operand to one of the named p9p types (value or pointer).
func clauseOnlyFor(b *ssa.BasicBlock, names ...string) bool {
	want := map[string]bool{}
	for _, n := range names {
		want[n] = true
	}
	var check func(blk *ssa.BasicBlock, depth int) bool
	check = func(blk *ssa.BasicBlock, depth int) bool {
		if depth > 6 || len(blk.Preds) == 0 {
			return false
		}
		for _, pr := range blk.Preds {
			ifi, ok := pr.Instrs[len(pr.Instrs)-1].(*ssa.If)
			if !ok {
				if !check(pr, depth+1) {
					return false
				}
				continue
			}
			if pr.Succs[0] != blk {
				return false
			}
			ex, ok := ifi.Cond.(*ssa.Extract)
			if !ok || ex.Index != 1 {
				return false
			}
			ta, ok := ex.Tuple.(*ssa.TypeAssert)
			if !ok {
				return false
			}
			t := ta.AssertedType
			if pt, ok := t.(*types.Pointer); ok {
				t = pt.Elem()
			}
			n, ok := t.(*types.Named)
			if !ok || !want[n.Obj().Name()] {
				return false
			}
		}
		return true
	}
	// walk up through dominators that are straight-line until the clause head
	for cur := b; cur != nil; cur = cur.Idom() {
		if len(cur.Preds) >= 1 && check(cur, 0) {
			return true
		}
		if len(cur.Preds) > 1 {
			return false
		}
	}
	return false
}

func exportedFieldCount(p *Prog, typ string) int {
	n := p.Named("p9p", typ)
	if n == nil {
		return -1
	}
	st, ok := n.Underlying().(*types.Struct)
	if !ok {
		return -1
	}
	c := 0
	for i := 0; i < st.NumFields(); i++ {
		if st.Field(i).Exported() {
			c++
		}
	}
	return c
}

// decodeScopeBounds discharges the bounds/assertion obligations of the decode path and returns their number.
func decodeScopeBounds(r *Run, rule string) int {
	p := r.P
	_, scope := decodeScope(p)
	n := 0
	for _, fn := range scope {
		r.SawFn(fnName(fn))
		fa := p.FA(fn)
		for _, ob := range fa.boundObligations() {
			n++
			if ob.Kind == "typeassert" {
				ta := ob.In.(*ssa.TypeAssert)
				// reviewed: the value was built by reflect.New(reflect.TypeOf(message)).Elem().Interface() with message a Message
				chain := []string{"(reflect.Value).Interface", "(reflect.Value).Elem", "reflect.New", "reflect.TypeOf"}
				cur := ssa.Value(ta.X)
				okR := isP9P(ta.AssertedType, "Message")
				for _, want := range chain {
					c, isCall := stripConv(cur).(*ssa.Call)
					if !isCall || calleeName(&c.Call) != want || len(c.Call.Args) == 0 {
						okR = false
						break
					}
					cur = c.Call.Args[0]
				}
				if okR {
					ex, isEx := stripConv(cur).(*ssa.Extract)
					okR = isEx && ex.Index == 0
					if okR {
						c, isCall := ex.Tuple.(*ssa.Call)
						okR = isCall && calleeName(&c.Call) == "p9p.newMessage" && isP9P(ex.Type(), "Message")
					}
				}
				if okR {
					r.Ok(rule, ob.Key, ob.In.Pos(), "reviewed: operand is reflect.New(TypeOf(m)).Elem().Interface() for m returned by newMessage (a Message): dynamic type implements Message")
				} else {
					r.Bad(rule, ob.Key, ob.In.Pos(), "type assertion without comma-ok on the decode path panics for a value of another dynamic type")
				}
				continue
			}
			var ls []*Lin
			for _, g := range ob.Goals {
				ls = append(ls, g.a, g.b)
			}
			facts := fa.FactsAt(ob.In, ls...)
			// cross-engine fact: fields9p returns one element per exported field; in the Twstat clause that is >= 1
			for _, l := range ls {
				for _, a := range l.Atoms {
					if a.Op == "len" && strings.Contains(a.K, "p9p.fields9p") {
						if clauseOnlyFor(ob.In.Block(), "MessageTwstat") {
							if c := exportedFieldCount(p, "MessageTwstat"); c >= 1 {
								facts = append(facts, le(linConst(int64(c)), linAtom(a), fmt.Sprintf("Twstat clause: fields9p yields one element per exported field of MessageTwstat (%d)", c)))
							}
						}
					}
				}
			}
			var failed []string
			for _, g := range ob.Goals {
				if !EntailsLE(facts, g.a, g.b) && !fa.entailsPhiSplit(ob.In, facts, g.a, g.b, 2) {
					failed = append(failed, g.text)
				}
			}
			if len(failed) == 0 {
				r.Ok(rule, ob.Key, ob.In.Pos(), factStrings(facts)...)
			} else {
				r.Bad(rule, ob.Key, ob.In.Pos(), "cannot prove "+strings.Join(failed, " and ")+" on every path: decoding untrusted bytes can panic here", factStrings(facts)...)
			}
		}
		n += putPreconditions(r, fn, rule)
	}
	return n
}

func checkC04(r *Run) {
	p := r.P
	r.Decides = append(r.Decides,
		"every slice/index/make/unchecked-assertion obligation and every encoding/binary Put precondition in the functions CHA-reachable from Codec.Unmarshal and DecodeDir is entailed by dominating guards, loop invariants, make-length equalities and type ranges (narrow unsigned arithmetic is not assumed wrap-free)",
		"no explicit panic is reachable from those entry points",
		"every allocation whose size comes from the wire is either 16-bit sized (constant bound, reported with its element size) or dominated, on every feasible edge, by a comparison of the claimed size with the remaining input length; every decoder in the module is built over a reader that has Len()",
		"an unknown type byte yields an error before any message is built; every error of the decode path is propagated",
		"decode performs, for every field type, exactly the mirror image of what encode emits (and nothing else, e.g. no value-dependent special cases): the structural half of 'decode, re-encode, decode again is stable'")
	r.NotDecided = append(r.NotDecided, "re-encode/decode stability as a value statement (its layout half — decode mirrors encode per type — is decided)", "termination (each loop consumes input or errors: argued, not checked)", "allocation inside reflect/bytes")
	r.Trusted = append(r.Trusted, "encoding/binary.Read, io.ReadFull, reflect")

	roots, scope := decodeScope(p)
	if len(roots) != 2 {
		r.Undecided("anchor", "codec9p.Unmarshal / DecodeDir", token.NoPos, "entry points not found")
		return
	}
	r.Floor("scope", len(scope), 5, "functions on the decode path")
	n := decodeScopeBounds(r, "bounds")
	r.Floor("bounds", n, 12, "bounds/assertion obligations on the decode path")

	// explicit panics
	sites, nReach := explicitPanics(p, roots)
	for _, s := range sites {
		r.Bad("panic-reach", fnName(s.Fn)+": explicit panic", s.In.Pos(), "explicit panic reachable from decoding: "+pathString(s.Path))
	}
	r.OkTrivial("panic-reach", fmt.Sprintf("decode scope: %d functions reachable, %d explicit panics", nReach, len(sites)), token.NoPos)

	// decode mirrors encode type by type (the layout half of decode/re-encode stability): shared with C01
	c01Grammar(r)
	c04Alloc(r, scope)
	c04Errors(r, scope)
	c04Termination(r, scope)
	c04UnknownType(r)
}

// isWireValue: the symbol is (a conversion of) a load of a local that binary.Read / decode filled.
func wireAtoms(l *Lin) []*Sym {
	var out []*Sym
	for _, a := range l.Atoms {
		if a.Op == "ld" && (strings.HasPrefix(a.K, "ld(alloc:") || strings.HasPrefix(a.K, "ld(local:")) {
			out = append(out, a)
		}
	}
	return out
}

// E4b
func c04Alloc(r *Run, scope []*ssa.Function) {
	p := r.P
	nAlloc := 0
	for _, fn := range scope {
		fa := p.FA(fn)
		eachInstr(fn, func(in ssa.Instruction) {
			ms, ok := in.(*ssa.MakeSlice)
			if !ok {
				return
			}
			l := fa.Lin(ms.Len)
			if _, isConst := l.IsConst(); isConst {
				return
			}
			nAlloc++
			elem := ms.Type().Underlying().(*types.Slice).Elem()
			esz := p.Pkgs["p9p"].TypesSizes.Sizeof(elem)
			key := fmt.Sprintf("%s: make %s sized by %s", fnName(fn), shortType(ms.Type()), valStr(ms.Len))
			// 16-bit (or narrower) wire values give a constant bound
			max := int64(-1)
			constBounded := true
			total := l.C
			for k, c := range l.T {
				a := l.Atoms[k]
				b, s, okI := intBits(a.T)
				if !okI || s || b > 16 || c < 0 {
					constBounded = false
					break
				}
				total += c * (int64(1)<<uint(b) - 1)
			}
			if constBounded {
				max = total
				r.Ok("alloc-bound", key, in.Pos(), fmt.Sprintf("size is a 16-bit wire value: at most %d elements of %d bytes = %d bytes (constant bound)", max, esz, max*esz))
				return
			}
			// otherwise: every edge into the allocation must bound the size by the remaining input
			if ok, why := sizeBoundedByRemaining(fa, ms, l); ok {
				r.Ok("alloc-bound", key, in.Pos(), why)
			} else {
				r.Bad("alloc-bound", key, in.Pos(), "allocation sized by a 32-bit length taken from the input with no bound by the remaining input: a few bytes can demand gigabytes ("+why+")")
			}
		})
	}
	r.Floor("alloc-bound", nAlloc, 6, "wire-sized allocations on the decode path")
	// every decoder is built over a reader with Len()
	nDec := 0
	for _, fn := range p.FuncsOfPkg("p9p") {
		eachInstr(fn, func(in ssa.Instruction) {
			a, ok := in.(*ssa.Alloc)
			if !ok || !isP9P(a.Type(), "decoder") {
				return
			}
			flds, _, _ := allocFields(a)
			nDec++
			rd := flds["rd"]
			okLen := false
			if rd != nil {
				v := stripConv(rd)
				ms := types.NewMethodSet(v.Type())
				for i := 0; i < ms.Len(); i++ {
					if ms.At(i).Obj().Name() == "Len" {
						okLen = true
					}
				}
			}
			r.Check(okLen, "alloc-bound", fnName(fn)+": decoder built over a reader that reports its remaining length", in.Pos(),
				"a decoder is constructed over a reader without Len(): the remaining-input guard of data[count] is skipped")
		})
	}
	r.Floor("alloc-bound", nDec, 2, "decoder constructions")
}

// sizeBoundedByRemaining: walking up from the allocation, every way into it passes an edge that entails
// size <= X.Len() for a Len() call on the decoder's reader, or is the !ok edge of the assertion that the reader has Len()
// (infeasible because every decoder's reader has Len — checked separately).
func sizeBoundedByRemaining(fa *FA, ms ssa.Instruction, size *Lin) (bool, string) {
	if ok, why := sizeBoundedLocally(fa, ms, size); ok {
		return ok, why
	}
	// a dominating, successful call of a guard helper: a module function whose every nil-error return bounds one
	// of its integer parameters by the remaining input (decided on the helper's own body by the same rule)
	found := false
	eachInstr(fa.Fn, func(in ssa.Instruction) {
		c, ok := in.(*ssa.Call)
		if !ok || found {
			return
		}
		g := staticCallee(&c.Call)
		if g == nil || g == fa.Fn || !fa.P.InModule(g) || g.Blocks == nil {
			return
		}
		j, ok := fa.P.remainingGuard(g)
		if !ok || j >= len(c.Call.Args) {
			return
		}
		if !instrDominates(c, ms) || !callSucceededAt(c, ms) {
			return
		}
		if fa.Lin(c.Call.Args[j]).Equal(size) {
			found = true
		}
	})
	if found {
		return true, "a dominating successful call of a guard helper entails size <= remaining input"
	}
	return false, "no bound by the remaining input found"
}

var remainingGuardCache = map[*ssa.Function]int{}

// remainingGuard: g returns a nil error only when its integer parameter j is at most the remaining input of the
// decoder's reader (or the reader cannot report a length).
func (p *Prog) remainingGuard(g *ssa.Function) (int, bool) {
	if j, ok := remainingGuardCache[g]; ok {
		return j, j >= 0
	}
	remainingGuardCache[g] = -1
	res := g.Signature.Results()
	if res.Len() != 1 || !isErrorType(res.At(0).Type()) {
		return -1, false
	}
	fa := p.FA(g)
	for j, prm := range g.Params {
		if _, _, ok := intBits(prm.Type()); !ok {
			continue
		}
		size := fa.Lin(prm)
		all, n := true, 0
		for _, ret := range returnsOf(g) {
			if len(ret.Results) != 1 {
				all = false
				break
			}
			if !isNilConst(ret.Results[0]) {
				if _, isConst := ret.Results[0].(*ssa.Const); isConst || knownNonNilAt(ret.Results[0], ret) {
					continue
				}
				if _, isMI := ret.Results[0].(*ssa.MakeInterface); isMI {
					continue
				}
				if u, isLoad := ret.Results[0].(*ssa.UnOp); isLoad {
					if _, isG := u.X.(*ssa.Global); isG {
						continue
					}
				}
				all = false
				break
			}
			n++
			if ok, _ := sizeBoundedLocally(fa, ret, size); !ok {
				all = false
				break
			}
		}
		if all && n > 0 {
			remainingGuardCache[g] = j
			return j, true
		}
	}
	return -1, false
}

func sizeBoundedLocally(fa *FA, ms ssa.Instruction, size *Lin) (bool, string) {
	isLenCall := func(a *Sym) bool {
		return a.Op == "call" && strings.HasSuffix(a.Aux, ".Len") && strings.HasPrefix(a.Aux, "invoke")
	}
	bounded := func(facts []Fact) bool {
		for _, f := range facts {
			for _, a := range f.L.Atoms {
				if isLenCall(a) && EntailsLE(facts, size, linAtom(a)) {
					return true
				}
			}
		}
		return false
	}
	if bounded(fa.FactsAt(ms, size)) {
		return true, "dominating guard entails size <= remaining input"
	}
	// per-edge analysis at the nearest join above the allocation
	seen := map[*ssa.BasicBlock]bool{}
	var edgeOK func(pred, blk *ssa.BasicBlock, depth int) bool
	var blockOK func(blk *ssa.BasicBlock, depth int) bool
	blockOK = func(blk *ssa.BasicBlock, depth int) bool {
		if depth > 6 || seen[blk] {
			return false
		}
		seen[blk] = true
		if len(blk.Preds) == 0 {
			return false
		}
		for _, pr := range blk.Preds {
			if !edgeOK(pr, blk, depth) {
				return false
			}
		}
		return true
	}
	edgeOK = func(pred, blk *ssa.BasicBlock, depth int) bool {
		facts := fa.edgeFacts(pred, blk, size)
		if bounded(facts) {
			return true
		}
		// the !ok edge of `rd.(interface{Len() int})`
		if ifi, ok := pred.Instrs[len(pred.Instrs)-1].(*ssa.If); ok && pred.Succs[0] != pred.Succs[1] && pred.Succs[1] == blk {
			if ex, ok := ifi.Cond.(*ssa.Extract); ok && ex.Index == 1 {
				if ta, ok := ex.Tuple.(*ssa.TypeAssert); ok {
					if it, ok := ta.AssertedType.Underlying().(*types.Interface); ok && it.NumMethods() == 1 && it.Method(0).Name() == "Len" {
						if isLoadOfField(ta.X, "decoder", "rd") {
							return true
						}
					}
				}
			}
		}
		// otherwise the bound must already hold on every way into pred
		if _, isIf := pred.Instrs[len(pred.Instrs)-1].(*ssa.If); !isIf || len(pred.Preds) > 0 {
			return blockOK(pred, depth+1)
		}
		return false
	}
	if blockOK(ms.Block(), 0) {
		return true, "every edge into the allocation either entails size <= rd.Len() or is the infeasible !ok edge of rd.(interface{Len() int})"
	}
	return false, "no bound by the remaining input found"
}

// every error-returning call on the decode path is propagated
func c04Errors(r *Run, scope []*ssa.Function) {
	n := 0
	for _, fn := range scope {
		eachInstr(fn, func(in ssa.Instruction) {
			c, ok := in.(*ssa.Call)
			if !ok {
				return
			}
			sig := c.Call.Signature()
			if sig == nil || sig.Results().Len() == 0 || !isErrorType(sig.Results().At(sig.Results().Len()-1).Type()) {
				return
			}
			n++
			e := errResult(c)
			okp := false
			how := ""
			if e != nil {
				okp, how = errPropagated(fn, e)
			}
			key := fmt.Sprintf("%s: error of %s is returned", fnName(fn), calleeName(&c.Call))
			if okp {
				r.Ok("error-propagation", key, c.Pos(), how)
			} else {
				r.Bad("error-propagation", key, c.Pos(), "a failing read/decode step is ignored: truncated or malformed input is decoded as if complete")
			}
		})
	}
	r.Floor("error-propagation", n, 15, "error-returning calls on the decode path")
	// … and a failed step never continues to a success return (a sentinel let through by the test is a partial decode)
	ng := 0
	for _, fn := range scope {
		ng += errorGatesSuccess(r, fn, "error-gates-success")
	}
	r.Floor("error-gates-success", ng, 15, "error-returning steps on the decode path")
}

func c04UnknownType(r *Run) {
	nm := r.P.Fn("p9p:newMessage")
	if nm == nil {
		r.Undecided("unknown-type", "newMessage", token.NoPos, "anchor not found")
		return
	}
	// every return either yields a non-nil message with nil error, or nil with a non-nil error; and an error return exists
	nErr := 0
	for _, ret := range returnsOf(nm) {
		if len(ret.Results) != 2 {
			continue
		}
		m, e := ret.Results[0], ret.Results[1]
		if isNilConst(e) {
			r.Check(!isNilConst(m), "unknown-type", "newMessage: success returns a message", ret.Pos(), "nil message with nil error: decode dereferences nil")
		} else {
			nErr++
		}
	}
	r.Check(nErr >= 1, "unknown-type", "newMessage: unknown type bytes yield an error", nm.Pos(), "no error path for unknown message types")
}

// ---- termination: every loop on the decode path is counted or consumes input --------------------------------------
//
// A loop is accepted when it is (a) counted: its exit test compares an induction variable that every iteration
// advances by a positive constant with a value fixed before the loop (this includes range loops), or (b) consuming:
// every iteration executes a call that reads at least one byte from the decoder's input or fails — d.decode/
// binary.Read/io.ReadFull of a target whose wire size is at least 1 — and the failure edge of that call leaves the
// loop. Since the input is finite, (b) bounds the iteration count by the input's length.
func c04Termination(r *Run, scope []*ssa.Function) {
	nLoops := 0
	for _, fn := range scope {
		for _, h := range fn.Blocks {
			if !isLoopHeader(h) {
				continue
			}
			nLoops++
			body := naturalLoop(h)
			key := fmt.Sprintf("%s: loop at block %s", fnName(fn), loopDesc(r.P, h))
			pos := token.NoPos
			for _, in := range h.Instrs {
				if in.Pos().IsValid() {
					pos = in.Pos()
					break
				}
			}
			if pos == token.NoPos {
				for b := range body {
					for _, in := range b.Instrs {
						if in.Pos().IsValid() && pos == token.NoPos {
							pos = in.Pos()
						}
					}
				}
			}
			if why, ok := countedLoop(h, body); ok {
				r.Ok("termination", key, pos, why)
				continue
			}
			if why, ok := consumingLoop(r.P, h, body); ok {
				r.Ok("termination", key, pos, why)
				continue
			}
			r.Bad("termination", key, pos, "the loop is neither counted nor guaranteed to consume input on every iteration: a crafted input can make decoding spin for ever")
		}
	}
	r.Floor("termination", nLoops, 4, "loops on the decode path")
}

func loopDesc(p *Prog, h *ssa.BasicBlock) string {
	if h.Comment != "" {
		return h.Comment
	}
	return fmt.Sprintf("%d", h.Index)
}

// naturalLoop: the blocks of the natural loop(s) with header h.
func naturalLoop(h *ssa.BasicBlock) map[*ssa.BasicBlock]bool {
	body := map[*ssa.BasicBlock]bool{h: true}
	var stack []*ssa.BasicBlock
	for _, p := range h.Preds {
		if p == h || h.Dominates(p) {
			if !body[p] {
				body[p] = true
				stack = append(stack, p)
			}
		}
	}
	for len(stack) > 0 {
		b := stack[len(stack)-1]
		stack = stack[:len(stack)-1]
		for _, p := range b.Preds {
			if !body[p] {
				body[p] = true
				stack = append(stack, p)
			}
		}
	}
	return body
}

func definedOutside(v ssa.Value, body map[*ssa.BasicBlock]bool) bool {
	switch x := v.(type) {
	case *ssa.Const, *ssa.Parameter, *ssa.FreeVar, *ssa.Global:
		return true
	case *ssa.Call:
		if !body[x.Block()] {
			return true
		}
		// pure size getters of values fixed before the loop
		switch calleeName(&x.Call) {
		case "builtin len", "(reflect.Value).NumField", "(reflect.Value).Len", "invoke reflect.Type.NumField":
			for _, a := range x.Call.Args {
				if !definedOutside(a, body) {
					return false
				}
			}
			if x.Call.IsInvoke() && !definedOutside(x.Call.Value, body) {
				return false
			}
			return true
		}
		return false
	case ssa.Instruction:
		return !body[x.Block()]
	}
	return false
}

// countedLoop: an exiting test `i < n` / `i != n` (any orientation) with i a header phi advanced by a positive
// constant on every back edge and n fixed outside the loop; or go/ssa's range-over-map/string/channel `next` form.
func countedLoop(h *ssa.BasicBlock, body map[*ssa.BasicBlock]bool) (string, bool) {
	for b := range body {
		ifi, ok := b.Instrs[len(b.Instrs)-1].(*ssa.If)
		if !ok {
			continue
		}
		exits := !body[b.Succs[0]] || !body[b.Succs[1]]
		if !exits {
			continue
		}
		// range over map/string: `ok` of a Next
		if ex, ok := ifi.Cond.(*ssa.Extract); ok {
			if _, isNext := ex.Tuple.(*ssa.Next); isNext && ex.Index == 0 {
				return "range loop (iterator exhausted)", true
			}
		}
		cmp, ok := ifi.Cond.(*ssa.BinOp)
		if !ok {
			continue
		}
		switch cmp.Op {
		case token.LSS, token.GTR, token.LEQ, token.GEQ, token.NEQ:
		default:
			continue
		}
		for _, pair := range [][2]ssa.Value{{cmp.X, cmp.Y}, {cmp.Y, cmp.X}} {
			iv, bound := pair[0], pair[1]
			if !definedOutside(bound, body) {
				continue
			}
			// the induction variable: a header phi, or (rotated range loops) the incremented value of one
			var phi *ssa.Phi
			if ph, ok := iv.(*ssa.Phi); ok && ph.Block() == h {
				phi = ph
			} else if add, ok := iv.(*ssa.BinOp); ok && add.Op == token.ADD {
				if ph, ok := add.X.(*ssa.Phi); ok && ph.Block() == h {
					phi = ph
				}
			}
			if phi == nil {
				continue
			}
			okStep := true
			nBack := 0
			for i, e := range phi.Edges {
				pred := h.Preds[i]
				if !(pred == h || h.Dominates(pred)) {
					continue // entry edge
				}
				nBack++
				add, ok := e.(*ssa.BinOp)
				if !ok || add.Op != token.ADD || add.X != ssa.Value(phi) {
					okStep = false
					break
				}
				c, ok := constInt(add.Y)
				if !ok || c <= 0 {
					okStep = false
				}
			}
			if okStep && nBack > 0 {
				return "counted loop: induction variable advances by a positive constant towards a bound fixed before the loop", true
			}
		}
	}
	return "", false
}

// minWireSize: a lower bound on the number of bytes decode consumes for a target of static type t (pointer to …).
func minWireSize(t types.Type, depth int) int64 {
	if depth > 4 {
		return 0
	}
	if p, ok := t.Underlying().(*types.Pointer); ok {
		t = p.Elem()
	}
	switch u := t.Underlying().(type) {
	case *types.Basic:
		switch u.Kind() {
		case types.Uint8, types.Int8, types.Bool:
			return 1
		case types.Uint16, types.Int16:
			return 2
		case types.Uint32, types.Int32:
			return 4
		case types.Uint64, types.Int64:
			return 8
		case types.String:
			return 2
		}
	case *types.Slice:
		return 2 // count or length prefix (at least the 2-byte form)
	case *types.Struct:
		var n int64
		for i := 0; i < u.NumFields(); i++ {
			n += minWireSize(u.Field(i).Type(), depth+1)
		}
		return n
	}
	return 0
}

// consumingLoop: a call that consumes >= 1 byte or fails executes on every iteration and its failure leaves the loop.
func consumingLoop(p *Prog, h *ssa.BasicBlock, body map[*ssa.BasicBlock]bool) (string, bool) {
	var backSrc []*ssa.BasicBlock
	for _, pr := range h.Preds {
		if pr == h || h.Dominates(pr) {
			backSrc = append(backSrc, pr)
		}
	}
	for b := range body {
		for _, in := range b.Instrs {
			c, ok := in.(*ssa.Call)
			if !ok {
				continue
			}
			consumes := false
			switch calleeName(&c.Call) {
			case "(*p9p.decoder).decode":
				for _, a := range varargsElems(c.Call.Args[len(c.Call.Args)-1]) {
					if minWireSize(stripConv(a).Type(), 0) >= 1 {
						consumes = true
					}
				}
			case "encoding/binary.Read":
				if minWireSize(stripConv(c.Call.Args[2]).Type(), 0) >= 1 {
					consumes = true
				}
			}
			if !consumes {
				continue
			}
			// executed on every iteration
			every := true
			for _, bs := range backSrc {
				if !(c.Block() == bs || c.Block().Dominates(bs)) {
					every = false
				}
			}
			if !every {
				continue
			}
			// the failure edge leaves the loop: every block of the loop reachable under err != nil … is none
			e := errResult(c)
			if e == nil {
				continue
			}
			leaves := true
			for bb := range body {
				if len(bb.Instrs) == 0 {
					continue
				}
				// a block inside the loop that continues to the header while the error is known non-nil
				for _, s := range bb.Succs {
					if s == h && knownNonNilAt(e, bb.Instrs[len(bb.Instrs)-1]) {
						leaves = false
					}
				}
			}
			// and the back edges are taken only where the error is known nil
			for _, bs := range backSrc {
				if !knownNilAt(e, bs.Instrs[len(bs.Instrs)-1]) {
					leaves = false
				}
			}
			if leaves {
				return "every iteration calls " + calleeName(&c.Call) + " on a target of wire size >= 1 and continues only when it succeeded: iterations <= input length", true
			}
		}
	}
	return "", false
}

// putPreconditions: stdlib preconditions in fn — binary.ByteOrder.PutUintNN(b, v) needs len(b) >= NN/8 (an inlined
// bounds check the slice/index enumeration does not see).
func putPreconditions(r *Run, fn *ssa.Function, rule string) int {
	n := 0
	fa := r.P.FA(fn)
	eachInstr(fn, func(in ssa.Instruction) {
		c, ok := in.(*ssa.Call)
		if !ok {
			return
		}
		name := calleeName(&c.Call)
		need := int64(0)
		switch {
		case strings.HasSuffix(name, ".PutUint16"):
			need = 2
		case strings.HasSuffix(name, ".PutUint32"):
			need = 4
		case strings.HasSuffix(name, ".PutUint64"):
			need = 8
		}
		if need == 0 || !strings.Contains(name, "encoding/binary") {
			return
		}
		n++
		r.BoundsPos[r.P.Pos(c.Pos())] = true
		buf := c.Call.Args[len(c.Call.Args)-2]
		l := fa.linSym(lenOf(fa.Sym(buf)), 0)
		facts := fa.FactsAt(c, l)
		key := fmt.Sprintf("%s: %s needs len(%s) >= %d", fnName(fn), name, valStr(buf), need)
		r.Check(EntailsLE(facts, linConst(need), l), rule, key, c.Pos(), "the buffer may be shorter than the integer written: index out of range", append(factStrings(facts), "len = "+l.String())...)
	})
	return n
}
