package p9p

import (
	"context"
	"net"
	"sync/atomic"
	"testing"
	"time"
)

// D12 (open known finding, C11): handler goroutines are cancelled but not joined
// before Stop, and the session does not refuse new bindings after Stop. A handler
// that gets to run after Stop binds a fid whose entry is never released.

type countFS struct{ attached, clunked int32 }
type countEnt struct{ fs *countFS }

func (fs *countFS) RequireAuth(context.Context) bool                      { return false }
func (fs *countFS) Auth(context.Context, string, string) (AuthFile, error) { return nil, nil }
func (fs *countFS) Attach(context.Context, string, string, AuthFile) (Dirent, error) {
	atomic.AddInt32(&fs.attached, 1)
	return &countEnt{fs}, nil
}
func (e *countEnt) Qid() Qid                                      { return Qid{Type: QTDIR} }
func (e *countEnt) OpenDir(context.Context) (ReadNext, error)     { return nil, nil }
func (e *countEnt) Walk(context.Context, ...string) ([]Qid, Dirent, error) { return nil, e, nil }
func (e *countEnt) Create(context.Context, string, uint32, Flag) (Dirent, File, error) {
	return nil, nil, ErrPerm
}
func (e *countEnt) Open(context.Context, Flag) (File, error) { return nil, ErrPerm }
func (e *countEnt) Remove(context.Context) error             { atomic.AddInt32(&e.fs.clunked, 1); return nil }
func (e *countEnt) Clunk(context.Context) error              { atomic.AddInt32(&e.fs.clunked, 1); return nil }
func (e *countEnt) Stat(context.Context) (Dir, error)        { return Dir{}, nil }
func (e *countEnt) WStat(context.Context, Dir) error         { return nil }

// slowHandler is a pass-through middleware whose Handle is slow to start (e.g. logging,
// scheduling delay); it honours nothing but the Handler interface.
type slowHandler struct {
	Handler
	stopped chan struct{}
	done    chan struct{}
}

func (h *slowHandler) Handle(ctx context.Context, m Message) (Message, error) {
	<-h.stopped // scheduled late: runs after Stop has completed
	defer close(h.done)
	return h.Handler.Handle(ctx, m)
}
func (h *slowHandler) Stop(err error) error {
	err = h.Handler.Stop(err)
	close(h.stopped)
	return err
}

func TestReproD12(t *testing.T) {
	fs := &countFS{}
	h := &slowHandler{Handler: SSession(SFileSys(fs)), stopped: make(chan struct{}), done: make(chan struct{})}
	cl, sv := net.Pipe()
	ret := make(chan error, 1)
	go func() { ret <- ServeConn(context.Background(), sv, h) }()
	ctx := context.Background()
	ch := newChannel(cl, codec9p{}, DefaultMSize)
	if _, err := clientnegotiate(ctx, ch, DefaultVersion); err != nil {
		t.Fatal(err)
	}
	ch.WriteFcall(ctx, newFcall(1, MessageTattach{Fid: 1, Afid: NOFID, Uname: "u", Aname: "/"}))
	time.Sleep(50 * time.Millisecond)
	cl.Close() // peer disconnects while the request is in flight
	select {
	case <-ret:
	case <-time.After(35 * time.Second):
		t.Fatal("ServeConn did not return")
	}
	<-h.done // the in-flight handler has returned
	if a, c := atomic.LoadInt32(&fs.attached), atomic.LoadInt32(&fs.clunked); a != c {
		t.Fatalf("after stop and after all handlers returned: %d entries handed to the session, %d released (fid still bound, entry leaked)", a, c)
	}
}
