package ramfs

import (
	"context"
	"testing"

	p9p "github.com/frobnitzem/go-p9p"
)

// D10: offsets >= 2^63 (negative as int64) panic the server.
func TestReproD10(t *testing.T) {
	defer func() {
		if r := recover(); r != nil {
			t.Fatalf("panic: %v", r)
		}
	}()
	ctx := context.Background()
	h := p9p.SSession(p9p.SFileSys(NewServer(ctx)))
	if _, err := h.Handle(ctx, p9p.MessageTattach{Fid: 1, Afid: p9p.NOFID, Uname: "u", Aname: "/"}); err != nil {
		t.Fatal(err)
	}
	if _, err := h.Handle(ctx, p9p.MessageTcreate{Fid: 1, Name: "d10file", Perm: 0644, Mode: p9p.ORDWR}); err != nil {
		t.Fatal(err)
	}
	h.Handle(ctx, p9p.MessageTwrite{Fid: 1, Offset: 0, Data: []byte("hello")})
	h.Handle(ctx, p9p.MessageTread{Fid: 1, Offset: 1 << 63, Count: 8})
	h.Handle(ctx, p9p.MessageTwrite{Fid: 1, Offset: 1<<64 - 1, Data: []byte("x")})
}
