package p9p

// Reproductions of the defects listed in /verif/DESIGN.md §5 against the real code.
// Usage: copy /repo to a scratch dir, copy this file into its root, and run
//   go test -vet=off -count=1 -run 'TestRepro' .
// Each test FAILS (or panics) on the defective tree and PASSES on the repaired tree.
// These are documentation of genuineness, not registered checks.

import (
	"bytes"
	"context"
	"errors"
	"io"
	"net"
	"runtime"
	"sync"
	"testing"
	"time"
)

func recoverAsFail(t *testing.T) {
	if r := recover(); r != nil {
		t.Fatalf("panic: %v", r)
	}
}

// D1: a frame whose length prefix is < 4 panics readmsg.
func TestReproD1(t *testing.T) {
	defer recoverAsFail(t)
	conn := &mockConn{}
	ch := NewChannel(conn, 256)
	conn.buf.Write([]byte{2, 0, 0, 0})
	var fc Fcall
	if err := ch.ReadFcall(context.Background(), &fc); err == nil {
		t.Fatalf("expected an error for an impossible length, got %v", &fc)
	}
}

// D2: 4 stale bytes of the previous frame are decoded with the next one.
func TestReproD2(t *testing.T) {
	defer recoverAsFail(t)
	conn := &mockConn{}
	ch := NewChannel(conn, 256)
	c := codec9p{}
	p, _ := c.Marshal(newFcall(1, MessageTclunk{Fid: 0x41414141}))
	if err := sendmsg(&conn.buf, p); err != nil {
		t.Fatal(err)
	}
	// second frame: size 7 => body of 3 bytes: Tclunk, tag 9 — the fid is missing.
	conn.buf.Write([]byte{7, 0, 0, 0, byte(Tclunk), 9, 0})
	var fc Fcall
	if err := ch.ReadFcall(context.Background(), &fc); err != nil {
		t.Fatal(err)
	}
	fc = Fcall{}
	err := ch.ReadFcall(context.Background(), &fc)
	if err == nil {
		t.Fatalf("short body decoded successfully using stale bytes: %v", &fc)
	}
}

type scriptConn struct {
	net.Conn
}

// D3: a reply with an unknown tag kills the client process.
func TestReproD3(t *testing.T) {
	cl, sv := net.Pipe()
	defer cl.Close()
	defer sv.Close()
	ctx, cancel := context.WithCancel(context.Background())
	defer cancel()
	go func() {
		ch := newChannel(sv, codec9p{}, DefaultMSize)
		if err := servernegotiate(ctx, ch, DefaultVersion); err != nil {
			return
		}
		for {
			var fc Fcall
			if err := ch.ReadFcall(ctx, &fc); err != nil {
				return
			}
			// answer with a tag nobody asked for, then the right one
			ch.WriteFcall(ctx, newFcall(fc.Tag+100, MessageRclunk{}))
			ch.WriteFcall(ctx, newFcall(fc.Tag, MessageRclunk{}))
		}
	}()
	// the panic happens in the transport goroutine; we cannot recover it here, so
	// the test binary dies on the defective tree.
	s, err := CSession(ctx, cl)
	if err != nil {
		t.Fatal(err)
	}
	cctx, ccancel := context.WithTimeout(ctx, 2*time.Second)
	defer ccancel()
	if err := s.Clunk(cctx, 1); err != nil {
		t.Fatalf("call did not survive an unknown-tag reply: %v", err)
	}
}

type gateConn struct {
	net.Conn
	mu     sync.Mutex
	writes int
	gate   chan struct{}
	inW    chan struct{}
}

func (g *gateConn) Write(p []byte) (int, error) {
	g.mu.Lock()
	g.writes++
	n := g.writes
	g.mu.Unlock()
	if n <= 1 { // Rversion goes through
		return g.Conn.Write(p)
	}
	select {
	case g.inW <- struct{}{}:
	default:
	}
	<-g.gate
	return 0, errors.New("injected write failure")
}

type blockHandler struct {
	release map[Fid]chan struct{}
	stopped chan struct{}
}

func (h *blockHandler) Handle(ctx context.Context, msg Message) (Message, error) {
	if m, ok := msg.(MessageTclunk); ok {
		<-h.release[m.Fid]
	}
	return MessageRclunk{}, nil
}
func (h *blockHandler) Stop(err error) error { close(h.stopped); return err }

// D4: after a write error ServeConn never returns while a completion is being forwarded.
func TestReproD4(t *testing.T) {
	cl, sv := net.Pipe()
	defer cl.Close()
	g := &gateConn{Conn: sv, gate: make(chan struct{}), inW: make(chan struct{}, 1)}
	h := &blockHandler{release: map[Fid]chan struct{}{1: make(chan struct{}), 2: make(chan struct{})}, stopped: make(chan struct{})}
	done := make(chan error, 1)
	go func() { done <- ServeConn(context.Background(), g, h) }()

	ctx := context.Background()
	ch := newChannel(cl, codec9p{}, DefaultMSize)
	if _, err := clientnegotiate(ctx, ch, DefaultVersion); err != nil {
		t.Fatal(err)
	}
	ch.WriteFcall(ctx, newFcall(1, MessageTclunk{Fid: 1}))
	ch.WriteFcall(ctx, newFcall(2, MessageTclunk{Fid: 2}))
	time.Sleep(50 * time.Millisecond)
	close(h.release[1]) // writer enters Write and blocks on the gate
	<-g.inW
	close(h.release[2]) // serve loop now blocks forwarding completion 2
	time.Sleep(100 * time.Millisecond)
	close(g.gate) // the write fails
	select {
	case <-done:
	case <-time.After(2 * time.Second):
		t.Fatalf("ServeConn still blocked 2s after the write error; Stop never ran")
	}
}

type lateHandler struct {
	mu   sync.Mutex
	gate chan struct{}
}

func (h *lateHandler) Handle(ctx context.Context, msg Message) (Message, error) {
	switch m := msg.(type) {
	case MessageTwalk: // request A: ignores cancellation, answers late
		<-h.gate
		return MessageRwalk{Qids: []Qid{{Path: 0xA}}}, nil
	case MessageTstat: // request B
		_ = m
		time.Sleep(150 * time.Millisecond)
		return MessageRstat{Stat: Dir{Name: "B"}}, nil
	}
	return nil, ErrUnknownMsg
}
func (h *lateHandler) Stop(err error) error { return err }

// D5: the reply of a flushed request is delivered to the new owner of its tag.
func TestReproD5(t *testing.T) {
	bad := 0
	for i := 0; i < 40; i++ {
		if reproD5once(t) {
			bad++
		}
	}
	if bad > 0 {
		t.Fatalf("flushed request's reply was delivered for the reused tag in %d/40 runs", bad)
	}
}

func reproD5once(t *testing.T) bool {
	cl, sv := net.Pipe()
	defer cl.Close()
	defer sv.Close()
	h := &lateHandler{gate: make(chan struct{})}
	ctx, cancel := context.WithCancel(context.Background())
	defer cancel()
	go ServeConn(ctx, sv, h)
	ch := newChannel(cl, codec9p{}, DefaultMSize)
	if _, err := clientnegotiate(ctx, ch, DefaultVersion); err != nil {
		t.Fatal(err)
	}
	ch.WriteFcall(ctx, newFcall(7, MessageTwalk{Fid: 1, Newfid: 2}))
	ch.WriteFcall(ctx, newFcall(8, MessageTflush{Oldtag: 7}))
	var fc Fcall
	if err := ch.ReadFcall(ctx, &fc); err != nil || fc.Type != Rflush {
		t.Fatalf("expected Rflush, got %v %v", &fc, err)
	}
	ch.WriteFcall(ctx, newFcall(7, MessageTstat{Fid: 1})) // reuse the tag
	time.Sleep(20 * time.Millisecond)
	close(h.gate) // A's handler completes late
	fc = Fcall{}
	if err := ch.ReadFcall(ctx, &fc); err != nil {
		t.Fatal(err)
	}
	return fc.Tag == 7 && fc.Type != Rstat
}

type nullFS struct{ failOpenDir bool }
type nullEnt struct {
	fs  *nullFS
	dir bool
}

func (fs *nullFS) RequireAuth(context.Context) bool { return false }
func (fs *nullFS) Auth(context.Context, string, string) (AuthFile, error) {
	return nil, nil
}
func (fs *nullFS) Attach(context.Context, string, string, AuthFile) (Dirent, error) {
	return &nullEnt{fs, true}, nil
}
func (e *nullEnt) Qid() Qid {
	if e.dir {
		return Qid{Type: QTDIR}
	}
	return Qid{}
}
func (e *nullEnt) OpenDir(context.Context) (ReadNext, error) {
	if e.fs.failOpenDir {
		return nil, errors.New("opendir failed")
	}
	return func(context.Context) ([]Dir, error) { return nil, nil }, nil
}
func (e *nullEnt) Walk(ctx context.Context, names ...string) ([]Qid, Dirent, error) {
	q := make([]Qid, len(names))
	return q, &nullEnt{e.fs, true}, nil
}
func (e *nullEnt) Create(context.Context, string, uint32, Flag) (Dirent, File, error) {
	n := &nullEnt{e.fs, true}
	return n, NewFixedReaddir(NewCodec(), nil), nil
}
func (e *nullEnt) Open(context.Context, Flag) (File, error) { return NewFixedReaddir(NewCodec(), nil), nil }
func (e *nullEnt) Remove(context.Context) error             { return nil }
func (e *nullEnt) Clunk(context.Context) error              { return nil }
func (e *nullEnt) Stat(context.Context) (Dir, error)        { return Dir{}, nil }
func (e *nullEnt) WStat(context.Context, Dir) error         { return nil }

func within(t *testing.T, d time.Duration, what string, f func()) {
	done := make(chan struct{})
	go func() { f(); close(done) }()
	select {
	case <-done:
	case <-time.After(d):
		t.Fatalf("%s did not return within %v (fid left locked / deadlock)", what, d)
	}
}

// D6: Attach with an afid that is an ordinary fid leaves that fid locked for ever.
func TestReproD6(t *testing.T) {
	ctx := context.Background()
	s := SFileSys(&nullFS{})
	if _, err := s.Attach(ctx, 1, NOFID, "u", "/"); err != nil {
		t.Fatal(err)
	}
	if _, err := s.Attach(ctx, 2, 1, "u", "/"); err == nil {
		t.Fatal("expected error")
	}
	within(t, time.Second, "Stat(1) after failed Attach(afid=1)", func() { s.Stat(ctx, 1) })
}

// D7: Create of a directory whose OpenDir fails self-deadlocks.
func TestReproD7(t *testing.T) {
	ctx := context.Background()
	fs := &nullFS{}
	s := SFileSys(fs)
	if _, err := s.Attach(ctx, 1, NOFID, "u", "/"); err != nil {
		t.Fatal(err)
	}
	fs.failOpenDir = true
	within(t, time.Second, "Create with failing OpenDir", func() { s.Create(ctx, 1, "d", DMDIR|0755, OREAD) })
}

// D9: a walk that the client layer normalises is misreported as incomplete.
func TestReproD9(t *testing.T) {
	ctx := context.Background()
	cfs := CFileSys(SFileSys(&nullFS{}))
	root, err := cfs.Attach(ctx, "u", "/", nil)
	if err != nil {
		t.Fatal(err)
	}
	_, ent, err := root.Walk(ctx, "a", ".")
	if err != nil {
		t.Fatalf("walk completed by the server reported as failure: %v (ent %v)", err, ent)
	}
}

// D13: DecodeDir panics on a size of 0xFFFE/0xFFFF.
func TestReproD13(t *testing.T) {
	defer recoverAsFail(t)
	var d Dir
	DecodeDir(NewCodec(), bytes.NewReader([]byte{0xFE, 0xFF, 1, 2, 3}), &d)
}

// D14: a 7-byte Rread claiming 1 GiB allocates 1 GiB.
func TestReproD14(t *testing.T) {
	var before, after runtime.MemStats
	runtime.ReadMemStats(&before)
	var fc Fcall
	err := codec9p{}.Unmarshal([]byte{byte(Rread), 1, 0, 0xff, 0xff, 0xff, 0x3f}, &fc)
	runtime.ReadMemStats(&after)
	if err == nil {
		t.Fatal("expected error")
	}
	if d := after.TotalAlloc - before.TotalAlloc; d > 1<<20 {
		t.Fatalf("decoding 7 bytes allocated %d bytes", d)
	}
	_ = io.EOF
}
