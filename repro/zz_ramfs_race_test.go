package ramfs

import (
	"context"
	"sync"
	"testing"

	p9p "github.com/frobnitzem/go-p9p"
)

// D11: run with -race. Two sessions on the shared tree: Write (under the node lock)
// versus Stat / WStat / Walk / OpenDir (no lock) on the same node.
func TestReproD11(t *testing.T) {
	ctx := context.Background()
	fs := NewServer(ctx)
	s1, s2 := p9p.SFileSys(fs), p9p.SFileSys(fs)
	for _, s := range []p9p.Session{s1, s2} {
		if _, err := s.Attach(ctx, 1, p9p.NOFID, "u", "/"); err != nil {
			t.Fatal(err)
		}
	}
	if _, err := s1.Walk(ctx, 1, 2); err != nil {
		t.Fatal(err)
	}
	if _, _, err := s1.Create(ctx, 2, "d11file", 0644, p9p.ORDWR); err != nil {
		t.Fatal(err)
	}
	if _, err := s2.Walk(ctx, 1, 2, "d11file"); err != nil {
		t.Fatal(err)
	}
	var wg sync.WaitGroup
	wg.Add(2)
	go func() {
		defer wg.Done()
		for i := 0; i < 200; i++ {
			s1.Write(ctx, 2, []byte("x"), 0)
		}
	}()
	go func() {
		defer wg.Done()
		for i := 0; i < 200; i++ {
			s2.Stat(ctx, 2)
			s2.Walk(ctx, 1, 3, "d11file")
			s2.Clunk(ctx, 3)
		}
	}()
	wg.Wait()
}
