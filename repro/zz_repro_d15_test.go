package p9p

import "testing"

// D15: Size() != len(Marshal()) for messages passed by pointer that carry a data[count] field.
func TestReproD15(t *testing.T) {
	c := NewCodec()
	for _, m := range []Message{&MessageRread{Data: []byte("hello")}, &MessageTwrite{Fid: 1, Data: []byte("abc")}, MessageRread{Data: []byte("hello")}, &MessageTwalk{Wnames: []string{"a"}}} {
		fc := newFcall(1, m)
		p, err := c.Marshal(fc)
		if err != nil {
			t.Fatal(err)
		}
		if c.Size(fc) != len(p) {
			t.Errorf("%T: Size()=%d len(Marshal())=%d", m, c.Size(fc), len(p))
		}
		var back Fcall
		if err := c.Unmarshal(p, &back); err != nil {
			t.Errorf("%T: %v", m, err)
		}
	}
}
